package main

import (
	"fmt"
	"go/token"
	"go/types"
	"sort"
	"strings"

	"golang.org/x/tools/go/ssa"
)

// White-box round, properties C07 / C08 / C12.

func init() {
	register(&Rule{ID: "C12.VERDICT", Min: 4, Doc: "a context / special function is reported exactly when the list of the workflow key does not contain it: the lists of the key reach the checker, every defined context is looked up, the list is searched to its end", Run: runC12Verdict})
	register(&Rule{ID: "C08.RAWKEY", Min: 12, Doc: "the spelling of a case-insensitive name is never the key of a map and never compared with another spelling", Run: runC08RawKey})
}

// ---- path helpers (edge granularity) ----

type cfgEdge struct{ from, to *ssa.BasicBlock }

// reachCut: the blocks reachable from start (start included) without entering a block of stop and without taking an edge
// of cut.
func reachCut(start *ssa.BasicBlock, stop map[*ssa.BasicBlock]bool, cut map[cfgEdge]bool) map[*ssa.BasicBlock]bool {
	seen := map[*ssa.BasicBlock]bool{}
	if start == nil || stop[start] {
		return seen
	}
	seen[start] = true
	work := []*ssa.BasicBlock{start}
	for len(work) > 0 {
		b := work[len(work)-1]
		work = work[:len(work)-1]
		for _, s := range b.Succs {
			if seen[s] || stop[s] || cut[cfgEdge{b, s}] {
				continue
			}
			seen[s] = true
			work = append(work, s)
		}
	}
	return seen
}

func returnsIn(blocks map[*ssa.BasicBlock]bool) *ssa.Return {
	var out *ssa.Return
	for b := range blocks {
		if r, ok := b.Instrs[len(b.Instrs)-1].(*ssa.Return); ok {
			if out == nil || r.Pos() < out.Pos() {
				out = r
			}
		}
	}
	return out
}

// everyPathPasses: every execution that runs `from` and later `to` runs `via` in between.
func everyPathPasses(from, to, via ssa.Instruction) bool {
	fb, tb, vb := from.Block(), to.Block(), via.Block()
	fi, ti, vi := instrIndex(from), instrIndex(to), instrIndex(via)
	if fb == tb && fi < ti {
		// straight line from `from` to `to`
		return vb == fb && fi < vi && vi < ti
	}
	if vb == fb && vi > fi {
		return true
	}
	if vb == tb && vi < ti {
		return true
	}
	if vb == fb || vb == tb {
		return false
	}
	return !reachCut(fb, map[*ssa.BasicBlock]bool{vb: true}, nil)[tb]
}

// mustPassBlocks: the blocks of fn that hold a call of target, or of an in-module function every path of which (entry to
// return) passes such a call (three levels deep). A callee that merely can reach target does not count.
func mustPassBlocks(fn, target *ssa.Function, depth int) map[*ssa.BasicBlock]bool {
	out := map[*ssa.BasicBlock]bool{}
	eachInstr(fn, func(b *ssa.BasicBlock, _ int, in ssa.Instruction) {
		call, ok := in.(ssa.CallInstruction)
		if !ok {
			return
		}
		g := staticCallee(call.Common())
		if g == nil {
			return
		}
		if g == target {
			out[b] = true
			return
		}
		if depth >= 3 || g == fn || !inModule(g) || len(g.Blocks) == 0 {
			return
		}
		if _, isGo := in.(*ssa.Go); isGo {
			return
		}
		if _, isDefer := in.(*ssa.Defer); isDefer {
			return
		}
		stops := mustPassBlocks(g, target, depth+1)
		if len(stops) > 0 && returnsIn(reachCut(g.Blocks[0], stops, nil)) == nil {
			out[b] = true
		}
	})
	return out
}

// ---- C12.MAP, nested fields ----

// relYAMLPath: where a field of a node lies relative to the YAML path of the node itself (domain table, GitHub's workflow
// syntax). The key a helper passes for `env` stands for the entries of the mapping (GitHub's table has `...env.<env_id>`
// for containers), so the entries themselves add nothing.
var relYAMLPath = map[string]string{
	"Container.Image": ".image", "Container.Env": ".env.<env_id>", "Container.Ports": ".ports", "Container.Volumes": ".volumes", "Container.Options": ".options",
	"Credentials.Username": ".credentials.username", "Credentials.Password": ".credentials.password",
	"EnvVar.Name": "", "EnvVar.Value": "", "Env.Expression": "",
	"Concurrency.Group": ".group", "Concurrency.CancelInProgress": ".cancel-in-progress",
	"DefaultsRun.Shell": ".shell", "DefaultsRun.WorkingDirectory": ".working-directory",
	"Bool.Expression": "", "Int.Expression": "", "Float.Expression": "", "String.Value": "",
}

type c12Nested struct {
	c       *Ctx
	tbl     map[string]availEntry
	keyRole map[*ssa.Parameter]bool
	occ     map[string]int
	done    map[string]bool
}

// descend: g was called at `site` with the node at YAML path `path` as argument number di. Every call inside g that hands
// a field of that node (or the node itself) on with a key that is not a literal is evaluated under the strings this call
// site binds, and the key must have the availability of the table key that governs the field's path.
func (n *c12Nested) descend(g *ssa.Function, site ssa.CallInstruction, di int, path string, callerEnv map[*ssa.Parameter]string, depth int) {
	if depth > 4 || g.Blocks == nil || di >= len(g.Params) {
		return
	}
	env := map[*ssa.Parameter]string{}
	for i, prm := range g.Params {
		if b, ok := prm.Type().Underlying().(*types.Basic); !ok || b.Kind() != types.String || i >= len(site.Common().Args) {
			continue
		}
		if vals, ok := evalStr(site.Common().Args[i], callerEnv, 0); ok && len(vals) == 1 {
			for s := range vals {
				env[prm] = s
			}
		}
	}
	data := g.Params[di]
	eachInstr(g, func(_ *ssa.BasicBlock, _ int, in ssa.Instruction) {
		call, ok := in.(ssa.CallInstruction)
		if !ok {
			return
		}
		g2 := staticCallee(call.Common())
		if g2 == nil || !inModule(g2) {
			return
		}
		ki := -1
		for _, i := range paramIndexIn(g2, n.keyRole) {
			ki = i
		}
		args := call.Common().Args
		if ki < 0 || ki >= len(args) {
			return
		}
		for i, a := range args {
			if i == 0 || i == ki {
				continue
			}
			field, rel, known := "", "", false
			if a == ssa.Value(data) {
				field, rel, known = "the node itself", "", true
			} else {
				fs := map[string]bool{}
				fieldsFeedingDirect(a, fs)
				for f := range fs {
					if r, ok := relYAMLPath[f]; ok {
						field, rel, known = f, r, true
					}
				}
			}
			if !known {
				continue
			}
			newPath := path + rel
			id := fmt.Sprintf("%s|%d|%s", FuncName(g), call.Pos(), newPath)
			vals, ok := evalStr(args[ki], env, 0)
			if field != "the node itself" && !n.done[id] {
				n.done[id] = true
				k := fmt.Sprintf("%s|%s at %s checked by %s", FuncName(g), field, newPath, FuncName(g2))
				n.occ[k]++
				construct := fmt.Sprintf("%s#%d", k, n.occ[k])
				want := expectedKey(n.tbl, newPath)
				switch {
				case !ok:
					n.c.undecided(construct, call.Pos(), "the key handed on cannot be evaluated from the strings the caller passes")
				default:
					var wrong []string
					for v := range vals {
						if !sameAvail(n.tbl, v, want) {
							wrong = append(wrong, fmt.Sprintf("%q", v))
						}
					}
					sort.Strings(wrong)
					if len(wrong) > 0 {
						n.c.bad(construct, call.Pos(), fmt.Sprintf("the value at %s is governed by table key %q but it is checked with key %s, whose availability differs", newPath, want, strings.Join(wrong, ", ")))
					} else {
						n.c.ok(construct, call.Pos(), fmt.Sprintf("YAML path %s is governed by table key %q; passed %s", newPath, want, strings.Join(quoteAll(sortedKeys(vals)), ", ")))
					}
				}
			}
			agree := ok
			for v := range vals {
				agree = agree && sameAvail(n.tbl, v, expectedKey(n.tbl, newPath))
			}
			if agree {
				n.descend(g2, call, i, newPath, env, depth+1) // a disagreement is reported once, where it arises
			}
		}
	})
}

// ---- C12.VERDICT ----

// The table of C12.TBL only takes effect through a chain of four links, each of which is a few lines that look harmless
// to change: (1) checkSemanticsOfExprNode fetches the two lists of its workflow key and hands them to the checker it then
// runs; (2) the setters keep them in the fields the verdict functions read; (3) every context that is defined is handed
// to the verdict function; (4) a verdict function searches the whole list for the lower-cased name, is silent only when
// it found it and reports only when the search came to the end of the list.
func runC12Verdict(c *Ctx) {
	p := c.P
	errorf := p.Method("ExprSemanticsChecker", "errorf")
	if errorf == nil {
		c.anchorMissing("(*ExprSemanticsChecker).errorf")
		return
	}
	specs := []struct {
		fn, field, global string
		result            int
	}{
		{"checkAvailableContext", "ExprSemanticsChecker.availableContexts", "", 0},
		{"checkSpecialFunctionAvailability", "ExprSemanticsChecker.availableSpecialFuncs", "SpecialFunctionNames", 1},
	}
	fields := map[string]int{}
	for _, s := range specs {
		fn := p.Method("ExprSemanticsChecker", s.fn)
		if fn == nil {
			c.anchorMissing("(*ExprSemanticsChecker)." + s.fn)
			continue
		}
		fields[s.field] = s.result
		construct := "(*ExprSemanticsChecker)." + s.fn + "|reported iff the list does not contain the name"
		if pos, msg := verdictFn(p, fn, s.field, s.global, errorf); msg != "" {
			c.bad(construct, pos, msg)
		} else {
			c.ok(construct, fn.Pos(), "the whole list is searched; silent only where an element equals the name, reports only after the last element")
		}
	}
	// (3) every defined context reaches the verdict function
	if vf := p.Method("ExprSemanticsChecker", "checkAvailableContext"); vf != nil {
		n := 0
		var callers []*ssa.Function
		seen := map[*ssa.Function]bool{}
		for _, e := range p.callersOf(vf) {
			if e.Caller != nil && e.Caller.Func != nil && !seen[e.Caller.Func] && inModule(e.Caller.Func) {
				seen[e.Caller.Func] = true
				callers = append(callers, e.Caller.Func)
			}
		}
		sort.Slice(callers, func(i, j int) bool { return FuncName(callers[i]) < FuncName(callers[j]) })
		for _, g := range callers {
			if g.Signature.Recv() == nil || len(g.Params) < 2 {
				continue
			}
			n++
			construct := FuncName(g) + "|every defined context is looked up in the list"
			if r := unverdictedReturn(g, vf); r != nil {
				c.bad(construct, r.Pos(), "a context that is defined can be returned without being handed to checkAvailableContext: at a key where the table does not list it, it is not reported")
			} else {
				c.ok(construct, g.Pos(), "every return is behind the call for the node itself, or on the branch where the name is not defined")
			}
		}
		if n == 0 {
			c.bad("(*ExprSemanticsChecker).checkAvailableContext|every defined context is looked up in the list", vf.Pos(), "nothing calls the verdict function: no context is ever reported as not allowed")
		}
	}
	// (1) + (2)
	wka := p.Func("WorkflowKeyAvailability")
	vfCtx := p.Method("ExprSemanticsChecker", "checkAvailableContext")
	if wka == nil || vfCtx == nil {
		c.anchorMissing("WorkflowKeyAvailability")
		return
	}
	cfg := &availCfg{p: p, wka: wka, setters: map[*ssa.Function]int{}}
	for _, fn := range p.Funcs {
		if fn.Signature.Recv() == nil || len(fn.Params) != 2 || len(fn.Blocks) != 1 {
			continue
		}
		eachInstr(fn, func(_ *ssa.BasicBlock, _ int, in ssa.Instruction) {
			st, ok := in.(*ssa.Store)
			if !ok {
				return
			}
			fa, ok := st.Addr.(*ssa.FieldAddr)
			if !ok || fa.X != ssa.Value(fn.Params[0]) || st.Val != ssa.Value(fn.Params[1]) {
				return
			}
			if idx, ok := fields[fieldAddrName(fa)]; ok {
				cfg.setters[fn] = idx
			}
		})
	}
	keyRole := p.roleParams(wka.Params[0])
	n := 0
	for _, fn := range p.Funcs {
		if !inModule(fn) || fn.Signature.Recv() == nil || pointeeName(fn.Signature.Recv().Type()) == "ExprSemanticsChecker" {
			continue
		}
		var key *ssa.Parameter
		for _, q := range fn.Params {
			if keyRole[q] {
				key = q
			}
		}
		if key == nil {
			continue
		}
		var runs []*ssa.Call
		eachInstr(fn, func(_ *ssa.BasicBlock, _ int, in ssa.Instruction) {
			call, ok := in.(*ssa.Call)
			if !ok {
				return
			}
			g := staticCallee(&call.Call)
			if g == nil || g.Signature.Recv() == nil || pointeeName(g.Signature.Recv().Type()) != "ExprSemanticsChecker" {
				return
			}
			if _, isSetter := cfg.setters[g]; !isSetter && p.reachable(g)[vfCtx] {
				runs = append(runs, call)
			}
		})
		for i, run := range runs {
			n++
			construct := fmt.Sprintf("%s|the lists of the workflow key reach the checker#%d", FuncName(fn), i+1)
			bad := ""
			for want := 0; want <= 1 && bad == ""; want++ {
				if !cfg.setBefore(fn, run, run.Call.Args[0], key, want, 0) {
					what := "contexts"
					if want == 1 {
						what = "special functions"
					}
					bad = fmt.Sprintf("the checker can run for a non-empty workflow key without the list of %s of that key (result %d of WorkflowKeyAvailability) having been set on it: the checker's default applies instead of the table", what, want)
				}
			}
			if bad != "" {
				c.bad(construct, run.Pos(), bad)
			} else {
				c.ok(construct, run.Pos(), "whenever the key is not empty, both lists of WorkflowKeyAvailability(key) are set on the checker on every path to its run")
			}
		}
	}
	if n == 0 {
		c.bad("WorkflowKeyAvailability|the lists of the workflow key reach the checker", wka.Pos(), "no function that receives a workflow key runs a checker")
	}
}

// availCfg decides whether a checker value has had list number `want` of a key set on it.
type availCfg struct {
	p       *Prog
	wka     *ssa.Function
	setters map[*ssa.Function]int // setter -> index of the result of WorkflowKeyAvailability it keeps
}

// emptyKeyEdges: the edges taken only when key == "".
func emptyKeyEdges(fn *ssa.Function, key ssa.Value) map[cfgEdge]bool {
	cut := map[cfgEdge]bool{}
	for _, b := range fn.Blocks {
		ifi, ok := b.Instrs[len(b.Instrs)-1].(*ssa.If)
		if !ok {
			continue
		}
		bo, ok := ifi.Cond.(*ssa.BinOp)
		if !ok || (bo.Op != token.EQL && bo.Op != token.NEQ) {
			continue
		}
		var other ssa.Value
		switch {
		case bo.X == key:
			other = bo.Y
		case bo.Y == key:
			other = bo.X
		default:
			continue
		}
		if s, ok := constString(other); !ok || s != "" {
			continue
		}
		if bo.Op == token.NEQ {
			cut[cfgEdge{b, b.Succs[1]}] = true
		} else {
			cut[cfgEdge{b, b.Succs[0]}] = true
		}
	}
	return cut
}

// events: the instructions of fn after which list `want` of `key` is set on `chk`.
func (a *availCfg) events(fn *ssa.Function, chk, key ssa.Value, want, depth int) []ssa.Instruction {
	var out []ssa.Instruction
	eachInstr(fn, func(_ *ssa.BasicBlock, _ int, in ssa.Instruction) {
		call, ok := in.(*ssa.Call)
		if !ok {
			return
		}
		g := staticCallee(&call.Call)
		if g == nil || !inModule(g) {
			return
		}
		args := call.Call.Args
		if idx, isSetter := a.setters[g]; isSetter {
			if idx != want || len(args) != 2 || args[0] != chk {
				return
			}
			ex, ok := args[1].(*ssa.Extract)
			if !ok || ex.Index != want {
				return
			}
			w, ok := ex.Tuple.(*ssa.Call)
			if ok && staticCallee(&w.Call) == a.wka && w.Call.Args[0] == key {
				out = append(out, in)
			}
			return
		}
		if depth >= 3 || g.Blocks == nil {
			return
		}
		// a helper that receives the checker and the key and sets the list on every path
		ci, ki := -1, -1
		for i, x := range args {
			if x == chk {
				ci = i
			}
			if x == key {
				ki = i
			}
		}
		if ci < 0 || ki < 0 || ci >= len(g.Params) || ki >= len(g.Params) {
			return
		}
		all := true
		n := 0
		for _, b := range g.Blocks {
			if r, ok := b.Instrs[len(b.Instrs)-1].(*ssa.Return); ok {
				n++
				all = all && a.setBefore(g, r, g.Params[ci], g.Params[ki], want, depth+1)
			}
		}
		if all && n > 0 {
			out = append(out, in)
		}
	})
	return out
}

// setBefore: on every path from the entry of fn to target on which key is not "", list `want` of key has been set on chk.
func (a *availCfg) setBefore(fn *ssa.Function, target ssa.Instruction, chk, key ssa.Value, want, depth int) bool {
	// the checker comes configured out of a function that receives the key
	if call, ok := chk.(*ssa.Call); ok && depth < 3 {
		if g := staticCallee(&call.Call); g != nil && inModule(g) && g.Blocks != nil {
			for j, x := range call.Call.Args {
				if x != key || j >= len(g.Params) {
					continue
				}
				all, n := true, 0
				for _, b := range g.Blocks {
					if r, ok := b.Instrs[len(b.Instrs)-1].(*ssa.Return); ok && len(r.Results) > 0 {
						n++
						all = all && a.setBefore(g, r, r.Results[0], g.Params[j], want, depth+1)
					}
				}
				if all && n > 0 {
					return true
				}
			}
		}
	}
	stop := map[*ssa.BasicBlock]bool{}
	for _, e := range a.events(fn, chk, key, want, depth) {
		if e.Block() == target.Block() {
			if instrIndex(e) < instrIndex(target) {
				return true
			}
			continue
		}
		stop[e.Block()] = true
	}
	return !reachCut(fn.Blocks[0], stop, emptyKeyEdges(fn, key))[target.Block()]
}

// nodeName: v is (the lower-casing of) a field of a parameter of fn other than the receiver.
func nodeName(fn *ssa.Function, v ssa.Value) bool {
	if call, ok := v.(*ssa.Call); ok && calleeFullName(&call.Call) == "strings.ToLower" {
		v = call.Call.Args[0]
	}
	f, base := fieldLoad(v)
	if f == "" {
		return false
	}
	par, ok := base.(*ssa.Parameter)
	return ok && par.Parent() == fn && (len(fn.Params) == 0 || par != fn.Params[0] || fn.Signature.Recv() == nil)
}

// verdictFn decides link (4) for one verdict function.
func verdictFn(p *Prog, fn *ssa.Function, field, global string, errorf *ssa.Function) (token.Pos, string) {
	if fn.Signature.Recv() == nil || len(fn.Params) < 2 {
		return fn.Pos(), "not a method with a node parameter"
	}
	recv := fn.Params[0]
	// the range loop over the list
	var header *ssa.BasicBlock
	var list, idx ssa.Value
	for _, h := range loopHeaders(fn) {
		ifi, ok := h.Instrs[len(h.Instrs)-1].(*ssa.If)
		if !ok {
			continue
		}
		bo, ok := ifi.Cond.(*ssa.BinOp)
		if !ok || bo.Op != token.LSS {
			continue
		}
		ln, ok := bo.Y.(*ssa.Call)
		if !ok {
			continue
		}
		if bi, ok := ln.Call.Value.(*ssa.Builtin); !ok || bi.Name() != "len" {
			continue
		}
		s := ln.Call.Args[0]
		if f, base := fieldLoad(s); f != field || base != ssa.Value(recv) {
			continue
		}
		// the index runs over 0, 1, ..., len-1: `range` (phi from -1, tested and used after the increment) or a counting
		// loop (phi from 0, incremented by one on every way back)
		body := naturalLoop(h)
		plusOne := func(v, of ssa.Value) bool {
			add, ok := v.(*ssa.BinOp)
			if !ok || add.Op != token.ADD || add.X != of {
				return false
			}
			one, ok := constInt(add.Y)
			return ok && one == 1
		}
		var ph *ssa.Phi
		first := int64(0)
		if x, ok := bo.X.(*ssa.Phi); ok {
			ph = x
		} else if add, ok := bo.X.(*ssa.BinOp); ok {
			if x, ok := add.X.(*ssa.Phi); ok && plusOne(add, x) {
				ph, first = x, -1
			}
		}
		if ph == nil || ph.Block() != h || len(ph.Edges) != len(h.Preds) {
			continue
		}
		okPhi := true
		for i, e := range ph.Edges {
			if body[h.Preds[i]] {
				if first == -1 {
					okPhi = okPhi && e == bo.X
				} else {
					okPhi = okPhi && plusOne(e, ph)
				}
			} else {
				k, isC := constInt(e)
				okPhi = okPhi && isC && k == first
			}
		}
		if !okPhi {
			continue
		}
		header, list, idx = h, s, bo.X
	}
	if header == nil {
		return fn.Pos(), "no loop over the whole of " + field + " (from its first to its last element) found: the verdict does not come from a search of the list"
	}
	body := naturalLoop(header)
	// the comparisons of the current element with the name
	cut := map[cfgEdge]bool{}
	eqBlocks := map[*ssa.BasicBlock]bool{}
	isElem := func(v ssa.Value) bool {
		ld, ok := v.(*ssa.UnOp)
		if !ok || ld.Op != token.MUL {
			return false
		}
		ia, ok := ld.X.(*ssa.IndexAddr)
		return ok && ia.X == list && ia.Index == idx
	}
	for b := range body {
		ifi, ok := b.Instrs[len(b.Instrs)-1].(*ssa.If)
		if !ok {
			continue
		}
		bo, ok := ifi.Cond.(*ssa.BinOp)
		if !ok || (bo.Op != token.EQL && bo.Op != token.NEQ) {
			continue
		}
		if !(isElem(bo.X) && nodeName(fn, bo.Y)) && !(isElem(bo.Y) && nodeName(fn, bo.X)) {
			continue
		}
		eqBlocks[b] = true
		if bo.Op == token.EQL {
			cut[cfgEdge{b, b.Succs[0]}] = true
		} else {
			cut[cfgEdge{b, b.Succs[1]}] = true
		}
	}
	if len(eqBlocks) == 0 {
		return header.Instrs[0].Pos(), "the loop over " + field + " never compares the current element with the name of the node"
	}
	// every iteration compares
	inBody := map[*ssa.BasicBlock]bool{}
	for b := range fn.Blocks {
		if !body[fn.Blocks[b]] {
			inBody[fn.Blocks[b]] = true // stop outside the loop
		}
	}
	for b := range eqBlocks {
		inBody[b] = true
	}
	if r := reachCut(header.Succs[0], inBody, nil); r[header] {
		return header.Instrs[len(header.Instrs)-1].Pos(), "an element of the list can be passed over without being compared with the name: a name that the table lists is reported"
	}
	// the name that is not special at all
	if global != "" {
		g := p.Global(global)
		for _, b := range fn.Blocks {
			ifi, ok := b.Instrs[len(b.Instrs)-1].(*ssa.If)
			if !ok {
				continue
			}
			ex, ok := ifi.Cond.(*ssa.Extract)
			if !ok || ex.Index != 1 {
				continue
			}
			lk, ok := ex.Tuple.(*ssa.Lookup)
			if !ok || !lk.CommaOk || !nodeName(fn, lk.Index) {
				continue
			}
			if ld, ok := lk.X.(*ssa.UnOp); ok && g != nil && ld.X == ssa.Value(g) {
				cut[cfgEdge{b, b.Succs[1]}] = true
			}
		}
	}
	// reporting blocks
	reports := map[*ssa.BasicBlock]bool{}
	eachInstr(fn, func(b *ssa.BasicBlock, _ int, in ssa.Instruction) {
		if call, ok := in.(ssa.CallInstruction); ok {
			if g := staticCallee(call.Common()); g != nil && (g == errorf || (inModule(g) && p.reachable(g)[errorf])) {
				reports[b] = true
			}
		}
	})
	if len(reports) == 0 {
		return fn.Pos(), "the function never reports"
	}
	if r := returnsIn(reachCut(fn.Blocks[0], reports, cut)); r != nil {
		pos := r.Pos()
		if pos == token.NoPos {
			pos = fn.Pos()
		}
		return pos, "a return is reached without a report on a path on which no element of the list was found equal to the name: a name that the table does not list passes"
	}
	// a report only when the search came to the end of the list
	exit := map[cfgEdge]bool{{header, header.Succs[1]}: true}
	for b := range reachCut(fn.Blocks[0], nil, exit) {
		if reports[b] {
			return b.Instrs[0].Pos(), "the report can be reached without the search having come to the end of the list: a name that the table lists further down is reported"
		}
	}
	return token.NoPos, ""
}

// unverdictedReturn: a return of g that is reachable without the call vf(recv, <node parameter>), other than over the
// not-found edge of a lookup of the node's name in a table of the receiver.
func unverdictedReturn(g, vf *ssa.Function) *ssa.Return {
	stop := map[*ssa.BasicBlock]bool{}
	cut := map[cfgEdge]bool{}
	eachInstr(g, func(b *ssa.BasicBlock, _ int, in ssa.Instruction) {
		switch x := in.(type) {
		case ssa.CallInstruction:
			if staticCallee(x.Common()) != vf {
				return
			}
			for _, a := range x.Common().Args[1:] {
				if par, ok := a.(*ssa.Parameter); ok && par.Parent() == g && par != g.Params[0] {
					stop[b] = true
				}
			}
		case *ssa.If:
			ex, ok := x.Cond.(*ssa.Extract)
			if !ok || ex.Index != 1 {
				return
			}
			lk, ok := ex.Tuple.(*ssa.Lookup)
			if !ok || !lk.CommaOk || !nodeName(g, lk.Index) {
				return
			}
			if f, base := fieldLoad(lk.X); f != "" && base == ssa.Value(g.Params[0]) {
				cut[cfgEdge{b, b.Succs[1]}] = true
			}
		}
	})
	// a block that holds the call is passed as a whole; the entry block may hold it too
	return returnsIn(reachCut(g.Blocks[0], stop, cut))
}

// ---- C07.TOKEN, second clause ----

// Token() returning the node's own token only positions the node correctly if the parser kept the right token there. A
// function of the parser is entered with the look-ahead at the first token of what it parses (C04), so the token stored
// into a node must be the look-ahead as it was when nothing had been consumed yet in that function: the result of the
// first next(), or of a peek() / a read of the look-ahead that no consuming call can precede.
func c07TokenOrigins(c *Ctx, ownTok map[string]bool) {
	p := c.P
	next := p.Method("ExprParser", "next")
	if next == nil || len(ownTok) == 0 {
		return // reported by the first clause / C07.ERRTOK
	}
	consumes := func(call ssa.CallInstruction) bool {
		g := staticCallee(call.Common())
		if g == nil || g.Signature.Recv() == nil || pointeeName(g.Signature.Recv().Type()) != "ExprParser" {
			return false
		}
		return g == next || p.reachable(g)[next]
	}
	// lookAhead: v is the look-ahead token: next(), a getter of ExprParser.cur, or a read of the field
	var lookAhead func(v ssa.Value) bool
	lookAhead = func(v ssa.Value) bool {
		if f, _ := fieldLoad(v); f == "ExprParser.cur" {
			return true
		}
		call, ok := v.(*ssa.Call)
		if !ok {
			return false
		}
		g := staticCallee(&call.Call)
		if g == nil || g.Signature.Recv() == nil || pointeeName(g.Signature.Recv().Type()) != "ExprParser" || g.Blocks == nil {
			return false
		}
		if g == next {
			return true
		}
		if len(g.Blocks) != 1 {
			return false
		}
		r, ok := g.Blocks[0].Instrs[len(g.Blocks[0].Instrs)-1].(*ssa.Return)
		if !ok || len(r.Results) != 1 {
			return false
		}
		f, _ := fieldLoad(r.Results[0])
		return f == "ExprParser.cur" && !p.reachable(g)[next]
	}
	// firstToken: v, used in fn, is the look-ahead as it was before fn (or, for a parameter, every caller) consumed anything
	var firstToken func(fn *ssa.Function, v ssa.Value, depth int) (bad, undecided string)
	firstToken = func(fn *ssa.Function, v ssa.Value, depth int) (string, string) {
		if par, ok := v.(*ssa.Parameter); ok && depth < 3 {
			idx := -1
			for i, q := range fn.Params {
				if q == par {
					idx = i
				}
			}
			n := 0
			for _, e := range p.callersOf(fn) {
				if e.Site == nil || e.Site.Common().IsInvoke() || idx < 0 || idx >= len(e.Site.Common().Args) {
					return "", "the token is a parameter and a caller cannot be followed"
				}
				n++
				if bad, und := firstToken(e.Caller.Func, e.Site.Common().Args[idx], depth+1); bad != "" || und != "" {
					return bad, und
				}
			}
			if n == 0 {
				return "", "the token is a parameter of a function without callers"
			}
			return "", ""
		}
		def, isInstr := v.(ssa.Instruction)
		if !isInstr || !lookAhead(v) {
			return "", "the token stored into the node is not read from the parser's look-ahead"
		}
		var before ssa.CallInstruction
		eachInstr(fn, func(_ *ssa.BasicBlock, _ int, other ssa.Instruction) {
			call, ok := other.(ssa.CallInstruction)
			if !ok || other == def || before != nil || !consumes(call) {
				return
			}
			if instrReachableAfter(other, def) {
				before = call
			}
		})
		if before != nil {
			return "the token is taken from the look-ahead in " + FuncName(fn) + " after " + describeCall(before) + " may have consumed tokens: the node is positioned at a later token than its first, and so is every diagnostic about it", ""
		}
		return "", ""
	}
	occ := map[string]int{}
	for _, fn := range p.Funcs {
		if !inModule(fn) {
			continue
		}
		eachInstr(fn, func(_ *ssa.BasicBlock, _ int, in ssa.Instruction) {
			st, ok := in.(*ssa.Store)
			if !ok {
				return
			}
			fa, ok := st.Addr.(*ssa.FieldAddr)
			if !ok || !ownTok[fieldAddrName(fa)] {
				return
			}
			k := FuncName(fn) + "|token kept in " + strings.TrimSuffix(fieldAddrName(fa), ".tok")
			occ[k]++
			construct := fmt.Sprintf("%s#%d", k, occ[k])
			bad, und := firstToken(fn, st.Val, 0)
			if und != "" {
				c.undecided(construct, st.Pos(), und)
				return
			}
			if bad != "" {
				c.bad(construct, st.Pos(), bad)
				return
			}
			c.ok(construct, st.Pos(), "the look-ahead as it was when the function had not consumed anything")
		})
	}
}

// ---- C07.QUOTE, glob clause: the in-pattern column is 1-based ----

// rule_glob.go adds (column - 1) to the position of the scalar, so the column recorded in an InvalidGlobPattern must be the
// 1-based column of the offending character. text/scanner's Pos() is the position behind the character consumed last:
// its Column is the 1-based column of the look-ahead. A function that reports after the character was consumed records
// Column - 1; the scanner's own Error callback runs while the character is still the look-ahead and records Column. 0
// stands for "unknown" (rule_glob.go adds nothing then) and is only accepted beside a computed value.
func c07GlobColumn(c *Ctx) {
	p := c.P
	// closures installed as Scanner.Error
	callbacks := map[*ssa.Function]bool{}
	for _, fn := range p.Funcs {
		eachInstr(fn, func(_ *ssa.BasicBlock, _ int, in ssa.Instruction) {
			st, ok := in.(*ssa.Store)
			if !ok {
				return
			}
			fa, ok := st.Addr.(*ssa.FieldAddr)
			if !ok || !strings.HasSuffix(fieldAddrName(fa), "Scanner.Error") {
				return
			}
			var v ssa.Value = st.Val
			if ct, ok := v.(*ssa.ChangeType); ok {
				v = ct.X
			}
			mark := func(f *ssa.Function) {
				callbacks[f] = true
				if f.Synthetic != "" {
					// bound method wrapper (`scan.Error = v.method`): the method it forwards to
					eachInstr(f, func(_ *ssa.BasicBlock, _ int, in ssa.Instruction) {
						if call, ok := in.(ssa.CallInstruction); ok {
							if g := staticCallee(call.Common()); g != nil {
								callbacks[g] = true
							}
						}
					})
				}
			}
			switch x := v.(type) {
			case *ssa.MakeClosure:
				if f, ok := x.Fn.(*ssa.Function); ok {
					mark(f)
				}
			case *ssa.Function:
				mark(x)
			}
		})
	}
	occ := map[string]int{}
	var fns []*ssa.Function
	fns = append(fns, p.Funcs...)
	for _, fn := range p.Funcs {
		fns = append(fns, fn.AnonFuncs...)
	}
	seen := map[*ssa.Function]bool{}
	for _, fn := range fns {
		if seen[fn] {
			continue
		}
		seen[fn] = true
		eachInstr(fn, func(_ *ssa.BasicBlock, _ int, in ssa.Instruction) {
			st, ok := in.(*ssa.Store)
			if !ok {
				return
			}
			fa, ok := st.Addr.(*ssa.FieldAddr)
			if !ok || fieldAddrName(fa) != "InvalidGlobPattern.Column" {
				return
			}
			var leaves []ssa.Value
			var walk func(v ssa.Value, d int)
			vis := map[ssa.Value]bool{}
			walk = func(v ssa.Value, d int) {
				if ph, ok := v.(*ssa.Phi); ok && d < 6 && !vis[v] {
					vis[v] = true
					for _, e := range ph.Edges {
						walk(e, d+1)
					}
					return
				}
				leaves = append(leaves, v)
			}
			walk(st.Val, 0)
			fromScanner := false
			for _, l := range leaves {
				for name := range linOf(l, 0) {
					if strings.Contains(name, "Position.") {
						fromScanner = true
					}
				}
			}
			if !fromScanner {
				return // a column that is not read off the scanner (start or end of the whole pattern)
			}
			want, how := -1, "the character was consumed before the report: Position.Column - 1"
			if callbacks[fn] {
				want, how = 0, "the scanner's error callback runs with the character still the look-ahead: Position.Column"
			}
			k := FuncName(fn) + "|1-based column of the offending character"
			occ[k]++
			construct := fmt.Sprintf("%s#%d", k, occ[k])
			computed, bad := 0, ""
			for _, l := range leaves {
				if k, ok := constInt(l); ok && k == 0 {
					continue
				}
				lin := linOf(l, 0)
				syms := 0
				okForm := true
				for name, coef := range lin {
					if name == "1" || coef == 0 {
						continue
					}
					syms++
					if coef != 1 || !strings.Contains(name, "Position.Column") {
						okForm = false
					}
				}
				if !okForm || syms != 1 {
					bad = "the recorded column is " + lin.String() + ", not derived from the scanner's Position.Column alone"
					break
				}
				if linConst(lin) != want {
					bad = fmt.Sprintf("the recorded column is %s; %s. Every glob diagnostic of this kind is reported %+d columns off", lin.String(), how, linConst(lin)-want)
					break
				}
				computed++
			}
			switch {
			case bad != "":
				c.bad(construct, st.Pos(), bad)
			case computed == 0:
				c.bad(construct, st.Pos(), "the recorded column is always 0 (unknown): the diagnostic is reported at the start of the pattern")
			default:
				c.ok(construct, st.Pos(), how)
			}
		})
	}
}

// ---- C08.RAWKEY ----

// A case-insensitive name is kept twice: as the lower-case key under which it is looked up, and as the spelling the user
// wrote (for messages). The spelling must never decide a match. C08.KEYW/KEYR see the maps whose type is known to be
// name-keyed; a set of names kept in a map of any other type (the step ids seen so far, ...) is only protected by this
// rule: the spelling of a name - a Name/ID field of an entry of a name-keyed map, or any field whose lower-casing is
// used as the key of one - is never the key of a map access and never compared with another spelling.
func nameFields(p *Prog) map[string]bool {
	out := spellingFields(p)
	for _, fn := range p.Funcs {
		eachInstr(fn, func(_ *ssa.BasicBlock, _ int, in ssa.Instruction) {
			var m, key ssa.Value
			switch x := in.(type) {
			case *ssa.MapUpdate:
				m, key = x.Map, x.Key
			case *ssa.Lookup:
				m, key = x.X, x.Index
			default:
				return
			}
			if _, ok := nameKeyedMapTypes[typeStr(m.Type())]; !ok {
				return
			}
			call, ok := key.(*ssa.Call)
			if !ok || calleeFullName(&call.Call) != "strings.ToLower" {
				return
			}
			// only the spelling kept in a *String of the syntax tree: ToLower(x.F.Value)
			f, base := fieldLoad(call.Call.Args[0])
			if f != "String.Value" {
				return
			}
			if f2, _ := fieldLoad(base); f2 != "" && f2 != "String.Value" {
				out[f2] = true
			}
		})
	}
	return out
}

// loweredKeyFields: the string fields x.F such that strings.ToLower(x.F) is the key of an access to a name-keyed map: F holds
// the spelling of a name.
func loweredKeyFields(p *Prog) map[string]bool {
	out := map[string]bool{}
	for _, fn := range p.Funcs {
		eachInstr(fn, func(_ *ssa.BasicBlock, _ int, in ssa.Instruction) {
			var m, key ssa.Value
			switch x := in.(type) {
			case *ssa.MapUpdate:
				m, key = x.Map, x.Key
			case *ssa.Lookup:
				m, key = x.X, x.Index
			default:
				return
			}
			if _, ok := nameKeyedMapTypes[typeStr(m.Type())]; !ok {
				return
			}
			call, ok := key.(*ssa.Call)
			if !ok || calleeFullName(&call.Call) != "strings.ToLower" {
				return
			}
			// fields of the package's own types only: a yaml.Node carries any text
			if f, _ := fieldLoad(call.Call.Args[0]); f != "" && f != "String.Value" && strings.Count(f, ".") == 1 {
				out[f] = true
			}
		})
	}
	return out
}

// rawSpelling: v is a load of a name field (or the Value of the *String kept there), unchanged, possibly received as a
// parameter.
func rawSpelling(p *Prog, fields map[string]bool, v ssa.Value, depth int) (string, bool) {
	if depth > 3 {
		return "", false
	}
	if f, base := fieldLoad(v); f != "" {
		if typeStr(v.Type()) != "string" {
			return "", false
		}
		if fields[f] {
			return f, true
		}
		if f == "String.Value" {
			if f2, _ := fieldLoad(base); fields[f2] {
				return f2, true
			}
			if par, ok := base.(*ssa.Parameter); ok {
				return rawSpellingParam(p, fields, par, depth)
			}
		}
		return "", false
	}
	if par, ok := v.(*ssa.Parameter); ok && typeStr(par.Type()) == "string" {
		return rawSpellingParam(p, fields, par, depth)
	}
	return "", false
}

func rawSpellingParam(p *Prog, fields map[string]bool, par *ssa.Parameter, depth int) (string, bool) {
	fn := par.Parent()
	idx := -1
	for i, q := range fn.Params {
		if q == par {
			idx = i
		}
	}
	if idx < 0 {
		return "", false
	}
	for _, e := range p.callersOf(fn) {
		if e.Site == nil || e.Site.Common().IsInvoke() {
			continue
		}
		args := e.Site.Common().Args
		if idx >= len(args) {
			continue
		}
		a := args[idx]
		if typeStr(a.Type()) == "*String" {
			if f, _ := fieldLoad(a); fields[f] {
				return f, true
			}
			if ap, ok := a.(*ssa.Parameter); ok {
				if s, ok := rawSpellingParam(p, fields, ap, depth+1); ok {
					return s, true
				}
			}
			continue
		}
		if s, ok := rawSpelling(p, fields, a, depth+1); ok {
			return s, true
		}
	}
	return "", false
}

func runC08RawKey(c *Ctx) {
	p := c.P
	fields := nameFields(p)
	if len(fields) < 8 {
		c.anchorMissing(fmt.Sprintf("name fields (found %d)", len(fields)))
		return
	}
	badFields := map[string]bool{}
	occ := map[string]int{}
	for _, fn := range p.Funcs {
		eachInstr(fn, func(_ *ssa.BasicBlock, _ int, in ssa.Instruction) {
			switch x := in.(type) {
			case *ssa.MapUpdate, *ssa.Lookup:
				var m, key ssa.Value
				verb := "looked up in"
				if mu, ok := x.(*ssa.MapUpdate); ok {
					m, key, verb = mu.Map, mu.Key, "stored into"
				} else {
					lk := x.(*ssa.Lookup)
					m, key = lk.X, lk.Index
				}
				if _, isMap := m.Type().Underlying().(*types.Map); !isMap {
					return
				}
				if _, typed := nameKeyedMapTypes[typeStr(m.Type())]; typed {
					return // C08.KEYW / C08.KEYR
				}
				if ld, ok := m.(*ssa.UnOp); ok {
					if _, isGlobal := ld.X.(*ssa.Global); isGlobal {
						return // a fixed vocabulary of the package (permission scopes, ...): not a set of names of the input
					}
				}
				f, ok := rawSpelling(p, fields, key, 0)
				if !ok || p.lowerEngine().isLower(key, 0) {
					return
				}
				badFields[f] = true
				k := FuncName(fn) + "|spelling of " + f + " " + verb + " " + typeStr(m.Type())
				occ[k]++
				c.bad(fmt.Sprintf("%s#%d", k, occ[k]), in.Pos(), "the spelling of a case-insensitive name is used as a map key without being lower-cased: two spellings of one name are two keys (a duplicate or a reference in another letter case is not matched)")
			case *ssa.BinOp:
				if x.Op != token.EQL && x.Op != token.NEQ {
					return
				}
				f1, ok1 := rawSpelling(p, fields, x.X, 0)
				f2, ok2 := rawSpelling(p, fields, x.Y, 0)
				if !ok1 || !ok2 {
					return
				}
				badFields[f1], badFields[f2] = true, true
				k := FuncName(fn) + "|spelling of " + f1 + " compared with spelling of " + f2
				occ[k]++
				c.bad(fmt.Sprintf("%s#%d", k, occ[k]), in.Pos(), "two spellings of case-insensitive names are compared with ==: they match in one letter case only")
			}
		})
	}
	for _, f := range sortedKeys(fields) {
		if !badFields[f] {
			c.ok("field "+f+"|spelling never decides a match", token.NoPos, "never the key of a map access, never compared with another spelling")
		}
	}
}

var _ = strings.ToLower
