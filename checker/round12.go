package main

// Rules written after seeding round 12 (seeds O/P).

import (
	"fmt"
	"go/token"
	"go/types"
	"strings"

	"golang.org/x/tools/go/ssa"
)

func init() {
	register(&Rule{ID: "C05.EXPRREACH", Min: 6, Doc: "the branch that handles a section given by an expression is entered whenever the expression is present: only nil tests stand before it", Run: runC05ExprReach})
	register(&Rule{ID: "C11.BRACKET", Min: 2, Doc: "the enter and leave notifications of the untrusted-input checker are sent from one function only, so every node is entered and left exactly once", Run: runC11Bracket})
	register(&Rule{ID: "C14.DECODEFRESH", Min: 2, Doc: "a value decoded into inside a loop is a fresh variable of that iteration (a decoder leaves fields that are absent from the input as they were)", Run: runC14DecodeFresh})
	register(&Rule{ID: "C03.SIBLING", Min: 1, Doc: "the hand-over of a field to the expression scanner does not depend on the presence of a sibling field, unless the two are alternatives", Run: runC03Sibling})
}

// isNilTestOrTypeTest: the If tests a pointer/interface/slice/map against nil, or the ok of a type assertion / comma-ok.
func isNilTestOrTypeTest(ifi *ssa.If) bool {
	if _, _, ok := nilTest(ifi); ok {
		return true
	}
	if ex, ok := ifi.Cond.(*ssa.Extract); ok {
		switch ex.Tuple.(type) {
		case *ssa.TypeAssert, *ssa.Lookup, *ssa.Next:
			return true
		}
	}
	return false
}

// ---- C05.EXPRREACH ----

func runC05ExprReach(c *Ctx) {
	p := c.P
	n := 0
	for _, fn := range p.Funcs {
		if !strings.HasSuffix(p.unitFile(fn), "/rule_expression.go") || fn.Blocks == nil {
			continue
		}
		k := 0
		for _, b := range fn.Blocks {
			ifi, ok := b.Instrs[len(b.Instrs)-1].(*ssa.If)
			if !ok {
				continue
			}
			v, _, ok := nilTest(ifi)
			if !ok {
				continue
			}
			f, _ := fieldLoad(v)
			if f == "" || !(strings.HasSuffix(f, ".Expression") || strings.HasSuffix(f, "Expr")) {
				continue
			}
			if typeStr(v.Type()) != "*String" {
				continue
			}
			k++
			n++
			construct := fmt.Sprintf("%s|section given by an expression: %s#%d", FuncName(fn), f, k)
			bad := ""
			for ci, outcome := range controllingConds(b) {
				if isNilTestOrTypeTest(ci) {
					continue
				}
				// a loop condition (range over the entries that hold the expression) is fine
				if blockInCycle(ci.Block()) && isLoopHeaderCond(ci) {
					continue
				}
				bad = fmt.Sprintf("the condition at %s (outcome %v)", p.Pos(ci.Cond.Pos()), outcome)
				if ci.Cond.Pos() == token.NoPos {
					bad = fmt.Sprintf("a condition in block %d (outcome %v)", ci.Block().Index, outcome)
				}
			}
			if bad == "" {
				c.ok(construct, ifi.Cond.Pos(), "tested wherever the enclosing nodes exist")
			} else {
				c.bad(construct, ifi.Cond.Pos(), "whether the expression that stands for the section is looked at depends on "+bad+", which is not a nil test: for some inputs the expression is neither checked nor taken into account (the section is treated as if it were absent)")
			}
		}
	}
	if n == 0 {
		c.anchorMissing("tests of an Expression field in rule_expression.go")
	}
}

// isLoopHeaderCond: the If is the exit test of a loop (one successor inside the loop, one outside).
func isLoopHeaderCond(ifi *ssa.If) bool {
	b := ifi.Block()
	for _, h := range loopHeaders(b.Parent()) {
		l := naturalLoop(h)
		if !l[b] {
			continue
		}
		in0, in1 := l[b.Succs[0]], l[b.Succs[1]]
		if in0 != in1 && (b == h || len(h.Instrs) > 0) {
			// only count the header itself, or the block a rotated range loop tests in
			if b == h {
				return true
			}
		}
	}
	return false
}

// ---- C11.BRACKET ----

func runC11Bracket(c *Ctx) {
	p := c.P
	enter, leave := p.Method("UntrustedInputChecker", "OnVisitNodeEnter"), p.Method("UntrustedInputChecker", "OnVisitNodeLeave")
	if enter == nil || leave == nil {
		c.anchorMissing("(*UntrustedInputChecker).OnVisitNodeEnter / OnVisitNodeLeave")
		return
	}
	// the functions of the semantic checker from which a notification is sent, looking through forwarders (functions
	// that do nothing but pass their node on)
	senders := func(cb *ssa.Function) map[*ssa.Function][]ssa.CallInstruction {
		out := map[*ssa.Function][]ssa.CallInstruction{}
		seen := map[*ssa.Function]bool{}
		var walk func(f *ssa.Function, d int)
		walk = func(f *ssa.Function, d int) {
			if seen[f] || d > 3 {
				return
			}
			seen[f] = true
			for _, e := range p.callersOf(f) {
				if e.Site == nil || !inPkgName(e.Caller.Func) {
					continue
				}
				caller := e.Caller.Func
				if strings.HasSuffix(p.unitFile(caller), "/expr_insecure.go") {
					continue // the detector's own traversal for tests (VisitExprNode based)
				}
				if isForwarder(caller, f) {
					walk(caller, d+1)
					continue
				}
				out[caller] = append(out[caller], e.Site)
			}
		}
		walk(cb, 0)
		return out
	}
	se, sl := senders(enter), senders(leave)
	for name, s := range map[string]map[*ssa.Function][]ssa.CallInstruction{"enter": se, "leave": sl} {
		construct := "ExprSemanticsChecker|" + name + " notification sent from one place"
		var fns []string
		sites := 0
		for f, cs := range s {
			fns = append(fns, FuncName(f))
			sites += len(cs)
		}
		sortStrings(fns)
		switch {
		case len(fns) == 0:
			c.bad(construct, enter.Pos(), "the semantic checker never sends the "+name+" notification: untrusted inputs are not detected through it")
		case len(fns) == 1 && sites == 1:
			c.ok(construct, enter.Pos(), "sent once, in "+fns[0])
		default:
			c.bad(construct, enter.Pos(), fmt.Sprintf("sent from %d places (%s): a node that passes through more than one of them is entered or left twice, which applies the last step of an access chain twice and loses the report (or reports a chain that is not there)", sites, strings.Join(fns, ", ")))
		}
	}
	// both in the same function
	same := len(se) == 1 && len(sl) == 1
	if same {
		for f := range se {
			if _, ok := sl[f]; !ok {
				same = false
			}
		}
	}
	if len(se) > 0 && len(sl) > 0 && !same && len(se) == 1 && len(sl) == 1 {
		c.bad("ExprSemanticsChecker|enter and leave sent by the same function", enter.Pos(), "enter and leave are sent by different functions: they do not bracket the same node")
	}
}

// isForwarder: f contains exactly one call, which is to target (possibly under a nil test), and passes a parameter on.
func isForwarder(f, target *ssa.Function) bool {
	calls := 0
	toTarget := 0
	eachInstr(f, func(_ *ssa.BasicBlock, _ int, in ssa.Instruction) {
		if ci, ok := in.(ssa.CallInstruction); ok {
			calls++
			if staticCallee(ci.Common()) == target {
				toTarget++
			}
		}
	})
	return calls == 1 && toTarget == 1 && len(f.Blocks) <= 4
}

func sortStrings(s []string) {
	for i := 1; i < len(s); i++ {
		for j := i; j > 0 && s[j] < s[j-1]; j-- {
			s[j], s[j-1] = s[j-1], s[j]
		}
	}
}

// ---- C14.DECODEFRESH ----

func runC14DecodeFresh(c *Ctx) {
	p := c.P
	n := 0
	for _, fn := range p.Funcs {
		if fn.Blocks == nil || !inPkgName(fn) {
			continue
		}
		k := 0
		eachInstr(fn, func(b *ssa.BasicBlock, _ int, in ssa.Instruction) {
			call, ok := in.(*ssa.Call)
			if !ok {
				return
			}
			name := calleeFullName(&call.Call)
			ti := -1
			switch name {
			case "(*gopkg.in/yaml.v3.Node).Decode", "(*gopkg.in/yaml.v3.Decoder).Decode", "(*encoding/json.Decoder).Decode":
				ti = 1
			case "gopkg.in/yaml.v3.Unmarshal", "encoding/json.Unmarshal":
				ti = 1
			}
			if ti < 0 || ti >= len(call.Call.Args) || !blockInCycle(b) {
				return
			}
			target := call.Call.Args[ti]
			if mi, ok := target.(*ssa.MakeInterface); ok {
				target = mi.X
			}
			k++
			n++
			construct := fmt.Sprintf("%s|value decoded into inside a loop#%d", FuncName(fn), k)
			al, ok := target.(*ssa.Alloc)
			if !ok {
				// a field or element of something: not a local at all
				c.ok(construct, call.Pos(), "the target is not a local variable of this function")
				return
			}
			// the allocation belongs to the iteration if it lies in the innermost loop around the call
			var loop map[*ssa.BasicBlock]bool
			for _, h := range loopHeaders(fn) {
				if l := naturalLoop(h); l[b] && (loop == nil || len(l) < len(loop)) {
					loop = l
				}
			}
			fresh := loop != nil && loop[al.Block()]
			// or it is overwritten with a zero value / composite before the call in the same iteration
			if !fresh && loop != nil && al.Referrers() != nil {
				for _, r := range *al.Referrers() {
					if st, ok := r.(*ssa.Store); ok && st.Addr == ssa.Value(al) && loop[st.Block()] && (st.Block() == b || st.Block().Dominates(b)) {
						fresh = true
					}
				}
			}
			if fresh {
				c.ok(construct, call.Pos(), "a variable of the iteration")
			} else {
				c.bad(construct, call.Pos(), "the variable decoded into is declared outside the loop: a key that is absent from one entry keeps the value decoded for the previous entry (`required: true` of one secret is inherited by the next one that does not say)")
			}
		})
	}
	if n == 0 {
		c.anchorMissing("decoding calls inside loops")
	}
}

// ---- C03.SIBLING ----

func runC03Sibling(c *Ctx) {
	p := c.P
	scan := scannerParams(p)
	n := 0
	for _, fn := range p.Funcs {
		if !strings.HasSuffix(p.unitFile(fn), "/rule_expression.go") || fn.Blocks == nil {
			continue
		}
		// hand-overs: calls of scanning functions with an argument that is a field of some base object
		type hand struct {
			call  *ssa.Call
			field string
			base  ssa.Value
		}
		var hands []hand
		var scanCalls []*ssa.Call
		eachInstr(fn, func(_ *ssa.BasicBlock, _ int, in ssa.Instruction) {
			call, ok := in.(*ssa.Call)
			if !ok {
				return
			}
			g := staticCallee(&call.Call)
			if g == nil || len(scan[g]) == 0 {
				return
			}
			scanCalls = append(scanCalls, call)
			for _, a := range call.Call.Args {
				if f, base := fieldLoad(a); f != "" && base != nil {
					if _, isPtr := base.Type().Underlying().(*types.Pointer); isPtr {
						hands = append(hands, hand{call, f, base})
					}
				}
			}
		})
		if len(hands) == 0 {
			continue
		}
		k := 0
		for _, b := range fn.Blocks {
			ifi, ok := b.Instrs[len(b.Instrs)-1].(*ssa.If)
			if !ok {
				continue
			}
			v, _, ok := nilTest(ifi)
			if !ok {
				continue
			}
			g, gbase := fieldLoad(v)
			if g == "" || gbase == nil {
				continue
			}
			from0 := reachableBlocks([]*ssa.BasicBlock{b.Succs[0]}, nil)
			from1 := reachableBlocks([]*ssa.BasicBlock{b.Succs[1]}, nil)
			// fields of the same object handed over on one outcome only
			only := [2][]hand{}
			for _, h := range hands {
				if !sameContainer(h.base, gbase) && h.base != gbase {
					continue
				}
				r0, r1 := from0[h.call.Block()], from1[h.call.Block()]
				if r0 && !r1 {
					only[0] = append(only[0], h)
				}
				if r1 && !r0 {
					only[1] = append(only[1], h)
				}
			}
			for side := 0; side < 2; side++ {
				for _, h := range only[side] {
					if h.field == g {
						continue // the field's own presence test
					}
					k++
					n++
					construct := fmt.Sprintf("%s|%s handed over under a test of %s#%d", FuncName(fn), h.field, g, k)
					// alternatives: the other outcome hands over a field of the object that this outcome does not
					alt := false
					for _, o := range only[1-side] {
						if o.field != h.field {
							alt = true
						}
					}
					// ... or scans something (the entries of a sibling map, say) that this outcome does not
					other, this := from1, from0
					if side == 1 {
						other, this = from0, from1
					}
					for _, sc := range scanCalls {
						if other[sc.Block()] && !this[sc.Block()] {
							alt = true
						}
					}
					// alternatives exclude each other: the parser never fills both fields of one node. Where one object gets
					// both (two key cases of one loop, two stores on one path), the presence of one says nothing about the other
					if alt {
						if at := fieldsCoexist(p, h.field, g); at != "" {
							alt = false
							c.bad(construct, h.call.Pos(), "the scalar is only scanned when the sibling field "+g+" is absent (or present), but the two are no alternatives: "+at+" fills both on one node, so a placeholder in "+h.field+" goes unchecked for inputs that have both")
							continue
						}
					}
					if alt {
						c.ok(construct, h.call.Pos(), "the other outcome scans another field of the same node instead, and no function fills both fields of one node: the two are alternatives")
					} else {
						c.bad(construct, h.call.Pos(), "the scalar is only scanned when the sibling field "+g+" is present (or absent), and nothing stands in for it otherwise: a placeholder in it goes unchecked for inputs without (or with) that sibling")
					}
				}
			}
		}
	}
	if n == 0 {
		// nothing on today's tree depends on a sibling: state that as the one obligation
		c.ok("RuleExpression|no hand-over depends on a sibling field", token.NoPos, "no scanning call with a field of a node is reachable from only one outcome of a nil test of another field of that node")
	}
}

// fieldsCoexist: a function of the module stores into both fields ("Type.Field") of the same object, with one store
// reachable from the other (the same path, or two iterations of one loop). Returns the function, or "".
func fieldsCoexist(p *Prog, f1, f2 string) string {
	for _, fn := range p.Funcs {
		if fn.Blocks == nil || !inModule(fn) {
			continue
		}
		type st struct {
			base ssa.Value
			b    *ssa.BasicBlock
		}
		var s1, s2 []st
		eachInstr(fn, func(b *ssa.BasicBlock, _ int, in ssa.Instruction) {
			sto, ok := in.(*ssa.Store)
			if !ok {
				return
			}
			fa, ok := sto.Addr.(*ssa.FieldAddr)
			if !ok {
				return
			}
			if k, isConst := sto.Val.(*ssa.Const); isConst && k.IsNil() {
				return
			}
			switch fieldAddrName(fa) {
			case f1:
				s1 = append(s1, st{fa.X, b})
			case f2:
				s2 = append(s2, st{fa.X, b})
			}
		})
		for _, a := range s1 {
			for _, b := range s2 {
				if a.base != b.base {
					continue
				}
				if a.b == b.b || reachableBlocks([]*ssa.BasicBlock{a.b}, nil)[b.b] || reachableBlocks([]*ssa.BasicBlock{b.b}, nil)[a.b] {
					return FuncName(fn)
				}
			}
		}
	}
	return ""
}
