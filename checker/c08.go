package main

import (
	"fmt"
	"go/constant"
	"go/token"
	"go/types"
	"sort"
	"strings"

	"golang.org/x/tools/go/ssa"
)

// C08 — two-point lattice Lower ⊑ Unknown on strings. Every key written to or looked up in a map
// whose keys are case-insensitive names must be provably lower-case.
func init() {
	register(&Rule{ID: "C08.KEYW", Min: 50, Doc: "every key stored into a name-keyed map is lower-case", Run: func(c *Ctx) { runC08Keys(c, true) }})
	register(&Rule{ID: "C08.KEYR", Min: 30, Doc: "every key used to look up a name-keyed map is lower-case", Run: func(c *Ctx) { runC08Keys(c, false) }})
	register(&Rule{ID: "C08.FIELD", Min: 3, Doc: "string fields documented as lower-case are only ever assigned lower-case values", Run: runC08Field})
}

// nameKeyedMapTypes: map types whose keys are case-insensitive names (frozen from the repository's
// own comments "keys are in lower case" in ast.go, action_metadata.go, reusable_workflow.go,
// expr_sema.go, expr_type.go, expr_insecure.go). Deliberately case-sensitive maps (AllWebhookTypes,
// allPermissionScopes, PopularActions specs, branding tables, Config.Paths) are not listed.
var nameKeyedMapTypes = map[string]string{
	"map[string]ExprType":                 "ObjectType.Props / context table / object literals",
	"map[string][]*FuncSignature":         "BuiltinFuncSignatures",
	"map[string]*Job":                     "Workflow.Jobs",
	"map[string]*Output":                  "Job.Outputs",
	"map[string]*DispatchInput":           "WorkflowDispatchEvent.Inputs",
	"map[string]*WorkflowCallEventSecret": "WorkflowCallEvent.Secrets",
	"map[string]*WorkflowCallEventOutput": "WorkflowCallEvent.Outputs",
	"map[string]*Input":                   "ExecAction.Inputs",
	"map[string]*WorkflowCallInput":       "WorkflowCall.Inputs",
	"map[string]*WorkflowCallSecret":      "WorkflowCall.Secrets",
	"map[string]*EnvVar":                  "Env.Vars",
	"map[string]*MatrixRow":               "Matrix.Rows",
	"map[string]*MatrixAssign":            "MatrixCombination.Assigns",
	"map[string]RawYAMLValue":             "RawYAMLObject.Props",
	"map[string]*Service":                 "Services.Value",
	"map[string]*PermissionScope":         "Permissions.Scopes",
	"ActionMetadataInputs":                "ActionMetadata.Inputs",
	"ActionMetadataOutputs":               "ActionMetadata.Outputs",
	"ReusableWorkflowMetadataInputs":      "ReusableWorkflowMetadata.Inputs",
	"ReusableWorkflowMetadataOutputs":     "ReusableWorkflowMetadata.Outputs",
	"ReusableWorkflowMetadataSecrets":     "ReusableWorkflowMetadata.Secrets",
	"map[string]*UntrustedInputMap":       "UntrustedInputMap.Children",
	"UntrustedInputSearchRoots":           "BuiltinUntrustedInputs",
	"map[string]*jobNode":                 "RuleJobNeeds.nodes",
	"map[string][]RawYAMLValue":           "matrix rows in RuleMatrix.checkExclude",
	"map[string]runnerOSCompat":           "defaultRunnerOSCompats",
}

type lowerEng struct {
	p           *Prog
	lowerFields map[string]bool // "Type.field" string fields that only ever receive lower-case values
	lowerElems  map[string]bool // "Type.field" []string fields whose elements are lower-case
	memo        map[ssa.Value]int
	funcs       []*ssa.Function
	assumed     int
}

func (p *Prog) lowerEngine() *lowerEng {
	if e, ok := p.memo("lowerEng").(*lowerEng); ok {
		return e
	}
	e := &lowerEng{p: p, lowerFields: map[string]bool{}, lowerElems: map[string]bool{}}
	e.funcs = append([]*ssa.Function{}, p.Funcs...)
	if init := p.SPkg.Func("init"); init != nil {
		e.funcs = append(e.funcs, init)
	}
	// candidate fields: every string / []string field stored somewhere; iterate down to the greatest fixpoint
	type st struct{ vals []ssa.Value }
	stores := map[string]*st{}
	elemStores := map[string]*st{}
	for _, fn := range e.funcs {
		eachInstr(fn, func(_ *ssa.BasicBlock, _ int, in ssa.Instruction) {
			s, ok := in.(*ssa.Store)
			if !ok {
				return
			}
			fa, ok := s.Addr.(*ssa.FieldAddr)
			if !ok {
				return
			}
			n := fieldAddrName(fa)
			switch t := s.Val.Type().Underlying().(type) {
			case *types.Basic:
				if t.Kind() == types.String {
					if stores[n] == nil {
						stores[n] = &st{}
					}
					stores[n].vals = append(stores[n].vals, s.Val)
				}
			case *types.Slice:
				if b, ok := t.Elem().Underlying().(*types.Basic); ok && b.Kind() == types.String {
					if elemStores[n] == nil {
						elemStores[n] = &st{}
					}
					elemStores[n].vals = append(elemStores[n].vals, s.Val)
				}
			}
		})
	}
	for n := range stores {
		e.lowerFields[n] = true
	}
	for n := range elemStores {
		e.lowerElems[n] = true
	}
	for changed := true; changed; {
		changed = false
		e.memo = map[ssa.Value]int{}
		for n, s := range stores {
			if !e.lowerFields[n] {
				continue
			}
			for _, v := range s.vals {
				if !e.isLower(v, 0) {
					e.lowerFields[n] = false
					changed = true
					break
				}
			}
		}
		for n, s := range elemStores {
			if !e.lowerElems[n] {
				continue
			}
			for _, v := range s.vals {
				if !e.sliceLower(v, 0, map[ssa.Value]bool{}) {
					e.lowerElems[n] = false
					changed = true
					break
				}
			}
		}
	}
	e.memo = map[ssa.Value]int{}
	p.setMemo("lowerEng", e)
	return e
}

// fromCaseInsensitiveMapping: v (a workflowKeyVal or slice of them) comes from parseMapping /
// parseSectionMapping called with the constant caseSensitive=false.
func (e *lowerEng) fromCaseInsensitiveMapping(v ssa.Value, depth int) bool {
	if depth > 10 {
		return false
	}
	switch x := v.(type) {
	case *ssa.UnOp:
		if x.Op == token.MUL {
			return e.fromCaseInsensitiveMapping(x.X, depth+1)
		}
	case *ssa.IndexAddr:
		return e.fromCaseInsensitiveMapping(x.X, depth+1)
	case *ssa.Index:
		return e.fromCaseInsensitiveMapping(x.X, depth+1)
	case *ssa.FieldAddr:
		return e.fromCaseInsensitiveMapping(x.X, depth+1)
	case *ssa.Field:
		return e.fromCaseInsensitiveMapping(x.X, depth+1)
	case *ssa.Phi:
		for _, ed := range x.Edges {
			if !e.fromCaseInsensitiveMapping(ed, depth+1) {
				return false
			}
		}
		return len(x.Edges) > 0
	case *ssa.Alloc:
		// local copy of the range element: every store into it
		n := 0
		for _, ref := range *x.Referrers() {
			if s, ok := ref.(*ssa.Store); ok && s.Addr == x {
				n++
				if !e.fromCaseInsensitiveMapping(s.Val, depth+1) {
					return false
				}
			}
		}
		return n > 0
	case *ssa.Call:
		f := staticCallee(&x.Call)
		if f == nil {
			return false
		}
		if n := FuncName(f); n == "(*parser).parseMapping" || n == "(*parser).parseSectionMapping" {
			args := x.Call.Args
			if c, ok := args[len(args)-1].(*ssa.Const); ok && c.Value != nil && c.Value.Kind() == constant.Bool {
				return !constant.BoolVal(c.Value)
			}
		}
	}
	return false
}

// isLower: 1 = provably lower-case.
func (e *lowerEng) isLower(v ssa.Value, depth int) bool {
	if r, ok := e.memo[v]; ok {
		if r == 2 {
			e.assumed++ // in progress: co-inductive assumption
			return true
		}
		return r == 1
	}
	e.memo[v] = 2
	before := e.assumed
	r := e.lower0(v, depth)
	switch {
	case !r:
		e.memo[v] = 0 // a non-lower leaf was found: definitive
	case e.assumed == before || depth == 0:
		e.memo[v] = 1
	default:
		delete(e.memo, v) // positive only under an assumption about an enclosing query: do not cache
	}
	return r
}

func (e *lowerEng) lower0(v ssa.Value, depth int) bool {
	if depth > 25 {
		return false
	}
	switch x := v.(type) {
	case *ssa.Const:
		if x.Value == nil || x.Value.Kind() != constant.String {
			return false
		}
		s := constant.StringVal(x.Value)
		return s == strings.ToLower(s)
	case *ssa.Call:
		name := calleeFullName(&x.Call)
		if name == "strings.ToLower" {
			return true
		}
		if name == "strings.TrimSpace" || name == "strings.TrimPrefix" || name == "strings.TrimSuffix" {
			return e.isLower(x.Call.Args[0], depth+1)
		}
		f := staticCallee(&x.Call)
		if f != nil && f.Blocks != nil && inPkg(f, e.p.SPkg) {
			n := 0
			for _, b := range f.Blocks {
				if ret, ok := b.Instrs[len(b.Instrs)-1].(*ssa.Return); ok && len(ret.Results) > 0 {
					n++
					if !e.isLower(ret.Results[0], depth+1) {
						return false
					}
				}
			}
			return n > 0
		}
		return false
	case *ssa.Phi:
		for _, ed := range x.Edges {
			if !e.isLower(ed, depth+1) {
				return false
			}
		}
		return true
	case *ssa.BinOp:
		if x.Op == token.ADD {
			return e.isLower(x.X, depth+1) && e.isLower(x.Y, depth+1)
		}
		return false
	case *ssa.Slice:
		return e.isLower(x.X, depth+1) // substring of a lower-case string
	case *ssa.Convert, *ssa.ChangeType:
		return false
	case *ssa.Field:
		n, _ := fieldName(x.X.Type(), x.Field)
		if n == "workflowKeyVal.id" {
			return e.fromCaseInsensitiveMapping(x.X, 0)
		}
		return e.lowerFields[n]
	case *ssa.UnOp:
		if x.Op != token.MUL {
			return false
		}
		switch a := x.X.(type) {
		case *ssa.FieldAddr:
			n := fieldAddrName(a)
			if n == "workflowKeyVal.id" {
				return e.fromCaseInsensitiveMapping(a.X, 0)
			}
			return e.lowerFields[n]
		case *ssa.IndexAddr:
			// element of a []string
			return e.sliceLower(a.X, depth+1, map[ssa.Value]bool{})
		case *ssa.Alloc:
			n := 0
			for _, ref := range *a.Referrers() {
				if s, ok := ref.(*ssa.Store); ok && s.Addr == a {
					n++
					if !e.isLower(s.Val, depth+1) {
						return false
					}
				}
			}
			return n > 0
		case *ssa.FreeVar:
			// a variable of the enclosing function captured by reference: every store into the captured cell
			if cell, ok := resolveCapture(a).(*ssa.Alloc); ok {
				n := 0
				for _, ref := range *cell.Referrers() {
					if s, ok := ref.(*ssa.Store); ok && s.Addr == ssa.Value(cell) {
						n++
						if !e.isLower(s.Val, depth+1) {
							return false
						}
					}
				}
				return n > 0
			}
		}
		return false
	case *ssa.Extract:
		switch t := x.Tuple.(type) {
		case *ssa.Next:
			r, ok := t.Iter.(*ssa.Range)
			if !ok || x.Index != 1 {
				return false
			}
			// key of a map whose type is name-keyed: lower by the (co-inductively checked) write rule
			if _, isMap := r.X.Type().Underlying().(*types.Map); isMap {
				_, ok := nameKeyedMapTypes[typeStr(r.X.Type())]
				return ok
			}
			return false
		case *ssa.Call:
			return false
		}
		return false
	case *ssa.Parameter:
		fn := x.Parent()
		idx := -1
		for i, q := range fn.Params {
			if q == x {
				idx = i
			}
		}
		n := 0
		for _, ed := range e.p.callersOf(fn) {
			if ed.Site == nil {
				return false
			}
			cc := ed.Site.Common()
			var arg ssa.Value
			if cc.IsInvoke() {
				if idx == 0 {
					return false
				}
				if idx-1 < len(cc.Args) {
					arg = cc.Args[idx-1]
				}
			} else if idx < len(cc.Args) {
				arg = cc.Args[idx]
			}
			if arg == nil {
				return false
			}
			n++
			if !e.isLower(arg, depth+1) {
				return false
			}
		}
		return n > 0
	case *ssa.FreeVar:
		// captured variable: resolve the binding in the parent
		fn := x.Parent()
		idx := -1
		for i, q := range fn.FreeVars {
			if q == x {
				idx = i
			}
		}
		ok := false
		if par := fn.Parent(); par != nil {
			eachInstr(par, func(_ *ssa.BasicBlock, _ int, in ssa.Instruction) {
				if mc, is := in.(*ssa.MakeClosure); is && mc.Fn == fn && idx < len(mc.Bindings) {
					ok = e.isLower(mc.Bindings[idx], depth+1)
				}
			})
		}
		return ok
	}
	return false
}

// sliceLower: a []string all of whose elements are lower-case.
func (e *lowerEng) sliceLower(v ssa.Value, depth int, seen map[ssa.Value]bool) bool {
	if depth > 25 {
		return false
	}
	if seen[v] {
		return true
	}
	seen[v] = true
	switch x := v.(type) {
	case *ssa.Const:
		return x.IsNil()
	case *ssa.MakeSlice:
		return true
	case *ssa.Alloc:
		// backing array of a slice literal: every element stored into it
		for _, ref := range *x.Referrers() {
			if ia, ok := ref.(*ssa.IndexAddr); ok {
				for _, r2 := range *ia.Referrers() {
					if s, ok := r2.(*ssa.Store); ok && s.Addr == ia && !e.isLower(s.Val, depth+1) {
						return false
					}
				}
			}
		}
		return true
	case *ssa.Slice:
		return e.sliceLower(x.X, depth+1, seen)
	case *ssa.Phi:
		for _, ed := range x.Edges {
			if !e.sliceLower(ed, depth+1, seen) {
				return false
			}
		}
		return true
	case *ssa.Call:
		if b, ok := x.Call.Value.(*ssa.Builtin); ok && b.Name() == "append" {
			if !e.sliceLower(x.Call.Args[0], depth+1, seen) {
				return false
			}
			// appended elements: a variadic slice literal
			if len(x.Call.Args) < 2 {
				return true
			}
			return e.variadicLower(x.Call.Args[1], depth+1, seen)
		}
		// a function of the module: every slice it returns
		if f := staticCallee(&x.Call); f != nil && f.Blocks != nil && inPkg(f, e.p.SPkg) {
			n := 0
			for _, b := range f.Blocks {
				if ret, ok := b.Instrs[len(b.Instrs)-1].(*ssa.Return); ok && len(ret.Results) > 0 {
					n++
					if !e.sliceLower(ret.Results[0], depth+1, seen) {
						return false
					}
				}
			}
			return n > 0
		}
		return false
	case *ssa.Parameter:
		// every call site inside the module passes a lower-case list
		fn := x.Parent()
		idx := -1
		for i, q := range fn.Params {
			if q == x {
				idx = i
			}
		}
		n := 0
		for _, ed := range e.p.callersOf(fn) {
			if ed.Site == nil || ed.Site.Common().IsInvoke() {
				continue
			}
			args := ed.Site.Common().Args
			if idx < 0 || idx >= len(args) {
				return false
			}
			n++
			if !e.sliceLower(args[idx], depth+1, seen) {
				return false
			}
		}
		return n > 0
	case *ssa.Extract:
		if call, ok := x.Tuple.(*ssa.Call); ok {
			if f := staticCallee(&call.Call); f != nil && f.Blocks != nil && inPkg(f, e.p.SPkg) {
				n := 0
				for _, b := range f.Blocks {
					if ret, ok := b.Instrs[len(b.Instrs)-1].(*ssa.Return); ok && x.Index < len(ret.Results) {
						n++
						if !e.sliceLower(ret.Results[x.Index], depth+1, seen) {
							return false
						}
					}
				}
				return n > 0
			}
		}
		return false
	case *ssa.UnOp:
		if x.Op == token.MUL {
			if fa, ok := x.X.(*ssa.FieldAddr); ok {
				return e.lowerElems[fieldAddrName(fa)]
			}
			if a, ok := x.X.(*ssa.Alloc); ok {
				n := 0
				for _, ref := range *a.Referrers() {
					if s, ok := ref.(*ssa.Store); ok && s.Addr == a {
						n++
						if !e.sliceLower(s.Val, depth+1, seen) {
							return false
						}
					}
				}
				return n > 0
			}
		}
		return false
	}
	return false
}

// variadicLower: the slice built for append's variadic argument: new [n]string + stores + slice.
func (e *lowerEng) variadicLower(v ssa.Value, depth int, seen map[ssa.Value]bool) bool {
	sl, ok := v.(*ssa.Slice)
	if !ok {
		return e.sliceLower(v, depth, seen)
	}
	al, ok := sl.X.(*ssa.Alloc)
	if !ok {
		return e.sliceLower(sl.X, depth, seen)
	}
	n := 0
	for _, ref := range *al.Referrers() {
		if ia, ok := ref.(*ssa.IndexAddr); ok {
			for _, r2 := range *ia.Referrers() {
				if s, ok := r2.(*ssa.Store); ok && s.Addr == ia {
					n++
					if !e.isLower(s.Val, depth+1) {
						return false
					}
				}
			}
		}
	}
	return n > 0
}

func runC08Keys(c *Ctx, writes bool) {
	p := c.P
	e := p.lowerEngine()
	type agg struct {
		ok, bad int
		pos     token.Pos
	}
	// constant keys of literal tables are aggregated per function to keep the evidence readable
	for _, fn := range e.funcs {
		occ := map[string]int{}
		constOK := map[string]*agg{}
		eachInstr(fn, func(_ *ssa.BasicBlock, _ int, in ssa.Instruction) {
			var m, key ssa.Value
			switch x := in.(type) {
			case *ssa.MapUpdate:
				if !writes {
					return
				}
				m, key = x.Map, x.Key
			case *ssa.Lookup:
				if writes {
					return
				}
				if _, isMap := x.X.Type().Underlying().(*types.Map); !isMap {
					return
				}
				m, key = x.X, x.Index
			default:
				return
			}
			mt := typeStr(m.Type())
			what, ok := nameKeyedMapTypes[mt]
			if !ok {
				return
			}
			if k, isConst := key.(*ssa.Const); isConst {
				a := constOK[mt]
				if a == nil {
					a = &agg{pos: in.Pos()}
					constOK[mt] = a
				}
				if e.isLower(k, 0) {
					a.ok++
					return
				}
				s := ""
				if k.Value != nil {
					s = k.Value.ExactString()
				}
				c.bad(fmt.Sprintf("%s|constant key %s of %s", FuncName(fn), s, mt), in.Pos(), "constant key of a name-keyed map ("+what+") is not lower-case: lookups are made with lower-cased names and never find it")
				return
			}
			verb := "lookup in"
			if writes {
				verb = "write to"
			}
			kd := describeKey(key)
			k := fmt.Sprintf("%s|%s %s key %s", FuncName(fn), verb, mt, kd)
			occ[k]++
			construct := fmt.Sprintf("%s#%d", k, occ[k])
			if e.isLower(key, 0) {
				c.ok(construct, in.Pos(), "key is lower-case ("+what+")")
			} else {
				c.bad(construct, in.Pos(), "key of a name-keyed map ("+what+") is not provably lower-case: names that differ only in letter case are treated as different")
			}
		})
		for _, mt := range sortedKeys(constOK) {
			a := constOK[mt]
			verb := "lookups with"
			if writes {
				verb = "writes of"
			}
			c.ok(fmt.Sprintf("%s|%s constant keys of %s", FuncName(fn), verb, mt), a.pos, fmt.Sprintf("%d constant keys, all lower-case", a.ok))
		}
	}
}

func describeKey(v ssa.Value) string {
	switch x := v.(type) {
	case *ssa.UnOp:
		if fa, ok := x.X.(*ssa.FieldAddr); ok {
			return "." + fieldAddrName(fa)
		}
		if _, ok := x.X.(*ssa.IndexAddr); ok {
			return "slice element"
		}
		return "variable"
	case *ssa.Field:
		n, _ := fieldName(x.X.Type(), x.Field)
		return "." + n
	case *ssa.Call:
		return calleeFullName(&x.Call) + "(...)"
	case *ssa.Parameter:
		return "param " + x.Name()
	case *ssa.Extract:
		if _, ok := x.Tuple.(*ssa.Next); ok {
			return "range key"
		}
	case *ssa.Phi:
		return "var " + x.Comment
	}
	return "expression"
}

// C08.FIELD: the fields the repository documents as lower-case must be in the computed invariant set.
var documentedLowerFields = []string{"ObjectDerefNode.Property", "VariableNode.Name", "WorkflowCallEventInput.ID", "jobNode.id"}

func runC08Field(c *Ctx) {
	e := c.P.lowerEngine()
	allLower := true
	for _, f := range documentedLowerFields {
		if _, known := e.lowerFields[f]; !known {
			c.undecided("field "+f, 0, "no store to this field found")
			allLower = false
			continue
		}
		if e.lowerFields[f] {
			c.ok("field "+f, 0, "every store assigns a lower-case value")
		} else {
			c.bad("field "+f, 0, "some store assigns a value that is not provably lower-case, but lookups rely on the field being lower-case")
			allLower = false
		}
	}
	if !allLower {
		return // the summary below says that the documented fields are among the invariant ones
	}
	var inv []string
	for f, ok := range e.lowerFields {
		if ok {
			inv = append(inv, f)
		}
	}
	sort.Strings(inv)
	c.ok("package|lower-case string fields", 0, fmt.Sprintf("%d string fields are lower-case invariant, all %d documented ones among them: %s", len(inv), len(documentedLowerFields), shortList(inv, 12)))
}
