package main

import (
	"fmt"
	"go/ast"
	"go/token"
	"go/types"
	"os"
	"path/filepath"
	"sort"
	"strings"
	"sync"

	"golang.org/x/tools/go/callgraph"
	"golang.org/x/tools/go/callgraph/cha"
	"golang.org/x/tools/go/callgraph/vta"
	"golang.org/x/tools/go/packages"
	"golang.org/x/tools/go/ssa"
	"golang.org/x/tools/go/ssa/ssautil"
)

const modPath = "github.com/rhysd/actionlint"

// Prog is one loaded, type-checked and SSA-converted build configuration of the repository.
type Prog struct {
	Dir     string
	Env     []string
	Fset    *token.FileSet
	Roots   []*packages.Package
	Main    *packages.Package // github.com/rhysd/actionlint
	Cmd     *packages.Package // github.com/rhysd/actionlint/cmd/actionlint (may be nil in extra configs)
	SSA     *ssa.Program
	SPkg    *ssa.Package
	SCmd    *ssa.Package
	Funcs   []*ssa.Function // all source-level functions of the main package (methods, closures, generic instances)
	Synth   []*ssa.Function // synthetic wrappers/thunks/bound methods of the main package's methods
	AllPkgs int
	cg      *callgraph.Graph
	fixture string // absolute path of the overlay fixture file, "" when none

	funcOfDecl map[*ast.FuncDecl]*ssa.Function
	nInstr     int
	memoMu     sync.Mutex
	memoM      map[string]interface{}
}

type LoadOpts struct {
	Dir      string
	Env      []string // extra environment such as GOOS=windows
	Overlay  map[string][]byte
	Fixture  string
	Patterns []string
	Tags     string
	Verif    string // verification directory (symbols.json); "" = take names as they are
}

func baseEnv() []string {
	env := []string{}
	for _, e := range os.Environ() {
		if strings.HasPrefix(e, "GOWORK=") || strings.HasPrefix(e, "GOFLAGS=") || strings.HasPrefix(e, "GOPROXY=") ||
			strings.HasPrefix(e, "GOSUMDB=") || strings.HasPrefix(e, "GOTOOLCHAIN=") || strings.HasPrefix(e, "GOOS=") || strings.HasPrefix(e, "GOARCH=") {
			continue
		}
		env = append(env, e)
	}
	return append(env, "GOWORK=off", "GOFLAGS=-mod=mod", "GOPROXY=off", "GOSUMDB=off", "GOTOOLCHAIN=local")
}

// Load loads the repository. Any type error, missing package or unresolved anchor is an error: the
// checks never pass on a tree they could not analyse.
func Load(o LoadOpts) (*Prog, error) {
	fset := token.NewFileSet()
	pats := o.Patterns
	if len(pats) == 0 {
		pats = []string{".", "./cmd/actionlint"}
	}
	cfg := &packages.Config{
		Mode:    packages.LoadAllSyntax,
		Dir:     o.Dir,
		Env:     append(baseEnv(), o.Env...),
		Fset:    fset,
		Tests:   false,
		Overlay: o.Overlay,
	}
	if o.Tags != "" {
		cfg.BuildFlags = []string{"-tags=" + o.Tags}
	}
	pkgs, err := packages.Load(cfg, pats...)
	if err != nil {
		return nil, fmt.Errorf("packages.Load: %w", err)
	}
	if len(pkgs) == 0 {
		return nil, fmt.Errorf("no packages loaded from %s", o.Dir)
	}
	p := &Prog{Dir: o.Dir, Env: o.Env, Fset: fset, Roots: pkgs, fixture: o.Fixture}
	var errs []string
	n := 0
	packages.Visit(pkgs, nil, func(pkg *packages.Package) {
		n++
		for _, e := range pkg.Errors {
			errs = append(errs, fmt.Sprintf("%s: %s", pkg.PkgPath, e.Error()))
		}
	})
	p.AllPkgs = n
	if len(errs) > 0 {
		sort.Strings(errs)
		if len(errs) > 8 {
			errs = errs[:8]
		}
		return nil, fmt.Errorf("package errors (the tree does not type-check): %s", strings.Join(errs, "; "))
	}
	for _, pkg := range pkgs {
		switch pkg.PkgPath {
		case modPath:
			p.Main = pkg
		case modPath + "/cmd/actionlint":
			p.Cmd = pkg
		}
	}
	if p.Main == nil && len(o.Patterns) == 0 {
		return nil, fmt.Errorf("package %s not found in %s", modPath, o.Dir)
	}
	prog, _ := ssautil.AllPackages(pkgs, ssa.InstantiateGenerics)
	prog.Build()
	p.SSA = prog
	if p.Main != nil {
		p.SPkg = prog.Package(p.Main.Types)
	}
	if p.Cmd != nil {
		p.SCmd = prog.Package(p.Cmd.Types)
	}
	if p.SPkg != nil {
		p.collectFuncs()
		if o.Verif != "" {
			p.applySymbolAliases(o.Verif)
		}
	}
	return p, nil
}

func (p *Prog) collectFuncs() {
	seen := map[*ssa.Function]bool{}
	var add func(fn *ssa.Function)
	add = func(fn *ssa.Function) {
		if fn == nil || seen[fn] || fn.Blocks == nil {
			return
		}
		seen[fn] = true
		p.Funcs = append(p.Funcs, fn)
		for _, a := range fn.AnonFuncs {
			add(a)
		}
	}
	for fn := range ssautil.AllFunctions(p.SSA) {
		if fn.Synthetic != "" && !strings.HasPrefix(fn.Synthetic, "instance of") {
			if obj, ok := fn.Object().(*types.Func); ok && obj != nil && obj.Pkg() == p.Main.Types && fn.Blocks != nil {
				p.Synth = append(p.Synth, fn)
			}
			continue
		}
		pkg := fn.Package()
		if pkg == nil && fn.Origin() != nil {
			pkg = fn.Origin().Package()
		}
		if pkg == nil && fn.Parent() != nil {
			continue // reached through its parent
		}
		if pkg == p.SPkg {
			add(fn)
		}
	}
	sort.Slice(p.Synth, func(i, j int) bool { return p.Synth[i].String() < p.Synth[j].String() })
	sort.Slice(p.Funcs, func(i, j int) bool {
		a, b := p.Funcs[i], p.Funcs[j]
		if a.Pos() != b.Pos() {
			return a.Pos() < b.Pos()
		}
		return a.String() < b.String()
	})
	p.funcOfDecl = map[*ast.FuncDecl]*ssa.Function{}
	for _, fn := range p.Funcs {
		if d, ok := fn.Syntax().(*ast.FuncDecl); ok {
			if _, dup := p.funcOfDecl[d]; !dup || fn.Origin() == nil {
				p.funcOfDecl[d] = fn
			}
		}
		for _, b := range fn.Blocks {
			p.nInstr += len(b.Instrs)
		}
	}
}

// CallGraph returns the VTA call graph of the whole program (computed once).
func (p *Prog) CallGraph() *callgraph.Graph {
	if p.cg == nil {
		all := ssautil.AllFunctions(p.SSA)
		p.cg = vta.CallGraph(all, cha.CallGraph(p.SSA))
	}
	return p.cg
}

// Pos renders a position relative to the repository root.
func (p *Prog) Pos(pos token.Pos) string {
	if !pos.IsValid() {
		return "-"
	}
	q := p.Fset.Position(pos)
	f := q.Filename
	if r, err := filepath.Rel(p.Dir, f); err == nil && !strings.HasPrefix(r, "..") {
		f = r
	}
	return fmt.Sprintf("%s:%d", f, q.Line)
}

func (p *Prog) File(pos token.Pos) string {
	if !pos.IsValid() {
		return ""
	}
	return p.Fset.Position(pos).Filename
}

// InFixture reports whether the position lies in the overlay fixture file.
func (p *Prog) InFixture(pos token.Pos) bool {
	return p.fixture != "" && pos.IsValid() && p.Fset.Position(pos).Filename == p.fixture
}

// FuncName gives a stable, readable name of an SSA function: (*T).m, f, f$1.
func FuncName(fn *ssa.Function) string {
	if fn == nil {
		return "<nil>"
	}
	if len(funcAlias) > 0 {
		if a, ok := funcAlias[fn]; ok {
			return a // a renamed function: known to the rules under its recorded name (symbols.go)
		}
	}
	if fn.Parent() != nil {
		return FuncName(fn.Parent()) + "$" + strings.TrimPrefix(fn.Name(), fn.Parent().Name()+"$")
	}
	if recv := fn.Signature.Recv(); recv != nil {
		return "(" + aliasTypesIn(types.TypeString(recv.Type(), func(*types.Package) string { return "" })) + ")." + fn.Name()
	}
	return fn.Name()
}

// Func looks up a package-level function of the main package.
func (p *Prog) Func(name string) *ssa.Function {
	if p.SPkg == nil {
		return nil
	}
	if f := p.SPkg.Func(name); f != nil {
		return f
	}
	return p.aliased(name)
}

// aliased: the function of this program that stands for the recorded name (nil if none).
func (p *Prog) aliased(recorded string) *ssa.Function {
	if len(funcAlias) == 0 {
		return nil
	}
	for _, fn := range p.Funcs {
		if a, ok := funcAlias[fn]; ok && a == recorded {
			return fn
		}
	}
	return nil
}

// Method looks up method m of named type T (pointer or value receiver) in the main package.
func (p *Prog) Method(typ, m string) *ssa.Function {
	if p.Main == nil {
		return nil
	}
	obj := p.lookupType(typ)
	if obj == nil {
		return nil
	}
	tn, ok := obj.(*types.TypeName)
	if !ok {
		return nil
	}
	for _, t := range []types.Type{types.NewPointer(tn.Type()), tn.Type()} {
		sel := p.SSA.MethodSets.MethodSet(t).Lookup(p.Main.Types, m)
		if sel == nil {
			continue
		}
		fn := p.SSA.MethodValue(sel)
		if fn != nil && fn.Synthetic != "" {
			// wrapper for promoted or value method: resolve to the declared function
			if f, ok := sel.Obj().(*types.Func); ok {
				if d := p.SSA.FuncValue(f); d != nil {
					return d
				}
			}
		}
		if fn != nil {
			return fn
		}
	}
	// a renamed method: known under its recorded name (symbols.go)
	for _, recv := range []string{"(*" + typ + ")", "(" + typ + ")"} {
		if f := p.aliased(recv + "." + m); f != nil {
			return f
		}
	}
	return nil
}

// Named returns the named type T of the main package.
func (p *Prog) Named(name string) *types.Named {
	if p.Main == nil {
		return nil
	}
	obj := p.lookupType(name)
	if obj == nil {
		return nil
	}
	n, _ := obj.Type().(*types.Named)
	return n
}

// lookupType finds a package-level name; a renamed type is found under its recorded name (symbols.go).
func (p *Prog) lookupType(name string) types.Object {
	if obj := p.Main.Types.Scope().Lookup(name); obj != nil {
		return obj
	}
	for from, to := range typeAlias {
		if to == name {
			return p.Main.Types.Scope().Lookup(from)
		}
	}
	return nil
}

func (p *Prog) Global(name string) *ssa.Global {
	if p.SPkg == nil {
		return nil
	}
	g, _ := p.SPkg.Members[name].(*ssa.Global)
	return g
}

// FuncDecls iterates over all function declarations (with bodies) of the main package.
func (p *Prog) FuncDecls(f func(file *ast.File, d *ast.FuncDecl)) {
	for _, file := range p.Main.Syntax {
		for _, d := range file.Decls {
			if fd, ok := d.(*ast.FuncDecl); ok && fd.Body != nil {
				f(file, fd)
			}
		}
	}
}

// DeclName names a FuncDecl like FuncName does for SSA functions.
func DeclName(info *types.Info, d *ast.FuncDecl) string {
	if obj, ok := info.Defs[d.Name].(*types.Func); ok {
		sig := obj.Type().(*types.Signature)
		if recv := sig.Recv(); recv != nil {
			return "(" + types.TypeString(recv.Type(), func(*types.Package) string { return "" }) + ")." + d.Name.Name
		}
	}
	return d.Name.Name
}

func isNamed(t types.Type, pkgPath, name string) bool {
	if p, ok := t.(*types.Pointer); ok {
		t = p.Elem()
	}
	n, ok := t.(*types.Named)
	if !ok {
		return false
	}
	o := n.Obj()
	if o.Name() != name {
		return false
	}
	if o.Pkg() == nil {
		return pkgPath == ""
	}
	return o.Pkg().Path() == pkgPath
}

func namedOf(t types.Type) *types.Named {
	if p, ok := t.(*types.Pointer); ok {
		t = p.Elem()
	}
	n, _ := t.(*types.Named)
	return n
}

func typeStr(t types.Type) string {
	s := types.TypeString(t, func(p *types.Package) string {
		if p.Path() == modPath {
			return ""
		}
		return p.Name()
	})
	if len(typeAlias) > 0 {
		s = aliasTypesIn(s) // a renamed struct type: known to the rules under its recorded name (symbols.go)
	}
	return s
}
