package main

import (
	"fmt"
	"go/token"
	"go/types"
	"sort"
	"strings"

	"golang.org/x/tools/go/ssa"
)

// searchLoopLeaks: the ways a loop of a search function is left before its header found the sequence exhausted, other
// than by returning a positive answer. A positive answer is a return whose first result is a fresh object, the constant
// true, or a value that a condition controlling the return block found non-nil / true. Every other edge that leaves a
// loop from a block that is not its header (break, return nil, return false, a second condition in the loop header)
// skips the remaining elements without having found anything.
func searchLoopLeaks(p *Prog, fn *ssa.Function) []string {
	var out []string
	for _, h := range loopHeaders(fn) {
		body := naturalLoop(h)
		for _, b := range fn.Blocks {
			if !body[b] || b == h {
				continue
			}
			for _, s := range b.Succs {
				if body[s] {
					continue
				}
				if why := notPositiveExit(s); why != "" {
					pos := branchPos(b)
					out = append(out, why+" (left at "+p.Pos(pos)+")")
				}
			}
		}
	}
	return out
}

// notPositiveExit: "" when the block ends the function with a positive answer (or a panic).
func notPositiveExit(s *ssa.BasicBlock) string {
	switch last := s.Instrs[len(s.Instrs)-1].(type) {
	case *ssa.Panic:
		return ""
	case *ssa.Return:
		if len(last.Results) == 0 {
			return "the loop is left by a return without an answer"
		}
		r := last.Results[0]
		if isNilConst(r) {
			return "the loop is left by returning nil"
		}
		if k, ok := r.(*ssa.Const); ok {
			if k.Value != nil && k.Value.String() == "true" {
				return ""
			}
			return "the loop is left by returning " + k.String()
		}
		if _, ok := r.(*ssa.Alloc); ok {
			return ""
		}
		for ifi, outcome := range controllingConds(s) {
			if v, nilSucc, ok := nilTest(ifi); ok && v == r && (nilSucc == 0) != outcome {
				return ""
			}
			if ifi.Cond == r && outcome {
				return ""
			}
		}
		return "the loop is left by returning a value that was not found to be a positive answer"
	}
	return "the loop is left without returning an answer"
}

// earlyExitsAround: the edges that leave a loop containing blk from a block other than the loop's header (break, return,
// goto, a second condition of the loop header), described by the position of the branch. Panics do not count.
func earlyExitsAround(p *Prog, blk *ssa.BasicBlock) []string {
	var out []string
	fn := blk.Parent()
	for _, h := range loopHeaders(fn) {
		body := naturalLoop(h)
		if !body[blk] {
			continue
		}
		for _, b := range fn.Blocks {
			if !body[b] || b == h {
				continue
			}
			for _, s := range b.Succs {
				if body[s] {
					continue
				}
				if _, isPanic := s.Instrs[len(s.Instrs)-1].(*ssa.Panic); isPanic {
					continue
				}
				out = append(out, "the loop is left at "+p.Pos(branchPos(b)))
			}
		}
	}
	return out
}

// branchPos: a source position for the branch that ends b.
func branchPos(b *ssa.BasicBlock) token.Pos {
	last := b.Instrs[len(b.Instrs)-1]
	if last.Pos().IsValid() {
		return last.Pos()
	}
	if ifi, ok := last.(*ssa.If); ok {
		if in, ok := ifi.Cond.(ssa.Instruction); ok && in.Pos().IsValid() {
			return in.Pos()
		}
	}
	for i := len(b.Instrs) - 1; i >= 0; i-- {
		if b.Instrs[i].Pos().IsValid() {
			return b.Instrs[i].Pos()
		}
	}
	return token.NoPos
}

// lastConsumers: for an instruction of fn, the calls that may have been the last to advance the glob scanner when the
// instruction executes (a forward may-analysis; every call that may consume replaces the set). The nil key stands for
// "nothing consumed since fn was entered".
func (g *globScan) lastConsumers(fn *ssa.Function) func(at ssa.Instruction) map[ssa.Instruction]bool {
	in := map[*ssa.BasicBlock]map[ssa.Instruction]bool{}
	out := map[*ssa.BasicBlock]map[ssa.Instruction]bool{}
	transfer := func(b *ssa.BasicBlock, st map[ssa.Instruction]bool, upto ssa.Instruction) map[ssa.Instruction]bool {
		cur := map[ssa.Instruction]bool{}
		for k := range st {
			cur[k] = true
		}
		for _, x := range b.Instrs {
			if x == upto {
				break
			}
			if g.mayConsume(x) {
				cur = map[ssa.Instruction]bool{x: true}
			}
		}
		return cur
	}
	for _, b := range fn.Blocks {
		in[b] = map[ssa.Instruction]bool{}
		out[b] = map[ssa.Instruction]bool{}
	}
	if len(fn.Blocks) > 0 {
		in[fn.Blocks[0]][nil] = true
	}
	for changed := true; changed; {
		changed = false
		for _, b := range fn.Blocks {
			for _, pr := range b.Preds {
				for k := range out[pr] {
					if !in[b][k] {
						in[b][k] = true
						changed = true
					}
				}
			}
			o := transfer(b, in[b], nil)
			if len(o) != len(out[b]) {
				changed = true
			} else {
				for k := range o {
					if !out[b][k] {
						changed = true
					}
				}
			}
			out[b] = o
		}
	}
	return func(at ssa.Instruction) map[ssa.Instruction]bool {
		return transfer(at.Block(), in[at.Block()], at)
	}
}

// phiLeaves: the values a value can stand for, looking through phis and conversions.
func phiLeaves(v ssa.Value) []ssa.Value {
	var out []ssa.Value
	seen := map[ssa.Value]bool{}
	var walk func(v ssa.Value)
	walk = func(v ssa.Value) {
		if seen[v] {
			return
		}
		seen[v] = true
		switch x := v.(type) {
		case *ssa.Phi:
			for _, e := range x.Edges {
				walk(e)
			}
		case *ssa.Convert:
			walk(x.X)
		case *ssa.ChangeType:
			walk(x.X)
		default:
			out = append(out, v)
		}
	}
	walk(v)
	return out
}

// runC17ArgLast: a glob error that names a character held in a variable names the character consumed last - that is
// the one whose column (*globValidator).error records. Every call that may have advanced the scanner last before the
// error is recorded has to be the call whose result is passed.
func runC17ArgLast(c *Ctx) {
	p := c.P
	g := &globScan{p: p, may: map[*ssa.Function]bool{}, must: map[*ssa.Function]int{}}
	for _, fn := range p.Funcs {
		recv := fn.Signature.Recv()
		if recv == nil || pointeeName(recv.Type()) != "globValidator" {
			continue
		}
		name := FuncName(fn)
		if name == "(*globValidator).unexpected" || name == "(*globValidator).invalidRefChar" {
			continue
		}
		var last func(at ssa.Instruction) map[ssa.Instruction]bool
		occ := 0
		eachInstr(fn, func(_ *ssa.BasicBlock, _ int, in ssa.Instruction) {
			call, ok := in.(*ssa.Call)
			if !ok {
				return
			}
			callee := staticCallee(&call.Call)
			if callee == nil {
				return
			}
			cn := FuncName(callee)
			if cn != "(*globValidator).unexpected" && cn != "(*globValidator).invalidRefChar" {
				return
			}
			if len(call.Call.Args) < 2 {
				return
			}
			arg := call.Call.Args[1]
			if _, isConst := arg.(*ssa.Const); isConst {
				return // decided from the enclosing case by the syntactic clause
			}
			occ++
			construct := fmt.Sprintf("%s|variable named by %s is the character consumed last#%d", name, callee.Name(), occ)
			if last == nil {
				last = g.lastConsumers(fn)
			}
			holds, param := g.holdsLastOf(arg, 0)
			var stale []string
			for m := range last(call) {
				switch {
				case m == nil && param:
				case m == nil:
					stale = append(stale, "nothing consumed in this function yet")
				case !holds[m]:
					stale = append(stale, "the scanner was advanced at "+p.Pos(m.Pos())+" after the named character was read")
				}
			}
			sort.Strings(stale)
			if len(stale) == 0 {
				c.ok(construct, call.Pos(), "every call that can have advanced the scanner last delivers the value that is named")
			} else {
				c.bad(construct, call.Pos(), strings.Join(stale, "; ")+": the message names a character other than the one at the reported column")
			}
		})
	}
}

// holdsLastOf: the scanner-advancing calls whose consumed character the value holds: scan.Next() calls, and calls of
// validator methods whose result (at that index) is the character consumed last on every way to a return. param: the
// value may also be a parameter of the function.
func (g *globScan) holdsLastOf(v ssa.Value, depth int) (holds map[ssa.Instruction]bool, param bool) {
	holds = map[ssa.Instruction]bool{}
	for _, lf := range phiLeaves(v) {
		switch x := lf.(type) {
		case *ssa.Parameter:
			param = true
		case *ssa.Call:
			if calleeFullName(&x.Call) == scanNextFn || g.returnsLast(staticCallee(&x.Call), 0, depth+1) {
				holds[x] = true
			}
		case *ssa.Extract:
			if call, ok := x.Tuple.(*ssa.Call); ok && g.returnsLast(staticCallee(&call.Call), x.Index, depth+1) {
				holds[call] = true
			}
		}
	}
	return holds, param
}

// returnsLast: result idx of f is, at every return, the character f consumed last (f consumes on every way to a return).
func (g *globScan) returnsLast(f *ssa.Function, idx int, depth int) bool {
	if f == nil || !inModule(f) || len(f.Blocks) == 0 || depth > 3 {
		return false
	}
	last := g.lastConsumers(f)
	for _, b := range f.Blocks {
		ret, ok := b.Instrs[len(b.Instrs)-1].(*ssa.Return)
		if !ok {
			continue
		}
		if idx >= len(ret.Results) {
			return false
		}
		holds, _ := g.holdsLastOf(ret.Results[idx], depth)
		for m := range last(ret) {
			if m == nil || !holds[m] {
				return false
			}
		}
	}
	return true
}

// c17EveryFilterKind: every field of WebhookEvent that is a filter (by its type) is handed to a checking function, at a
// call that depends on nothing but the loop over the events, the event being a webhook event and that filter being present.
func c17EveryFilterKind(c *Ctx, sitesOf map[string][]*ssa.Call) {
	p := c.P
	nm := p.Named("WebhookEvent")
	if nm == nil {
		c.anchorMissing("type WebhookEvent")
		return
	}
	st, ok := nm.Underlying().(*types.Struct)
	if !ok {
		c.anchorMissing("struct WebhookEvent")
		return
	}
	for i := 0; i < st.NumFields(); i++ {
		f := st.Field(i)
		if !strings.HasSuffix(typeStr(f.Type()), "WebhookEventFilter") {
			continue
		}
		name, _ := fieldName(nm, i)
		construct := name + "|filter validated for every webhook event"
		sites := sitesOf[name]
		if len(sites) == 0 {
			c.bad(construct, f.Pos(), "the filter is never handed to a checking function of the glob rule: its patterns are not validated at all")
			continue
		}
		// one unconditional site is enough
		why := ""
		for _, call := range sites {
			why = ""
			var arg ssa.Value
			for _, a := range call.Call.Args {
				if g, _ := fieldLoad(a); g == name {
					arg = a
				}
			}
			_, base := fieldLoad(arg)
			heads := map[*ssa.BasicBlock]bool{}
			for _, h := range loopHeaders(call.Parent()) {
				if naturalLoop(h)[call.Block()] {
					heads[h] = true
				}
			}
			for ifi, outcome := range controllingConds(call.Block()) {
				if heads[ifi.Block()] {
					continue
				}
				if ex, ok := ifi.Cond.(*ssa.Extract); ok && ex.Index == 1 && outcome {
					if ta, ok := ex.Tuple.(*ssa.TypeAssert); ok && ta.CommaOk {
						if b0, ok := base.(*ssa.Extract); ok && b0.Tuple == ssa.Value(ta) && b0.Index == 0 {
							continue
						}
					}
				}
				if v, nilSucc, ok := nilTest(ifi); ok && (nilSucc == 0) != outcome {
					if g, b := fieldLoad(v); g == name && b == base {
						continue
					}
				}
				why = "the call at " + p.Pos(call.Pos()) + " depends on the condition at " + p.Pos(branchPos(ifi.Block()))
			}
			if why == "" {
				break
			}
		}
		if why == "" {
			c.ok(construct, sites[0].Pos(), "handed to a checking function whenever the event is a webhook event")
		} else {
			c.bad(construct, sites[0].Pos(), why+": whether the patterns of this filter are validated depends on something other than the filter itself")
		}
	}
}

// outermostLoopExits: the edges that leave an outermost loop of fn (one that is not nested in another loop) from a block
// other than its header, panics aside.
func outermostLoopExits(p *Prog, fn *ssa.Function) []string {
	heads := loopHeaders(fn)
	bodies := map[*ssa.BasicBlock]map[*ssa.BasicBlock]bool{}
	for _, h := range heads {
		bodies[h] = naturalLoop(h)
	}
	var out []string
	for _, h := range heads {
		nested := false
		for _, o := range heads {
			if o != h && bodies[o][h] {
				nested = true
			}
		}
		if nested {
			continue
		}
		for _, b := range fn.Blocks {
			if !bodies[h][b] || b == h {
				continue
			}
			for _, s := range b.Succs {
				if bodies[h][s] {
					continue
				}
				if _, isPanic := s.Instrs[len(s.Instrs)-1].(*ssa.Panic); isPanic {
					continue
				}
				out = append(out, "the loop at "+p.Pos(blockPos(h))+" is left at "+p.Pos(branchPos(b)))
			}
		}
	}
	return out
}

// c19ExcludeVerdict: the loop over the candidates of a key in which the subset test is made is left early only where the
// test was found true, and when it runs to its end the exclude value is reported.
func c19ExcludeVerdict(c *Ctx, call ssa.CallInstruction) {
	p := c.P
	fn := call.Parent()
	cv, _ := call.(*ssa.Call)
	construct := FuncName(fn) + "|exclude value reported iff no candidate contains it"
	// innermost loop containing the test
	var hdr *ssa.BasicBlock
	var body map[*ssa.BasicBlock]bool
	for _, h := range loopHeaders(fn) {
		b := naturalLoop(h)
		if b[call.Block()] && (body == nil || len(b) < len(body)) {
			hdr, body = h, b
		}
	}
	if hdr == nil || cv == nil {
		c.bad(construct, call.Pos(), "the subset test is not made in a loop over the candidates")
		return
	}
	// where the test is known to have succeeded
	matched := func(b *ssa.BasicBlock) bool {
		for ifi, outcome := range controllingConds(b) {
			if ifi.Cond == ssa.Value(cv) && outcome {
				return true
			}
		}
		return false
	}
	var bad []string
	for _, b := range fn.Blocks {
		if !body[b] || b == hdr {
			continue
		}
		for i, s := range b.Succs {
			if body[s] {
				continue
			}
			if _, isPanic := s.Instrs[len(s.Instrs)-1].(*ssa.Panic); isPanic {
				continue
			}
			if ifi, ok := b.Instrs[len(b.Instrs)-1].(*ssa.If); ok && ifi.Cond == ssa.Value(cv) && i == 0 {
				continue // left on the true edge of the test itself
			}
			if matched(b) {
				continue
			}
			bad = append(bad, "the loop over the candidates is left at "+p.Pos(branchPos(b))+" without a candidate having matched")
		}
	}
	// the way out through the header (no candidate matched) reports
	reported := false
	for _, s := range hdr.Succs {
		if body[s] {
			continue
		}
		base := controllingConds(s)
		heads := map[*ssa.BasicBlock]bool{}
		for _, h := range loopHeaders(fn) {
			heads[h] = true
		}
		for _, name := range []string{"(*RuleBase).Errorf", "(*RuleBase).Error"} {
			for _, e := range findCalls(fn, name) {
				eb := e.Block()
				if eb != s && !s.Dominates(eb) {
					continue
				}
				okConds := true
				for ifi := range controllingConds(eb) {
					if _, outer := base[ifi]; outer {
						continue
					}
					if !heads[ifi.Block()] || naturalLoop(ifi.Block())[eb] {
						okConds = false
					}
				}
				if okConds {
					reported = true
				}
			}
		}
	}
	if !reported {
		bad = append(bad, "no diagnostic is emitted unconditionally when the loop over the candidates ends without a match")
	}
	sort.Strings(bad)
	if len(bad) == 0 {
		c.ok(construct, call.Pos(), "every candidate is tried until one matches; without a match the value is reported")
	} else {
		c.bad(construct, call.Pos(), strings.Join(bad, "; ")+": whether an exclude value is reported no longer depends on whether some candidate contains it")
	}
}

// equalsTruth: the boolean value is true only when an Equals() of two raw YAML values was found true: the result of the
// interface call itself, or a result of a function of the module each of whose returns yields false, the result of such
// a call, or true from a block that is only reached on the true edge of one.
func equalsTruth(v ssa.Value, depth int) bool {
	if depth > 3 {
		return false
	}
	switch x := v.(type) {
	case *ssa.Call:
		if x.Call.IsInvoke() {
			return x.Call.Method.Name() == "Equals"
		}
		return resultEqualsTruth(staticCallee(&x.Call), 0, depth+1)
	case *ssa.Extract:
		if call, ok := x.Tuple.(*ssa.Call); ok && !call.Call.IsInvoke() {
			return resultEqualsTruth(staticCallee(&call.Call), x.Index, depth+1)
		}
	}
	return false
}

func resultEqualsTruth(f *ssa.Function, idx int, depth int) bool {
	if f == nil || !inModule(f) || len(f.Blocks) == 0 {
		return false
	}
	for _, b := range f.Blocks {
		ret, ok := b.Instrs[len(b.Instrs)-1].(*ssa.Return)
		if !ok {
			continue
		}
		if idx >= len(ret.Results) {
			return false
		}
		r := ret.Results[idx]
		if k, ok := r.(*ssa.Const); ok && k.Value != nil {
			if k.Value.String() == "false" {
				continue
			}
			if k.Value.String() == "true" {
				under := false
				for ifi, outcome := range controllingConds(b) {
					if outcome && equalsTruth(ifi.Cond, depth) {
						under = true
					}
				}
				if under {
					continue
				}
			}
			return false
		}
		if !equalsTruth(r, depth) {
			return false
		}
	}
	return true
}

// c19DuplicateVerdict: in the function that looks for duplicates in a row, the report depends on an equality test
// having succeeded and on nothing else but loops and nil tests, and the loop over the earlier values is left early
// only after such a success.
func c19DuplicateVerdict(c *Ctx, dup *ssa.Function) {
	p := c.P
	construct := FuncName(dup) + "|duplicate reported iff Equals() an earlier value"
	var reports []ssa.CallInstruction
	for _, name := range []string{"(*RuleBase).Errorf", "(*RuleBase).Error"} {
		reports = append(reports, findCalls(dup, name)...)
	}
	if len(reports) == 0 {
		c.bad(construct, dup.Pos(), "no diagnostic is emitted")
		return
	}
	heads := map[*ssa.BasicBlock]bool{}
	for _, h := range loopHeaders(dup) {
		heads[h] = true
	}
	var bad []string
	for _, rep := range reports {
		under := false
		for ifi, outcome := range controllingConds(rep.Block()) {
			switch {
			case equalsTruth(ifi.Cond, 0):
				if outcome {
					under = true
				} else {
					bad = append(bad, "the report at "+p.Pos(rep.Pos())+" is made where the equality test failed")
				}
			case heads[ifi.Block()]:
			default:
				if _, _, isNil := nilTest(ifi); isNil {
					continue
				}
				bad = append(bad, "the report at "+p.Pos(rep.Pos())+" also depends on the condition at "+p.Pos(branchPos(ifi.Block())))
			}
		}
		if !under {
			bad = append(bad, "the report at "+p.Pos(rep.Pos())+" does not depend on an equality test having succeeded")
		}
	}
	// the loop in which values are compared directly: left early only after a success
	eachInstr(dup, func(b *ssa.BasicBlock, _ int, in ssa.Instruction) {
		cv, ok := in.(*ssa.Call)
		if !ok || !cv.Call.IsInvoke() || cv.Call.Method.Name() != "Equals" {
			return
		}
		var hdr *ssa.BasicBlock
		var body map[*ssa.BasicBlock]bool
		for _, h := range loopHeaders(dup) {
			lb := naturalLoop(h)
			if lb[b] && (body == nil || len(lb) < len(body)) {
				hdr, body = h, lb
			}
		}
		if hdr == nil {
			return
		}
		for _, x := range dup.Blocks {
			if !body[x] || x == hdr {
				continue
			}
			for i, s := range x.Succs {
				if body[s] {
					continue
				}
				if _, isPanic := s.Instrs[len(s.Instrs)-1].(*ssa.Panic); isPanic {
					continue
				}
				if ifi, ok := x.Instrs[len(x.Instrs)-1].(*ssa.If); ok && ifi.Cond == ssa.Value(cv) && i == 0 {
					continue
				}
				matched := false
				for ifi, outcome := range controllingConds(x) {
					if ifi.Cond == ssa.Value(cv) && outcome {
						matched = true
					}
				}
				if !matched {
					bad = append(bad, "the loop over the earlier values is left at "+p.Pos(branchPos(x))+" without an equal value having been found")
				}
			}
		}
	})
	sort.Strings(bad)
	if len(bad) == 0 {
		c.ok(construct, reports[0].Pos(), "reported exactly where an earlier value was found equal")
	} else {
		c.bad(construct, reports[0].Pos(), strings.Join(bad, "; "))
	}
}

// failureNotReturned: "" when fn tests the error value against nil and, from the non-nil side of every such test, every
// way on leads to a return whose last result is not the nil constant, without rejoining code that the nil side also
// reaches. Otherwise what is wrong.
func failureNotReturned(p *Prog, fn *ssa.Function, errv ssa.Value) string {
	tests := 0
	for _, b := range fn.Blocks {
		v, nilSucc, ok := nilTest(b.Instrs[len(b.Instrs)-1])
		if !ok || v != errv {
			continue
		}
		tests++
		nn := b.Succs[1-nilSucc]
		if len(nn.Preds) != 1 {
			return "the failure branch of the test at " + p.Pos(branchPos(b)) + " is shared with the success path"
		}
		for blk := range reachableBlocks([]*ssa.BasicBlock{nn}, nil) {
			if blk != nn && !nn.Dominates(blk) {
				return "after the failure found at " + p.Pos(branchPos(b)) + " execution continues at " + p.Pos(blockPos(blk)) + " as if the call had succeeded"
			}
			if ret, ok := blk.Instrs[len(blk.Instrs)-1].(*ssa.Return); ok {
				if len(ret.Results) == 0 || isNilConst(returnedValue(ret, len(ret.Results)-1)) {
					return "the failure found at " + p.Pos(branchPos(b)) + " ends in the return at " + p.Pos(ret.Pos()) + " without an error"
				}
			}
		}
	}
	if tests == 0 {
		return "the error is never tested"
	}
	return ""
}

// returnedValue: result i of a return. In a function with deferred calls go/ssa keeps the results in local variables:
// the return then loads what the last store on the way to it wrote, which is looked for in the return's block and up
// the chain of its single predecessors.
func returnedValue(ret *ssa.Return, i int) ssa.Value {
	r := ret.Results[i]
	ld, ok := r.(*ssa.UnOp)
	if !ok || ld.Op != token.MUL {
		return r
	}
	al, ok := ld.X.(*ssa.Alloc)
	if !ok {
		return r
	}
	b := ret.Block()
	upto := len(b.Instrs)
	for n := 0; n < 16; n++ {
		for k := upto - 1; k >= 0; k-- {
			if st, ok := b.Instrs[k].(*ssa.Store); ok && st.Addr == ssa.Value(al) {
				return st.Val
			}
		}
		if len(b.Preds) != 1 {
			return r
		}
		b = b.Preds[0]
		upto = len(b.Instrs)
	}
	return r
}

// ---- C20.EVERYISSUE ----

func init() {
	register(&Rule{ID: "C20.EVERYISSUE", Min: 5, Doc: "every issue in the output of a tool is turned into a diagnostic: the loops that report issues stop early only with a fatal error, what a one-issue parser leaves over is parsed again, and the diagnostics are placed at the run: key of the step", Run: runC20EveryIssue})
}

func runC20EveryIssue(c *Ctx) {
	p := c.P
	for _, rule := range []string{"RuleShellcheck", "RulePyflakes"} {
		// the callbacks that receive the output of the tool: function literals (output, error) in methods of the rule
		var cbs []*ssa.Function
		for _, fn := range p.Funcs {
			par := fn.Parent()
			if par == nil || par.Signature.Recv() == nil || pointeeName(par.Signature.Recv().Type()) != rule {
				continue
			}
			if len(fn.Params) == 2 && typeStr(fn.Params[0].Type()) == "[]byte" && typeStr(fn.Params[1].Type()) == "error" {
				cbs = append(cbs, fn)
			}
		}
		if len(cbs) == 0 {
			c.anchorMissing("callback of " + rule)
			continue
		}
		scope := map[*ssa.Function]bool{}
		for fn := range p.reachable(cbs...) {
			if inPkg(fn, p.SPkg) && fn.Blocks != nil {
				scope[fn] = true
			}
		}
		// functions of the scope from which a diagnostic is emitted
		reports := map[*ssa.Function]bool{}
		for fn := range scope {
			for g := range p.reachable(fn) {
				if scope[g] && len(findCalls(g, "(*RuleBase).Errorf"))+len(findCalls(g, "(*RuleBase).Error")) > 0 {
					reports[fn] = true
				}
			}
		}
		var fns []*ssa.Function
		for fn := range scope {
			if reports[fn] {
				fns = append(fns, fn)
			}
		}
		sort.Slice(fns, func(i, j int) bool { return FuncName(fns[i]) < FuncName(fns[j]) })
		nLoops := 0
		for _, fn := range fns {
			var reporting []ssa.CallInstruction
			eachInstr(fn, func(_ *ssa.BasicBlock, _ int, in ssa.Instruction) {
				call, ok := in.(ssa.CallInstruction)
				if !ok {
					return
				}
				g := staticCallee(call.Common())
				if g == nil {
					return
				}
				switch n := FuncName(g); {
				case n == "(*RuleBase).Errorf" || n == "(*RuleBase).Error":
					reporting = append(reporting, call)
				case scope[g] && reports[g] && g != fn:
					reporting = append(reporting, call)
				}
			})
			// (b) the loops in which issues are reported
			done := map[*ssa.BasicBlock]bool{}
			for _, e := range reporting {
				for _, h := range loopHeaders(fn) {
					if done[h] || !h.Dominates(e.Block()) {
						continue
					}
					body := naturalLoop(h)
					if !body[e.Block()] {
						// behind the regular end of the loop?
						behind := false
						for _, s := range h.Succs {
							if !body[s] && (s == e.Block() || s.Dominates(e.Block())) {
								behind = true
							}
						}
						if behind {
							continue
						}
					}
					done[h] = true
					nLoops++
					construct := fmt.Sprintf("%s|loop over the issues#%d", FuncName(fn), len(done))
					var bad []string
					for _, b := range fn.Blocks {
						if !body[b] || b == h {
							continue
						}
						for _, s := range b.Succs {
							if body[s] {
								continue
							}
							switch last := s.Instrs[len(s.Instrs)-1].(type) {
							case *ssa.Panic:
								continue
							case *ssa.Return:
								if n := len(last.Results); n > 0 && typeStr(last.Results[n-1].Type()) == "error" && !isNilConst(returnedValue(last, n-1)) {
									continue // stops with a fatal error
								}
							}
							bad = append(bad, "left at "+p.Pos(branchPos(b))+" without an error")
						}
					}
					sort.Strings(bad)
					if len(bad) == 0 {
						c.ok(construct, blockPos(h), "the loop is left before its end only by returning an error")
					} else {
						c.bad(construct, blockPos(h), "the loop in which issues of the tool are reported is "+strings.Join(bad, "; ")+": the issues behind that point are dropped silently")
					}
				}
			}
			// (c) a parser of one issue that hands back the rest of the output is applied to that rest again
			for _, e := range reporting {
				cv, ok := e.(*ssa.Call)
				if !ok {
					continue
				}
				g := staticCallee(&cv.Call)
				if g == nil || !scope[g] {
					continue
				}
				res := g.Signature.Results()
				ri := -1
				for i := 0; i < res.Len(); i++ {
					if typeStr(res.At(i).Type()) == "[]byte" {
						ri = i
					}
				}
				ai := -1
				for i, a := range cv.Call.Args {
					if typeStr(a.Type()) == "[]byte" {
						ai = i
					}
				}
				if ri < 0 || ai < 0 {
					continue
				}
				construct := FuncName(fn) + "|rest of the output after " + g.Name()
				fedBack := false
				for _, lf := range phiLeaves(cv.Call.Args[ai]) {
					switch x := lf.(type) {
					case *ssa.Extract:
						if x.Tuple == ssa.Value(cv) && x.Index == ri {
							fedBack = true
						}
					case *ssa.Call:
						if x == cv && res.Len() == 1 {
							fedBack = true
						}
					}
				}
				if fedBack {
					c.ok(construct, cv.Pos(), "what the parser leaves over is handed to it again")
				} else {
					c.bad(construct, cv.Pos(), "the output that "+g.Name()+" hands back after one issue is not parsed again: only the first issue of a script becomes a diagnostic")
				}
			}
		}
		if nLoops == 0 {
			c.bad("(*"+rule+")|loop over the issues", cbs[0].Pos(), "no loop reports the issues of the tool: at most one issue per script can become a diagnostic")
		}
		// (d) the diagnostics are reported at the run: key of the step whose script was checked
		occ := 0
		for _, fn := range fns {
			for _, name := range []string{"(*RuleBase).Errorf", "(*RuleBase).Error"} {
				for _, e := range findCalls(fn, name) {
					occ++
					construct := fmt.Sprintf("(*%s)|issue reported at the run: key#%d", rule, occ)
					roots := map[string]bool{}
					valueRoots(p, e.Common().Args[1], 0, map[ssa.Value]bool{}, roots)
					var other []string
					for r := range roots {
						if r != "ExecRun.RunPos" {
							other = append(other, r)
						}
					}
					sort.Strings(other)
					if len(other) == 0 && len(roots) > 0 {
						c.ok(construct, e.Pos(), "the position of the diagnostic is ExecRun.RunPos of the step")
					} else {
						c.bad(construct, e.Pos(), "the position of the diagnostic comes from "+strings.Join(other, ", ")+" instead of the position of the step's run: key")
					}
				}
			}
		}
	}
}

// ---- C20.ONCE: every run step reaches the tool ----

// stepCondJudge decides whether a condition on the way from VisitStep to the start of the tool is about the kind of
// the step and its shell only. Anything else (the text of the script, other attributes of the step, the job, global
// state) makes "which scripts are checked" depend on more than the property allows.
type stepCondJudge struct {
	p     *Prog
	rule  string
	sites map[*ssa.Function][]ssa.CallInstruction // the call sites on the chain, by callee
	seen  map[ssa.Value]bool
}

// foreign: what the value depends on besides the step kind and the shell ("" when nothing).
func (j *stepCondJudge) foreign(v ssa.Value, nilTested ssa.Value, depth int) string {
	if v == nil || j.seen[v] {
		return ""
	}
	j.seen[v] = true
	if depth > 14 {
		return "a value computed too deep to follow"
	}
	switch x := v.(type) {
	case *ssa.Const, *ssa.Function, *ssa.Builtin:
		return ""
	case *ssa.Global:
		return "the package variable " + x.Name()
	case *ssa.FreeVar:
		return "the captured variable " + x.Name()
	case *ssa.Parameter:
		fn := x.Parent()
		if FuncName(fn) == "(*"+j.rule+").VisitStep" {
			return ""
		}
		idx := -1
		for i, q := range fn.Params {
			if q == x {
				idx = i
			}
		}
		sites := j.sites[fn]
		if len(sites) == 0 || idx < 0 {
			return "the parameter " + x.Name() + " of " + fn.Name()
		}
		for _, s := range sites {
			args := s.Common().Args
			if idx >= len(args) {
				return "the parameter " + x.Name() + " of " + fn.Name()
			}
			if why := j.foreign(args[idx], nil, depth+1); why != "" {
				return why
			}
		}
		return ""
	case *ssa.UnOp:
		if x.Op == token.MUL {
			if fa, ok := x.X.(*ssa.FieldAddr); ok {
				if why := j.fieldForeign(fieldAddrName(fa), fa.X, v == nilTested); why != "" {
					return why
				}
				return j.foreign(fa.X, nil, depth+1)
			}
			if al, ok := x.X.(*ssa.Alloc); ok {
				// a local variable: what was stored into it
				for _, ref := range *al.Referrers() {
					if st, ok := ref.(*ssa.Store); ok && st.Addr == ssa.Value(al) {
						if why := j.foreign(st.Val, nil, depth+1); why != "" {
							return why
						}
					}
				}
				return ""
			}
		}
		return j.foreign(x.X, nil, depth+1)
	case *ssa.Field:
		f, base := fieldLoad(x)
		if why := j.fieldForeign(f, base, false); why != "" {
			return why
		}
		return j.foreign(x.X, nil, depth+1)
	case *ssa.Call:
		for _, a := range x.Call.Args {
			if why := j.foreign(a, nil, depth+1); why != "" {
				return why
			}
		}
		if x.Call.IsInvoke() {
			return j.foreign(x.Call.Value, nil, depth+1)
		}
		g := staticCallee(&x.Call)
		if g == nil {
			return "the result of a call through a function value at " + j.p.Pos(x.Pos())
		}
		if !inModule(g) || g.Blocks == nil {
			return ""
		}
		// what the function reads besides its arguments
		for h := range j.p.reachable(g) {
			if !inModule(h) || h.Blocks == nil {
				continue
			}
			why := ""
			eachInstr(h, func(_ *ssa.BasicBlock, _ int, in ssa.Instruction) {
				switch y := in.(type) {
				case *ssa.FieldAddr:
					if w := j.fieldForeign(fieldAddrName(y), y.X, true); w != "" && why == "" {
						why = w + " (read in " + h.Name() + ")"
					}
				case *ssa.UnOp:
					if gl, ok := y.X.(*ssa.Global); ok && y.Op == token.MUL && why == "" {
						if _, isFn := gl.Type().Underlying().(*types.Pointer).Elem().Underlying().(*types.Signature); !isFn {
							why = "the package variable " + gl.Name() + " (read in " + h.Name() + ")"
						}
					}
				}
			})
			if why != "" {
				return why
			}
		}
		return ""
	case ssa.Instruction:
		for _, op := range x.Operands(nil) {
			if *op == nil {
				continue
			}
			if why := j.foreign(*op, nil, depth+1); why != "" {
				return why
			}
		}
	}
	return ""
}

// fieldForeign: reading field f (named Type.field) of base says something beyond step kind and shell. presenceOnly:
// the read is only a test for nil, or happens inside a function whose arguments were judged already.
func (j *stepCondJudge) fieldForeign(f string, base ssa.Value, presenceOnly bool) string {
	owner := f
	if i := strings.Index(f, "."); i >= 0 {
		owner = f[:i]
	}
	switch {
	case f == "Step.Exec", f == "ExecRun.Shell":
		return ""
	case f == "ExecRun.Run":
		if presenceOnly {
			return ""
		}
		return "the script of the step (ExecRun.Run)"
	case owner == j.rule, owner == "RuleBase":
		return ""
	case owner == "String":
		// the text of a scalar: of the shell when it is read from ExecRun.Shell or inside a function judged by its arguments
		if presenceOnly {
			return ""
		}
		if bf, _ := fieldLoad(base); bf == "ExecRun.Shell" {
			return ""
		}
		bf, _ := fieldLoad(base)
		if bf == "" {
			bf = "a scalar"
		}
		return "the text of " + bf
	case owner == "Step", owner == "ExecRun", owner == "ExecAction", owner == "Job", owner == "Workflow":
		return "the field " + f
	}
	if presenceOnly {
		return ""
	}
	return "the field " + f
}

// c20EveryRunStep: every condition under which a call on the chain from VisitStep to the start of the tool is made
// depends on the kind of the step and its shell only.
func c20EveryRunStep(c *Ctx, rule string, vs *ssa.Function) {
	p := c.P
	construct := "(*" + rule + ").VisitStep|every run step of its shell reaches the tool"
	// the chain
	sites := map[*ssa.Function][]ssa.CallInstruction{}
	var chain []ssa.CallInstruction
	seen := map[*ssa.Function]bool{}
	var visit func(fn *ssa.Function, depth int)
	visit = func(fn *ssa.Function, depth int) {
		if seen[fn] || fn.Blocks == nil || depth > 5 {
			return
		}
		seen[fn] = true
		eachInstr(fn, func(_ *ssa.BasicBlock, _ int, in ssa.Instruction) {
			call, ok := in.(ssa.CallInstruction)
			if !ok {
				return
			}
			g := staticCallee(call.Common())
			if g == nil || !inPkgName(g) {
				return
			}
			isRun := FuncName(g) == "(*externalCommand).run"
			if !isRun && !reachesRun(p, g) {
				return
			}
			chain = append(chain, call)
			sites[g] = append(sites[g], call)
			if !isRun {
				visit(g, depth+1)
			}
		})
	}
	visit(vs, 0)
	if len(chain) == 0 {
		return // reported by the at-most-once clause
	}
	var bad []string
	for _, call := range chain {
		for ifi, outcome := range controllingConds(call.Block()) {
			_ = outcome
			j := &stepCondJudge{p: p, rule: rule, sites: sites, seen: map[ssa.Value]bool{}}
			var nilTested ssa.Value
			if v, _, ok := nilTest(ifi); ok {
				nilTested = v
			}
			var why string
			if nilTested != nil {
				why = j.foreign(nilTested, nilTested, 0)
			} else {
				why = j.foreign(ifi.Cond, nil, 0)
			}
			if why != "" {
				bad = append(bad, "the call at "+p.Pos(call.Pos())+" depends on "+why+" (condition at "+p.Pos(branchPos(ifi.Block()))+")")
			}
		}
	}
	sort.Strings(bad)
	if len(bad) == 0 {
		c.ok(construct, vs.Pos(), "the calls leading to the tool depend on the kind of the step and on its shell only")
	} else {
		c.bad(construct, vs.Pos(), strings.Join(bad, "; ")+": some run: scripts of a checked shell are never passed to the tool")
	}
}

// valueRoots: where a value handed down through parameters and captured variables comes from: the fields it is loaded
// from at the outermost callers ("Type.field"), or a description of anything else.
func valueRoots(p *Prog, v ssa.Value, depth int, seen map[ssa.Value]bool, out map[string]bool) {
	if seen[v] {
		return
	}
	seen[v] = true
	if depth > 10 {
		out["a value handed down too deep to follow"] = true
		return
	}
	if f, _ := fieldLoad(v); f != "" {
		out[f] = true
		return
	}
	switch x := v.(type) {
	case *ssa.Phi:
		for _, e := range x.Edges {
			valueRoots(p, e, depth+1, seen, out)
		}
	case *ssa.FreeVar, *ssa.UnOp:
		if r := resolveCapture(v); r != v {
			valueRoots(p, r, depth+1, seen, out)
			return
		}
		out[symName(v)] = true
	case *ssa.Parameter:
		fn := x.Parent()
		idx := -1
		for i, q := range fn.Params {
			if q == x {
				idx = i
			}
		}
		n := 0
		for _, e := range p.callersOf(fn) {
			if e.Site == nil || e.Site.Common().IsInvoke() || idx < 0 || idx >= len(e.Site.Common().Args) {
				continue
			}
			n++
			valueRoots(p, e.Site.Common().Args[idx], depth+1, seen, out)
		}
		if n == 0 {
			out["the parameter "+x.Name()+" of "+fn.Name()] = true
		}
	default:
		out[symName(v)] = true
	}
}
