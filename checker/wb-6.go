package main

import (
	"go/token"

	"golang.org/x/tools/go/ssa"
)

// searchLoopLeaks: the ways a loop of a search function is left before its header found the sequence exhausted, other
// than by returning a positive answer. A positive answer is a return whose first result is a fresh object, the constant
// true, or a value that a condition controlling the return block found non-nil / true. Every other edge that leaves a
// loop from a block that is not its header (break, return nil, return false, a second condition in the loop header)
// skips the remaining elements without having found anything.
func searchLoopLeaks(p *Prog, fn *ssa.Function) []string {
	var out []string
	for _, h := range loopHeaders(fn) {
		body := naturalLoop(h)
		for _, b := range fn.Blocks {
			if !body[b] || b == h {
				continue
			}
			for _, s := range b.Succs {
				if body[s] {
					continue
				}
				if why := notPositiveExit(s); why != "" {
					pos := branchPos(b)
					out = append(out, why+" (left at "+p.Pos(pos)+")")
				}
			}
		}
	}
	return out
}

// notPositiveExit: "" when the block ends the function with a positive answer (or a panic).
func notPositiveExit(s *ssa.BasicBlock) string {
	switch last := s.Instrs[len(s.Instrs)-1].(type) {
	case *ssa.Panic:
		return ""
	case *ssa.Return:
		if len(last.Results) == 0 {
			return "the loop is left by a return without an answer"
		}
		r := last.Results[0]
		if isNilConst(r) {
			return "the loop is left by returning nil"
		}
		if k, ok := r.(*ssa.Const); ok {
			if k.Value != nil && k.Value.String() == "true" {
				return ""
			}
			return "the loop is left by returning " + k.String()
		}
		if _, ok := r.(*ssa.Alloc); ok {
			return ""
		}
		for ifi, outcome := range controllingConds(s) {
			if v, nilSucc, ok := nilTest(ifi); ok && v == r && (nilSucc == 0) != outcome {
				return ""
			}
			if ifi.Cond == r && outcome {
				return ""
			}
		}
		return "the loop is left by returning a value that was not found to be a positive answer"
	}
	return "the loop is left without returning an answer"
}

// earlyExitsAround: the edges that leave a loop containing blk from a block other than the loop's header (break, return,
// goto, a second condition of the loop header), described by the position of the branch. Panics do not count.
func earlyExitsAround(p *Prog, blk *ssa.BasicBlock) []string {
	var out []string
	fn := blk.Parent()
	for _, h := range loopHeaders(fn) {
		body := naturalLoop(h)
		if !body[blk] {
			continue
		}
		for _, b := range fn.Blocks {
			if !body[b] || b == h {
				continue
			}
			for _, s := range b.Succs {
				if body[s] {
					continue
				}
				if _, isPanic := s.Instrs[len(s.Instrs)-1].(*ssa.Panic); isPanic {
					continue
				}
				out = append(out, "the loop is left at "+p.Pos(branchPos(b)))
			}
		}
	}
	return out
}

// branchPos: a source position for the branch that ends b.
func branchPos(b *ssa.BasicBlock) token.Pos {
	last := b.Instrs[len(b.Instrs)-1]
	if last.Pos().IsValid() {
		return last.Pos()
	}
	if ifi, ok := last.(*ssa.If); ok {
		if in, ok := ifi.Cond.(ssa.Instruction); ok && in.Pos().IsValid() {
			return in.Pos()
		}
	}
	for i := len(b.Instrs) - 1; i >= 0; i-- {
		if b.Instrs[i].Pos().IsValid() {
			return b.Instrs[i].Pos()
		}
	}
	return token.NoPos
}
