package main

import (
	"fmt"
	"go/ast"
	"go/constant"
	"go/token"
	"go/types"
	"sort"
	"strings"

	"golang.org/x/tools/go/ssa"
)

func init() {
	register(&Rule{ID: "C12.TBL", Min: 300, Doc: "the availability switch, SpecialFunctionNames and allWorkflowKeys agree in both directions; entries are lower-case and name real contexts", Run: runC12Tbl})
	register(&Rule{ID: "C12.KEYS", Min: 40, Doc: "every workflow key that can reach WorkflowKeyAvailability is \"\" or a key of the table, and every table key is used", Run: runC12Keys})
	register(&Rule{ID: "C12.MAP", Min: 100, Doc: "each AST field is checked with the table key of its own YAML path, also the fields a helper checks with a key it forwards or computes", Run: runC12Map})
	register(&Rule{ID: "C12.CASE", Min: 3, Doc: "names are lower-cased before they are compared with the availability lists", Run: runC12Case})
}

type availEntry struct {
	ctx, fns []string
	pos      token.Pos
}

// availabilityTable extracts the switch of WorkflowKeyAvailability.
func availabilityTable(p *Prog) (map[string]availEntry, bool) {
	if m, ok := p.memo("availTable").(map[string]availEntry); ok {
		return m, true
	}
	info := p.info()
	var decl *ast.FuncDecl
	p.FuncDecls(func(_ *ast.File, d *ast.FuncDecl) {
		if d.Name.Name == "WorkflowKeyAvailability" && d.Recv == nil {
			decl = d
		}
	})
	if decl == nil {
		return nil, false
	}
	tbl := map[string]availEntry{}
	okAll := true
	ast.Inspect(decl.Body, func(n ast.Node) bool {
		sw, ok := n.(*ast.SwitchStmt)
		if !ok {
			return true
		}
		for _, s := range sw.Body.List {
			cc := s.(*ast.CaseClause)
			if cc.List == nil {
				continue
			}
			if len(cc.Body) != 1 {
				okAll = false
				continue
			}
			ret, ok := cc.Body[0].(*ast.ReturnStmt)
			if !ok || len(ret.Results) != 2 {
				okAll = false
				continue
			}
			lits := func(e ast.Expr) []string {
				cl, ok := e.(*ast.CompositeLit)
				if !ok {
					okAll = false
					return nil
				}
				var out []string
				for _, el := range cl.Elts {
					if tv := info.Types[el]; tv.Value != nil && tv.Value.Kind() == constant.String {
						out = append(out, constant.StringVal(tv.Value))
					} else {
						okAll = false
					}
				}
				return out
			}
			e := availEntry{lits(ret.Results[0]), lits(ret.Results[1]), cc.Pos()}
			for _, k := range cc.List {
				if tv := info.Types[k]; tv.Value != nil && tv.Value.Kind() == constant.String {
					tbl[constant.StringVal(tv.Value)] = e
				} else {
					okAll = false
				}
			}
		}
		return false
	})
	if !okAll || len(tbl) == 0 {
		return nil, false
	}
	p.setMemo("availTable", tbl)
	return tbl, true
}

// globalStringTable reads a package-level map[string][]string or []string composite literal.
func globalStringTable(p *Prog, name string) (map[string][]string, []string, bool) {
	info := p.info()
	for _, f := range p.Main.Syntax {
		for _, d := range f.Decls {
			gd, ok := d.(*ast.GenDecl)
			if !ok || gd.Tok != token.VAR {
				continue
			}
			for _, sp := range gd.Specs {
				vs := sp.(*ast.ValueSpec)
				for i, n := range vs.Names {
					if n.Name != name || i >= len(vs.Values) {
						continue
					}
					cl, ok := vs.Values[i].(*ast.CompositeLit)
					if !ok {
						return nil, nil, false
					}
					str := func(e ast.Expr) (string, bool) {
						tv := info.Types[e]
						if tv.Value != nil && tv.Value.Kind() == constant.String {
							return constant.StringVal(tv.Value), true
						}
						return "", false
					}
					m := map[string][]string{}
					var list []string
					for _, el := range cl.Elts {
						if kv, ok := el.(*ast.KeyValueExpr); ok {
							k, ok1 := str(kv.Key)
							vl, ok2 := kv.Value.(*ast.CompositeLit)
							if !ok1 || !ok2 {
								return nil, nil, false
							}
							for _, e2 := range vl.Elts {
								s, ok := str(e2)
								if !ok {
									return nil, nil, false
								}
								m[k] = append(m[k], s)
							}
							if len(vl.Elts) == 0 {
								m[k] = nil
							}
						} else {
							s, ok := str(el)
							if !ok {
								return nil, nil, false
							}
							list = append(list, s)
						}
					}
					return m, list, true
				}
			}
		}
	}
	return nil, nil, false
}

func runC12Tbl(c *Ctx) {
	p := c.P
	tbl, ok := availabilityTable(p)
	if !ok {
		c.anchorMissing("switch of WorkflowKeyAvailability")
		return
	}
	sp, _, ok1 := globalStringTable(p, "SpecialFunctionNames")
	_, all, ok2 := globalStringTable(p, "allWorkflowKeys")
	if !ok1 || !ok2 {
		c.anchorMissing("SpecialFunctionNames / allWorkflowKeys literals")
		return
	}
	// contexts that exist
	ctxs := map[string]bool{"jobs": true}
	if init := p.SPkg.Func("init"); init != nil {
		g := p.Global("BuiltinGlobalVariableTypes")
		eachInstr(init, func(_ *ssa.BasicBlock, _ int, in ssa.Instruction) {
			if mu, ok := in.(*ssa.MapUpdate); ok {
				// the literal assigned to the global: find the MakeMap stored into it
				if mm, ok := mu.Map.(*ssa.MakeMap); ok {
					for _, ref := range *mm.Referrers() {
						if st, ok := ref.(*ssa.Store); ok && st.Addr == g {
							if k, ok := constString(mu.Key); ok {
								ctxs[k] = true
							}
						}
					}
				}
			}
		})
	}
	if len(ctxs) < 8 {
		c.anchorMissing("keys of BuiltinGlobalVariableTypes")
		return
	}
	allSet := map[string]bool{}
	for _, k := range all {
		allSet[k] = true
	}
	for _, key := range sortedKeys(tbl) {
		e := tbl[key]
		if !allSet[key] {
			c.bad("key "+key+"|listed in allWorkflowKeys", e.pos, "the switch has a case for a key that allWorkflowKeys does not list")
		}
		if key != strings.ToLower(key) {
			c.bad("key "+key+"|lower-case", e.pos, "table key is not lower-case")
		}
		for _, cx := range e.ctx {
			construct := fmt.Sprintf("(%s, context %s)", key, cx)
			switch {
			case cx != strings.ToLower(cx):
				c.bad(construct, e.pos, "context name in the table is not lower-case: it can never equal the lower-cased name in an expression")
			case !ctxs[cx]:
				c.bad(construct, e.pos, "the table allows a context that does not exist in BuiltinGlobalVariableTypes")
			default:
				c.ok(construct, e.pos, "allowed; context exists")
			}
		}
		// special functions: both directions
		fset := map[string]bool{}
		for _, f := range e.fns {
			fset[f] = true
		}
		for _, f := range sortedKeys(sp) {
			construct := fmt.Sprintf("(%s, function %s)", key, f)
			listed := false
			for _, k2 := range sp[f] {
				if k2 == key {
					listed = true
				}
			}
			switch {
			case fset[f] && !listed:
				c.bad(construct, e.pos, "the switch allows the function at this key but SpecialFunctionNames does not list the key (the error message's hint is wrong and the two tables disagree)")
			case !fset[f] && listed:
				c.bad(construct, e.pos, "SpecialFunctionNames lists this key for the function but the switch does not allow it")
			default:
				c.ok(construct, e.pos, fmt.Sprintf("both tables agree (allowed=%v)", fset[f]))
			}
		}
		for f := range fset {
			if _, ok := sp[f]; !ok {
				c.bad(fmt.Sprintf("(%s, function %s)", key, f), e.pos, "the switch allows a function that is not a key of SpecialFunctionNames: it is not treated as special at all")
			}
		}
	}
	for _, k := range all {
		if _, ok := tbl[k]; !ok {
			c.bad("key "+k+"|has a case", 0, "allWorkflowKeys lists a key that the switch does not handle (no context allowed there)")
		}
	}
	for f, keys := range sp {
		if f != strings.ToLower(f) {
			c.bad("function "+f+"|lower-case", 0, "special function name is not lower-case")
		}
		for _, k := range keys {
			if _, ok := tbl[k]; !ok {
				c.bad(fmt.Sprintf("(%s, function %s)", k, f), 0, "SpecialFunctionNames names a key that is not in the table")
			}
		}
	}
}

// strSet evaluates the set of constant strings an SSA value can take (through phis, concatenation and
// parameters bound at all call sites). ok=false when some contribution is not a constant.
func strSet(p *Prog, v ssa.Value, depth int, seen map[ssa.Value]bool) (map[string]bool, bool) {
	out := map[string]bool{}
	if depth > 16 {
		return nil, false
	}
	if seen[v] {
		return out, true
	}
	seen[v] = true
	defer delete(seen, v)
	switch x := v.(type) {
	case *ssa.Const:
		if s, ok := constString(x); ok {
			out[s] = true
			return out, true
		}
		return nil, false
	case *ssa.Phi:
		for _, e := range x.Edges {
			s, ok := strSet(p, e, depth+1, seen)
			if !ok {
				return nil, false
			}
			for k := range s {
				out[k] = true
			}
		}
		return out, true
	case *ssa.BinOp:
		if x.Op != token.ADD {
			return nil, false
		}
		a, ok1 := strSet(p, x.X, depth+1, seen)
		b, ok2 := strSet(p, x.Y, depth+1, seen)
		if !ok1 || !ok2 || len(a)*len(b) > 400 {
			return nil, false
		}
		for s := range a {
			for t := range b {
				out[s+t] = true
			}
		}
		return out, true
	case *ssa.Parameter:
		fn := x.Parent()
		idx := -1
		for i, q := range fn.Params {
			if q == x {
				idx = i
			}
		}
		n := 0
		for _, e := range p.callersOf(fn) {
			if e.Site == nil || e.Site.Common().IsInvoke() || idx >= len(e.Site.Common().Args) {
				return nil, false
			}
			n++
			s, ok := strSet(p, e.Site.Common().Args[idx], depth+1, seen)
			if !ok {
				return nil, false
			}
			for k := range s {
				out[k] = true
			}
		}
		return out, n > 0
	}
	return nil, false
}

func runC12Keys(c *Ctx) {
	p := c.P
	tbl, ok := availabilityTable(p)
	if !ok {
		c.anchorMissing("switch of WorkflowKeyAvailability")
		return
	}
	wka := p.Func("WorkflowKeyAvailability")
	if wka == nil {
		c.anchorMissing("WorkflowKeyAvailability")
		return
	}
	used := map[string]bool{}
	// every call site that passes a workflow key: the parameters that are handed on, unchanged, to WorkflowKeyAvailability
	// (found by use, not by the name workflowKey)
	keyRole := p.roleParams(wka.Params[0])
	occ := map[string]int{}
	for _, fn := range p.Funcs {
		eachInstr(fn, func(_ *ssa.BasicBlock, _ int, in ssa.Instruction) {
			call, ok := in.(ssa.CallInstruction)
			if !ok {
				return
			}
			g := staticCallee(call.Common())
			if g == nil || !inModule(g) {
				return
			}
			var idxs []int
			idxs = paramIndexIn(g, keyRole)
			for _, i := range idxs {
				if i >= len(call.Common().Args) {
					continue
				}
				arg := call.Common().Args[i]
				if _, isParam := arg.(*ssa.Parameter); isParam {
					continue // forwarded unchanged: evaluated at the outer call sites
				}
				set, ok := strSetPerCaller(p, fn, arg)
				k := FuncName(fn) + "|key passed to " + FuncName(g)
				occ[k]++
				construct := fmt.Sprintf("%s#%d", k, occ[k])
				if !ok {
					c.undecided(construct, call.Pos(), "the workflow key is not a compile-time constant (or built from constants)")
					continue
				}
				var bad []string
				for s := range set {
					used[s] = true
					if s == "" {
						continue
					}
					if _, ok := tbl[s]; !ok {
						bad = append(bad, fmt.Sprintf("%q", s))
					}
				}
				sort.Strings(bad)
				if len(bad) > 0 {
					c.bad(construct, call.Pos(), "passes workflow key "+strings.Join(bad, ", ")+" which is not a key of the availability table: every context used there is reported as not allowed")
				} else {
					c.ok(construct, call.Pos(), "keys: "+strings.Join(quoteAll(sortedKeys(set)), ", "))
				}
			}
		})
	}
	for _, k := range sortedKeys(tbl) {
		if used[k] {
			c.ok("table key "+k+"|used", tbl[k].pos, "passed by at least one call site")
		} else if pk := expectedKey(tbl, k[:strings.LastIndex(k, ".")+0]); pk != "" && pk != k && used[pk] && sameAvail(tbl, pk, k) {
			c.ok("table key "+k+"|used", tbl[k].pos, "not passed itself, but its parent key "+pk+" with identical availability is")
		} else {
			c.bad("table key "+k+"|used", tbl[k].pos, "no call site ever passes this key: the values at this workflow key are checked with another key's availability")
		}
	}
}

func quoteAll(ss []string) []string {
	out := make([]string, len(ss))
	for i, s := range ss {
		out[i] = fmt.Sprintf("%q", s)
	}
	return out
}

// fieldYAMLPath: the YAML path of AST fields as laid out by GitHub's workflow syntax (domain table).
// <id> segments are written as in GitHub's availability table.
var fieldYAMLPath = map[string]string{
	"Workflow.Name": "name", "Workflow.RunName": "run-name", "Workflow.Env": "env", "Workflow.Defaults": "defaults", "Workflow.Concurrency": "concurrency",
	"Job.Name": "jobs.<job_id>.name", "Job.Needs": "jobs.<job_id>.needs", "Job.Env": "jobs.<job_id>.env", "Job.Defaults": "jobs.<job_id>.defaults.run",
	"Job.If": "jobs.<job_id>.if", "Job.Concurrency": "jobs.<job_id>.concurrency", "Job.ContinueOnError": "jobs.<job_id>.continue-on-error",
	"Job.TimeoutMinutes": "jobs.<job_id>.timeout-minutes", "Job.Container": "jobs.<job_id>.container",
	"Runner.LabelsExpr": "jobs.<job_id>.runs-on", "Runner.Labels": "jobs.<job_id>.runs-on", "Runner.Group": "jobs.<job_id>.runs-on.group",
	"Services.Expression": "jobs.<job_id>.services", "Service.Container": "jobs.<job_id>.services.<service_id>",
	"Strategy.FailFast": "jobs.<job_id>.strategy.fail-fast", "Strategy.MaxParallel": "jobs.<job_id>.strategy.max-parallel",
	"Matrix.Expression": "jobs.<job_id>.strategy.matrix", "MatrixCombinations.Expression": "jobs.<job_id>.strategy.matrix.include", "MatrixCombination.Expression": "jobs.<job_id>.strategy.matrix.include",
	"MatrixRow.Expression": "jobs.<job_id>.strategy.matrix.<row>", "RawYAMLString.Value": "jobs.<job_id>.strategy.matrix.<row>",
	"Environment.Name": "jobs.<job_id>.environment", "Environment.URL": "jobs.<job_id>.environment.url",
	"Output.Value": "jobs.<job_id>.outputs.<output_id>",
	"Step.Name":    "jobs.<job_id>.steps.name", "Step.If": "jobs.<job_id>.steps.if", "Step.Env": "jobs.<job_id>.steps.env", "Step.ID": "jobs.<job_id>.steps.id",
	"Step.ContinueOnError": "jobs.<job_id>.steps.continue-on-error", "Step.TimeoutMinutes": "jobs.<job_id>.steps.timeout-minutes",
	"ExecRun.Run": "jobs.<job_id>.steps.run", "ExecRun.Shell": "jobs.<job_id>.steps.shell", "ExecRun.WorkingDirectory": "jobs.<job_id>.steps.working-directory",
	"ExecAction.Uses": "jobs.<job_id>.steps.uses", "Input.Value": "jobs.<job_id>.steps.with.<with_id>", "ExecAction.Entrypoint": "jobs.<job_id>.steps.with.entrypoint", "ExecAction.Args": "jobs.<job_id>.steps.with.args",
	"WorkflowCall.Uses": "jobs.<job_id>.uses", "WorkflowCallInput.Value": "jobs.<job_id>.with.<with_id>", "WorkflowCallSecret.Value": "jobs.<job_id>.secrets.<secrets_id>",
	"WorkflowCallEventInput.Default": "on.workflow_call.inputs.<inputs_id>.default", "WorkflowCallEventInput.Description": "on.workflow_call.inputs.<inputs_id>.description",
	"WorkflowCallEventInput.Required": "on.workflow_call.inputs.<inputs_id>.required",
	"WorkflowCallEventOutput.Value":   "on.workflow_call.outputs.<output_id>.value", "WorkflowCallEventOutput.Description": "on.workflow_call.outputs.<output_id>.description",
	"WorkflowCallEventSecret.Description": "on.workflow_call.secrets.<secret_id>.description", "WorkflowCallEventSecret.Required": "on.workflow_call.secrets.<secret_id>.required",
	"DispatchInput.Description": "on.workflow_dispatch.inputs.<input_id>.description", "DispatchInput.Default": "on.workflow_dispatch.inputs.<input_id>.default",
	"DispatchInput.Required": "on.workflow_dispatch.inputs.<input_id>.required", "DispatchInput.Options": "on.workflow_dispatch.inputs.<input_id>.options",
	"WebhookEvent.Types": "on.<event>.types", "WebhookEvent.Workflows": "on.<event>.workflows", "WebhookEvent.Branches": "on.<event>.branches", "WebhookEvent.BranchesIgnore": "on.<event>.branches-ignore",
	"WebhookEvent.Tags": "on.<event>.tags", "WebhookEvent.TagsIgnore": "on.<event>.tags-ignore", "WebhookEvent.Paths": "on.<event>.paths", "WebhookEvent.PathsIgnore": "on.<event>.paths-ignore",
	"ScheduledEvent.Cron": "on.schedule.cron", "RepositoryDispatchEvent.Types": "on.repository_dispatch.types",
}

// expectedKey: the table key governing a YAML path = the longest table key that is a prefix of it ("" if none).
func expectedKey(tbl map[string]availEntry, path string) string {
	best := ""
	for k := range tbl {
		if (path == k || strings.HasPrefix(path, k+".")) && len(k) > len(best) {
			best = k
		}
	}
	return best
}

func sameAvail(tbl map[string]availEntry, a, b string) bool {
	if a == b {
		return true
	}
	ea, oka := tbl[a]
	eb, okb := tbl[b]
	if !oka || !okb {
		return false
	}
	return strings.Join(ea.ctx, ",") == strings.Join(eb.ctx, ",") && strings.Join(ea.fns, ",") == strings.Join(eb.fns, ",")
}

func runC12Map(c *Ctx) {
	p := c.P
	tbl, ok := availabilityTable(p)
	if !ok {
		c.anchorMissing("switch of WorkflowKeyAvailability")
		return
	}
	occ := map[string]int{}
	var keyRole map[*ssa.Parameter]bool
	if wka := p.Func("WorkflowKeyAvailability"); wka != nil {
		keyRole = p.roleParams(wka.Params[0])
	} else {
		c.anchorMissing("WorkflowKeyAvailability")
		return
	}
	nested := &c12Nested{c: c, tbl: tbl, keyRole: keyRole, occ: map[string]int{}, done: map[string]bool{}}
	for _, fn := range p.Funcs {
		recv := fn.Signature.Recv()
		if recv == nil || pointeeName(recv.Type()) != "RuleExpression" {
			continue
		}
		eachInstr(fn, func(_ *ssa.BasicBlock, _ int, in ssa.Instruction) {
			call, ok := in.(ssa.CallInstruction)
			if !ok {
				return
			}
			g := staticCallee(call.Common())
			if g == nil || !inModule(g) {
				return
			}
			ki := -1
			for _, i := range paramIndexIn(g, keyRole) {
				ki = i
			}
			if ki < 0 || ki >= len(call.Common().Args) {
				return
			}
			key, isConst := constString(call.Common().Args[ki])
			if !isConst {
				return // forwarded or computed: C12.KEYS evaluates those
			}
			// the AST field handed over: the first field read on the data argument's slice
			var fields []string
			for i, a := range call.Common().Args {
				if i == 0 || i == ki {
					continue
				}
				fs := map[string]bool{}
				fieldsFeedingDirect(a, fs)
				for f := range fs {
					if _, known := fieldYAMLPath[f]; known {
						fields = append(fields, f)
					}
				}
			}
			sort.Strings(fields)
			for _, f := range fields {
				k := FuncName(fn) + "|" + f + " checked by " + FuncName(g)
				occ[k]++
				construct := fmt.Sprintf("%s#%d", k, occ[k])
				want := expectedKey(tbl, fieldYAMLPath[f])
				if sameAvail(tbl, key, want) {
					c.ok(construct, call.Pos(), fmt.Sprintf("YAML path %s is governed by table key %q; passed %q", fieldYAMLPath[f], want, key))
				} else {
					c.bad(construct, call.Pos(), fmt.Sprintf("the value at %s is governed by table key %q but it is checked with key %q, whose availability differs", fieldYAMLPath[f], want, key))
				}
				// the fields the helper checks with keys it forwards or computes from this one
				for i, a := range call.Common().Args {
					if i == 0 || i == ki {
						continue
					}
					fs := map[string]bool{}
					fieldsFeedingDirect(a, fs)
					if fs[f] {
						nested.descend(g, call, i, fieldYAMLPath[f], map[*ssa.Parameter]string{}, 0)
					}
				}
			}
		})
	}
}

// fieldsFeedingDirect: fields loaded directly in the argument expression (x.f, x.f.g) without following phis/containers.
func fieldsFeedingDirect(v ssa.Value, out map[string]bool) {
	for i := 0; i < 6 && v != nil; i++ {
		switch x := v.(type) {
		case *ssa.UnOp:
			if fa, ok := x.X.(*ssa.FieldAddr); ok {
				out[fieldAddrName(fa)] = true
				return // the outermost field is the one whose path matters
			}
			v = x.X
		case *ssa.FieldAddr:
			out[fieldAddrName(x)] = true
			return
		case *ssa.MakeInterface:
			v = x.X
		case *ssa.ChangeType:
			v = x.X
		default:
			return
		}
	}
}

func runC12Case(c *Ctx) {
	p := c.P
	e := p.lowerEngine()
	for _, spec := range []struct{ fn, field string }{
		{"checkAvailableContext", "ExprSemanticsChecker.availableContexts"},
		{"checkSpecialFunctionAvailability", "ExprSemanticsChecker.availableSpecialFuncs"},
	} {
		fn := p.Method("ExprSemanticsChecker", spec.fn)
		if fn == nil {
			c.anchorMissing("(*ExprSemanticsChecker)." + spec.fn)
			continue
		}
		n := 0
		eachInstr(fn, func(_ *ssa.BasicBlock, _ int, in ssa.Instruction) {
			bo, ok := in.(*ssa.BinOp)
			if !ok || bo.Op != token.EQL {
				return
			}
			isElem := func(v ssa.Value) bool {
				ld, ok := v.(*ssa.UnOp)
				if !ok {
					return false
				}
				ia, ok := ld.X.(*ssa.IndexAddr)
				if !ok {
					return false
				}
				l2, ok := ia.X.(*ssa.UnOp)
				if !ok {
					return false
				}
				fa, ok := l2.X.(*ssa.FieldAddr)
				return ok && fieldAddrName(fa) == spec.field
			}
			var other ssa.Value
			switch {
			case isElem(bo.X):
				other = bo.Y
			case isElem(bo.Y):
				other = bo.X
			default:
				return
			}
			n++
			construct := "(*ExprSemanticsChecker)." + spec.fn + "|comparison with the availability list"
			if e.isLower(other, 0) {
				c.ok(construct, bo.Pos(), "the name is lower-cased before the comparison")
			} else {
				c.bad(construct, bo.Pos(), "the name from the expression is compared with the (lower-case) availability list without being lower-cased: the verdict depends on letter case")
			}
		})
		if n == 0 {
			c.undecided("(*ExprSemanticsChecker)."+spec.fn+"|comparison with the availability list", fn.Pos(), "no comparison with elements of "+spec.field+" found")
		}
	}
	// lookup in SpecialFunctionNames
	fn := p.Method("ExprSemanticsChecker", "checkSpecialFunctionAvailability")
	if fn != nil {
		eachInstr(fn, func(_ *ssa.BasicBlock, _ int, in ssa.Instruction) {
			lk, ok := in.(*ssa.Lookup)
			if !ok {
				return
			}
			if ld, ok := lk.X.(*ssa.UnOp); ok {
				if g, ok := ld.X.(*ssa.Global); ok && g.Name() == "SpecialFunctionNames" {
					if e.isLower(lk.Index, 0) {
						c.ok("(*ExprSemanticsChecker).checkSpecialFunctionAvailability|lookup in SpecialFunctionNames", lk.Pos(), "key is lower-cased")
					} else {
						c.bad("(*ExprSemanticsChecker).checkSpecialFunctionAvailability|lookup in SpecialFunctionNames", lk.Pos(), "function name is looked up without lower-casing")
					}
				}
			}
		})
	}
}

var _ types.Type

// strSetPerCaller evaluates a key expression built from the parameters of fn once per caller of fn, so
// that values of different parameters stay correlated, and prunes phi edges whose guarding condition
// is false under the caller's constants.
func strSetPerCaller(p *Prog, fn *ssa.Function, v ssa.Value) (map[string]bool, bool) {
	if _, isConst := v.(*ssa.Const); isConst {
		return strSet(p, v, 0, map[ssa.Value]bool{})
	}
	out := map[string]bool{}
	edges := p.callersOf(fn)
	n := 0
	for _, e := range edges {
		if e.Site == nil || e.Site.Common().IsInvoke() {
			return nil, false
		}
		n++
		// bind string parameters to the sets of constants the caller passes
		envs := []map[*ssa.Parameter]string{{}}
		for i, prm := range fn.Params {
			if b, ok := prm.Type().Underlying().(*types.Basic); !ok || b.Kind() != types.String {
				continue
			}
			if i >= len(e.Site.Common().Args) {
				return nil, false
			}
			vals, ok := strSet(p, e.Site.Common().Args[i], 0, map[ssa.Value]bool{})
			if !ok {
				// the caller forwards its own parameter: evaluate that caller per its callers
				if _, isParam := e.Site.Common().Args[i].(*ssa.Parameter); isParam {
					vals, ok = strSetPerCaller(p, e.Caller.Func, e.Site.Common().Args[i])
				}
				if !ok {
					return nil, false
				}
			}
			var next []map[*ssa.Parameter]string
			for _, env := range envs {
				for s := range vals {
					ne := map[*ssa.Parameter]string{}
					for k, x := range env {
						ne[k] = x
					}
					ne[prm] = s
					next = append(next, ne)
				}
			}
			envs = next
			if len(envs) > 500 {
				return nil, false
			}
		}
		for _, env := range envs {
			vals, ok := evalStr(v, env, 0)
			if !ok {
				return nil, false
			}
			for s := range vals {
				out[s] = true
			}
		}
	}
	return out, n > 0
}

func evalStr(v ssa.Value, env map[*ssa.Parameter]string, depth int) (map[string]bool, bool) {
	if depth > 12 {
		return nil, false
	}
	switch x := v.(type) {
	case *ssa.Const:
		if s, ok := constString(x); ok {
			return map[string]bool{s: true}, true
		}
	case *ssa.Parameter:
		if s, ok := env[x]; ok {
			return map[string]bool{s: true}, true
		}
	case *ssa.BinOp:
		if x.Op == token.ADD {
			a, ok1 := evalStr(x.X, env, depth+1)
			b, ok2 := evalStr(x.Y, env, depth+1)
			if ok1 && ok2 {
				out := map[string]bool{}
				for s := range a {
					for t := range b {
						out[s+t] = true
					}
				}
				return out, true
			}
		}
	case *ssa.Phi:
		out := map[string]bool{}
		blk := x.Block()
		for i, e := range x.Edges {
			pred := blk.Preds[i]
			if !edgeFeasible(pred, blk, env) {
				continue
			}
			vals, ok := evalStr(e, env, depth+1)
			if !ok {
				return nil, false
			}
			for s := range vals {
				out[s] = true
			}
		}
		return out, len(out) > 0
	}
	return nil, false
}

// edgeFeasible: the edge pred->blk is not excluded by a string (in)equality test that is decided by env.
func edgeFeasible(pred, blk *ssa.BasicBlock, env map[*ssa.Parameter]string) bool {
	check := func(ifBlock, succ *ssa.BasicBlock) bool {
		ifi, ok := ifBlock.Instrs[len(ifBlock.Instrs)-1].(*ssa.If)
		if !ok {
			return true
		}
		bo, ok := ifi.Cond.(*ssa.BinOp)
		if !ok || (bo.Op != token.EQL && bo.Op != token.NEQ) {
			return true
		}
		a, ok1 := evalStr(bo.X, env, 8)
		b, ok2 := evalStr(bo.Y, env, 8)
		if !ok1 || !ok2 || len(a) != 1 || len(b) != 1 {
			return true
		}
		var sa, sb string
		for k := range a {
			sa = k
		}
		for k := range b {
			sb = k
		}
		truth := (sa == sb) == (bo.Op == token.EQL)
		want := ifBlock.Succs[0] == succ
		if ifBlock.Succs[0] == ifBlock.Succs[1] {
			return true
		}
		return truth == want
	}
	if !check(pred, blk) {
		return false
	}
	if len(pred.Preds) == 1 {
		if !check(pred.Preds[0], pred) {
			return false
		}
	}
	return true
}
