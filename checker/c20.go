package main

import (
	"fmt"
	"go/token"
	"go/types"
	"strings"

	"golang.org/x/tools/go/ssa"
)

func init() {
	register(&Rule{ID: "C20.WG", Min: 2, Doc: "wg.Add happens before the goroutine is started and the goroutine's first action is defer wg.Done", Run: runC20WG})
	register(&Rule{ID: "C20.SEMA", Min: 4, Doc: "inside the tool goroutine: Acquire, then the single call of cmdExecution.run, then Release, then the callback; parallelism is runtime.NumCPU()", Run: runC20Sema})
	register(&Rule{ID: "C20.ONEPROC", Min: 3, Doc: "one process limiter per Lint* invocation: never created per file, in a loop or in a goroutine", Run: runC20OneProc})
	register(&Rule{ID: "C20.WAIT", Min: 5, Doc: "all tool processes are waited for before results are returned; rules return cmd.wait() from VisitWorkflowPost", Run: runC20Wait})
	register(&Rule{ID: "C20.ERR", Min: 8, Doc: "no link of the tool-error chain drops an error; a failed tool run is accepted only for exit code >= 0 with output", Run: runC20Err})
	register(&Rule{ID: "C20.MU", Min: 2, Doc: "callbacks running on tool goroutines report diagnostics only while holding the rule's mutex", Run: runC20Mu})
	register(&Rule{ID: "C20.ONCE", Min: 2, Doc: "each run: step starts the external tool at most once", Run: runC20Once})
}

func blockInCycle(b *ssa.BasicBlock) bool {
	return reachableBlocks(b.Succs, nil)[b]
}

func findCalls(fn *ssa.Function, name string) []ssa.CallInstruction {
	var out []ssa.CallInstruction
	eachInstr(fn, func(_ *ssa.BasicBlock, _ int, in ssa.Instruction) {
		if call, ok := in.(ssa.CallInstruction); ok {
			n := calleeFullName(call.Common())
			if f := staticCallee(call.Common()); f != nil && inPkgName(f) {
				n = FuncName(f)
			}
			if n == name {
				out = append(out, call)
			}
		}
	})
	return out
}

func inPkgName(f *ssa.Function) bool {
	g := f
	for g.Parent() != nil {
		g = g.Parent()
	}
	return g.Pkg != nil && g.Pkg.Pkg.Path() == modPath
}

func dom(a, b ssa.Instruction) bool {
	return instrDominates(a.Block(), instrIndex(a), b.Block(), instrIndex(b))
}

// procRunClosure returns (*concurrentProcess).run and the goroutine body it hands to eg.Go.
func procRunClosure(p *Prog) (*ssa.Function, *ssa.Function, ssa.CallInstruction) {
	run := p.Method("concurrentProcess", "run")
	if run == nil {
		return nil, nil, nil
	}
	for _, g := range findCalls(run, "(*golang.org/x/sync/errgroup.Group).Go") {
		if mc, ok := g.Common().Args[1].(*ssa.MakeClosure); ok {
			return run, mc.Fn.(*ssa.Function), g
		}
	}
	return run, nil, nil
}

func runC20WG(c *Ctx) {
	p := c.P
	run, body, goCall := procRunClosure(p)
	if run == nil || body == nil {
		c.anchorMissing("(*concurrentProcess).run and its goroutine body")
		return
	}
	adds := findCalls(run, "(*sync.WaitGroup).Add")
	okAdd := false
	for _, a := range adds {
		if dom(a, goCall) {
			okAdd = true
		}
	}
	if okAdd {
		c.ok("(*concurrentProcess).run|wg.Add before eg.Go", goCall.Pos(), "wg.Add dominates the start of the goroutine")
	} else {
		c.bad("(*concurrentProcess).run|wg.Add before eg.Go", goCall.Pos(), "wg.Add does not precede eg.Go on every path: wait() can return while a tool process is still starting")
	}
	// first action of the goroutine: defer wg.Done()
	first := ""
	for _, in := range body.Blocks[0].Instrs {
		switch x := in.(type) {
		case *ssa.Defer:
			if calleeFullName(&x.Call) == "(*sync.WaitGroup).Done" {
				first = "ok"
			}
		case *ssa.Call:
			if first == "" {
				first = "call " + calleeFullName(&x.Call)
			}
		case *ssa.If, *ssa.Return:
			if first == "" {
				first = "branch"
			}
		}
		if first != "" {
			break
		}
	}
	if first == "ok" {
		c.ok("(*concurrentProcess).run$1|defer wg.Done first", body.Pos(), "the goroutine defers wg.Done() before anything that can return or panic")
	} else {
		c.bad("(*concurrentProcess).run$1|defer wg.Done first", body.Pos(), "the goroutine does not start with `defer wg.Done()` ("+first+" comes first): an early return leaves wait() blocked forever or unbalanced")
	}
}

func runC20Sema(c *Ctx) {
	p := c.P
	_, body, _ := procRunClosure(p)
	exec := p.Method("cmdExecution", "run")
	if body == nil || exec == nil {
		c.anchorMissing("goroutine body of (*concurrentProcess).run / (*cmdExecution).run")
		return
	}
	acq := findCalls(body, "(*golang.org/x/sync/semaphore.Weighted).Acquire")
	rel := findCalls(body, "(*golang.org/x/sync/semaphore.Weighted).Release")
	runs := findCalls(body, "(*cmdExecution).run")
	// the callback: a dynamic call of a captured func value
	var cbs []ssa.CallInstruction
	eachInstr(body, func(_ *ssa.BasicBlock, _ int, in ssa.Instruction) {
		if call, ok := in.(ssa.CallInstruction); ok && !call.Common().IsInvoke() && staticCallee(call.Common()) == nil {
			if _, isBuiltin := call.Common().Value.(*ssa.Builtin); !isBuiltin {
				cbs = append(cbs, call)
			}
		}
	})
	construct := "(*concurrentProcess).run$1|Acquire -> run -> Release -> callback"
	deferred := false
	var relNow []ssa.CallInstruction
	for _, r := range rel {
		if _, isDefer := r.(*ssa.Defer); isDefer {
			deferred = true
		} else {
			relNow = append(relNow, r)
		}
	}
	rel = relNow
	switch {
	case deferred:
		c.bad(construct, body.Pos(), "the semaphore slot is released by a deferred call, i.e. only after the callback has run: the callback (which takes the rule's mutex and parses output) is counted as a running process")
	case len(acq) != 1 || len(rel) != 1 || len(runs) != 1 || len(cbs) != 1:
		c.bad(construct, body.Pos(), fmt.Sprintf("expected exactly one Acquire, one tool run, one Release and one callback in the goroutine, found %d/%d/%d/%d", len(acq), len(runs), len(rel), len(cbs)))
	case !(dom(acq[0], runs[0]) && dom(runs[0], rel[0]) && dom(rel[0], cbs[0])):
		c.bad(construct, body.Pos(), "the tool process is not run strictly between Acquire and Release, or the callback runs while the slot is still held")
	default:
		// the run must only happen when Acquire succeeded: it is on the nil edge of the test of Acquire's error
		guarded := false
		for _, b := range body.Blocks {
			if v, nilSucc, ok := nilTest(b.Instrs[len(b.Instrs)-1]); ok && v == acq[0].Value() {
				s := b.Succs[nilSucc]
				if s == runs[0].Block() || s.Dominates(runs[0].Block()) {
					guarded = true
				}
			}
		}
		if guarded {
			c.ok(construct, body.Pos(), "Acquire dominates the run, the run dominates Release, Release dominates the callback; the run is on the success edge of Acquire")
		} else {
			c.bad(construct, body.Pos(), "the tool is run even when Acquire failed")
		}
	}
	// cmdExecution.run has no other caller
	callers := p.callerNames(exec)
	if len(callers) == 1 && callers[0] == FuncName(body) {
		c.ok("(*cmdExecution).run|callers", exec.Pos(), "only called from the semaphore-guarded goroutine")
	} else {
		c.bad("(*cmdExecution).run|callers", exec.Pos(), "external tools are also started from "+strings.Join(callers, ", ")+" outside the semaphore")
	}
	// the bound is the number of CPUs
	nc := p.Func("newConcurrentProcess")
	if nc == nil {
		c.anchorMissing("newConcurrentProcess")
		return
	}
	for _, e := range p.callersOf(nc) {
		if e.Site == nil {
			continue
		}
		arg := e.Site.Common().Args[0]
		okc := false
		for _, o := range p.Origins(arg, FlowOpts{MaxDepth: 4}) {
			if o.Kind == OExtern && o.Name == "runtime.NumCPU" {
				okc = true
			}
		}
		construct := FuncName(e.Caller.Func) + "|newConcurrentProcess bound"
		if okc {
			c.ok(construct, e.Site.Pos(), "bounded by runtime.NumCPU()")
		} else {
			c.bad(construct, e.Site.Pos(), "the number of concurrently running tool processes is not runtime.NumCPU()")
		}
	}
	// the semaphore is created with exactly that bound: the capacity handed to semaphore.NewWeighted is the parameter
	// itself (converted), not an expression of it
	nw := findCalls(nc, "golang.org/x/sync/semaphore.NewWeighted")
	switch {
	case len(nw) == 0:
		c.bad("newConcurrentProcess|semaphore capacity", nc.Pos(), "no semaphore is created from the bound")
	case len(nc.Params) == 0:
		c.bad("newConcurrentProcess|semaphore capacity", nc.Pos(), "the bound is not a parameter")
	default:
		for _, call := range nw {
			l := linOf(call.Common().Args[0], 0)
			if l.equal(linForm{symName(nc.Params[0]): 1}) {
				c.ok("newConcurrentProcess|semaphore capacity", call.Pos(), "the capacity of the semaphore is the bound given by the caller")
			} else {
				c.bad("newConcurrentProcess|semaphore capacity", call.Pos(), "the capacity of the semaphore is "+l.String()+", not the bound given by the caller: more (or fewer) tool processes than CPUs can run at once")
			}
		}
	}
	// weight 1 is acquired
	if k, ok := constInt(acq[0].Common().Args[2]); len(acq) == 1 && (!ok || k != 1) {
		c.bad("(*concurrentProcess).run$1|weight", acq[0].Pos(), "a weight other than 1 is acquired per process")
	}
}

func runC20OneProc(c *Ctx) {
	p := c.P
	nc := p.Func("newConcurrentProcess")
	if nc == nil {
		c.anchorMissing("newConcurrentProcess")
		return
	}
	for _, e := range p.callersOf(nc) {
		if e.Site == nil {
			continue
		}
		caller := e.Caller.Func
		construct := FuncName(caller) + "|newConcurrentProcess site"
		switch {
		case caller.Parent() != nil:
			c.bad(construct, e.Site.Pos(), "a process limiter is created inside a function literal (per goroutine / per file): the limit of NumCPU processes no longer holds across files")
		case blockInCycle(e.Site.Block()):
			c.bad(construct, e.Site.Pos(), "a process limiter is created inside a loop (per file): the limit of NumCPU processes no longer holds across files")
		default:
			c.ok(construct, e.Site.Pos(), "created once per Lint* invocation, outside loops and goroutines")
		}
	}
	// the limiter handed to check is that single instance
	check := p.Method("Linter", "check")
	if check == nil {
		c.anchorMissing("(*Linter).check")
		return
	}
	for _, e := range p.callersOf(check) {
		if e.Site == nil || len(e.Site.Common().Args) < 5 {
			continue
		}
		src := resolveCapture(e.Site.Common().Args[4])
		construct := FuncName(e.Caller.Func) + "|limiter passed to check"
		call, ok := src.(*ssa.Call)
		if ok && staticCallee(&call.Call) == nc && call.Parent().Parent() == nil && !blockInCycle(call.Block()) {
			c.ok(construct, e.Site.Pos(), "the single limiter of this invocation")
		} else {
			c.bad(construct, e.Site.Pos(), "check does not receive the invocation-wide process limiter")
		}
	}
}

func runC20Wait(c *Ctx) {
	p := c.P
	for _, name := range []string{"Lint", "LintFile", "LintFiles"} {
		fn := p.Method("Linter", name)
		if fn == nil {
			c.anchorMissing("(*Linter)." + name)
			continue
		}
		waits := findCalls(fn, "(*concurrentProcess).wait")
		// where is the limiter handed to check? directly, or inside the goroutine started by eg.Go
		var handed []ssa.Instruction
		for _, cl := range findCalls(fn, "(*Linter).check") {
			handed = append(handed, cl)
		}
		egWaits := findCalls(fn, "(*golang.org/x/sync/errgroup.Group).Wait")
		for _, g := range findCalls(fn, "(*golang.org/x/sync/errgroup.Group).Go") {
			handed = append(handed, g)
		}
		if len(handed) == 0 {
			c.undecided("(*Linter)."+name+"|proc.wait", fn.Pos(), "no call of check found")
			continue
		}
		bad := ""
		for _, b := range fn.Blocks {
			ret, ok := b.Instrs[len(b.Instrs)-1].(*ssa.Return)
			if !ok {
				continue
			}
			// is a hand-over reachable before this return?
			after := false
			for _, h := range handed {
				hb := h.Block()
				if hb == b || reachableBlocks([]*ssa.BasicBlock{hb}, nil)[b] {
					after = true
				}
			}
			if !after {
				continue
			}
			waited := false
			for _, w := range waits {
				if dom(w, ret) {
					waited = true
				}
			}
			if !waited {
				bad = "the return at " + p.Pos(ret.Pos()) + " can be reached after tool processes were started without proc.wait()"
			}
		}
		construct := "(*Linter)." + name + "|proc.wait before every return"
		if bad != "" {
			c.bad(construct, fn.Pos(), bad+": results are returned while shellcheck/pyflakes processes are still running")
		} else {
			c.ok(construct, fn.Pos(), "every return after the first hand-over of the limiter is dominated by proc.wait()")
		}
		if len(egWaits) > 0 {
			okOrder := false
			for _, w := range waits {
				for _, ew := range egWaits {
					if dom(ew, w) {
						okOrder = true
					}
				}
			}
			if okOrder {
				c.ok("(*Linter)."+name+"|eg.Wait before proc.wait", fn.Pos(), "eg.Wait() dominates proc.wait()")
			} else {
				c.bad("(*Linter)."+name+"|eg.Wait before proc.wait", fn.Pos(), "proc.wait() is not preceded by eg.Wait(): wg.Add can race with wg.Wait")
			}
		}
	}
	for _, rule := range []string{"RuleShellcheck", "RulePyflakes"} {
		fn := p.Method(rule, "VisitWorkflowPost")
		if fn == nil {
			c.anchorMissing("(*" + rule + ").VisitWorkflowPost")
			continue
		}
		all := true
		for _, b := range fn.Blocks {
			if ret, ok := b.Instrs[len(b.Instrs)-1].(*ssa.Return); ok {
				call, isCall := ret.Results[0].(*ssa.Call)
				if !isCall || staticCallee(&call.Call) == nil || FuncName(staticCallee(&call.Call)) != "(*externalCommand).wait" {
					all = false
				}
			}
		}
		construct := "(*" + rule + ").VisitWorkflowPost|returns cmd.wait()"
		if all {
			c.ok(construct, fn.Pos(), "every return hands back the result of cmd.wait()")
		} else {
			c.bad(construct, fn.Pos(), "a path returns without waiting for the rule's tool invocations: their diagnostics and fatal errors are lost")
		}
	}
}

// controllingConds: If conditions (with the outcome taken) that dominate block b.
func controllingConds(b *ssa.BasicBlock) map[*ssa.If]bool {
	out := map[*ssa.If]bool{}
	for _, blk := range b.Parent().Blocks {
		ifi, ok := blk.Instrs[len(blk.Instrs)-1].(*ssa.If)
		if !ok {
			continue
		}
		for i, s := range blk.Succs {
			if len(s.Preds) == 1 && (s == b || s.Dominates(b)) {
				out[ifi] = i == 0
			}
		}
	}
	return out
}

// errorReaches: the error value flows into a return of its function (directly, through phis, or wrapped by fmt.Errorf).
func errorReaches(v ssa.Value, seen map[ssa.Value]bool) bool {
	if seen[v] || v.Referrers() == nil {
		return false
	}
	seen[v] = true
	for _, ref := range *v.Referrers() {
		switch r := ref.(type) {
		case *ssa.Return:
			return true
		case *ssa.Phi:
			if errorReaches(r, seen) {
				return true
			}
		case *ssa.MakeInterface:
			if errorReaches(r, seen) {
				return true
			}
		case *ssa.ChangeInterface:
			if errorReaches(r, seen) {
				return true
			}
		case *ssa.Extract:
			if errorReaches(r, seen) {
				return true
			}
		case *ssa.Store:
			// element of the variadic slice of fmt.Errorf, or a captured/escaping variable
			if ia, ok := r.Addr.(*ssa.IndexAddr); ok {
				if al, ok := ia.X.(*ssa.Alloc); ok {
					for _, r2 := range *al.Referrers() {
						if sl, ok := r2.(*ssa.Slice); ok {
							if errorReaches(sl, seen) {
								return true
							}
						}
					}
				}
			}
			if al, ok := r.Addr.(*ssa.Alloc); ok {
				for _, r2 := range *al.Referrers() {
					if ld, ok := r2.(*ssa.UnOp); ok && errorReaches(ld, seen) {
						return true
					}
				}
			}
		case *ssa.Slice:
			if errorReaches(r, seen) {
				return true
			}
		case ssa.CallInstruction:
			n := calleeFullName(r.Common())
			if n == "fmt.Errorf" || n == "errors.Join" {
				if val := r.Value(); val != nil && errorReaches(val, seen) {
					return true
				}
			}
			// handed to a callback (a func value) whose own error result reaches a return
			if !r.Common().IsInvoke() && staticCallee(r.Common()) == nil {
				if _, isB := r.Common().Value.(*ssa.Builtin); !isB {
					if val := r.Value(); val != nil && typeStr(val.Type()) == "error" && errorReaches(val, seen) {
						return true
					}
				}
			}
		}
	}
	return false
}

func runC20Err(c *Ctx) {
	p := c.P
	exec := p.Method("cmdExecution", "run")
	if exec == nil {
		c.anchorMissing("(*cmdExecution).run")
		return
	}
	// (1) in cmdExecution.run: a nil error is returned after a failed run only for ExitError && code >= 0 && output
	var errVals []ssa.Value
	eachInstr(exec, func(_ *ssa.BasicBlock, _ int, in ssa.Instruction) {
		if call, ok := in.(*ssa.Call); ok {
			switch calleeFullName(&call.Call) {
			case "(*os/exec.Cmd).Output", "(*os/exec.Cmd).CombinedOutput", "(*os/exec.Cmd).Run", "(*os/exec.Cmd).Wait":
				for _, ref := range *call.Referrers() {
					if ex, ok := ref.(*ssa.Extract); ok && typeStr(ex.Type()) == "error" {
						errVals = append(errVals, ex)
					}
				}
			}
		}
	})
	if len(errVals) == 0 {
		c.anchorMissing("exec.Cmd Output/CombinedOutput in (*cmdExecution).run")
	} else {
		isRunErr := func(v ssa.Value) bool {
			seen := map[ssa.Value]bool{}
			var f func(x ssa.Value) bool
			f = func(x ssa.Value) bool {
				if seen[x] {
					return false
				}
				seen[x] = true
				for _, e := range errVals {
					if x == e {
						return true
					}
				}
				if ph, ok := x.(*ssa.Phi); ok {
					for _, e := range ph.Edges {
						if f(e) {
							return true
						}
					}
				}
				return false
			}
			return f(v)
		}
		checked := 0
		for _, b := range exec.Blocks {
			v, nilSucc, ok := nilTest(b.Instrs[len(b.Instrs)-1])
			if !ok || !isRunErr(v) {
				continue
			}
			failed := b.Succs[1-nilSucc]
			region := reachableBlocks([]*ssa.BasicBlock{failed}, map[*ssa.BasicBlock]bool{b: true})
			for blk := range region {
				ret, isRet := blk.Instrs[len(blk.Instrs)-1].(*ssa.Return)
				if !isRet {
					continue
				}
				e := ret.Results[len(ret.Results)-1]
				if !isNilConst(e) {
					continue
				}
				// each predecessor path from the failed region into this return must be controlled by the three conditions
				var preds []*ssa.BasicBlock
				if failed.Dominates(blk) || failed == blk {
					preds = []*ssa.BasicBlock{blk}
				} else {
					for _, pr := range blk.Preds {
						if region[pr] || pr == failed {
							if failed == pr || failed.Dominates(pr) {
								preds = append(preds, pr)
							}
						}
					}
				}
				for _, pr := range preds {
					checked++
					conds := controllingConds(pr)
					// the edge pr -> blk itself: pr may end with the last of the tests
					if ifi, ok := pr.Instrs[len(pr.Instrs)-1].(*ssa.If); ok && pr != blk {
						conds[ifi] = pr.Succs[0] == blk
					}
					hasExit, hasCode, hasOut := false, false, false
					for ifi := range conds {
						switch cnd := ifi.Cond.(type) {
						case *ssa.Extract:
							if ta, ok := cnd.Tuple.(*ssa.TypeAssert); ok && strings.Contains(typeStr(ta.AssertedType), "ExitError") {
								hasExit = true
							}
						case *ssa.BinOp:
							for _, opnd := range []ssa.Value{cnd.X, cnd.Y} {
								if call, ok := opnd.(*ssa.Call); ok {
									switch calleeFullName(&call.Call) {
									case "(*os/exec.ExitError).ExitCode", "(*os.ProcessState).ExitCode":
										hasCode = true
									case "builtin.len":
										hasOut = true
									}
								}
							}
						}
					}
					construct := "(*cmdExecution).run|nil error after a failed run"
					if hasExit && hasCode && hasOut {
						c.ok(construct, ret.Pos(), "only when the error is an ExitError, the exit code was tested and the output length was tested")
					} else {
						var miss []string
						if !hasExit {
							miss = append(miss, "the error is an *exec.ExitError")
						}
						if !hasCode {
							miss = append(miss, "the exit code is >= 0 (not killed by a signal)")
						}
						if !hasOut {
							miss = append(miss, "stdout is not empty")
						}
						c.bad(construct, ret.Pos(), "a failed tool run is reported as success without checking that "+strings.Join(miss, " and that ")+": a tool that could not run properly silently yields no diagnostics")
					}
				}
			}
		}
		if checked == 0 {
			c.undecided("(*cmdExecution).run|nil error after a failed run", exec.Pos(), "no path from a failed run to a nil-error return found (shape not recognised)")
		}
	}
	// (2) propagation: the error result of each link is not dropped by its caller
	chain := map[string]bool{
		"(*cmdExecution).run": true, "(*externalCommand).wait": true, "(*Visitor).Visit": true, "(*Visitor).visitJob": true,
		"(*Visitor).visitStep": true, "(*Linter).check": true, "(*golang.org/x/sync/errgroup.Group).Wait": true,
		"(*ErrorFormatter).Print": true, "(*ErrorFormatter).PrintErrors": true,
	}
	passMethods := map[string]bool{"VisitStep": true, "VisitJobPre": true, "VisitJobPost": true, "VisitWorkflowPre": true, "VisitWorkflowPost": true}
	occ := map[string]int{}
	scope := []string{"process.go", "pass.go", "linter.go", "rule_shellcheck.go", "rule_pyflakes.go"}
	for _, fn := range p.Funcs {
		file := p.File(fn.Pos())
		inScope := false
		for _, s := range scope {
			if strings.HasSuffix(file, "/"+s) {
				inScope = true
			}
		}
		if !inScope {
			continue
		}
		eachInstr(fn, func(_ *ssa.BasicBlock, _ int, in ssa.Instruction) {
			call, ok := in.(*ssa.Call)
			if !ok {
				return
			}
			cc := &call.Call
			name := calleeFullName(cc)
			if f := staticCallee(cc); f != nil && inPkgName(f) {
				name = FuncName(f)
			}
			link := chain[name]
			if cc.IsInvoke() && passMethods[cc.Method.Name()] && typeStr(cc.Value.Type()) == "Pass" {
				link, name = true, "Pass."+cc.Method.Name()
			}
			// the callback invoked by the tool goroutine
			if !link && !cc.IsInvoke() && staticCallee(cc) == nil && FuncName(fn) == "(*concurrentProcess).run$1" {
				if _, isB := cc.Value.(*ssa.Builtin); !isB {
					link, name = true, "callback"
				}
			}
			if !link {
				return
			}
			// its error result
			var errv ssa.Value
			if typeStr(call.Type()) == "error" {
				errv = call
			} else {
				for _, ref := range *call.Referrers() {
					if ex, ok := ref.(*ssa.Extract); ok && typeStr(ex.Type()) == "error" {
						errv = ex
					}
				}
			}
			k := FuncName(fn) + "|error of " + name
			occ[k]++
			construct := fmt.Sprintf("%s#%d", k, occ[k])
			if errv == nil {
				c.bad(construct, call.Pos(), "the error result is discarded")
				return
			}
			if errorReaches(errv, map[ssa.Value]bool{}) {
				c.ok(construct, call.Pos(), "the error reaches a return of the caller")
			} else {
				c.bad(construct, call.Pos(), "the error never reaches a return of "+FuncName(fn)+": a fatal tool or formatter error is dropped and the run looks successful")
			}
		})
	}
	// (3) callbacks: a non-nil err argument makes the callback return a non-nil error
	for _, fn := range p.Funcs {
		if fn.Parent() == nil || len(fn.Params) != 2 || typeStr(fn.Params[1].Type()) != "error" || typeStr(fn.Params[0].Type()) != "[]byte" {
			continue
		}
		construct := FuncName(fn) + "|tool failure becomes an error"
		good := nonNilErrReturned(fn, fn.Params[1])
		if !good {
			// the callback only forwards to a function of the module and returns what that returns
			eachInstr(fn, func(_ *ssa.BasicBlock, _ int, in ssa.Instruction) {
				call, ok := in.(*ssa.Call)
				if !ok {
					return
				}
				g := staticCallee(&call.Call)
				if g == nil || !inModule(g) || g.Blocks == nil {
					return
				}
				returned := false
				for _, ref := range *call.Referrers() {
					if _, isRet := ref.(*ssa.Return); isRet {
						returned = true
					}
				}
				for k, a := range call.Call.Args {
					if a == ssa.Value(fn.Params[1]) && returned && k < len(g.Params) && nonNilErrReturned(g, g.Params[k]) {
						good = true
					}
				}
			})
		}
		if good {
			c.ok(construct, fn.Pos(), "the branch for a non-nil tool error returns a non-nil error")
		} else {
			c.bad(construct, fn.Pos(), "the callback does not turn a non-nil tool error into a returned error")
		}
	}
}

func runC20Mu(c *Ctx) {
	p := c.P
	// callbacks handed to (*externalCommand).run and everything they reach on the rule
	for _, rule := range []string{"RuleShellcheck", "RulePyflakes"} {
		var cbs []*ssa.Function
		for _, fn := range p.Funcs {
			if fn.Parent() == nil {
				continue
			}
			par := fn.Parent()
			if par.Signature.Recv() == nil || pointeeName(par.Signature.Recv().Type()) != rule {
				continue
			}
			if len(fn.Params) == 2 && typeStr(fn.Params[1].Type()) == "error" {
				cbs = append(cbs, fn)
			}
		}
		if len(cbs) == 0 {
			c.anchorMissing("callback of " + rule)
			continue
		}
		reach := p.reachable(cbs...)
		n := 0
		for fn := range reach {
			if !inPkg(fn, p.SPkg) || fn.Blocks == nil {
				continue
			}
			for _, e := range append(findCalls(fn, "(*RuleBase).Errorf"), findCalls(fn, "(*RuleBase).Error")...) {
				n++
				construct := FuncName(fn) + "|diagnostic from a tool goroutine"
				locks := append(findCalls(fn, "(*sync.Mutex).Lock"), findCalls(fn, "(*sync.RWMutex).Lock")...)
				held := false
				for _, l := range locks {
					if !dom(l, e) {
						continue
					}
					if _, isDefer := l.(*ssa.Defer); isDefer {
						continue
					}
					released := false
					for _, u := range findCalls(fn, "(*sync.Mutex).Unlock") {
						if _, isDefer := u.(*ssa.Defer); isDefer {
							continue
						}
						if dom(l, u) && dom(u, e) {
							released = true
						}
					}
					if !released {
						held = true
					}
				}
				if held {
					c.ok(construct, e.Pos(), "reported while holding the rule's mutex")
				} else {
					c.bad(construct, e.Pos(), "appends to the rule's diagnostics from a tool goroutine without holding the rule's mutex: concurrent appends lose diagnostics")
				}
			}
		}
		if n == 0 {
			c.undecided("rule "+rule+"|diagnostics from callbacks", 0, "no diagnostic call reachable from the callback")
		}
	}
}

func runC20Once(c *Ctx) {
	p := c.P
	for _, rule := range []string{"RuleShellcheck", "RulePyflakes"} {
		vs := p.Method(rule, "VisitStep")
		if vs == nil {
			c.anchorMissing("(*" + rule + ").VisitStep")
			continue
		}
		// along the chain from VisitStep to (*externalCommand).run: in every function, the calls that start the tool
		// (of run itself or of a function of the package from which run is reached) are outside loops and no two of
		// them can execute on one path (several are fine in exclusive branches)
		total := 0
		var bad []string
		var visit func(fn *ssa.Function, depth int)
		seen := map[*ssa.Function]bool{}
		visit = func(fn *ssa.Function, depth int) {
			if seen[fn] || fn.Blocks == nil {
				return
			}
			seen[fn] = true
			if depth > 5 {
				bad = append(bad, "the chain of calls to the tool is longer than followed at "+fn.Name())
				return
			}
			var starts []ssa.CallInstruction
			eachInstr(fn, func(b *ssa.BasicBlock, _ int, in ssa.Instruction) {
				call, ok := in.(ssa.CallInstruction)
				if !ok {
					return
				}
				g := staticCallee(call.Common())
				if g == nil {
					// a function value: the closure it was made from, when that is known
					if mc, isMC := call.Common().Value.(*ssa.MakeClosure); isMC {
						g, _ = mc.Fn.(*ssa.Function)
					}
				}
				if g == nil || !inPkgName(g) {
					return
				}
				isRun := FuncName(g) == "(*externalCommand).run"
				if !isRun && !reachesRun(p, g) {
					return
				}
				starts = append(starts, call)
				if blockInCycle(b) {
					what := "a function starting the tool is called"
					if isRun {
						what = "the tool is started"
					}
					bad = append(bad, what+" inside a loop at "+p.Pos(call.Pos()))
				}
				if isRun {
					total++
					return
				}
				visit(g, depth+1)
			})
			for i, a := range starts {
				for _, b := range starts[i+1:] {
					if instrReachableAfter(a, b) || instrReachableAfter(b, a) {
						bad = append(bad, "the calls at "+p.Pos(a.Pos())+" and "+p.Pos(b.Pos())+" in "+fn.Name()+" both start the tool on one path")
					}
				}
			}
		}
		visit(vs, 0)
		construct := "(*" + rule + ").VisitStep|tool started at most once"
		switch {
		case len(bad) > 0:
			c.bad(construct, vs.Pos(), strings.Join(bad, "; ")+": a script can be passed to the tool several times")
		case total == 0:
			c.bad(construct, vs.Pos(), "VisitStep never reaches (*externalCommand).run: scripts are not passed to the tool at all")
		default:
			c.ok(construct, vs.Pos(), fmt.Sprintf("%d call site(s) of (*externalCommand).run reachable, outside any loop, no two of them or of the calls leading to them on one path", total))
		}
		c20EveryRunStep(c, rule, vs)
	}
}

func reachesRun(p *Prog, g *ssa.Function) bool {
	for f := range p.reachable(g) {
		if FuncName(f) == "(*externalCommand).run" {
			return true
		}
	}
	return false
}

var _ = token.NoPos
var _ types.Type

// nonNilErrReturned: the function tests the error parameter against nil and every return on the non-nil side hands back
// a non-nil error.
func nonNilErrReturned(fn *ssa.Function, errParam *ssa.Parameter) bool {
	for _, b := range fn.Blocks {
		v, nilSucc, ok := nilTest(b.Instrs[len(b.Instrs)-1])
		if !ok || v != ssa.Value(errParam) {
			continue
		}
		nn := b.Succs[1-nilSucc]
		all := true
		n := 0
		for blk := range reachableBlocks([]*ssa.BasicBlock{nn}, nil) {
			if ret, ok := blk.Instrs[len(blk.Instrs)-1].(*ssa.Return); ok && (nn == blk || nn.Dominates(blk)) {
				n++
				if isNilConst(returnedValue(ret, len(ret.Results)-1)) {
					all = false
				}
			}
		}
		if all && n > 0 {
			return true
		}
	}
	return false
}
