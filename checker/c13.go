package main

import (
	"fmt"
	"go/ast"
	"go/constant"
	"go/token"
	"go/types"
	"sort"
	"strings"

	"golang.org/x/tools/go/ssa"
)

func init() {
	register(&Rule{ID: "C13.DEF", Min: 18, Doc: "every fixed-key section reports keys outside its set at that key", Run: runC13Def})
	register(&Rule{ID: "C13.CONT", Min: 25, Doc: "no return/break inside a key loop: a bad key never suppresses its siblings", Run: runC13Cont})
	register(&Rule{ID: "C13.CASEARG", Min: 30, Doc: "fixed-key sections compare keys case-sensitively, name-keyed sections case-insensitively", Run: runC13CaseArg})
	register(&Rule{ID: "C13.DUP", Min: 5, Doc: "parseMapping reports a repeated key before storing it, folding case iff the mapping is case-insensitive", Run: runC13Dup})
	register(&Rule{ID: "C13.MAND", Min: 13, Doc: "every mandatory key is checked after the key loop, unconditionally (or only under the documented alternative)", Run: runC13Mand})
	register(&Rule{ID: "C13.FIXEDLEN", Min: 1, Doc: "a mapping whose entries are accessed by constant index is checked to have exactly that many entries", Run: runC13FixedLen})
}

// keyLoop is a `for _, X := range <parseMapping result>` loop in a parser method.
type keyLoop struct {
	decl     *ast.FuncDecl
	rs       *ast.RangeStmt
	v        *ast.Ident // loop variable
	call     *ast.CallExpr
	label    string
	parents  []ast.Node // ancestors of rs inside decl.Body
	dispatch ast.Stmt   // switch X.id {...} or if X.id ==/!= "c" {...}
	labels   []string
}

func isMappingCall(info *types.Info, e ast.Expr) *ast.CallExpr {
	call, ok := ast.Unparen(e).(*ast.CallExpr)
	if !ok {
		return nil
	}
	fn := calleeObj(info, call)
	if fn == nil {
		return nil
	}
	if n := shortFuncName(fn); n == "(*parser).parseMapping" || n == "(*parser).parseSectionMapping" {
		return call
	}
	return nil
}

func findKeyLoops(p *Prog) []*keyLoop {
	info := p.info()
	var loops []*keyLoop
	p.FuncDecls(func(_ *ast.File, d *ast.FuncDecl) {
		if d.Recv == nil || exprStr(d.Recv.List[0].Type) != "*parser" {
			return
		}
		// variables assigned from a mapping call
		fromCall := map[types.Object]*ast.CallExpr{}
		ast.Inspect(d.Body, func(n ast.Node) bool {
			as, ok := n.(*ast.AssignStmt)
			if !ok || len(as.Lhs) != 1 || len(as.Rhs) != 1 {
				return true
			}
			if call := isMappingCall(info, as.Rhs[0]); call != nil {
				if id, ok := as.Lhs[0].(*ast.Ident); ok {
					if obj := info.ObjectOf(id); obj != nil {
						fromCall[obj] = call
					}
				}
			}
			return true
		})
		labels := map[*ast.RangeStmt]string{}
		var stack []ast.Node
		ast.Inspect(d.Body, func(n ast.Node) bool {
			if n == nil {
				stack = stack[:len(stack)-1]
				return true
			}
			stack = append(stack, n)
			if ls, ok := n.(*ast.LabeledStmt); ok {
				if rs, ok := ls.Stmt.(*ast.RangeStmt); ok {
					labels[rs] = ls.Label.Name
				}
			}
			rs, ok := n.(*ast.RangeStmt)
			if !ok {
				return true
			}
			var call *ast.CallExpr
			if c := isMappingCall(info, rs.X); c != nil {
				call = c
			} else if id, ok := rs.X.(*ast.Ident); ok {
				call = fromCall[info.ObjectOf(id)]
			}
			if call == nil {
				return true
			}
			v, _ := rs.Value.(*ast.Ident)
			if v == nil {
				return true
			}
			kl := &keyLoop{decl: d, rs: rs, v: v, call: call, label: labels[rs], parents: append([]ast.Node(nil), stack[:len(stack)-1]...)}
			// dispatch on X.id among the direct statements of the body
			for _, st := range rs.Body.List {
				switch s := st.(type) {
				case *ast.SwitchStmt:
					if sel, ok := s.Tag.(*ast.SelectorExpr); ok && sel.Sel.Name == currentFieldName("workflowKeyVal.id") && exprStr(sel.X) == v.Name {
						kl.dispatch = s
						for _, c := range s.Body.List {
							for _, e := range c.(*ast.CaseClause).List {
								if tv := info.Types[e]; tv.Value != nil && tv.Value.Kind() == constant.String {
									kl.labels = append(kl.labels, constant.StringVal(tv.Value))
								}
							}
						}
					}
				case *ast.IfStmt:
					if be, ok := s.Cond.(*ast.BinaryExpr); ok && (be.Op == token.EQL || be.Op == token.NEQ) {
						if sel, ok := be.X.(*ast.SelectorExpr); ok && sel.Sel.Name == currentFieldName("workflowKeyVal.id") && exprStr(sel.X) == v.Name {
							if tv := info.Types[be.Y]; tv.Value != nil && tv.Value.Kind() == constant.String {
								kl.dispatch = s
								kl.labels = append(kl.labels, constant.StringVal(tv.Value))
							}
						}
					}
				}
				if kl.dispatch != nil {
					break
				}
			}
			loops = append(loops, kl)
			return true
		})
	})
	return loops
}

func (kl *keyLoop) name(info *types.Info, occ map[string]int) string {
	what := "mapping"
	if len(kl.call.Args) > 0 {
		what = exprStr(kl.call.Args[0])
	}
	k := DeclName(info, kl.decl) + "|keys of " + what
	occ[k]++
	return fmt.Sprintf("%s#%d", k, occ[k])
}

// callsUnexpectedKey: the node contains p.unexpectedKey(X.key, ...).
func callsUnexpectedKey(info *types.Info, n ast.Node, v string) bool {
	found := false
	ast.Inspect(n, func(x ast.Node) bool {
		call, ok := x.(*ast.CallExpr)
		if !ok {
			return true
		}
		if fn := calleeObj(info, call); fn != nil && shortFuncName(fn) == "(*parser).unexpectedKey" && len(call.Args) > 0 {
			a := exprStr(call.Args[0])
			if a == v+".key" {
				found = true
			}
		}
		return true
	})
	return found
}

func runC13Def(c *Ctx) {
	info := c.P.info()
	occ := map[string]int{}
	// local aliases `k, v := kv.key, kv.val` are resolved by accepting an identifier assigned from X.key
	for _, kl := range findKeyLoops(c.P) {
		name := kl.name(info, occ)
		if kl.dispatch == nil {
			o := c.ok(name, kl.rs.Pos(), "name-keyed mapping: every key is accepted by design")
			o.trivial = true
			continue
		}
		// accept aliases of X.key declared in the loop body
		alias := map[string]bool{kl.v.Name + ".key": true}
		for _, st := range kl.rs.Body.List {
			if as, ok := st.(*ast.AssignStmt); ok && len(as.Lhs) == len(as.Rhs) {
				for i, r := range as.Rhs {
					if exprStr(r) == kl.v.Name+".key" {
						alias[exprStr(as.Lhs[i])] = true
					}
				}
			}
		}
		reports := func(n ast.Node) bool {
			found := false
			ast.Inspect(n, func(x ast.Node) bool {
				call, ok := x.(*ast.CallExpr)
				if !ok {
					return true
				}
				if fn := calleeObj(info, call); fn != nil && shortFuncName(fn) == "(*parser).unexpectedKey" && len(call.Args) > 0 && alias[exprStr(call.Args[0])] {
					found = true
				}
				return true
			})
			return found
		}
		// reportsAlways: every run through the statement list reports the key: the report is one of its direct statements
		// (or stands in both branches of an if), not nested under a condition, a loop or a switch of its own
		var reportsAlways func(list []ast.Stmt) bool
		reportsAlways = func(list []ast.Stmt) bool {
			for _, st := range list {
				switch x := st.(type) {
				case *ast.ExprStmt:
					if reports(x) {
						return true
					}
				case *ast.BlockStmt:
					if reportsAlways(x.List) {
						return true
					}
				case *ast.IfStmt:
					if els, ok := x.Else.(*ast.BlockStmt); ok && reportsAlways(x.Body.List) && reportsAlways(els.List) {
						return true
					}
				case *ast.BranchStmt, *ast.ReturnStmt:
					return false
				}
			}
			return false
		}
		switch s := kl.dispatch.(type) {
		case *ast.SwitchStmt:
			var def *ast.CaseClause
			for _, cc := range s.Body.List {
				if cc.(*ast.CaseClause).List == nil {
					def = cc.(*ast.CaseClause)
				}
			}
			switch {
			case def == nil:
				c.bad(name, s.Pos(), "switch over the keys has no default clause: a key outside the set is silently accepted")
			case !reports(def):
				// the `on:` mapping accepts any webhook name in its default clause: the default hands the key on;
				// matrix rows / with: inputs store every other key under its id (open, name-keyed set)
				if handsKeyOn(info, def, kl.v.Name) || storesUnderID(def, kl.v.Name) {
					c.ok(name, s.Pos(), "default clause hands the key to a function that validates it (open key set)")
				} else {
					c.bad(name, def.Pos(), "default clause does not report the key with unexpectedKey(<this loop's key>, ...)")
				}
			case !reportsAlways(def.Body):
				c.bad(name, def.Pos(), "default clause reports the key only under a further condition: some keys outside the set are silently accepted")
			default:
				c.ok(name, s.Pos(), fmt.Sprintf("default clause reports keys outside {%s} at the key", strings.Join(kl.labels, ", ")))
			}
		case *ast.IfStmt:
			be := s.Cond.(*ast.BinaryExpr)
			var other ast.Node
			if be.Op == token.NEQ {
				other = s.Body
			} else {
				other = s.Else
			}
			if w := exactlyOneKeyCheck(info, kl); w != "" && (other == nil || !reports(other)) {
				c.ok(name, s.Pos(), w)
			} else if other == nil || !reports(other) {
				c.bad(name, s.Pos(), "the branch taken for keys other than "+strings.Join(kl.labels, ", ")+" does not report them with unexpectedKey")
			} else if blk, isBlk := other.(*ast.BlockStmt); !isBlk || !reportsAlways(blk.List) {
				c.bad(name, s.Pos(), "the branch taken for keys other than "+strings.Join(kl.labels, ", ")+" reports them only under a further condition")
			} else {
				c.ok(name, s.Pos(), "keys other than "+strings.Join(kl.labels, ", ")+" are reported at the key")
			}
		}
	}
}

// storesUnderID: the clause stores the entry in a map keyed by X.id (a name-keyed section with reserved names).
func storesUnderID(cc *ast.CaseClause, v string) bool {
	found := false
	ast.Inspect(cc, func(x ast.Node) bool {
		if as, ok := x.(*ast.AssignStmt); ok {
			for _, l := range as.Lhs {
				if ix, ok := l.(*ast.IndexExpr); ok && exprStr(ix.Index) == v+"."+currentFieldName("workflowKeyVal.id") {
					found = true
				}
			}
		}
		return true
	})
	return found
}

// handsKeyOn: the clause passes X.key (or X itself) to another parser method.
func handsKeyOn(info *types.Info, cc *ast.CaseClause, v string) bool {
	found := false
	ast.Inspect(cc, func(x ast.Node) bool {
		call, ok := x.(*ast.CallExpr)
		if !ok {
			return true
		}
		if fn := calleeObj(info, call); fn != nil && strings.HasPrefix(fn.Name(), "parse") {
			for _, a := range call.Args {
				if exprStr(a) == v+".key" {
					found = true
				}
			}
		}
		return true
	})
	return found
}

// earlyExit returns a description of a return / break-out-of-loop inside body ("" if none).
func earlyExit(p *Prog, body *ast.BlockStmt, label string) string {
	exit := ""
	var walk func(x ast.Node, breakable bool)
	walk = func(x ast.Node, breakable bool) {
		ast.Inspect(x, func(y ast.Node) bool {
			if y == nil || exit != "" {
				return false
			}
			switch s := y.(type) {
			case *ast.FuncLit:
				return false
			case *ast.ReturnStmt:
				exit = "return at " + p.Pos(s.Pos())
				return false
			case *ast.BranchStmt:
				if s.Tok == token.BREAK {
					if s.Label != nil {
						if s.Label.Name == label {
							exit = "break at " + p.Pos(s.Pos())
						}
					} else if breakable {
						exit = "break at " + p.Pos(s.Pos())
					}
				}
				if s.Tok == token.GOTO {
					exit = "goto at " + p.Pos(s.Pos())
				}
			case *ast.ForStmt:
				if y != x {
					walk(s.Body, false)
					return false
				}
			case *ast.RangeStmt:
				if y != x {
					walk(s.Body, false)
					return false
				}
			case *ast.SwitchStmt:
				walk(s.Body, false)
				return false
			case *ast.TypeSwitchStmt:
				walk(s.Body, false)
				return false
			case *ast.SelectStmt:
				walk(s.Body, false)
				return false
			}
			return true
		})
	}
	walk(body, true)
	return exit
}

// skipBeforeDispatch: a `continue` of the key loop in the statements that precede the dispatch over the key, in a statement
// that does not report: the entry is dropped without having been looked at. "" if there is none.
func skipBeforeDispatch(p *Prog, info *types.Info, kl *keyLoop) string {
	if kl.dispatch == nil {
		return ""
	}
	for _, st := range kl.rs.Body.List {
		if st == kl.dispatch {
			break
		}
		reports := false
		ast.Inspect(st, func(x ast.Node) bool {
			if call, ok := x.(*ast.CallExpr); ok {
				if fn := calleeObj(info, call); fn != nil {
					if n := shortFuncName(fn); strings.HasPrefix(n, "(*parser).error") || n == "(*parser).unexpectedKey" {
						reports = true
					}
				}
			}
			return true
		})
		if reports {
			continue
		}
		found := ""
		var walk func(x ast.Node, inner bool)
		walk = func(x ast.Node, inner bool) {
			ast.Inspect(x, func(y ast.Node) bool {
				if y == nil || found != "" {
					return false
				}
				switch s := y.(type) {
				case *ast.FuncLit:
					return false
				case *ast.BranchStmt:
					if s.Tok == token.CONTINUE && ((s.Label == nil && !inner) || (s.Label != nil && kl.label != "" && s.Label.Name == kl.label)) {
						found = "continue at " + p.Pos(s.Pos())
					}
				case *ast.ForStmt:
					if y != x {
						walk(s.Body, true)
						return false
					}
				case *ast.RangeStmt:
					if y != x {
						walk(s.Body, true)
						return false
					}
				}
				return true
			})
		}
		walk(st, false)
		if found != "" {
			return found
		}
	}
	return ""
}

func runC13Cont(c *Ctx) {
	info := c.P.info()
	occ := map[string]int{}
	for _, kl := range findKeyLoops(c.P) {
		name := kl.name(info, occ)
		if e := earlyExit(c.P, kl.rs.Body, kl.label); e != "" {
			c.bad(name, kl.rs.Pos(), "the key loop can stop early ("+e+"): the remaining keys of the mapping are neither parsed nor checked")
		} else if e := skipBeforeDispatch(c.P, info, kl); e != "" {
			c.bad(name, kl.rs.Pos(), "a key can be passed over before it is compared with the key set ("+e+"): such a key is neither parsed nor reported when it is foreign")
		} else {
			c.ok(name, kl.rs.Pos(), "every key of the mapping is visited")
		}
	}
}

func runC13CaseArg(c *Ctx) {
	p := c.P
	info := p.info()
	loops := findKeyLoops(p)
	fixed := map[*ast.CallExpr]*keyLoop{}
	for _, kl := range loops {
		fixed[kl.call] = kl
	}
	occ := map[string]int{}
	p.FuncDecls(func(_ *ast.File, d *ast.FuncDecl) {
		ast.Inspect(d.Body, func(n ast.Node) bool {
			call, ok := n.(*ast.CallExpr)
			if !ok || isMappingCall(info, call) == nil || len(call.Args) != 4 {
				return true
			}
			if DeclName(info, d) == "(*parser).parseSectionMapping" {
				return true // the forwarding wrapper
			}
			k := DeclName(info, d) + "|" + exprStr(call.Args[0])
			occ[k]++
			name := fmt.Sprintf("%s#%d", k, occ[k])
			tv := info.Types[call.Args[3]]
			if tv.Value == nil || tv.Value.Kind() != constant.Bool {
				c.undecided(name, call.Pos(), "caseSensitive argument is not a constant")
				return true
			}
			cs := constant.BoolVal(tv.Value)
			kl := fixed[call]
			isFixed := kl != nil && kl.dispatch != nil
			if isFixed {
				if sw, ok := kl.dispatch.(*ast.SwitchStmt); ok {
					for _, cc := range sw.Body.List {
						if cl := cc.(*ast.CaseClause); cl.List == nil && storesUnderID(cl, kl.v.Name) {
							isFixed = false // reserved names inside a name-keyed section
						}
					}
				}
			}
			if kl == nil {
				// not ranged over (e.g. schedule items indexed directly): keyword access by constant index means fixed keys
				isFixed = true
			}
			switch {
			case isFixed && !cs:
				c.bad(name, call.Pos(), "keys of this section are keywords compared with lower-case constants, but the mapping is parsed case-insensitively (keys would be folded: `Name:` accepted and duplicates of different case merged)")
			case !isFixed && cs:
				c.bad(name, call.Pos(), "keys of this section are user-chosen names, which are case-insensitive, but the mapping is parsed case-sensitively (duplicate detection and lookups by lower-cased id break)")
			default:
				kind := "name-keyed, case-insensitive"
				if isFixed {
					kind = "fixed keys, case-sensitive"
				}
				c.ok(name, call.Pos(), kind)
			}
			return true
		})
	})
}

func runC13Dup(c *Ctx) {
	p := c.P
	fn := p.Method("parser", "parseMapping")
	if fn == nil {
		c.anchorMissing("(*parser).parseMapping")
		return
	}
	// the parameter that says whether keys are case-sensitive: the last bool parameter (callers pass constants, C13.CASEARG)
	var cs *ssa.Parameter
	for _, q := range fn.Params {
		if b, ok := q.Type().Underlying().(*types.Basic); ok && b.Kind() == types.Bool {
			cs = q
		}
	}
	// the membership test on the set of keys seen so far: (A) a comma-ok lookup in a map made in this function, inside a
	// loop, or (B) a scan of the entries collected so far that compares their id with the key and leaves a non-nil mark
	// (the position of the first definition) when one matches
	var lookup ssa.Instruction // the anchor of the test: the lookup (A) or the comparison of the scan (B)
	var keyVal ssa.Value        // the key that is tested
	var remembered ssa.Value    // what stands for the first definition (the looked-up value / the mark)
	var setMap ssa.Value        // (A) the set
	var okIf *ssa.If
	seenIdx := 0
	eachInstr(fn, func(b *ssa.BasicBlock, _ int, in ssa.Instruction) {
		if lk, ok := in.(*ssa.Lookup); ok && lk.CommaOk && blockInCycle(b) {
			if _, made := lk.X.(*ssa.MakeMap); made {
				lookup, keyVal, remembered, setMap = lk, lk.Index, lk, lk.X
			}
		}
	})
	if lk, isA := lookup.(*ssa.Lookup); isA {
		for _, ref := range *lk.Referrers() {
			if ex, isEx := ref.(*ssa.Extract); isEx && ex.Index == 1 {
				for _, r2 := range *ex.Referrers() {
					if ifi, isIf := r2.(*ssa.If); isIf {
						okIf = ifi
					}
				}
			}
		}
	} else {
		// (B): an If on `mark != nil` where mark is a phi of nil and a value taken from an element of the collected entries
		// under `elem.id == key`
		for _, blk := range fn.Blocks {
			ifi, isIf := blk.Instrs[len(blk.Instrs)-1].(*ssa.If)
			if !isIf || !blockInCycle(blk) {
				continue
			}
			v, nilSucc, isNil := nilTest(ifi)
			ph, isPhi := v.(*ssa.Phi)
			if !isNil || !isPhi {
				continue
			}
			hasNil := false
			var cmp *ssa.BinOp
			for i, e := range ph.Edges {
				if isNilConst(e) {
					hasNil = true
					continue
				}
				// the edge comes from the true side of a comparison of an entry's id with the key
				for ci, outcome := range controllingConds(ph.Block().Preds[i]) {
					if bo, isBo := ci.Cond.(*ssa.BinOp); isBo && bo.Op == token.EQL && outcome {
						if f, _ := fieldLoad(bo.X); f == "workflowKeyVal.id" {
							cmp = bo
						}
					}
				}
				if pb := ph.Block().Preds[i]; cmp == nil && len(pb.Instrs) > 0 {
					if ci, isCi := pb.Instrs[len(pb.Instrs)-1].(*ssa.If); isCi {
						if bo, isBo := ci.Cond.(*ssa.BinOp); isBo && bo.Op == token.EQL && pb.Succs[0] == ph.Block() {
							if f, _ := fieldLoad(bo.X); f == "workflowKeyVal.id" {
								cmp = bo
							}
						}
					}
				}
			}
			if hasNil && cmp != nil {
				lookup, keyVal, remembered, okIf, seenIdx = cmp, cmp.Y, ph, ifi, 1-nilSucc
			}
		}
	}
	if lookup == nil || cs == nil {
		c.bad("(*parser).parseMapping|duplicate test", fn.Pos(), "no membership test on a set of seen keys in the key loop")
		return
	}
	testBlock := lookup.Block()
	if okIf != nil {
		testBlock = okIf.Block()
	}
	var stores, apps []ssa.Instruction
	eachInstr(fn, func(_ *ssa.BasicBlock, _ int, in ssa.Instruction) {
		switch x := in.(type) {
		case *ssa.MapUpdate:
			if setMap != nil && x.Map == setMap {
				stores = append(stores, x)
			}
		case *ssa.Call:
			if bi, ok := x.Call.Value.(*ssa.Builtin); ok && bi.Name() == "append" && strings.Contains(typeStr(x.Type()), "workflowKeyVal") {
				apps = append(apps, x)
			}
		}
	})
	if setMap == nil {
		stores = append(stores, apps...) // (B): the collected entries are the set
	}
	if okIf == nil {
		c.bad("(*parser).parseMapping|duplicate test", lookup.Pos(), "the result of the membership test does not decide a branch")
	} else {
		seen := okIf.Block().Succs[seenIdx]
		notSeen := okIf.Block().Succs[1-seenIdx]
		// the rest of the iteration on the path of a key already seen: everything reachable from the true successor of the
		// test without passing the head of the key loop (the innermost loop around the test) again
		stop := map[*ssa.BasicBlock]bool{}
		var head *ssa.BasicBlock
		for _, h := range loopHeaders(fn) {
			if body := naturalLoop(h); body[testBlock] && (head == nil || naturalLoop(head)[h]) {
				head = h
			}
		}
		if head != nil {
			stop[head] = true
		}
		sameIter := reachableBlocks([]*ssa.BasicBlock{seen}, stop)
		reports := false
		for b := range sameIter {
			if !(b == seen || seen.Dominates(b)) {
				continue
			}
			for _, in := range b.Instrs {
				if call, ok := in.(*ssa.Call); ok {
					if g := staticCallee(&call.Call); g != nil && strings.HasPrefix(FuncName(g), "(*parser).error") {
						reports = true
					}
				}
			}
		}
		// neither the append to the result nor the store into the set is reached in the iteration of a key already seen
		var leaked ssa.Instruction
		for _, in := range append(append([]ssa.Instruction{}, stores...), apps...) {
			if sameIter[in.Block()] {
				leaked = in
			}
		}
		switch {
		case head == nil || seen == notSeen:
			c.bad("(*parser).parseMapping|duplicate test", lookup.Pos(), "the membership test does not separate the keys already seen from new ones inside a key loop")
		case !reports:
			c.bad("(*parser).parseMapping|duplicate test", lookup.Pos(), "the branch for an already seen key does not report it")
		case leaked != nil:
			c.bad("(*parser).parseMapping|duplicate test", leaked.Pos(), "a key already seen is reported but the iteration goes on to store it (at "+c.P.Pos(leaked.Pos())+"): the duplicate entry is kept or replaces the remembered position")
		default:
			c.ok("(*parser).parseMapping|duplicate test", lookup.Pos(), "a key already seen is reported and neither the append nor the store into the set is reachable before the next key")
		}
		// the key loop goes on after a duplicate (and after a key that is no string): it is left only where its header says
		// that no key remains, so a repeated key cannot hide the keys that follow it
		if head != nil {
			if ex := loopSideExit(head); ex != nil {
				c.bad("(*parser).parseMapping|every key visited", exitPos(ex), "the loop over the keys of the mapping is left from inside its body (break or return at "+c.P.Pos(exitPos(ex))+"): the keys that follow are neither checked for repetition nor handed to the section parser")
			} else {
				c.ok("(*parser).parseMapping|every key visited", head.Instrs[0].Pos(), "the loop over the keys is left only at its header")
			}
		}
		// reported at the repetition: the position handed to the report is that of the key just read, not the remembered one
		var keyCall *ssa.Call
		eachInstr(fn, func(_ *ssa.BasicBlock, _ int, in ssa.Instruction) {
			if call, ok := in.(*ssa.Call); ok && keyCall == nil {
				if g := staticCallee(&call.Call); g != nil && FuncName(g) == "(*parser).parseString" && computedFrom(keyVal, call, 6) {
					keyCall = call
				}
			}
		})
		posBad, posN := "", 0
		for b := range sameIter {
			if !(b == seen || seen.Dominates(b)) {
				continue
			}
			for _, in := range b.Instrs {
				call, ok := in.(*ssa.Call)
				if !ok {
					continue
				}
				g := staticCallee(&call.Call)
				if g == nil || !strings.HasPrefix(FuncName(g), "(*parser).error") || len(call.Call.Args) < 2 {
					continue
				}
				posN++
				arg := call.Call.Args[1]
				f, base := fieldLoad(arg)
				switch {
				case keyCall == nil:
					posBad = "the key that is looked up is not the result of parseString on the key node"
				case f == "String.Pos" && base == ssa.Value(keyCall):
				case len(keyCall.Call.Args) > 1 && arg == keyCall.Call.Args[1]:
				case computedFrom(arg, remembered, 4):
					posBad = "the report is placed at the remembered position of the first definition, not at the repeated key"
				default:
					posBad = "the position of the report is not that of the key just read"
				}
			}
		}
		if posN > 0 {
			if posBad != "" {
				c.bad("(*parser).parseMapping|reported at the repetition", lookup.Pos(), posBad)
			} else {
				c.ok("(*parser).parseMapping|reported at the repetition", lookup.Pos(), "the duplicate is reported at the Pos of the key read in this iteration")
			}
		}
		// every append and every store lies on the not-seen side of the test only
		after := len(apps) > 0 && len(stores) > 0 && seen != notSeen
		for _, in := range append(append([]ssa.Instruction{}, stores...), apps...) {
			if !(in.Block() == notSeen || notSeen.Dominates(in.Block())) || sameIter[in.Block()] {
				after = false
			}
		}
		if after {
			c.ok("(*parser).parseMapping|store after test", apps[0].Pos(), "the entry is appended and remembered only on the path on which the duplicate test said it is new")
		} else {
			c.bad("(*parser).parseMapping|store after test", lookup.Pos(), "the entry is stored before the duplicate test, without it, or also on the path of a key already seen")
		}
	}
	// the key that is tested: the scalar's text, lower-cased exactly when the mapping is not case-sensitive - written inline
	// or in a helper that gets the flag
	if foldedUnder(keyVal, cs, 0) {
		c.ok("(*parser).parseMapping|case folding", lookup.Pos(), "the key is lower-cased iff !"+cs.Name()+" before the duplicate test")
	} else {
		c.bad("(*parser).parseMapping|case folding", lookup.Pos(), "the key is not lower-cased under `!"+cs.Name()+"` before the duplicate test")
	}
}

// foldedUnder: v is `x` when flag is true and strings.ToLower(x) when it is false: a join of the two made under a branch on
// the flag, or the result of a helper of the module that is such a join of its own parameters.
func foldedUnder(v ssa.Value, flag ssa.Value, depth int) bool {
	if depth > 2 {
		return false
	}
	switch x := v.(type) {
	case *ssa.Phi:
		if len(x.Edges) != 2 {
			return false
		}
		for i := 0; i < 2; i++ {
			low, raw := x.Edges[i], x.Edges[1-i]
			call, ok := low.(*ssa.Call)
			if !ok || calleeFullName(&call.Call) != "strings.ToLower" || call.Call.Args[0] != raw {
				continue
			}
			// the lower-casing block is entered on the false outcome of the flag (or the true outcome of !flag)
			for ifi, outcome := range controllingConds(call.Block()) {
				if ifi.Cond == flag && !outcome {
					return true
				}
				if u, ok := ifi.Cond.(*ssa.UnOp); ok && u.Op == token.NOT && u.X == flag && outcome {
					return true
				}
			}
		}
	case *ssa.Call:
		g := staticCallee(&x.Call)
		if g == nil || !inModule(g) || g.Blocks == nil {
			return false
		}
		fi := -1
		for i, a := range x.Call.Args {
			if a == flag {
				fi = i
			}
		}
		if fi < 0 || fi >= len(g.Params) {
			return false
		}
		// every return of the helper is the raw parameter (flag true) or its lower-casing (flag false), or a join of both
		okAll, n := true, 0
		for _, b := range g.Blocks {
			ret, isRet := b.Instrs[len(b.Instrs)-1].(*ssa.Return)
			if !isRet || len(ret.Results) != 1 {
				continue
			}
			n++
			r := ret.Results[0]
			if foldedUnder(r, g.Params[fi], depth+1) {
				continue
			}
			conds := controllingConds(b)
			side := func(want bool) bool {
				for ifi, outcome := range conds {
					if ifi.Cond == ssa.Value(g.Params[fi]) && outcome == want {
						return true
					}
					if u, ok := ifi.Cond.(*ssa.UnOp); ok && u.Op == token.NOT && u.X == ssa.Value(g.Params[fi]) && outcome == !want {
						return true
					}
				}
				return false
			}
			if _, isParam := r.(*ssa.Parameter); isParam && side(true) {
				continue
			}
			if call, isCall := r.(*ssa.Call); isCall && calleeFullName(&call.Call) == "strings.ToLower" {
				if _, isParam := call.Call.Args[0].(*ssa.Parameter); isParam && (side(false) || !side(true) && returnsRawUnderFlag(g, g.Params[fi])) {
					continue
				}
			}
			okAll = false
		}
		return okAll && n > 0
	}
	return false
}

// returnsRawUnderFlag: some return of g, reached only when the flag is true, hands back a parameter unchanged (so the
// remaining return, which lower-cases, is the flag-false case).
func returnsRawUnderFlag(g *ssa.Function, flag *ssa.Parameter) bool {
	for _, b := range g.Blocks {
		ret, isRet := b.Instrs[len(b.Instrs)-1].(*ssa.Return)
		if !isRet || len(ret.Results) != 1 {
			continue
		}
		if _, isParam := ret.Results[0].(*ssa.Parameter); !isParam {
			continue
		}
		for ifi, outcome := range controllingConds(b) {
			if ifi.Cond == ssa.Value(flag) && outcome {
				return true
			}
			if u, ok := ifi.Cond.(*ssa.UnOp); ok && u.Op == token.NOT && u.X == ssa.Value(flag) && !outcome {
				return true
			}
		}
	}
	return false
}

// mandatoryKeys: domain table (GitHub workflow syntax): key, sibling keys identifying its section,
// keys whose presence legitimately makes it optional.
var mandatoryKeys = []struct {
	key, sibling, absent string
	optionalWith         []string
}{
	{"on", "jobs", "", nil},
	{"jobs", "on", "", nil},
	{"runs-on", "steps", "", []string{"uses"}},
	{"steps", "runs-on", "", []string{"uses"}},
	{"type", "default", "options", nil},      // workflow_call input (workflow_dispatch inputs also have options and no mandatory type)
	{"value", "description", "", nil},        // workflow_call output
	{"group", "cancel-in-progress", "", nil}, // concurrency
	{"name", "url", "", nil},                 // environment
	{"username", "password", "", nil},
	{"password", "username", "", nil},
	{"run", "", "", nil},     // defaults.run (if-form loop)
	{"uses", "run", "", nil}, // step: run or uses
	{"run", "uses", "", nil}, // step: the other arm
}

func runC13Mand(c *Ctx) {
	p := c.P
	info := p.info()
	loops := findKeyLoops(p)
	isErrCall := func(n ast.Node) int {
		cnt := 0
		ast.Inspect(n, func(x ast.Node) bool {
			if call, ok := x.(*ast.CallExpr); ok {
				if fn := calleeObj(info, call); fn != nil && strings.HasPrefix(shortFuncName(fn), "(*parser).error") {
					cnt++
				}
			}
			return true
		})
		return cnt
	}
	for _, mk := range mandatoryKeys {
		construct := "mandatory key " + mk.key
		if mk.sibling != "" {
			construct += " (section with " + mk.sibling + ")"
		}
		// the loop whose dispatch lists key and sibling
		var kl *keyLoop
		for _, l := range loops {
			has := func(s string) bool {
				if s == "" {
					return true
				}
				for _, x := range l.labels {
					if x == s {
						return true
					}
				}
				return false
			}
			if l.dispatch != nil && has(mk.key) && has(mk.sibling) && (mk.absent == "" || !has(mk.absent)) {
				if mk.sibling == "" && len(l.labels) != 1 {
					continue
				}
				kl = l
				break
			}
		}
		if kl == nil {
			c.undecided(construct, 0, "no section parser dispatches on this key")
			continue
		}
		// variables/fields assigned in the clause of the key
		assigned := map[string]bool{}    // fields/flags that record the key: assigned from a parse call or set to true
		assignedAny := map[string]bool{} // everything assigned in the clause
		isRecord := func(as *ast.AssignStmt, i int) bool {
			if len(as.Rhs) != len(as.Lhs) {
				return false
			}
			r := as.Rhs[i]
			if id, ok := r.(*ast.Ident); ok && id.Name == "true" {
				return true
			}
			if call, ok := r.(*ast.CallExpr); ok {
				if fn := calleeObj(info, call); fn != nil && strings.HasPrefix(fn.Name(), "parse") {
					return true
				}
			}
			if un, ok := r.(*ast.UnaryExpr); ok && un.Op == token.AND {
				if _, ok := un.X.(*ast.CompositeLit); ok {
					return true // the node of the section itself
				}
			}
			return false
		}
		// typed records: `X.F = p.parse...(...)` in the clause, as (type of X, F) - the field of a variant that records the key
		var typed []mandTypedField
		tagStr := ""
		if sw, ok := kl.dispatch.(*ast.SwitchStmt); ok && sw.Tag != nil {
			tagStr = exprStr(sw.Tag)
		}
		var collect func(n ast.Node)
		collect = func(n ast.Node) {
			if n == nil {
				return
			}
			ast.Inspect(n, func(x ast.Node) bool {
				switch st := x.(type) {
				case *ast.IfStmt:
					// a clause shared by several keys that asks again which key it is: only the branch of this key counts
					if lab, eq, ok := tagCompare(info, st.Cond, tagStr); ok {
						if st.Init != nil {
							collect(st.Init)
						}
						if (lab == mk.key) == eq {
							collect(st.Body)
						} else {
							collect(st.Else)
						}
						return false
					}
				case *ast.SwitchStmt:
					if tagStr != "" && st.Tag != nil && exprStr(st.Tag) == tagStr {
						var own, def *ast.CaseClause
						for _, cc := range st.Body.List {
							cl := cc.(*ast.CaseClause)
							if cl.List == nil {
								def = cl
							}
							for _, e := range cl.List {
								if tv := info.Types[e]; tv.Value != nil && tv.Value.Kind() == constant.String && constant.StringVal(tv.Value) == mk.key {
									own = cl
								}
							}
						}
						if own == nil {
							own = def
						}
						if own != nil {
							for _, b := range own.Body {
								collect(b)
							}
						}
						return false
					}
				case *ast.AssignStmt:
					for i, l := range st.Lhs {
						assignedAny[exprStr(l)] = true
						if isRecord(st, i) {
							assigned[exprStr(l)] = true
							if sel, ok := ast.Unparen(l).(*ast.SelectorExpr); ok {
								if _, isCall := st.Rhs[i].(*ast.CallExpr); isCall {
									if t := info.TypeOf(sel.X); t != nil {
										typed = append(typed, mandTypedField{t, sel.Sel.Name})
									}
								}
							}
						}
					}
				}
				return true
			})
		}
		guardVars := map[string]bool{}
		switch s := kl.dispatch.(type) {
		case *ast.SwitchStmt:
			for _, cc := range s.Body.List {
				cl := cc.(*ast.CaseClause)
				for _, e := range cl.List {
					if tv := info.Types[e]; tv.Value != nil && tv.Value.Kind() == constant.String {
						lab := constant.StringVal(tv.Value)
						if lab == mk.key {
							for _, st := range cl.Body {
								collect(st)
							}
						}
						for _, ow := range mk.optionalWith {
							if lab == ow {
								ast.Inspect(cl, func(x ast.Node) bool {
									if as, ok := x.(*ast.AssignStmt); ok {
										for i, l := range as.Lhs {
											if isRecord(as, i) {
												guardVars[exprStr(l)] = true
											}
										}
									}
									return true
								})
							}
						}
					}
				}
			}
		case *ast.IfStmt:
			// statements of the loop body after the `if X.id != "k" {...; continue}` belong to the key
			after := false
			for _, st := range kl.rs.Body.List {
				if st == kl.dispatch {
					after = true
					if s.Cond.(*ast.BinaryExpr).Op == token.EQL {
						collect(s.Body)
					}
					continue
				}
				if after {
					collect(st)
				}
			}
		}
		if len(assignedAny) == 0 {
			c.undecided(construct, kl.rs.Pos(), "the clause of the key assigns nothing that could be tested later")
			continue
		}
		// statements after the loop: search the enclosing function for an if / type switch mentioning an assigned
		// expression, with an error call, positioned after the loop
		type hit struct {
			n       ast.Node
			parents []ast.Node
		}
		var hits []hit
		var stack []ast.Node
		mentionsIn := func(e ast.Node, set map[string]bool) bool {
			m := false
			ast.Inspect(e, func(x ast.Node) bool {
				if ex, ok := x.(ast.Expr); ok && set[exprStr(ex)] {
					m = true
				}
				return !m
			})
			return m
		}
		mentions := func(e ast.Node) bool { return mentionsIn(e, assigned) }
		ast.Inspect(kl.decl.Body, func(n ast.Node) bool {
			if n == nil {
				stack = stack[:len(stack)-1]
				return true
			}
			stack = append(stack, n)
			if n.Pos() <= kl.rs.End() {
				return true
			}
			switch s := n.(type) {
			case *ast.IfStmt:
				if mentions(s.Cond) && isErrCall(s.Body) > 0 {
					hits = append(hits, hit{s, append([]ast.Node(nil), stack[:len(stack)-1]...)})
				}
				// `if x, ok := <assigned>.(T); ok { ... } else ...`: a type switch written as assertions (the head of the chain)
				if as, ok := s.Init.(*ast.AssignStmt); ok && len(as.Rhs) == 1 && len(typed) > 0 {
					if ta, ok := ast.Unparen(as.Rhs[0]).(*ast.TypeAssertExpr); ok && ta.Type != nil && mentionsIn(ta.X, assignedAny) && isErrCall(s) > 0 {
						if par, isIf := stack[len(stack)-2].(*ast.IfStmt); !isIf || par.Else != ast.Stmt(s) {
							hits = append(hits, hit{s, append([]ast.Node(nil), stack[:len(stack)-1]...)})
						}
					}
				}
			case *ast.TypeSwitchStmt:
				if mentionsIn(s.Assign, assignedAny) && isErrCall(s.Body) > 0 && len(typed) > 0 {
					hits = append(hits, hit{s, append([]ast.Node(nil), stack[:len(stack)-1]...)})
				}
			}
			return true
		})
		if len(hits) == 0 {
			c.bad(construct, kl.rs.Pos(), fmt.Sprintf("nothing assigned by the clause of %q (%s) is tested after the key loop by a check that reports an error: a missing %q is silently accepted", mk.key, strings.Join(sortedKeys(assigned), ", "), mk.key))
			continue
		}
		// reportsAlways: the statement list reports on every run through it (an error call among its direct statements)
		reportsAlways := func(list []ast.Stmt) bool {
			for _, st := range list {
				if es, ok := st.(*ast.ExprStmt); ok {
					if call, ok := es.X.(*ast.CallExpr); ok {
						if fn := calleeObj(info, call); fn != nil && strings.HasPrefix(shortFuncName(fn), "(*parser).error") {
							return true
						}
					}
				}
			}
			return false
		}
		// the check must hold whenever the key is missing: its condition is the missing-test (or a disjunction with it, or
		// a conjunction of it with the absence of the documented alternative only), its body reports unconditionally, and
		// it does not sit under conditions other than the documented alternative
		okHit := ""
		var why []string
		for _, h := range hits {
			bad := ""
			switch s := h.n.(type) {
			case *ast.IfStmt:
				if _, isAssert := s.Init.(*ast.AssignStmt); isAssert && !mentions(s.Cond) {
					bad = mandVariantArms(info, variantArmsOfIf(info, s), mk.key, typed, reportsAlways)
					break
				}
				if w := condHoldsWhenMissing(s.Cond, assigned, guardVars); w != "" {
					bad = "its condition `" + exprStr(s.Cond) + "` " + w
				} else if !reportsAlways(s.Body.List) {
					bad = "the body of `if " + exprStr(s.Cond) + "` reports only under a further condition"
				}
			case *ast.TypeSwitchStmt:
				bad = mandVariantArms(info, variantArmsOfSwitch(info, s), mk.key, typed, reportsAlways)
			}
			for _, par := range h.parents {
				if bad != "" {
					break
				}
				if par.Pos() <= kl.rs.End() && par.End() >= kl.rs.End() {
					continue // ancestors shared with the loop
				}
				if sw, isSw := par.(*ast.SwitchStmt); isSw && sw.Tag == nil {
					// a tagless switch is an if / else-if chain: the check lies in one clause, behind the negation of
					// every earlier clause's conditions and under its own
					for _, st := range sw.Body.List {
						cc, isCC := st.(*ast.CaseClause)
						if !isCC {
							continue
						}
						mine := cc.Pos() <= h.n.Pos() && h.n.End() <= cc.End()
						for _, e := range cc.List {
							switch g := guardSense(e, guardVars); {
							case mine && (g == "absent" || g == "mentions"):
							case mine:
								bad = "it is only reached under `case " + exprStr(e) + "`"
							case g == "present" || g == "mentions":
								// skipped when the alternative is present: the check is on the absent side
							default:
								bad = "it is not reached when `case " + exprStr(e) + "` of the enclosing switch holds, which is not the presence of the documented alternative"
							}
							if bad != "" {
								break
							}
						}
						if mine || bad != "" {
							break
						}
					}
					continue
				}
				ifs, ok := par.(*ast.IfStmt)
				if !ok {
					continue
				}
				// the enclosing condition may only be the documented alternative, and the check lies on the side on which
				// the alternative is absent
				inElse := ifs.Else != nil && ifs.Else.Pos() <= h.n.Pos() && h.n.End() <= ifs.Else.End()
				switch guardSense(ifs.Cond, guardVars) {
				case "absent":
					if inElse {
						bad = "it is only reached when `" + exprStr(ifs.Cond) + "` fails, that is when the alternative key is present"
					}
				case "present":
					if !inElse {
						bad = "it is only reached under `" + exprStr(ifs.Cond) + "`, that is when the alternative key is present"
					}
				case "mentions":
				default:
					bad = "it is only reached under `" + exprStr(ifs.Cond) + "`"
				}
			}
			if bad == "" {
				// the record that is tested belongs to this section alone: it is not declared outside a loop that encloses
				// the key loop (one flag shared by all inputs would be satisfied by the first of them)
				var tested ast.Node
				switch s := h.n.(type) {
				case *ast.IfStmt:
					tested = s.Cond
					if _, isAssert := s.Init.(*ast.AssignStmt); isAssert && !mentions(s.Cond) {
						tested = s.Init
					}
				case *ast.TypeSwitchStmt:
					tested = s.Assign
				}
				bad = mandRecordCarried(p, info, kl, tested, assignedAny)
			}
			if bad == "" {
				okHit = p.Pos(h.n.Pos())
				break
			}
			why = append(why, bad)
		}
		if okHit != "" {
			c.ok(construct, kl.rs.Pos(), "checked after the key loop at "+okHit+": the report is reached whenever the key is missing")
		} else {
			sort.Strings(why)
			c.bad(construct, kl.rs.Pos(), "the check for a missing "+mk.key+" exists but "+strings.Join(why, "; ")+": a section without "+mk.key+" can be accepted silently")
		}
	}
}

// mandRecordCarried: a variable behind one of the tested expressions is declared outside a loop that encloses the key loop
// and is not assigned afresh between the head of that loop and the key loop: what an earlier section recorded is still there
// when the next section is tested. "" if every tested record is created for the section.
func mandRecordCarried(p *Prog, info *types.Info, kl *keyLoop, tested ast.Node, set map[string]bool) string {
	if tested == nil {
		return ""
	}
	bases := map[types.Object]string{}
	ast.Inspect(tested, func(x ast.Node) bool {
		ex, ok := x.(ast.Expr)
		if !ok || !set[exprStr(ex)] {
			return true
		}
		e := ast.Unparen(ex)
		for {
			switch y := e.(type) {
			case *ast.SelectorExpr:
				e = ast.Unparen(y.X)
				continue
			case *ast.StarExpr:
				e = ast.Unparen(y.X)
				continue
			case *ast.IndexExpr:
				e = ast.Unparen(y.X)
				continue
			}
			break
		}
		if id, ok := e.(*ast.Ident); ok {
			if obj, ok := info.ObjectOf(id).(*types.Var); ok && !obj.IsField() && obj.Parent() != obj.Pkg().Scope() {
				bases[obj] = id.Name
			}
		}
		return false
	})
	var out []string
	for obj, name := range bases {
		for i, par := range kl.parents {
			var body *ast.BlockStmt
			switch l := par.(type) {
			case *ast.ForStmt:
				body = l.Body
			case *ast.RangeStmt:
				body = l.Body
			}
			if body == nil || obj.Pos() >= par.Pos() {
				continue
			}
			// assigned afresh on the way from the head of that loop to the key loop: a direct statement of a block that
			// encloses the key loop, before it
			fresh := false
			for _, inner := range kl.parents[i+1:] {
				blk, ok := inner.(*ast.BlockStmt)
				if !ok {
					continue
				}
				for _, st := range blk.List {
					if st.Pos() >= kl.rs.Pos() {
						break
					}
					if as, ok := st.(*ast.AssignStmt); ok {
						for _, l := range as.Lhs {
							if id, ok := ast.Unparen(l).(*ast.Ident); ok && info.ObjectOf(id) == types.Object(obj) {
								fresh = true
							}
						}
					}
				}
			}
			if !fresh {
				out = append(out, fmt.Sprintf("`%s`, which it tests, is declared outside the loop at %s that encloses the key loop and is not assigned afresh for each section: once one section has recorded the key, the following ones are not tested", name, p.Pos(par.Pos())))
			}
		}
	}
	sort.Strings(out)
	if len(out) > 0 {
		return out[0]
	}
	return ""
}

// tagCompare: cond is `<tag> == "lit"` (eq) or `<tag> != "lit"`.
func tagCompare(info *types.Info, cond ast.Expr, tag string) (lab string, eq bool, ok bool) {
	be, isBin := ast.Unparen(cond).(*ast.BinaryExpr)
	if !isBin || tag == "" || (be.Op != token.EQL && be.Op != token.NEQ) {
		return "", false, false
	}
	for _, pair := range [][2]ast.Expr{{be.X, be.Y}, {be.Y, be.X}} {
		if exprStr(pair[0]) != tag {
			continue
		}
		if tv := info.Types[pair[1]]; tv.Value != nil && tv.Value.Kind() == constant.String {
			return constant.StringVal(tv.Value), be.Op == token.EQL, true
		}
	}
	return "", false, false
}

// missingAtom: e says that one of the expressions of set was never assigned: `x == nil`, `!x`, `x == false`, `len(x) == 0`.
func missingAtom(e ast.Expr, set map[string]bool) bool {
	e = ast.Unparen(e)
	switch x := e.(type) {
	case *ast.UnaryExpr:
		return x.Op == token.NOT && set[exprStr(ast.Unparen(x.X))]
	case *ast.BinaryExpr:
		if x.Op != token.EQL {
			return false
		}
		for _, pair := range [][2]ast.Expr{{x.X, x.Y}, {x.Y, x.X}} {
			l, r := ast.Unparen(pair[0]), exprStr(ast.Unparen(pair[1]))
			if set[exprStr(l)] && (r == "nil" || r == "false") {
				return true
			}
			if call, ok := l.(*ast.CallExpr); ok && exprStr(call.Fun) == "len" && len(call.Args) == 1 && set[exprStr(ast.Unparen(call.Args[0]))] && r == "0" {
				return true
			}
		}
	}
	return false
}

// presentAtom: the negation of a missingAtom: `x != nil`, `x`, `x == true`, `len(x) > 0`, `len(x) != 0`.
func presentAtom(e ast.Expr, set map[string]bool) bool {
	e = ast.Unparen(e)
	switch x := e.(type) {
	case *ast.Ident, *ast.SelectorExpr:
		return set[exprStr(e)]
	case *ast.BinaryExpr:
		l, r := ast.Unparen(x.X), exprStr(ast.Unparen(x.Y))
		if set[exprStr(l)] && ((x.Op == token.NEQ && (r == "nil" || r == "false")) || (x.Op == token.EQL && r == "true")) {
			return true
		}
		if call, ok := l.(*ast.CallExpr); ok && exprStr(call.Fun) == "len" && len(call.Args) == 1 && set[exprStr(ast.Unparen(call.Args[0]))] && r == "0" && (x.Op == token.NEQ || x.Op == token.GTR) {
			return true
		}
	}
	return false
}

// guardSense: what a condition says about the documented alternative keys: "absent", "present", "mentions" (an alternative
// occurs in a form that is not read further) or "".
func guardSense(cond ast.Expr, guards map[string]bool) string {
	switch {
	case missingAtom(cond, guards):
		return "absent"
	case presentAtom(cond, guards):
		return "present"
	}
	m := false
	ast.Inspect(cond, func(x ast.Node) bool {
		if ex, ok := x.(ast.Expr); ok && guards[exprStr(ex)] {
			m = true
		}
		return !m
	})
	if m {
		return "mentions"
	}
	return ""
}

// condHoldsWhenMissing: "" when cond is true on every run in which the key was not recorded (and no documented alternative
// was), else what stands in the way.
func condHoldsWhenMissing(cond ast.Expr, assigned, guards map[string]bool) string {
	cond = ast.Unparen(cond)
	if missingAtom(cond, assigned) {
		return ""
	}
	if be, ok := cond.(*ast.BinaryExpr); ok {
		switch be.Op {
		case token.LOR:
			// one disjunct that holds is enough
			l, r := condHoldsWhenMissing(be.X, assigned, guards), condHoldsWhenMissing(be.Y, assigned, guards)
			if l == "" || r == "" {
				return ""
			}
			return l
		case token.LAND:
			// every conjunct must hold: the missing-test itself, or the absence of the documented alternative
			some := false
			for _, side := range []ast.Expr{be.X, be.Y} {
				if w := condHoldsWhenMissing(side, assigned, guards); w == "" {
					some = true
					continue
				}
				if g := guardSense(side, guards); g == "absent" || g == "mentions" {
					continue
				}
				return "also demands `" + exprStr(side) + "`, which is not the absence of the documented alternative (when it is false the missing key goes unreported)"
			}
			if some {
				return ""
			}
		}
	}
	return "is not the test that the key is missing"
}

type variantArm struct {
	t    types.Type // nil: the arm for no variant at all (default / case nil / final else)
	name string     // the variable bound to the variant in the arm
	body []ast.Stmt
}

// mandTypedField: `X.F = p.parse...(...)` in the clause of a key: the field F of the variant type of X records the key.
type mandTypedField struct {
	t types.Type
	f string
}

func variantArmsOfSwitch(info *types.Info, s *ast.TypeSwitchStmt) []variantArm {
	name := ""
	if as, ok := s.Assign.(*ast.AssignStmt); ok && len(as.Lhs) == 1 {
		name = exprStr(as.Lhs[0])
	}
	var arms []variantArm
	for _, cc := range s.Body.List {
		cl := cc.(*ast.CaseClause)
		if cl.List == nil {
			arms = append(arms, variantArm{nil, name, cl.Body})
		}
		for _, e := range cl.List {
			if tv, ok := info.Types[e]; ok && tv.IsNil() {
				arms = append(arms, variantArm{nil, name, cl.Body})
			} else if t := info.TypeOf(e); t != nil {
				arms = append(arms, variantArm{t, name, cl.Body})
			}
		}
	}
	return arms
}

// variantArmsOfIf: `if a, ok := X.(T1); ok {...} else if b, ok := X.(T2); ok {...} else {...}`.
func variantArmsOfIf(info *types.Info, s *ast.IfStmt) []variantArm {
	var arms []variantArm
	for s != nil {
		as, ok := s.Init.(*ast.AssignStmt)
		if !ok || len(as.Rhs) != 1 || len(as.Lhs) != 2 || exprStr(s.Cond) != exprStr(as.Lhs[1]) {
			return arms
		}
		ta, ok := ast.Unparen(as.Rhs[0]).(*ast.TypeAssertExpr)
		if !ok || ta.Type == nil {
			return arms
		}
		arms = append(arms, variantArm{info.TypeOf(ta.Type), exprStr(as.Lhs[0]), s.Body.List})
		switch e := s.Else.(type) {
		case *ast.IfStmt:
			s = e
		case *ast.BlockStmt:
			arms = append(arms, variantArm{nil, "", e.List})
			s = nil
		default:
			s = nil
		}
	}
	return arms
}

// mandVariantArms: the section is a variant record (one type per alternative key): the arm of the variant that the key
// creates reports when the key's own field was never assigned, and the arm for no variant at all reports always.
func mandVariantArms(info *types.Info, arms []variantArm, key string, typed []mandTypedField, reportsAlways func([]ast.Stmt) bool) string {
	own, none := false, false
	ownSeen := false
	for _, a := range arms {
		if a.t == nil {
			if reportsAlways(a.body) {
				none = true
			}
			continue
		}
		for _, tf := range typed {
			if !types.Identical(tf.t, a.t) || a.name == "" || a.name == "_" {
				continue
			}
			ownSeen = true
			field := map[string]bool{a.name + "." + tf.f: true}
			for _, st := range a.body {
				if ifs, ok := st.(*ast.IfStmt); ok && ifs.Init == nil && condHoldsWhenMissing(ifs.Cond, field, nil) == "" && reportsAlways(ifs.Body.List) {
					own = true
				}
			}
		}
	}
	switch {
	case !ownSeen:
		return "no arm of the switch over the variants handles the variant created by " + key
	case !own:
		return "the arm of the variant that " + key + " creates does not report when " + key + " itself was never assigned (the variant also arises from the other keys of the clause)"
	case !none:
		return "no arm reports a section that has none of the alternative keys (default arm missing or silent)"
	}
	return ""
}

// C13.FIXEDLEN: m := parseMapping(...); m[0] ... must be guarded by len(m) != <n>.
func runC13FixedLen(c *Ctx) {
	p := c.P
	info := p.info()
	p.FuncDecls(func(_ *ast.File, d *ast.FuncDecl) {
		if d.Recv == nil || exprStr(d.Recv.List[0].Type) != "*parser" {
			return
		}
		vars := map[string]*ast.CallExpr{}
		ast.Inspect(d.Body, func(n ast.Node) bool {
			if as, ok := n.(*ast.AssignStmt); ok && len(as.Lhs) == 1 && len(as.Rhs) == 1 {
				if call := isMappingCall(info, as.Rhs[0]); call != nil {
					vars[exprStr(as.Lhs[0])] = call
				}
			}
			return true
		})
		for v := range vars {
			maxIdx := int64(-1)
			ast.Inspect(d.Body, func(n ast.Node) bool {
				if ix, ok := n.(*ast.IndexExpr); ok && exprStr(ix.X) == v {
					if tv := info.Types[ix.Index]; tv.Value != nil {
						if k, ok := constant.Int64Val(tv.Value); ok && k > maxIdx {
							maxIdx = k
						}
					}
				}
				return true
			})
			if maxIdx < 0 {
				continue
			}
			construct := DeclName(info, d) + "|entries of " + v + " accessed by index"
			want := fmt.Sprintf("len(%s) != %d", v, maxIdx+1)
			found := false
			ast.Inspect(d.Body, func(n ast.Node) bool {
				ifs, ok := n.(*ast.IfStmt)
				if !ok {
					return true
				}
				// the first disjunct of the condition must be the exact length test and the body must report
				cond := ifs.Cond
				for {
					be, ok := cond.(*ast.BinaryExpr)
					if ok && be.Op == token.LOR {
						cond = be.X
						continue
					}
					break
				}
				if exprStr(cond) == want {
					errs := false
					ast.Inspect(ifs.Body, func(x ast.Node) bool {
						if call, ok := x.(*ast.CallExpr); ok {
							if fn := calleeObj(info, call); fn != nil && strings.HasPrefix(shortFuncName(fn), "(*parser).error") {
								errs = true
							}
						}
						return true
					})
					if errs {
						found = true
					}
				}
				return true
			})
			if found {
				c.ok(construct, d.Pos(), "guarded by `"+want+"` with an error report: extra keys are reported at the item")
			} else {
				c.bad(construct, d.Pos(), "entries are accessed by constant index but no check `"+want+"` reports mappings with a different number of keys: a key outside the set is accepted")
			}
		}
	})
}

// exactlyOneKeyCheck: the statement list that contains the key loop first tests `len(m) != 1 || m[0].id != "<label>"`
// on the ranged entries and reports an error in that branch: any key other than the one keyword is reported (at the
// element) before the loop picks the keyword out.
func exactlyOneKeyCheck(info *types.Info, kl *keyLoop) string {
	if len(kl.labels) != 1 || len(kl.parents) == 0 {
		return ""
	}
	blk, ok := kl.parents[len(kl.parents)-1].(*ast.BlockStmt)
	if !ok {
		return ""
	}
	m := exprStr(kl.rs.X)
	want := fmt.Sprintf("len(%s) != 1 || %s[0].%s != %q", m, m, currentFieldName("workflowKeyVal.id"), kl.labels[0])
	for _, st := range blk.List {
		if st == ast.Stmt(kl.rs) {
			break
		}
		ifs, ok := st.(*ast.IfStmt)
		if !ok || exprStr(ifs.Cond) != want {
			continue
		}
		reported := false
		ast.Inspect(ifs.Body, func(x ast.Node) bool {
			if call, ok := x.(*ast.CallExpr); ok {
				if fn := calleeObj(info, call); fn != nil {
					if n := shortFuncName(fn); n == "(*parser).error" || n == "(*parser).errorf" {
						reported = true
					}
				}
			}
			return true
		})
		if reported {
			return "the element is reported unless it has exactly the key " + kl.labels[0] + "; the loop then picks that key out"
		}
	}
	return ""
}
