package main

import (
	"go/ast"
	"go/constant"
	"go/token"
	"go/types"
	"sort"
	"strings"

	"golang.org/x/tools/go/callgraph"
	"golang.org/x/tools/go/ssa"
)

// ---------- generic SSA helpers ----------

func eachInstr(fn *ssa.Function, f func(b *ssa.BasicBlock, idx int, in ssa.Instruction)) {
	for _, b := range fn.Blocks {
		for i, in := range b.Instrs {
			f(b, i, in)
		}
	}
}

// staticCallee returns the statically known callee of a call, including closures bound in place.
func staticCallee(c *ssa.CallCommon) *ssa.Function {
	if c == nil {
		return nil
	}
	if f := c.StaticCallee(); f != nil {
		return f
	}
	if mc, ok := c.Value.(*ssa.MakeClosure); ok {
		if f, ok := mc.Fn.(*ssa.Function); ok {
			return f
		}
	}
	return nil
}

// calleesOf resolves a call site through the VTA call graph when it is not static.
func (p *Prog) calleesOf(site ssa.CallInstruction) []*ssa.Function {
	if f := staticCallee(site.Common()); f != nil {
		return []*ssa.Function{f}
	}
	cg := p.CallGraph()
	n := cg.Nodes[site.Parent()]
	if n == nil {
		return nil
	}
	var out []*ssa.Function
	for _, e := range n.Out {
		if e.Site == site {
			out = append(out, e.Callee.Func)
		}
	}
	return out
}

func (p *Prog) callersOf(fn *ssa.Function) []*callgraph.Edge {
	n := p.CallGraph().Nodes[fn]
	if n == nil {
		return nil
	}
	return n.In
}

// reachable returns all functions reachable from roots through the call graph (including closures
// created by reachable functions: a MakeClosure is treated as a potential call).
func (p *Prog) reachable(roots ...*ssa.Function) map[*ssa.Function]bool {
	cg := p.CallGraph()
	seen := map[*ssa.Function]bool{}
	var visit func(f *ssa.Function)
	visit = func(f *ssa.Function) {
		if f == nil || seen[f] {
			return
		}
		seen[f] = true
		if n := cg.Nodes[f]; n != nil {
			for _, e := range n.Out {
				visit(e.Callee.Func)
			}
		}
		for _, a := range f.AnonFuncs {
			visit(a)
		}
	}
	for _, r := range roots {
		visit(r)
	}
	return seen
}

func inPkg(fn *ssa.Function, pkg *ssa.Package) bool {
	if fn == nil {
		return false
	}
	for fn.Parent() != nil {
		fn = fn.Parent()
	}
	if fn.Package() == pkg {
		return true
	}
	if o := fn.Origin(); o != nil && o.Package() == pkg {
		return true
	}
	return false
}

// unwrap strips value-preserving conversions.
func unwrap(v ssa.Value) ssa.Value {
	for {
		switch x := v.(type) {
		case *ssa.ChangeType:
			v = x.X
		case *ssa.ChangeInterface:
			v = x.X
		case *ssa.MakeInterface:
			v = x.X
		case *ssa.Convert:
			v = x.X
		default:
			return v
		}
	}
}

func constString(v ssa.Value) (string, bool) {
	c, ok := unwrap(v).(*ssa.Const)
	if !ok || c.Value == nil || c.Value.Kind() != constant.String {
		return "", false
	}
	return constant.StringVal(c.Value), true
}

func constInt(v ssa.Value) (int64, bool) {
	c, ok := unwrap(v).(*ssa.Const)
	if !ok || c.Value == nil || c.Value.Kind() != constant.Int {
		return 0, false
	}
	i, ok := constant.Int64Val(c.Value)
	return i, ok
}

func isNilConst(v ssa.Value) bool {
	c, ok := v.(*ssa.Const)
	return ok && c.IsNil()
}

// fieldOf describes a FieldAddr/Field instruction as "Type.field".
func fieldName(t types.Type, idx int) (string, *types.Var) {
	if p, ok := t.Underlying().(*types.Pointer); ok {
		t = p.Elem()
	}
	st, ok := t.Underlying().(*types.Struct)
	if !ok || idx >= st.NumFields() {
		return "?", nil
	}
	owner := typeStr(t)
	n := owner + "." + st.Field(idx).Name()
	if len(fieldAlias) > 0 {
		if a, ok := fieldAlias[n]; ok {
			n = a // a renamed field: known to the rules under its recorded name (symbols.go)
		}
	}
	return n, st.Field(idx)
}

func fieldAddrName(fa *ssa.FieldAddr) string {
	n, _ := fieldName(fa.X.Type(), fa.Field)
	return n
}

// calleeIs reports whether the call statically targets the function "pkgpath.Name" or method "(pkgpath.T).Name".
func calleeIs(c *ssa.CallCommon, full string) bool {
	return calleeFullName(c) == full
}

func calleeFullName(c *ssa.CallCommon) string {
	if c.IsInvoke() {
		if c.Method == nil {
			return ""
		}
		return "(" + types.TypeString(c.Value.Type(), nil) + ")." + c.Method.Name()
	}
	f := staticCallee(c)
	if f == nil {
		if b, ok := c.Value.(*ssa.Builtin); ok {
			return "builtin." + b.Name()
		}
		return ""
	}
	return funcFullName(f)
}

func funcFullName(f *ssa.Function) string {
	if f.Origin() != nil {
		f = f.Origin()
	}
	if obj, ok := f.Object().(*types.Func); ok && obj != nil {
		return obj.FullName()
	}
	return f.String()
}

// ---------- dominance ----------

// instrDominates: does instruction a (in block ba at index ia) dominate b?
func instrDominates(ba *ssa.BasicBlock, ia int, bb *ssa.BasicBlock, ib int) bool {
	if ba == bb {
		return ia < ib
	}
	return ba.Dominates(bb)
}

func instrIndex(in ssa.Instruction) int {
	for i, x := range in.Block().Instrs {
		if x == in {
			return i
		}
	}
	return -1
}

// reachableBlocks returns blocks reachable from `from` (exclusive of from unless on a cycle) without entering blocks in stop.
func reachableBlocks(from []*ssa.BasicBlock, stop map[*ssa.BasicBlock]bool) map[*ssa.BasicBlock]bool {
	seen := map[*ssa.BasicBlock]bool{}
	var work []*ssa.BasicBlock
	for _, b := range from {
		if !stop[b] && !seen[b] {
			seen[b] = true
			work = append(work, b)
		}
	}
	for len(work) > 0 {
		b := work[len(work)-1]
		work = work[:len(work)-1]
		for _, s := range b.Succs {
			if !seen[s] && !stop[s] {
				seen[s] = true
				work = append(work, s)
			}
		}
	}
	return seen
}

// ---------- AST helpers ----------

func (p *Prog) info() *types.Info { return p.Main.TypesInfo }

// enclosingFunc maps a position to the declared function containing it.
func (p *Prog) enclosingDecl(pos token.Pos) *ast.FuncDecl {
	for _, f := range p.Main.Syntax {
		if f.Pos() <= pos && pos <= f.End() {
			for _, d := range f.Decls {
				if fd, ok := d.(*ast.FuncDecl); ok && fd.Pos() <= pos && pos <= fd.End() {
					return fd
				}
			}
		}
	}
	return nil
}

func exprStr(e ast.Expr) string { return types.ExprString(e) }

// calleeObj resolves the called function object of a call expression through type information.
func calleeObj(info *types.Info, call *ast.CallExpr) *types.Func {
	var id *ast.Ident
	switch f := ast.Unparen(call.Fun).(type) {
	case *ast.Ident:
		id = f
	case *ast.SelectorExpr:
		id = f.Sel
	case *ast.IndexExpr: // generic instantiation
		switch g := f.X.(type) {
		case *ast.Ident:
			id = g
		case *ast.SelectorExpr:
			id = g.Sel
		}
	}
	if id == nil {
		return nil
	}
	fn, _ := info.Uses[id].(*types.Func)
	return fn
}

func objFullName(f *types.Func) string {
	if f == nil {
		return ""
	}
	return f.FullName()
}

// short name of a *types.Func of the main package: (*T).m or f.
func shortFuncName(f *types.Func) string {
	if f == nil {
		return ""
	}
	// a renamed function of the module is known under its recorded name (symbols.go)
	if len(funcAlias) > 0 && idxProg != nil && f.Pkg() != nil && f.Pkg().Path() == modPath {
		if sf := idxProg.SSA.FuncValue(f); sf != nil {
			if a, ok := funcAlias[sf]; ok {
				return a
			}
		}
	}
	s := f.FullName()
	return strings.ReplaceAll(s, modPath+".", "")
}

func sortedKeys[M ~map[string]V, V any](m M) []string {
	ks := make([]string, 0, len(m))
	for k := range m {
		ks = append(ks, k)
	}
	sort.Strings(ks)
	return ks
}

// roleParams: the parameters that stand for the same thing as one of the seed parameters, found by use and not by name:
// a parameter of an in-module function belongs to the role when it is handed on unchanged, as the argument at the position
// of a parameter that already belongs to it (greatest depth 6). Renaming a parameter does not change the result.
func (p *Prog) roleParams(seeds ...*ssa.Parameter) map[*ssa.Parameter]bool {
	role := map[*ssa.Parameter]bool{}
	for _, s := range seeds {
		if s != nil {
			role[s] = true
		}
	}
	for round := 0; round < 6; round++ {
		changed := false
		for _, fn := range p.Funcs {
			eachInstr(fn, func(_ *ssa.BasicBlock, _ int, in ssa.Instruction) {
				call, ok := in.(ssa.CallInstruction)
				if !ok {
					return
				}
				g := staticCallee(call.Common())
				if g == nil || !inModule(g) {
					return
				}
				for i, a := range call.Common().Args {
					if i >= len(g.Params) || !role[g.Params[i]] {
						continue
					}
					if ap, ok := a.(*ssa.Parameter); ok && !role[ap] {
						role[ap] = true
						changed = true
					}
				}
			})
		}
		if !changed {
			break
		}
	}
	return role
}

// paramIndexIn: the positions of fn's parameters that belong to the role.
func paramIndexIn(fn *ssa.Function, role map[*ssa.Parameter]bool) []int {
	var out []int
	for i, q := range fn.Params {
		if role[q] {
			out = append(out, i)
		}
	}
	return out
}

// withHelpers: fn and the in-module functions it calls statically, transitively up to the given depth. Rules that ask "does
// this function test / call / store X" look at this set, so that moving a few statements into a helper does not hide X.
func (p *Prog) withHelpers(fn *ssa.Function, depth int) []*ssa.Function {
	seen := map[*ssa.Function]bool{}
	var out []*ssa.Function
	var walk func(f *ssa.Function, d int)
	walk = func(f *ssa.Function, d int) {
		if f == nil || seen[f] || f.Blocks == nil {
			return
		}
		seen[f] = true
		out = append(out, f)
		if d >= depth {
			return
		}
		eachInstr(f, func(_ *ssa.BasicBlock, _ int, in ssa.Instruction) {
			if call, ok := in.(ssa.CallInstruction); ok {
				if g := staticCallee(call.Common()); g != nil && inModule(g) {
					walk(g, d+1)
				}
			}
		})
	}
	walk(fn, 0)
	return out
}

// onlyStore: the local is written by this one store only (no other store to it or to a part of it, not passed on by address).
func onlyStore(al *ssa.Alloc, st *ssa.Store) bool {
	for _, ref := range *al.Referrers() {
		switch r := ref.(type) {
		case *ssa.Store:
			if r != st {
				return false
			}
		case *ssa.FieldAddr:
			for _, r2 := range *r.Referrers() {
				if ld, ok := r2.(*ssa.UnOp); !ok || ld.Op != token.MUL {
					return false
				}
			}
		case *ssa.UnOp, *ssa.DebugRef:
		default:
			return false
		}
	}
	return true
}
