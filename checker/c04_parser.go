package main

// C04, parser half: the context-free grammar implemented by the hand-written recursive descent parser is extracted from the
// SSA form of each parse function (an automaton over token kinds and calls of other parse functions) and compared, production
// by production, with the documented grammar. Equal productions imply equal languages for sentences of every length.

import (
	"fmt"
	"go/token"
	"go/types"
	"sort"
	"strings"

	"golang.org/x/tools/go/ssa"
)

func init() {
	register(&Rule{ID: "C04.GRAMMAR", Min: 12, Doc: "every production extracted from the parser equals the documented one (automata equivalence)", Run: runC04Grammar})
	register(&Rule{ID: "C04.LL1", Min: 10, Doc: "wherever a parse function returns depending on the look-ahead, no token that may follow it is excluded", Run: runC04LL1})
	register(&Rule{ID: "C04.TREE", Min: 12, Doc: "operators are built at their own precedence level with the matching kind and operand order", Run: runC04Tree})
	register(&Rule{ID: "C04.NUM", Min: 3, Doc: "number tokens are converted with 64-bit conversions (no narrower range than the lexer's language)", Run: runC04Num})
	register(&Rule{ID: "C04.ONE", Min: 4, Doc: "at most one syntax error is recorded and it is reported once", Run: runC04One})
}

type kindset uint32

type tokenKinds struct {
	names []string // index = constant value
	all   kindset
	byNm  map[string]int
}

func (p *Prog) tokenKinds() *tokenKinds {
	tk := &tokenKinds{byNm: map[string]int{}}
	nm := p.Named("TokenKind")
	if nm == nil {
		return nil
	}
	scope := p.Main.Types.Scope()
	vals := map[int]string{}
	max := 0
	for _, n := range scope.Names() {
		if k, ok := scope.Lookup(n).(*types.Const); ok && types.Identical(k.Type(), nm) {
			if v, ok := constantInt(k); ok {
				vals[int(v)] = n
				if int(v) > max {
					max = int(v)
				}
			}
		}
	}
	if max > 30 {
		return nil
	}
	tk.names = make([]string, max+1)
	for v, n := range vals {
		tk.names[v] = strings.TrimPrefix(n, "TokenKind")
		tk.byNm[tk.names[v]] = v
		if tk.names[v] != "Unknown" {
			tk.all |= 1 << uint(v)
		}
	}
	return tk
}

func (tk *tokenKinds) set(names ...string) kindset {
	var s kindset
	for _, n := range names {
		v, ok := tk.byNm[n]
		if !ok {
			panic("unknown token kind " + n)
		}
		s |= 1 << uint(v)
	}
	return s
}

func (tk *tokenKinds) str(s kindset) string {
	if s == tk.all {
		return "any"
	}
	neg := false
	if bitsCount(uint32(s)) > len(tk.names)/2 {
		neg = true
		s = tk.all &^ s
	}
	var out []string
	for i, n := range tk.names {
		if s&(1<<uint(i)) != 0 {
			out = append(out, n)
		}
	}
	r := strings.Join(out, "|")
	if neg {
		return "not(" + r + ")"
	}
	return r
}

func bitsCount(x uint32) int {
	n := 0
	for ; x != 0; x &= x - 1 {
		n++
	}
	return n
}

// ---- grammar automata ----

type gsym struct {
	term  bool
	kinds kindset // terminal: accepted kinds; nonterminal: look-ahead context
	nt    string
}

type gedge struct {
	from, to int
	eps      bool
	s        gsym
}

type gnfa struct {
	n       int
	edges   []gedge
	start   int
	accepts map[int]kindset // accepting node -> look-ahead constraint at the return
	pos     map[int]token.Pos
}

func newGNFA() *gnfa { return &gnfa{accepts: map[int]kindset{}, pos: map[int]token.Pos{}} }
func (a *gnfa) node() int {
	a.n++
	return a.n - 1
}
func (a *gnfa) eps(f, t int)         { a.edges = append(a.edges, gedge{from: f, to: t, eps: true}) }
func (a *gnfa) sym(f, t int, s gsym) { a.edges = append(a.edges, gedge{from: f, to: t, s: s}) }

// ---- extraction ----

type parserModel struct {
	p       *Prog
	tk      *tokenKinds
	next    *ssa.Function
	peek    *ssa.Function
	errFns  map[*ssa.Function]bool
	parseFn map[*ssa.Function]bool
	nts     map[string]*gnfa // key: fn|ctx
	order   []string
	notes   []string
	undec   []string
	inlined map[string]bool // extracted functions without a documented production that were spliced into their callers
}

func ntKey(fn string, ctx kindset) string { return fmt.Sprintf("%s|%d", fn, uint32(ctx)) }

type pstate struct {
	s       kindset
	curToks map[ssa.Value]bool
	kindVal map[ssa.Value]bool
	results map[ssa.Value]bool
}

func (st pstate) key() string {
	names := func(m map[ssa.Value]bool) string {
		var out []string
		for v := range m {
			out = append(out, v.Name())
		}
		sort.Strings(out)
		return strings.Join(out, ",")
	}
	return fmt.Sprintf("%d/%s/%s/%s", uint32(st.s), names(st.curToks), names(st.kindVal), names(st.results))
}

func (st pstate) clone() pstate {
	cp := func(m map[ssa.Value]bool) map[ssa.Value]bool {
		o := map[ssa.Value]bool{}
		for k := range m {
			o[k] = true
		}
		return o
	}
	return pstate{st.s, cp(st.curToks), cp(st.kindVal), cp(st.results)}
}

func buildParserModel(p *Prog) (*parserModel, string) {
	m := &parserModel{p: p, errFns: map[*ssa.Function]bool{}, parseFn: map[*ssa.Function]bool{}, nts: map[string]*gnfa{}, inlined: map[string]bool{}}
	m.tk = p.tokenKinds()
	if m.tk == nil {
		return nil, "type TokenKind and its constants"
	}
	m.next = p.Method("ExprParser", "next")
	m.peek = p.Method("ExprParser", "peek")
	if m.next == nil || m.peek == nil {
		return nil, "(*ExprParser).next / peek"
	}
	for _, n := range []string{"error", "errorf", "unexpected"} {
		if f := p.Method("ExprParser", n); f != nil {
			m.errFns[f] = true
		}
	}
	for _, fn := range p.Funcs {
		if fn.Signature.Recv() == nil || typeStr(fn.Signature.Recv().Type()) != "*ExprParser" || fn.Parent() != nil {
			continue
		}
		res := fn.Signature.Results()
		if res.Len() == 1 && typeStr(res.At(0).Type()) == "ExprNode" {
			m.parseFn[fn] = true
		}
	}
	return m, ""
}

// parseFnName: the name a parse function is documented under (its own, or the recorded one when it was renamed).
func parseFnName(fn *ssa.Function) string {
	n := FuncName(fn)
	if i := strings.LastIndex(n, "."); i >= 0 {
		return n[i+1:]
	}
	return n
}

func (m *parserModel) extract(fn *ssa.Function, ctx kindset) string {
	key := ntKey(parseFnName(fn), ctx)
	if _, ok := m.nts[key]; ok {
		return key
	}
	a := newGNFA()
	m.nts[key] = a
	m.order = append(m.order, key)
	nodes := map[string]int{}
	var visit func(b *ssa.BasicBlock, st pstate) int
	visit = func(b *ssa.BasicBlock, st pstate) int {
		k := fmt.Sprintf("%d#%s", b.Index, st.key())
		if n, ok := nodes[k]; ok {
			return n
		}
		entry := a.node()
		nodes[k] = entry
		cur := entry
		st = st.clone()
		consume := func() {
			st.s = m.tk.all
			st.curToks = map[ssa.Value]bool{}
			st.kindVal = map[ssa.Value]bool{}
		}
		for _, in := range b.Instrs {
			switch x := in.(type) {
			case *ssa.Phi:
				// a phi of parse results keeps being a parse result
				for _, e := range x.Edges {
					if st.results[e] {
						st.results[x] = true
					}
				}
			case *ssa.Call:
				callee := staticCallee(&x.Call)
				switch {
				case callee == m.next:
					n := a.node()
					a.sym(cur, n, gsym{term: true, kinds: st.s})
					a.pos[n] = x.Pos()
					cur = n
					consume()
				case callee == m.peek:
					st.curToks[x] = true
				case callee != nil && m.errFns[callee]:
					return entry // the path reports a syntax error: nothing is accepted along it
				case callee != nil && m.parseFn[callee]:
					sub := m.extract(callee, st.s)
					if _, documented := refGrammar[parseFnName(callee)]; !documented && m.nts[sub] != a {
						// a parse function that is not a non-terminal of the documented grammar (a production split into
						// helper methods): its automaton is spliced in, the language of the caller is what is compared
						sa := m.nts[sub]
						mp := map[int]int{}
						get := func(i int) int {
							if v, ok := mp[i]; ok {
								return v
							}
							v := a.node()
							mp[i] = v
							if ps, ok := sa.pos[i]; ok {
								a.pos[v] = ps
							}
							return v
						}
						for _, e := range sa.edges {
							if e.eps {
								a.eps(get(e.from), get(e.to))
							} else {
								a.sym(get(e.from), get(e.to), e.s)
							}
						}
						a.eps(cur, get(sa.start))
						n := a.node()
						a.pos[n] = x.Pos()
						for acc := range sa.accepts {
							a.eps(get(acc), n)
						}
						m.inlined[sub] = true
						cur = n
						consume()
						st.results[x] = true
						break
					}
					n := a.node()
					a.sym(cur, n, gsym{nt: parseFnName(callee), kinds: st.s})
					a.pos[n] = x.Pos()
					cur = n
					consume()
					st.results[x] = true
				}
			case *ssa.UnOp:
				if x.Op == token.MUL {
					if fa, ok := x.X.(*ssa.FieldAddr); ok {
						switch fieldAddrName(fa) {
						case "Token.Kind":
							if st.curToks[fa.X] {
								st.kindVal[x] = true
							}
						case "ExprParser.cur":
							st.curToks[x] = true
						}
					}
				}
			case *ssa.If:
				tr, fl := st.clone(), st.clone()
				feasT, feasF := true, true
				if bo, ok := x.Cond.(*ssa.BinOp); ok && (bo.Op == token.EQL || bo.Op == token.NEQ) {
					var kv ssa.Value
					var kc *ssa.Const
					if c, ok := bo.Y.(*ssa.Const); ok {
						kv, kc = bo.X, c
					} else if c, ok := bo.X.(*ssa.Const); ok {
						kv, kc = bo.Y, c
					}
					switch {
					case kc != nil && st.kindVal[kv]:
						if v, ok := constInt(kc); ok && v >= 0 && v < 32 {
							bit := kindset(1) << uint(v)
							eq, ne := st.s&bit, st.s&^bit
							if bo.Op == token.NEQ {
								eq, ne = ne, eq
							}
							tr.s, fl.s = eq, ne
							feasT, feasF = eq != 0, ne != 0
						}
					case kc != nil && kc.IsNil() && st.results[kv]:
						// the callee failed: it has reported an error and nothing is accepted
						if bo.Op == token.EQL {
							feasT = false
						} else {
							feasF = false
						}
					}
				}
				if feasT {
					a.eps(cur, visit(b.Succs[0], tr))
				}
				if feasF {
					a.eps(cur, visit(b.Succs[1], fl))
				}
				return entry
			case *ssa.Jump:
				a.eps(cur, visit(b.Succs[0], st))
				return entry
			case *ssa.Return:
				if len(x.Results) == 0 {
					return entry
				}
				if c, ok := x.Results[0].(*ssa.Const); ok && c.IsNil() {
					return entry // failure
				}
				a.accepts[cur] = st.s
				a.pos[cur] = x.Pos()
				return entry
			case *ssa.Panic:
				return entry
			}
		}
		return entry
	}
	init := pstate{s: ctx, curToks: map[ssa.Value]bool{}, kindVal: map[ssa.Value]bool{}, results: map[ssa.Value]bool{}}
	a.start = visit(fn.Blocks[0], init)
	return key
}

// ---- reference grammar ----

type rx interface{}
type rxSeq []rx
type rxAlt []rx
type rxOpt struct{ x rx }
type rxStar struct{ x rx }
type rxT struct{ kinds []string }
type rxN struct{ name string }

func T(k ...string) rx { return rxT{k} }
func N(n string) rx    { return rxN{n} }

// The documented expression language (docs.github.com "Expressions"; actionlint docs/checks.md), one production per
// precedence level; `!` binds tighter than comparison, comparison tighter than &&, && tighter than ||.
var refGrammar = map[string]rx{
	"parseLogicalOr":    rxSeq{N("parseLogicalAnd"), rxOpt{rxSeq{T("Or"), N("parseLogicalOr")}}},
	"parseLogicalAnd":   rxSeq{N("parseCompareBinOp"), rxOpt{rxSeq{T("And"), N("parseLogicalAnd")}}},
	"parseCompareBinOp": rxSeq{N("parsePrefixOp"), rxOpt{rxSeq{T("Less", "LessEq", "Greater", "GreaterEq", "Eq", "NotEq"), N("parseCompareBinOp")}}},
	"parsePrefixOp":     rxAlt{rxSeq{T("Not"), N("parsePrefixOp")}, N("parsePostfixOp")},
	"parsePostfixOp": rxSeq{N("parsePrimaryExpr"), rxStar{rxAlt{
		rxSeq{T("Dot"), rxAlt{T("Star"), T("Ident")}},
		rxSeq{T("LeftBracket"), N("parseLogicalOr"), T("RightBracket")},
	}}},
	"parsePrimaryExpr": rxAlt{N("parseIdent"), N("parseNestedExpr"), N("parseInt"), N("parseFloat"), N("parseString")},
	"parseIdent": rxSeq{T("Ident"), rxOpt{rxSeq{T("LeftParen"), rxAlt{
		T("RightParen"),
		rxSeq{N("parseLogicalOr"), rxStar{rxSeq{T("Comma"), N("parseLogicalOr")}}, T("RightParen")},
	}}}},
	"parseNestedExpr": rxSeq{T("LeftParen"), N("parseLogicalOr"), T("RightParen")},
	"parseInt":        T("Int"),
	"parseFloat":      T("Float"),
	"parseString":     T("String"),
}

func (m *parserModel) refNFA(name string) *gnfa {
	a := newGNFA()
	var build func(x rx, from int) int
	build = func(x rx, from int) int {
		switch v := x.(type) {
		case rxT:
			n := a.node()
			a.sym(from, n, gsym{term: true, kinds: m.tk.set(v.kinds...)})
			return n
		case rxN:
			n := a.node()
			a.sym(from, n, gsym{nt: v.name, kinds: m.tk.all})
			return n
		case rxSeq:
			cur := from
			for _, e := range v {
				cur = build(e, cur)
			}
			return cur
		case rxAlt:
			out := a.node()
			for _, e := range v {
				a.eps(build(e, from), out)
			}
			return out
		case rxOpt:
			out := build(v.x, from)
			a.eps(from, out)
			return out
		case rxStar:
			hub := a.node()
			a.eps(from, hub)
			a.eps(build(v.x, hub), hub)
			return hub
		}
		panic("bad rx")
	}
	a.start = a.node()
	end := build(refGrammar[name], a.start)
	a.accepts[end] = m.tk.all
	return a
}

// refFirst / refFollow of the documented grammar.
func (m *parserModel) refFirstFollow() (map[string]kindset, map[string]kindset) {
	first := map[string]kindset{}
	nfas := map[string]*gnfa{}
	for n := range refGrammar {
		nfas[n] = m.refNFA(n)
	}
	closure := func(a *gnfa, set map[int]bool) {
		for changed := true; changed; {
			changed = false
			for _, e := range a.edges {
				if e.eps && set[e.from] && !set[e.to] {
					set[e.to] = true
					changed = true
				}
			}
		}
	}
	for changed := true; changed; {
		changed = false
		for n, a := range nfas {
			set := map[int]bool{a.start: true}
			closure(a, set)
			f := first[n]
			for _, e := range a.edges {
				if e.eps || !set[e.from] {
					continue
				}
				if e.s.term {
					f |= e.s.kinds
				} else {
					f |= first[e.s.nt]
				}
			}
			if f != first[n] {
				first[n] = f
				changed = true
			}
		}
	}
	follow := map[string]kindset{"parseLogicalOr": m.tk.set("End")}
	for changed := true; changed; {
		changed = false
		for n, a := range nfas {
			for _, e := range a.edges {
				if e.eps || e.s.term {
					continue
				}
				// what can follow this occurrence of e.s.nt inside n
				set := map[int]bool{e.to: true}
				closure(a, set)
				f := follow[e.s.nt]
				for _, e2 := range a.edges {
					if e2.eps || !set[e2.from] {
						continue
					}
					if e2.s.term {
						f |= e2.s.kinds
					} else {
						f |= first[e2.s.nt]
					}
				}
				for s := range set {
					if _, acc := a.accepts[s]; acc {
						f |= follow[n]
					}
				}
				if f != follow[e.s.nt] {
					follow[e.s.nt] = f
					changed = true
				}
			}
		}
	}
	return first, follow
}

// ---- language comparison of two production automata ----

type letterNFA struct {
	start   int
	trans   map[int]map[string][]int
	eps     map[int][]int
	accepts map[int]bool
}

func (m *parserModel) letters(a *gnfa, first map[string]kindset, restrictFirst bool, ctx kindset) *letterNFA {
	// states are (node, atFirst) pairs when restrictFirst
	l := &letterNFA{trans: map[int]map[string][]int{}, eps: map[int][]int{}, accepts: map[int]bool{}}
	id := func(n int, atFirst bool) int {
		if atFirst {
			return n*2 + 1
		}
		return n * 2
	}
	add := func(from int, letter string, to int) {
		if l.trans[from] == nil {
			l.trans[from] = map[string][]int{}
		}
		l.trans[from][letter] = append(l.trans[from][letter], to)
	}
	for _, af := range []bool{false, true} {
		if af && !restrictFirst {
			continue
		}
		for _, e := range a.edges {
			from := id(e.from, af)
			if e.eps {
				l.eps[from] = append(l.eps[from], id(e.to, af))
				continue
			}
			to := id(e.to, false)
			ks := e.s.kinds
			if af {
				ks &= ctx
			}
			if e.s.term {
				for i := range m.tk.names {
					if ks&(1<<uint(i)) != 0 {
						add(from, m.tk.names[i], to)
					}
				}
			} else {
				f := ks & first[e.s.nt]
				if f != 0 {
					add(from, "<"+e.s.nt+":"+m.tk.str(f)+">", to)
				}
			}
		}
		for n := range a.accepts {
			l.accepts[id(n, af)] = true
		}
	}
	l.start = id(a.start, restrictFirst)
	return l
}

func (l *letterNFA) closure(set map[int]bool) {
	stack := []int{}
	for s := range set {
		stack = append(stack, s)
	}
	for len(stack) > 0 {
		s := stack[len(stack)-1]
		stack = stack[:len(stack)-1]
		for _, t := range l.eps[s] {
			if !set[t] {
				set[t] = true
				stack = append(stack, t)
			}
		}
	}
}

func setKey(s map[int]bool) string {
	var ks []int
	for k := range s {
		ks = append(ks, k)
	}
	sort.Ints(ks)
	return fmt.Sprint(ks)
}

// compareLetterNFA returns "" when the languages are equal, otherwise a shortest distinguishing word and who accepts it.
func compareLetterNFA(x, y *letterNFA) (word []string, who string) {
	type pair struct {
		a, b map[int]bool
		w    []string
	}
	sa, sb := map[int]bool{x.start: true}, map[int]bool{y.start: true}
	x.closure(sa)
	y.closure(sb)
	queue := []pair{{sa, sb, nil}}
	seen := map[string]bool{setKey(sa) + "|" + setKey(sb): true}
	acc := func(l *letterNFA, s map[int]bool) bool {
		for n := range s {
			if l.accepts[n] {
				return true
			}
		}
		return false
	}
	for len(queue) > 0 {
		p := queue[0]
		queue = queue[1:]
		aa, ab := acc(x, p.a), acc(y, p.b)
		if aa != ab {
			if aa {
				return append(p.w, "$"), "code"
			}
			return append(p.w, "$"), "reference"
		}
		letters := map[string]bool{}
		for s := range p.a {
			for lt := range x.trans[s] {
				letters[lt] = true
			}
		}
		for s := range p.b {
			for lt := range y.trans[s] {
				letters[lt] = true
			}
		}
		ls := sortedKeys(letters)
		for _, lt := range ls {
			na, nb := map[int]bool{}, map[int]bool{}
			for s := range p.a {
				for _, t := range x.trans[s][lt] {
					na[t] = true
				}
			}
			for s := range p.b {
				for _, t := range y.trans[s][lt] {
					nb[t] = true
				}
			}
			x.closure(na)
			y.closure(nb)
			if len(na) == 0 && len(nb) == 0 {
				continue
			}
			k := setKey(na) + "|" + setKey(nb)
			if seen[k] {
				continue
			}
			seen[k] = true
			w := append(append([]string{}, p.w...), lt)
			if len(na) == 0 || len(nb) == 0 {
				// one side is dead: find the shortest completion on the live side
				live, who := x, "code"
				ls := na
				if len(na) == 0 {
					live, who, ls = y, "reference", nb
				}
				return append(w, live.shortestCompletion(ls)...), who
			}
			queue = append(queue, pair{na, nb, w})
		}
	}
	return nil, ""
}

func (l *letterNFA) shortestCompletion(from map[int]bool) []string {
	type item struct {
		s map[int]bool
		w []string
	}
	q := []item{{from, nil}}
	seen := map[string]bool{setKey(from): true}
	for len(q) > 0 {
		it := q[0]
		q = q[1:]
		for n := range it.s {
			if l.accepts[n] {
				return append(it.w, "$")
			}
		}
		letters := map[string]bool{}
		for s := range it.s {
			for lt := range l.trans[s] {
				letters[lt] = true
			}
		}
		for _, lt := range sortedKeys(letters) {
			ns := map[int]bool{}
			for s := range it.s {
				for _, t := range l.trans[s][lt] {
					ns[t] = true
				}
			}
			l.closure(ns)
			if k := setKey(ns); !seen[k] {
				seen[k] = true
				q = append(q, item{ns, append(append([]string{}, it.w...), lt)})
			}
		}
	}
	return []string{"..."}
}

// ---- rules ----

func parserModelFor(c *Ctx) *parserModel {
	m, missing := buildParserModel(c.P)
	if m == nil {
		c.anchorMissing(missing)
		return nil
	}
	parse := c.P.Method("ExprParser", "Parse")
	if parse == nil {
		c.anchorMissing("(*ExprParser).Parse")
		return nil
	}
	return m
}

func runC04Grammar(c *Ctx) {
	m := parserModelFor(c)
	if m == nil {
		return
	}
	p := c.P
	parse := p.Method("ExprParser", "Parse")
	// the entry point: Parse == parseLogicalOr followed by the end marker
	m.parseFn[parse] = false
	startKey := m.extract(parse, m.tk.all)
	start := m.nts[startKey]
	first, _ := m.refFirstFollow()
	{
		construct := "(*ExprParser).Parse|whole input"
		okShape := true
		nNT := 0
		// only edges from which an accepting return is still reachable matter
		live := map[int]bool{}
		for n := range start.accepts {
			live[n] = true
		}
		for changed := true; changed; {
			changed = false
			for _, e := range start.edges {
				if live[e.to] && !live[e.from] {
					live[e.from] = true
					changed = true
				}
			}
		}
		for _, e := range start.edges {
			if e.eps || !live[e.to] {
				continue
			}
			if e.s.term || e.s.nt != "parseLogicalOr" {
				okShape = false
			} else {
				nNT++
			}
		}
		okEnd := len(start.accepts) > 0
		for _, r := range start.accepts {
			if r != m.tk.set("End") {
				okEnd = false
			}
		}
		switch {
		case !okShape || nNT != 1:
			c.bad(construct, parse.Pos(), "Parse is not exactly one call of parseLogicalOr")
		case !okEnd:
			c.bad(construct, parse.Pos(), "Parse can succeed although the look-ahead is not the end marker: trailing tokens are accepted")
		default:
			c.ok(construct, parse.Pos(), "Parse = parseLogicalOr, then the look-ahead must be the end marker")
		}
	}
	// every extracted nonterminal against the documented production restricted to its calling context
	keys := append([]string{}, m.order...)
	sort.Strings(keys)
	covered := map[string]bool{}
	for _, key := range keys {
		if key == startKey {
			continue
		}
		fnName := key[:strings.Index(key, "|")]
		var ctx kindset
		fmt.Sscanf(key[strings.Index(key, "|")+1:], "%d", &ctx)
		construct := fmt.Sprintf("(*ExprParser).%s|production (look-ahead %s)", fnName, m.tk.str(ctx))
		if m.inlined[key] {
			continue // compared as part of the productions it was spliced into
		}
		fn := p.Method("ExprParser", fnName)
		if _, ok := refGrammar[fnName]; !ok {
			c.bad(construct, fn.Pos(), "a parse function without a documented production takes part in parsing")
			continue
		}
		covered[fnName] = true
		code := m.letters(m.nts[key], first, false, ctx)
		ref := m.letters(m.refNFA(fnName), first, true, ctx)
		word, who := compareLetterNFA(code, ref)
		if word == nil {
			c.ok(construct, fn.Pos(), "equal to the documented production (as regular languages over tokens and sub-expressions)")
		} else {
			other := "the documented grammar does not"
			if who == "reference" {
				other = "the parser does not"
			}
			c.bad(construct, fn.Pos(), fmt.Sprintf("the %s derives `%s` but %s (sentential form; <x:first> is any sentence of x starting with one of the tokens)", who, strings.Join(word[:len(word)-1], " "), other))
		}
	}
	// progress (used by C01.LOOP / C01.REC): no cycle of a production without a letter, no production that starts with itself
	firstOf := map[string]map[string]bool{}
	for _, key := range keys {
		if key == startKey {
			continue // Parse's only loop reads the left-over tokens from the lexer: C01.LOOP (token loop)
		}
		a := m.nts[key]
		fnName := key[:strings.Index(key, "|")]
		// epsilon closure graph
		epsSucc := map[int][]int{}
		for _, e := range a.edges {
			if e.eps {
				epsSucc[e.from] = append(epsSucc[e.from], e.to)
			}
		}
		cyc := false
		color := map[int]int{}
		var dfs func(n int)
		dfs = func(n int) {
			color[n] = 1
			for _, t := range epsSucc[n] {
				if color[t] == 1 {
					cyc = true
				} else if color[t] == 0 {
					dfs(t)
				}
			}
			color[n] = 2
		}
		for n := 0; n < a.n; n++ {
			if color[n] == 0 {
				dfs(n)
			}
		}
		construct := fmt.Sprintf("(*ExprParser).%s|progress (look-ahead %s)", fnName, m.tk.str(kindsetOfKey(key)))
		fn := p.Method("ExprParser", fnName)
		if cyc {
			c.bad(construct, fn.Pos(), "a loop of this parse function can iterate without consuming a token or calling a sub-parser: the parser does not terminate on some input")
		} else {
			c.ok(construct, fn.Pos(), "every cycle of the automaton consumes a token or parses a sub-expression")
		}
		// first symbols
		reach := map[int]bool{a.start: true}
		for changed := true; changed; {
			changed = false
			for _, e := range a.edges {
				if e.eps && reach[e.from] && !reach[e.to] {
					reach[e.to] = true
					changed = true
				}
			}
		}
		for _, e := range a.edges {
			if !e.eps && !e.s.term && reach[e.from] {
				if firstOf[fnName] == nil {
					firstOf[fnName] = map[string]bool{}
				}
				firstOf[fnName][e.s.nt] = true
			}
		}
	}
	{
		color := map[string]int{}
		var cycle []string
		var dfs func(n string)
		dfs = func(n string) {
			color[n] = 1
			for t := range firstOf[n] {
				if color[t] == 1 {
					cycle = append(cycle, n+" -> "+t)
				} else if color[t] == 0 {
					dfs(t)
				}
			}
			color[n] = 2
		}
		for _, n := range sortedKeys(firstOf) {
			if color[n] == 0 {
				dfs(n)
			}
		}
		if len(cycle) == 0 {
			c.ok("(*ExprParser)|no left recursion", parse.Pos(), "no parse function can reach itself without consuming a token: the recursion is bounded by the number of tokens")
		} else {
			sort.Strings(cycle)
			c.bad("(*ExprParser)|no left recursion", parse.Pos(), "a parse function reaches itself before consuming a token (unbounded recursion): "+strings.Join(cycle, "; "))
		}
	}
	for n := range refGrammar {
		if !covered[n] {
			c.bad("(*ExprParser)."+n+"|production", parse.Pos(), "the documented production is not reachable from Parse")
		}
	}
}

func runC04LL1(c *Ctx) {
	m := parserModelFor(c)
	if m == nil {
		return
	}
	p := c.P
	parse := p.Method("ExprParser", "Parse")
	m.parseFn[parse] = false
	startKey := m.extract(parse, m.tk.all)
	_, follow := m.refFirstFollow()
	keys := append([]string{}, m.order...)
	sort.Strings(keys)
	for _, key := range keys {
		if key == startKey {
			continue
		}
		fnName := key[:strings.Index(key, "|")]
		a := m.nts[key]
		var ctx kindset
		fmt.Sscanf(key[strings.Index(key, "|")+1:], "%d", &ctx)
		var nodes []int
		for n := range a.accepts {
			nodes = append(nodes, n)
		}
		sort.Ints(nodes)
		// One return statement is reached through several accepting nodes when the tokens it returns for are told apart
		// before it (a case clause with several kinds: one node per kind). What the statement returns for is the union
		// over its nodes; it is numbered by the first of them.
		type retStmt struct {
			no  int
			pos token.Pos
			la  kindset
		}
		var rets []*retStmt
		byPos := map[token.Pos]*retStmt{}
		for i, n := range nodes {
			pos := a.pos[n]
			if r := byPos[pos]; r != nil && pos.IsValid() {
				r.la |= a.accepts[n]
				continue
			}
			r := &retStmt{no: i + 1, pos: pos, la: a.accepts[n]}
			rets = append(rets, r)
			if pos.IsValid() {
				byPos[pos] = r
			}
		}
		for _, r := range rets {
			construct := fmt.Sprintf("(*ExprParser).%s|return#%d (look-ahead %s)", fnName, r.no, m.tk.str(ctx))
			missing := follow[fnName] &^ r.la
			if missing == 0 {
				c.ok(construct, r.pos, "returns for every token that may follow (look-ahead at the return: "+m.tk.str(r.la)+")")
			} else {
				c.bad(construct, r.pos, "the function does not return here when the next token is "+m.tk.str(missing)+" although that token may follow the construct: sentences of the grammar are rejected or parsed differently")
			}
		}
	}
}

// ---- C04.TREE ----

func runC04Tree(c *Ctx) {
	p := c.P
	layers := map[string][]string{
		"parseLogicalOr":    {"parseLogicalAnd", "parseLogicalOr"},
		"parseLogicalAnd":   {"parseCompareBinOp", "parseLogicalAnd"},
		"parseCompareBinOp": {"parsePrefixOp", "parseCompareBinOp"},
		"parsePrefixOp":     {"parsePostfixOp", "parsePrefixOp"},
		"parsePostfixOp":    {"parsePrimaryExpr", "parseLogicalOr"},
	}
	for name, want := range layers {
		fn := p.Method("ExprParser", name)
		if fn == nil {
			c.anchorMissing("(*ExprParser)." + name)
			continue
		}
		got := map[string]bool{}
		eachInstr(fn, func(_ *ssa.BasicBlock, _ int, in ssa.Instruction) {
			if call, ok := in.(*ssa.Call); ok {
				if f := staticCallee(&call.Call); f != nil && strings.HasPrefix(f.Name(), "parse") && f.Signature.Recv() != nil {
					got[f.Name()] = true
				}
			}
		})
		g := sortedKeys(got)
		w := append([]string{}, want...)
		sort.Strings(w)
		if strings.Join(g, ",") == strings.Join(w, ",") {
			c.ok("(*ExprParser)."+name+"|precedence level", fn.Pos(), "operands come from "+strings.Join(want, " and "))
		} else {
			c.bad("(*ExprParser)."+name+"|precedence level", fn.Pos(), "operands are parsed by "+strings.Join(g, ", ")+" instead of "+strings.Join(w, ", ")+": the precedence of the operator changes")
		}
	}
	// binary nodes: kind constant and operand order
	type bin struct{ fn, node, kindConst, left, right, opTok string }
	for _, b := range []bin{
		{"parseLogicalOr", "LogicalOpNode", "LogicalOpNodeKindOr", "parseLogicalAnd", "parseLogicalOr", "Or"},
		{"parseLogicalAnd", "LogicalOpNode", "LogicalOpNodeKindAnd", "parseCompareBinOp", "parseLogicalAnd", "And"},
		{"parseCompareBinOp", "CompareOpNode", "", "parsePrefixOp", "parseCompareBinOp", ""},
	} {
		fn := p.Method("ExprParser", b.fn)
		if fn == nil {
			continue
		}
		found := false
		eachInstr(fn, func(_ *ssa.BasicBlock, _ int, in ssa.Instruction) {
			al, ok := in.(*ssa.Alloc)
			if !ok || !strings.HasSuffix(typeStr(al.Type()), b.node) {
				return
			}
			found = true
			fields := map[string]ssa.Value{}
			for _, ref := range *al.Referrers() {
				if fa, ok := ref.(*ssa.FieldAddr); ok {
					for _, r2 := range *fa.Referrers() {
						if st, ok := r2.(*ssa.Store); ok && st.Addr == fa {
							n, _ := fieldName(al.Type().(*types.Pointer).Elem(), fa.Field)
							fields[n[strings.LastIndex(n, ".")+1:]] = st.Val
						}
					}
				}
			}
			calleeOf := func(v ssa.Value) string {
				if call, ok := v.(*ssa.Call); ok {
					if f := staticCallee(&call.Call); f != nil {
						return f.Name()
					}
				}
				return "?"
			}
			construct := "(*ExprParser)." + b.fn + "|" + b.node + " operands"
			if calleeOf(fields["Left"]) == b.left && calleeOf(fields["Right"]) == b.right {
				c.ok(construct, al.Pos(), "Left is the first operand ("+b.left+"), Right the rest ("+b.right+")")
			} else {
				c.bad(construct, al.Pos(), fmt.Sprintf("Left comes from %s and Right from %s", calleeOf(fields["Left"]), calleeOf(fields["Right"])))
			}
			kconstruct := "(*ExprParser)." + b.fn + "|" + b.node + " kind"
			if b.kindConst != "" {
				want := p.Main.Types.Scope().Lookup(b.kindConst)
				kc, ok := fields["Kind"].(*ssa.Const)
				if wc, isC := want.(*types.Const); ok && isC && kc.Value != nil && kc.Value.ExactString() == wc.Val().ExactString() {
					c.ok(kconstruct, al.Pos(), "kind is "+b.kindConst)
				} else {
					c.bad(kconstruct, al.Pos(), "the node built at this level is not of kind "+b.kindConst)
				}
				return
			}
			// comparison: the kind is chosen by the token kind of the same name
			phi, ok := fields["Kind"].(*ssa.Phi)
			if !ok {
				c.bad(kconstruct, al.Pos(), "the comparison kind is not chosen per operator token")
				return
			}
			constName := func(k *ssa.Const, prefix string) string {
				scope := p.Main.Types.Scope()
				for _, n := range scope.Names() {
					if tc, ok := scope.Lookup(n).(*types.Const); ok && strings.HasPrefix(n, prefix) && types.Identical(tc.Type(), k.Type()) && tc.Val().ExactString() == k.Value.ExactString() {
						return strings.TrimPrefix(n, prefix)
					}
				}
				return "?"
			}
			for i, e := range phi.Edges {
				kc, ok := e.(*ssa.Const)
				if !ok || kc.Value == nil {
					continue
				}
				kn := constName(kc, "CompareOpNodeKind")
				if kn == "Invalid" {
					continue
				}
				pred := phi.Block().Preds[i]
				tokName := ""
				conds := controllingConds(pred)
				for ifi, outcome := range conds {
					if bo, ok := ifi.Cond.(*ssa.BinOp); ok && bo.Op == token.EQL && outcome {
						if tc, ok := bo.Y.(*ssa.Const); ok && typeStr(tc.Type()) == "TokenKind" {
							tokName = constName(tc, "TokenKind")
						}
					}
				}
				cc := "(*ExprParser).parseCompareBinOp|operator " + kn
				if tokName == kn {
					c.ok(cc, al.Pos(), "token "+tokName+" builds comparison kind "+kn)
				} else {
					c.bad(cc, al.Pos(), "comparison kind "+kn+" is built for token "+tokName)
				}
			}
		})
		if !found {
			c.bad("(*ExprParser)."+b.fn+"|"+b.node+" operands", fn.Pos(), "no "+b.node+" is built at this level")
		}
	}
	// keywords
	if fn := p.Method("ExprParser", "parseIdent"); fn != nil {
		for kw, node := range map[string]string{"null": "NullNode", "true": "BoolNode", "false": "BoolNode"} {
			okKw := false
			// in parseIdent or in a function of the module it hands the identifier to
			for _, kf := range p.withHelpers(fn, 1) {
				eachInstr(kf, func(b *ssa.BasicBlock, _ int, in ssa.Instruction) {
					al, ok := in.(*ssa.Alloc)
					if !ok || !strings.HasSuffix(typeStr(al.Type()), node) {
						return
					}
					for ifi, outcome := range controllingConds(b) {
						bo, ok := ifi.Cond.(*ssa.BinOp)
						if !ok || bo.Op != token.EQL || !outcome {
							continue
						}
						if s, ok := constString(bo.Y); ok && s == kw {
							if node == "BoolNode" {
								for _, ref := range *al.Referrers() {
									if fa, ok := ref.(*ssa.FieldAddr); ok {
										if n, _ := fieldName(al.Type().(*types.Pointer).Elem(), fa.Field); strings.HasSuffix(n, ".Value") {
											for _, r2 := range *fa.Referrers() {
												if st, ok := r2.(*ssa.Store); ok {
													if k, ok := st.Val.(*ssa.Const); ok && k.Value != nil && k.Value.String() == kw {
														okKw = true
													}
												}
											}
										}
									}
								}
							} else {
								okKw = true
							}
						}
					}
				})
			}
			construct := "(*ExprParser).parseIdent|keyword " + kw
			if okKw {
				c.ok(construct, fn.Pos(), kw+" builds "+node)
			} else {
				c.bad(construct, fn.Pos(), "the literal "+kw+" is not built as "+node+" with the right value")
			}
		}
	}
}

// ---- C04.ONE ----

func runC04One(c *Ctx) {
	p := c.P
	for _, t := range []struct{ typ, fn, field string }{{"ExprParser", "error", "ExprParser.err"}, {"ExprLexer", "error", "ExprLexer.lexErr"}} {
		fn := p.Method(t.typ, t.fn)
		if fn == nil {
			c.anchorMissing("(*" + t.typ + ")." + t.fn)
			continue
		}
		okFirst, n := true, 0
		eachInstr(fn, func(b *ssa.BasicBlock, _ int, in ssa.Instruction) {
			st, ok := in.(*ssa.Store)
			if !ok {
				return
			}
			fa, ok := st.Addr.(*ssa.FieldAddr)
			if !ok || fieldAddrName(fa) != t.field {
				return
			}
			n++
			guarded := false
			for ifi, outcome := range controllingConds(b) {
				if v, nilSucc, ok := nilTest(ifi); ok {
					if f, _ := fieldLoad(v); f == t.field && (nilSucc == 0) == outcome {
						guarded = true
					}
				}
			}
			if !guarded {
				okFirst = false
			}
		})
		construct := "(*" + t.typ + ")." + t.fn + "|first error wins"
		if n > 0 && okFirst {
			c.ok(construct, fn.Pos(), "the error is only recorded when none was recorded before")
		} else {
			c.bad(construct, fn.Pos(), "a later error overwrites or accompanies the first one")
		}
		// nobody else writes the field except the reset in Parse / constructor
		var others []string
		for _, f := range p.Funcs {
			if f == fn {
				continue
			}
			eachInstr(f, func(_ *ssa.BasicBlock, _ int, in ssa.Instruction) {
				if st, ok := in.(*ssa.Store); ok {
					if fa, ok := st.Addr.(*ssa.FieldAddr); ok && fieldAddrName(fa) == t.field && !isNilConst(st.Val) {
						others = append(others, FuncName(f))
					}
				}
			})
		}
		if len(others) == 0 {
			c.ok(t.field+"|writers", fn.Pos(), "only "+t.fn+" records an error")
		} else {
			c.bad(t.field+"|writers", fn.Pos(), "also written by "+strings.Join(others, ", "))
		}
	}
	// Err(): lexer error first, else parser error; the functions of the expression rule that parse a placeholder report
	// the single error once and check nothing else in that placeholder
	nOne := 0
	for _, fn := range p.Funcs {
		if !strings.HasSuffix(p.unitFile(fn), "/rule_expression.go") || len(findCalls(fn, "(*ExprParser).Parse")) == 0 {
			continue
		}
		fname := FuncName(fn)
		parses := findCalls(fn, "(*ExprParser).Parse")
		calls := findCalls(fn, "(*RuleExpression).exprError")
		if len(calls) == 0 {
			// no report here: fine when the error is handed to the caller, otherwise the syntax error is lost
			if !parseErrorReturned(fn, parses) {
				c.bad(fname+"|one syntax diagnostic", fn.Pos(), "a rejected text can pass without its syntax diagnostic: the error of Parse is neither reported nor returned")
				nOne++
			}
			continue
		}
		nOne++
		okOnce := true
		for _, ec := range calls {
			// after the report: no semantic check, no second report and no further parse of the same scalar
			for _, ch := range findCalls(fn, "(*RuleExpression).checkSemanticsOfExprNode") {
				if instrReachableAfter(ec, ch) {
					okOnce = false
				}
			}
			for _, e2 := range calls {
				if instrReachableAfter(ec, e2) {
					okOnce = false
				}
			}
			for _, pc := range parses {
				if instrReachableAfter(ec, pc) {
					okOnce = false
				}
			}
		}
		// ... and at least once: no path from the failed parse returns without the report
		missing := ""
		for _, pc := range parses {
			pos, why, found := parseErrorReported(fn, pc, calls)
			switch {
			case !found:
				missing = "the error result of Parse is never tested"
			case why != "":
				missing = why + " (return at " + p.Pos(pos) + ")"
			}
		}
		if okOnce && missing != "" {
			c.bad(fname+"|one syntax diagnostic", fn.Pos(), "a rejected text can pass without its syntax diagnostic: "+missing)
		} else if okOnce {
			c.ok(fname+"|one syntax diagnostic", calls[0].Pos(), "a parse error is reported once and nothing else is checked in that placeholder")
		} else {
			c.bad(fname+"|one syntax diagnostic", fn.Pos(), "a syntax error is not reported exactly once")
		}
	}
	if nOne == 0 {
		c.anchorMissing("a function of rule_expression.go that parses a placeholder and reports the syntax error")
	}
}

// ---- C04.NUM ----

// Number tokens are converted with the widest conversion the standard library offers; a narrower one rejects sentences of
// the language (integers that do not fit) although the lexer accepted them.
func runC04Num(c *Ctx) {
	p := c.P
	for _, t := range []struct{ fn, conv string }{{"parseInt", "strconv.ParseInt"}, {"parseFloat", "strconv.ParseFloat"}} {
		fn := p.Method("ExprParser", t.fn)
		if fn == nil {
			c.anchorMissing("(*ExprParser)." + t.fn)
			continue
		}
		n := 0
		eachInstr(fn, func(_ *ssa.BasicBlock, _ int, in ssa.Instruction) {
			call, ok := in.(*ssa.Call)
			if !ok || calleeFullName(&call.Call) != t.conv {
				return
			}
			n++
			args := call.Call.Args
			bits, ok := constInt(args[len(args)-1])
			construct := "(*ExprParser)." + t.fn + "|" + t.conv + " width"
			if ok && bits == 64 {
				c.ok(construct, call.Pos(), "64-bit conversion")
			} else {
				c.bad(construct, call.Pos(), fmt.Sprintf("the literal is converted with bit size %d: literals that the lexer accepts but that do not fit (e.g. 4000000000) are reported as syntax errors", bits))
			}
			if t.fn == "parseInt" {
				base, ok := constInt(args[1])
				if ok && base == 0 {
					c.ok("(*ExprParser).parseInt|base", call.Pos(), "base 0: decimal and 0x forms as lexed")
				} else {
					c.bad("(*ExprParser).parseInt|base", call.Pos(), "hex literals accepted by the lexer are not converted")
				}
			}
		})
		if n == 0 {
			c.bad("(*ExprParser)."+t.fn+"|conversion", fn.Pos(), "the token text is not converted with "+t.conv)
		}
	}
}

func kindsetOfKey(key string) kindset {
	var ctx kindset
	fmt.Sscanf(key[strings.Index(key, "|")+1:], "%d", &ctx)
	return ctx
}
