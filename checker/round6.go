package main

// Rules added after the second hunt round (on the repaired tree).

import (
	"fmt"
	"go/token"
	"go/types"
	"strings"

	"golang.org/x/tools/go/ssa"
)

func init() {
	register(&Rule{ID: "C01.NULLTAG", Min: 3, Doc: "every YAML document decoded into types with UnmarshalYAML methods has the !!null tags of its collections removed first", Run: runC01NullTag})
	register(&Rule{ID: "C04.NUMRANGE", Min: 2, Doc: "a number literal outside the range of the machine types is not a syntax error", Run: runC04NumRange})
	register(&Rule{ID: "C05.JOBSRESULT", Min: 1, Doc: "the per-job object of the jobs context has the same members as the per-job object of the needs context", Run: runC05JobsResult})
	register(&Rule{ID: "C07.NULLVALPOS", Min: 1, Doc: "an implicit null value of a mapping is given the position of its key when the YAML parser puts it on a later line", Run: runC07NullValPos})
	register(&Rule{ID: "C10.REQEXPR", Min: 1, Doc: "the re-parse of a reusable workflow does not decode `required` into a Go bool (an expression there must not fail the whole interface)", Run: runC10ReqExpr})
	register(&Rule{ID: "C06.ARRMERGE", Min: 1, Doc: "merging with an array of unknown element type never forbids a property dereference that one operand allows", Run: runC06ArrMerge})
	register(&Rule{ID: "C02.TOTALORDER", Min: 1, Doc: "the final sort orders any two distinct diagnostics, so the order in which a map was visited cannot show", Run: runC02TotalOrder})
}

// ---- C01.NULLTAG ----

// yaml.v3 skips UnmarshalYAML for a node tagged !!null (decoder.prepare) and decodes the node's content directly: a map
// or slice of pointers then holds nil elements (`inputs: !!null {foo: ~}`), an interface-typed field is set by reflection
// (panic inside yaml). Everything downstream relies on the UnmarshalYAML methods having run.
func runC01NullTag(c *Ctx) {
	p := c.P
	// functions that clear tags: a store to yaml.Node.Tag
	clears := map[*ssa.Function]bool{}
	for _, fn := range p.Funcs {
		eachInstr(fn, func(_ *ssa.BasicBlock, _ int, in ssa.Instruction) {
			if st, ok := in.(*ssa.Store); ok {
				if fa, ok := st.Addr.(*ssa.FieldAddr); ok && fieldAddrName(fa) == "yaml.Node.Tag" {
					clears[fn] = true
				}
			}
		})
	}
	callsClearer := func(fn *ssa.Function) bool {
		found := false
		eachInstr(fn, func(_ *ssa.BasicBlock, _ int, in ssa.Instruction) {
			if call, ok := in.(ssa.CallInstruction); ok {
				if f := staticCallee(call.Common()); f != nil && clears[f] {
					found = true
				}
			}
		})
		return found
	}
	n := 0
	for _, fn := range p.Funcs {
		if strings.HasSuffix(p.File(fn.Pos()), "/parse.go") {
			continue // the workflow itself is decoded into a *yaml.Node and walked by hand
		}
		isUnmarshaler := fn.Name() == "UnmarshalYAML"
		eachInstr(fn, func(b *ssa.BasicBlock, _ int, in ssa.Instruction) {
			call, ok := in.(ssa.CallInstruction)
			if !ok {
				return
			}
			name := calleeFullName(call.Common())
			switch name {
			case "gopkg.in/yaml.v3.Unmarshal":
				n++
				construct := fmt.Sprintf("%s|yaml.Unmarshal#%d", FuncName(fn), n)
				dst := call.Common().Args[1]
				if mi, ok := dst.(*ssa.MakeInterface); ok && typeStr(mi.X.Type()) == "*yaml.Node" {
					c.ok(construct, call.Pos(), "decoded into a *yaml.Node")
				} else {
					t := "?"
					if mi, ok := dst.(*ssa.MakeInterface); ok {
						t = typeStr(mi.X.Type())
					}
					c.bad(construct, call.Pos(), "the document is decoded straight into "+t+": for a mapping or sequence tagged !!null yaml.v3 skips the UnmarshalYAML methods, so nil elements (`inputs: !!null {foo: ~}`) or a reflect panic (`foo: !!null {type: string}`) reach the rules")
				}
			case "(*gopkg.in/yaml.v3.Node).Decode":
				if isUnmarshaler {
					return // a subtree of a document that was prepared by the caller
				}
				n++
				construct := fmt.Sprintf("%s|(*yaml.Node).Decode#%d", FuncName(fn), n)
				okPrep := false
				eachInstr(fn, func(b2 *ssa.BasicBlock, _ int, i2 ssa.Instruction) {
					c2, ok := i2.(ssa.CallInstruction)
					if !ok {
						return
					}
					f := staticCallee(c2.Common())
					if f == nil || !(clears[f] || callsClearer(f)) {
						return
					}
					if b2 == b || b2.Dominates(b) {
						okPrep = true
					}
				})
				if okPrep {
					c.ok(construct, call.Pos(), "the !!null tags of collections were removed from the document before")
				} else {
					c.bad(construct, call.Pos(), "the node is decoded without removing !!null tags from its collections first: yaml.v3 skips UnmarshalYAML for such nodes")
				}
			}
		})
	}
	if n == 0 {
		c.anchorMissing("yaml.Unmarshal / (*yaml.Node).Decode outside parse.go")
	}
}

// ---- C04.NUMRANGE ----

func runC04NumRange(c *Ctx) {
	p := c.P
	for _, name := range []string{"parseInt", "parseFloat"} {
		fn := p.Method("ExprParser", name)
		if fn == nil {
			c.anchorMissing("(*ExprParser)." + name)
			continue
		}
		handles := false
		eachInstr(fn, func(_ *ssa.BasicBlock, _ int, in ssa.Instruction) {
			if ld, ok := in.(*ssa.UnOp); ok && ld.Op == token.MUL {
				if g, ok := ld.X.(*ssa.Global); ok && g.Pkg.Pkg.Path() == "strconv" && g.Name() == "ErrRange" {
					handles = true
				}
			}
		})
		construct := "(*ExprParser)." + name + "|literal outside the machine range"
		if handles {
			c.ok(construct, fn.Pos(), "strconv.ErrRange is distinguished from a malformed literal")
		} else {
			c.bad(construct, fn.Pos(), "every strconv error is a parse error: `9223372036854775808` or `1e400`, sentences of the number grammar, are rejected because of the machine type")
		}
	}
}

// ---- C05.JOBSRESULT ----

func constKeysStored(fn *ssa.Function) map[string]bool {
	out := map[string]bool{}
	eachInstr(fn, func(_ *ssa.BasicBlock, _ int, in ssa.Instruction) {
		if mu, ok := in.(*ssa.MapUpdate); ok {
			if s, ok := constString(mu.Key); ok {
				out[s] = true
			}
		}
	})
	return out
}

func runC05JobsResult(c *Ctx) {
	p := c.P
	needs := p.Method("RuleExpression", "populateDependantNeedsTypes")
	jobs := p.Method("RuleExpression", "checkWorkflowCallOutputs")
	if needs == nil || jobs == nil {
		c.anchorMissing("(*RuleExpression).populateDependantNeedsTypes / checkWorkflowCallOutputs")
		return
	}
	nk, jk := constKeysStored(needs), constKeysStored(jobs)
	var missing []string
	for k := range nk {
		if !jk[k] {
			missing = append(missing, k)
		}
	}
	construct := "(*RuleExpression).checkWorkflowCallOutputs|members of jobs.<job_id>"
	if len(nk) == 0 {
		c.anchorMissing("constant members of needs.<job_id>")
		return
	}
	if len(missing) == 0 {
		c.ok(construct, jobs.Pos(), "the same members as needs.<job_id> ("+strings.Join(sortedKeys(nk), ", ")+")")
	} else {
		c.bad(construct, jobs.Pos(), "needs.<job_id> has the member(s) "+strings.Join(missing, ", ")+" which jobs.<job_id> lacks: `jobs.build.result` in a workflow_call output is reported as undefined although the job exists")
	}
}

// ---- C07.NULLVALPOS ----

func runC07NullValPos(c *Ctx) {
	p := c.P
	fn := p.Method("parser", "parseMapping")
	if fn == nil {
		c.anchorMissing("(*parser).parseMapping")
		return
	}
	fixed := false
	eachInstr(fn, func(_ *ssa.BasicBlock, _ int, in ssa.Instruction) {
		if st, ok := in.(*ssa.Store); ok {
			if fa, ok := st.Addr.(*ssa.FieldAddr); ok && fieldAddrName(fa) == "yaml.Node.Line" {
				if _, isParam := fa.X.(*ssa.Parameter); !isParam {
					fixed = true
				}
			}
		}
	})
	construct := "(*parser).parseMapping|position of an implicit null value"
	if fixed {
		c.ok(construct, fn.Pos(), "a null value that the YAML parser placed on a later line is moved to its key")
	} else {
		c.bad(construct, fn.Pos(), "yaml.v3 puts the implicit value of `? key` at the next token, which at the end of the file is one line past the last line: diagnostics about that value carry a line that does not exist")
	}
}

// ---- C10.REQEXPR ----

func runC10ReqExpr(c *Ctx) {
	p := c.P
	n := 0
	seen := map[string]bool{}
	for _, fn := range p.Funcs {
		if !strings.HasSuffix(p.File(fn.Pos()), "/reusable_workflow.go") {
			continue
		}
		for _, call := range findCalls(fn, "(*gopkg.in/yaml.v3.Node).Decode") {
			mi, ok := call.Common().Args[1].(*ssa.MakeInterface)
			if !ok {
				continue
			}
			pt, ok := mi.X.Type().Underlying().(*types.Pointer)
			if !ok {
				continue
			}
			st, ok := pt.Elem().Underlying().(*types.Struct)
			if !ok {
				continue
			}
			for i := 0; i < st.NumFields(); i++ {
				if !strings.Contains(st.Tag(i), `yaml:"required"`) {
					continue
				}
				n++
				construct := fmt.Sprintf("%s|type of the field decoded from `required`", FuncName(fn))
				if seen[construct] {
					construct = fmt.Sprintf("%s#%d", construct, n)
				}
				seen[construct] = true
				if typeStr(st.Field(i).Type()) == "bool" {
					c.bad(construct, call.Pos(), "`required` is decoded into a Go bool: `required: ${{ true }}` (accepted by the workflow parser, which treats it as not required) makes the re-parse of the whole file fail, so the caller's diagnostics depend on whether the callee was registered from its AST first")
				} else {
					c.ok(construct, call.Pos(), "decoded through "+typeStr(st.Field(i).Type())+", which accepts any scalar")
				}
			}
		}
	}
	if n == 0 {
		c.anchorMissing("Decode into a struct with a field tagged yaml:\"required\" in reusable_workflow.go")
	}
}

// ---- C06.ARRMERGE ----

func runC06ArrMerge(c *Ctx) {
	p := c.P
	fn := p.Method("ArrayType", "Merge")
	if fn == nil {
		c.anchorMissing("(*ArrayType).Merge")
		return
	}
	n := 0
	for _, b := range fn.Blocks {
		ret, ok := b.Instrs[len(b.Instrs)-1].(*ssa.Return)
		if !ok || len(ret.Results) != 1 {
			continue
		}
		mi, ok := ret.Results[0].(*ssa.MakeInterface)
		if !ok {
			continue
		}
		// returns one of the operands as it is?
		_, isRecv := mi.X.(*ssa.Parameter)
		_, isAsserted := mi.X.(*ssa.Extract)
		if ta, ok := mi.X.(*ssa.TypeAssert); ok && !ta.CommaOk {
			isAsserted = true
		}
		if !isRecv && !isAsserted {
			continue
		}
		n++
		construct := fmt.Sprintf("(*ArrayType).Merge|operand returned as the merged type#%d", n)
		// every path from the entry to this return passes a test of a Deref flag
		stop := map[*ssa.BasicBlock]bool{}
		for _, blk := range fn.Blocks {
			if ifi, ok := blk.Instrs[len(blk.Instrs)-1].(*ssa.If); ok && mentionsField(ifi.Cond, "ArrayType.Deref", 0) {
				stop[blk] = true
			}
		}
		derefChecked := len(stop) > 0 && !stop[b] && !reachableBlocks([]*ssa.BasicBlock{fn.Blocks[0]}, stop)[b]
		if derefChecked {
			c.ok(construct, ret.Pos(), "returned only when its Deref flag is at least as permissive as the other operand's")
		} else {
			c.bad(construct, ret.Pos(), "the operand with the unknown element type is returned with its own Deref flag: `(matrix.list || github.event.commits.*).id` is accepted when matrix.list is array<string> and rejected when it is array<any>")
		}
	}
	if n == 0 {
		c.ok("(*ArrayType).Merge|operands are never returned as they are", fn.Pos(), "a fresh array type is built on every path")
	}
}

func mentionsField(v ssa.Value, field string, d int) bool {
	if d > 6 {
		return false
	}
	if f, _ := fieldLoad(v); f == field {
		return true
	}
	switch x := v.(type) {
	case *ssa.UnOp:
		return mentionsField(x.X, field, d+1)
	case *ssa.BinOp:
		return mentionsField(x.X, field, d+1) || mentionsField(x.Y, field, d+1)
	case *ssa.Phi:
		for _, e := range x.Edges {
			if mentionsField(e, field, d+1) {
				return true
			}
		}
	}
	return false
}

// ---- C02.TOTALORDER ----

// Diagnostics are appended in the order the rules visit the workflow, which for several mappings is map order, and then
// stably sorted by (file, line, column). Two diagnostics of different map entries can carry the same position (the line of
// a diagnostic inside a scalar is computed on the decoded text, so `"${{ \n x }}"` moves it onto the next source line,
// where a sibling sits): a sort that leaves them unordered lets the map order show.
func runC02TotalOrder(c *Ctx) {
	p := c.P
	fn := p.Method("ByErrorPosition", "Less")
	if fn == nil {
		// value receiver
		for _, f := range p.Funcs {
			if FuncName(f) == "(ByErrorPosition).Less" {
				fn = f
			}
		}
	}
	if fn == nil {
		c.anchorMissing("(ByErrorPosition).Less")
		return
	}
	reads := map[string]bool{}
	eachInstr(fn, func(_ *ssa.BasicBlock, _ int, in ssa.Instruction) {
		if fa, ok := in.(*ssa.FieldAddr); ok {
			reads[fieldAddrName(fa)] = true
		}
	})
	construct := "(ByErrorPosition).Less|ties between diagnostics of different map entries"
	if reads["Error.Message"] {
		c.ok(construct, fn.Pos(), "diagnostics at one position are ordered by their text")
	} else {
		c.bad(construct, fn.Pos(), "only file, line and column are compared: diagnostics of different entries of a mapping that land on one position come out in map order")
	}
}
