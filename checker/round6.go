package main

// Rules added after the second hunt round (on the repaired tree).

import (
	"fmt"
	"go/ast"
	"go/token"
	"go/types"
	"sort"
	"strconv"
	"strings"

	"golang.org/x/tools/go/ssa"
)

func init() {
	register(&Rule{ID: "C01.NULLTAG", Min: 3, Doc: "every YAML document decoded into types with UnmarshalYAML methods has the !!null tags of its collections removed first", Run: runC01NullTag})
	register(&Rule{ID: "C04.NUMRANGE", Min: 2, Doc: "a number literal outside the range of the machine types is not a syntax error", Run: runC04NumRange})
	register(&Rule{ID: "C05.JOBSRESULT", Min: 1, Doc: "the per-job object of the jobs context has the same members as the per-job object of the needs context", Run: runC05JobsResult})
	register(&Rule{ID: "C07.NULLVALPOS", Min: 1, Doc: "an implicit null value of a mapping is given the position of its key when the YAML parser puts it on a later line", Run: runC07NullValPos})
	register(&Rule{ID: "C10.REQEXPR", Min: 1, Doc: "the re-parse of a reusable workflow does not decode `required` into a Go bool (an expression there must not fail the whole interface)", Run: runC10ReqExpr})
	register(&Rule{ID: "C06.ARRMERGE", Min: 1, Doc: "merging with an array of unknown element type never forbids a property dereference that one operand allows", Run: runC06ArrMerge})
	register(&Rule{ID: "C02.TOTALORDER", Min: 1, Doc: "the final sort orders any two distinct diagnostics, so the order in which a map was visited cannot show", Run: runC02TotalOrder})
}

// ---- C01.NULLTAG ----

// yaml.v3 skips UnmarshalYAML for a node tagged !!null (decoder.prepare) and decodes the node's content directly: a map
// or slice of pointers then holds nil elements (`inputs: !!null {foo: ~}`), an interface-typed field is set by reflection
// (panic inside yaml). Everything downstream relies on the UnmarshalYAML methods having run.
func runC01NullTag(c *Ctx) {
	p := c.P
	// functions that clear tags: a store to yaml.Node.Tag
	clears := map[*ssa.Function]bool{}
	for _, fn := range p.Funcs {
		eachInstr(fn, func(_ *ssa.BasicBlock, _ int, in ssa.Instruction) {
			if st, ok := in.(*ssa.Store); ok {
				if fa, ok := st.Addr.(*ssa.FieldAddr); ok && fieldAddrName(fa) == "yaml.Node.Tag" {
					clears[fn] = true
				}
			}
		})
	}
	callsClearer := func(fn *ssa.Function) bool {
		found := false
		eachInstr(fn, func(_ *ssa.BasicBlock, _ int, in ssa.Instruction) {
			if call, ok := in.(ssa.CallInstruction); ok {
				if f := staticCallee(call.Common()); f != nil && clears[f] {
					found = true
				}
			}
		})
		return found
	}
	n := 0
	for _, fn := range p.Funcs {
		if strings.HasSuffix(p.unitFile(fn), "/parse.go") {
			continue // the workflow itself is decoded into a *yaml.Node and walked by hand
		}
		isUnmarshaler := fn.Name() == "UnmarshalYAML"
		eachInstr(fn, func(b *ssa.BasicBlock, _ int, in ssa.Instruction) {
			call, ok := in.(ssa.CallInstruction)
			if !ok {
				return
			}
			name := calleeFullName(call.Common())
			switch name {
			case "gopkg.in/yaml.v3.Unmarshal":
				n++
				construct := fmt.Sprintf("%s|yaml.Unmarshal#%d", FuncName(fn), n)
				dst := call.Common().Args[1]
				if mi, ok := dst.(*ssa.MakeInterface); ok && typeStr(mi.X.Type()) == "*yaml.Node" {
					c.ok(construct, call.Pos(), "decoded into a *yaml.Node")
				} else {
					t := "?"
					if mi, ok := dst.(*ssa.MakeInterface); ok {
						t = typeStr(mi.X.Type())
					}
					c.bad(construct, call.Pos(), "the document is decoded straight into "+t+": for a mapping or sequence tagged !!null yaml.v3 skips the UnmarshalYAML methods, so nil elements (`inputs: !!null {foo: ~}`) or a reflect panic (`foo: !!null {type: string}`) reach the rules")
				}
			case "(*gopkg.in/yaml.v3.Node).Decode":
				if isUnmarshaler {
					return // a subtree of a document that was prepared by the caller
				}
				n++
				construct := fmt.Sprintf("%s|(*yaml.Node).Decode#%d", FuncName(fn), n)
				okPrep := false
				eachInstr(fn, func(b2 *ssa.BasicBlock, _ int, i2 ssa.Instruction) {
					c2, ok := i2.(ssa.CallInstruction)
					if !ok {
						return
					}
					f := staticCallee(c2.Common())
					if f == nil || !(clears[f] || callsClearer(f)) {
						return
					}
					if b2 == b || b2.Dominates(b) {
						okPrep = true
					}
				})
				if okPrep {
					c.ok(construct, call.Pos(), "the !!null tags of collections were removed from the document before")
				} else {
					c.bad(construct, call.Pos(), "the node is decoded without removing !!null tags from its collections first: yaml.v3 skips UnmarshalYAML for such nodes")
				}
			}
		})
	}
	if n == 0 {
		c.anchorMissing("yaml.Unmarshal / (*yaml.Node).Decode outside parse.go")
	}
}

// ---- C04.NUMRANGE ----

func runC04NumRange(c *Ctx) {
	p := c.P
	for _, name := range []string{"parseInt", "parseFloat"} {
		fn := p.Method("ExprParser", name)
		if fn == nil {
			c.anchorMissing("(*ExprParser)." + name)
			continue
		}
		handles := false
		eachInstr(fn, func(_ *ssa.BasicBlock, _ int, in ssa.Instruction) {
			if ld, ok := in.(*ssa.UnOp); ok && ld.Op == token.MUL {
				if g, ok := ld.X.(*ssa.Global); ok && g.Pkg.Pkg.Path() == "strconv" && g.Name() == "ErrRange" {
					handles = true
				}
			}
		})
		construct := "(*ExprParser)." + name + "|literal outside the machine range"
		if handles && name == "parseInt" && len(findCalls(fn, "strconv.ParseFloat")) > 0 {
			c.bad(construct, fn.Pos(), "the fallback for an integer literal outside int64 is strconv.ParseFloat, which rejects a hexadecimal mantissa without exponent: `0xffffffffffffffff` is still a syntax error")
			continue
		}
		if handles {
			c.ok(construct, fn.Pos(), "strconv.ErrRange is distinguished from a malformed literal")
		} else {
			c.bad(construct, fn.Pos(), "every strconv error is a parse error: `9223372036854775808` or `1e400`, sentences of the number grammar, are rejected because of the machine type")
		}
	}
}

// ---- C05.JOBSRESULT ----

func constKeysStored(fn *ssa.Function) map[string]bool {
	out := map[string]bool{}
	eachInstr(fn, func(_ *ssa.BasicBlock, _ int, in ssa.Instruction) {
		if mu, ok := in.(*ssa.MapUpdate); ok {
			if s, ok := constString(mu.Key); ok {
				out[s] = true
			}
		}
	})
	return out
}

func runC05JobsResult(c *Ctx) {
	p := c.P
	needs := p.Method("RuleExpression", "populateDependantNeedsTypes")
	if needs == nil {
		needs = p.Method("RuleExpression", "calcNeedsType") // the helper merged into its only caller
	}
	jobs := p.Method("RuleExpression", "checkWorkflowCallOutputs")
	if needs == nil || jobs == nil {
		c.anchorMissing("(*RuleExpression).populateDependantNeedsTypes / checkWorkflowCallOutputs")
		return
	}
	nk, jk := constKeysStored(needs), constKeysStored(jobs)
	var missing []string
	for k := range nk {
		if !jk[k] {
			missing = append(missing, k)
		}
	}
	construct := "(*RuleExpression).checkWorkflowCallOutputs|members of jobs.<job_id>"
	if len(nk) == 0 {
		c.anchorMissing("constant members of needs.<job_id>")
		return
	}
	if len(missing) == 0 {
		c.ok(construct, jobs.Pos(), "the same members as needs.<job_id> ("+strings.Join(sortedKeys(nk), ", ")+")")
	} else {
		c.bad(construct, jobs.Pos(), "needs.<job_id> has the member(s) "+strings.Join(missing, ", ")+" which jobs.<job_id> lacks: `jobs.build.result` in a workflow_call output is reported as undefined although the job exists")
	}
	// every job of the workflow gets such an object, with the outputs of that very job
	if pos, why := jobsScopeEntries(jobs); why == "" {
		c.ok("(*RuleExpression).checkWorkflowCallOutputs|an entry for every job", pos, "entered on every iteration of the loop over the jobs, with the outputs of the job found under the same key")
	} else {
		c.bad("(*RuleExpression).checkWorkflowCallOutputs|an entry for every job", pos, "jobs.<job_id> is not defined for every job with that job's declared outputs ("+why+"): a reference to an existing job or output in a workflow_call output value is reported as undefined")
	}
}

// ---- C07.NULLVALPOS ----

func runC07NullValPos(c *Ctx) {
	p := c.P
	fn := p.Method("parser", "parseMapping")
	if fn == nil {
		c.anchorMissing("(*parser).parseMapping")
		return
	}
	fixed := false
	eachInstr(fn, func(_ *ssa.BasicBlock, _ int, in ssa.Instruction) {
		if st, ok := in.(*ssa.Store); ok {
			if fa, ok := st.Addr.(*ssa.FieldAddr); ok && fieldAddrName(fa) == "yaml.Node.Line" {
				if _, isParam := fa.X.(*ssa.Parameter); !isParam {
					fixed = true
				}
			}
		}
	})
	construct := "(*parser).parseMapping|position of an implicit null value"
	if fixed {
		c.ok(construct, fn.Pos(), "a null value that the YAML parser placed on a later line is moved to its key")
	} else {
		c.bad(construct, fn.Pos(), "yaml.v3 puts the implicit value of `? key` at the next token, which at the end of the file is one line past the last line: diagnostics about that value carry a line that does not exist")
	}
}

// ---- C10.REQEXPR ----

func runC10ReqExpr(c *Ctx) {
	p := c.P
	n := 0
	seen := map[string]bool{}
	for _, fn := range p.Funcs {
		if !strings.HasSuffix(p.unitFile(fn), "/reusable_workflow.go") {
			continue
		}
		for _, call := range findCalls(fn, "(*gopkg.in/yaml.v3.Node).Decode") {
			mi, ok := call.Common().Args[1].(*ssa.MakeInterface)
			if !ok {
				continue
			}
			pt, ok := mi.X.Type().Underlying().(*types.Pointer)
			if !ok {
				continue
			}
			st, ok := pt.Elem().Underlying().(*types.Struct)
			if !ok {
				continue
			}
			for i := 0; i < st.NumFields(); i++ {
				if !strings.Contains(st.Tag(i), `yaml:"required"`) {
					continue
				}
				n++
				construct := fmt.Sprintf("%s|type of the field decoded from `required`", FuncName(fn))
				if seen[construct] {
					construct = fmt.Sprintf("%s#%d", construct, n)
				}
				seen[construct] = true
				if typeStr(st.Field(i).Type()) == "bool" {
					c.bad(construct, call.Pos(), "`required` is decoded into a Go bool: `required: ${{ true }}` (accepted by the workflow parser, which treats it as not required) makes the re-parse of the whole file fail, so the caller's diagnostics depend on whether the callee was registered from its AST first")
				} else {
					c.ok(construct, call.Pos(), "decoded through "+typeStr(st.Field(i).Type())+", which accepts any scalar")
				}
			}
		}
	}
	if n == 0 {
		c.anchorMissing("Decode into a struct with a field tagged yaml:\"required\" in reusable_workflow.go")
	}
}

// ---- C06.ARRMERGE ----

func runC06ArrMerge(c *Ctx) {
	p := c.P
	fn := p.Method("ArrayType", "Merge")
	if fn == nil {
		c.anchorMissing("(*ArrayType).Merge")
		return
	}
	n := 0
	for _, b := range fn.Blocks {
		ret, ok := b.Instrs[len(b.Instrs)-1].(*ssa.Return)
		if !ok || len(ret.Results) != 1 {
			continue
		}
		mi, ok := ret.Results[0].(*ssa.MakeInterface)
		if !ok {
			continue
		}
		// returns one of the operands as it is?
		_, isRecv := mi.X.(*ssa.Parameter)
		_, isAsserted := mi.X.(*ssa.Extract)
		if ta, ok := mi.X.(*ssa.TypeAssert); ok && !ta.CommaOk {
			isAsserted = true
		}
		if !isRecv && !isAsserted {
			continue
		}
		n++
		construct := fmt.Sprintf("(*ArrayType).Merge|operand returned as the merged type#%d", n)
		// every path from the entry to this return passes a test of a Deref flag
		stop := map[*ssa.BasicBlock]bool{}
		for _, blk := range fn.Blocks {
			if ifi, ok := blk.Instrs[len(blk.Instrs)-1].(*ssa.If); ok && mentionsField(ifi.Cond, "ArrayType.Deref", 0) {
				stop[blk] = true
			}
		}
		derefChecked := len(stop) > 0 && !stop[b] && !reachableBlocks([]*ssa.BasicBlock{fn.Blocks[0]}, stop)[b]
		if derefChecked {
			c.ok(construct, ret.Pos(), "returned only when its Deref flag is at least as permissive as the other operand's")
		} else {
			c.bad(construct, ret.Pos(), "the operand with the unknown element type is returned with its own Deref flag: `(matrix.list || github.event.commits.*).id` is accepted when matrix.list is array<string> and rejected when it is array<any>")
		}
	}
	if n == 0 {
		c.ok("(*ArrayType).Merge|operands are never returned as they are", fn.Pos(), "a fresh array type is built on every path")
	}
}

func mentionsField(v ssa.Value, field string, d int) bool {
	if d > 6 {
		return false
	}
	if f, _ := fieldLoad(v); f == field {
		return true
	}
	switch x := v.(type) {
	case *ssa.UnOp:
		return mentionsField(x.X, field, d+1)
	case *ssa.BinOp:
		return mentionsField(x.X, field, d+1) || mentionsField(x.Y, field, d+1)
	case *ssa.Phi:
		for _, e := range x.Edges {
			if mentionsField(e, field, d+1) {
				return true
			}
		}
	}
	return false
}

// ---- C02.TOTALORDER ----

// Diagnostics are appended in the order the rules visit the workflow, which for several mappings is map order, and then
// stably sorted by (file, line, column). Two diagnostics of different map entries can carry the same position (the line of
// a diagnostic inside a scalar is computed on the decoded text, so `"${{ \n x }}"` moves it onto the next source line,
// where a sibling sits): a sort that leaves them unordered lets the map order show.
func runC02TotalOrder(c *Ctx) {
	p := c.P
	fn := p.Method("ByErrorPosition", "Less")
	if fn == nil {
		// value receiver
		for _, f := range p.Funcs {
			if FuncName(f) == "(ByErrorPosition).Less" {
				fn = f
			}
		}
	}
	if fn == nil {
		c.anchorMissing("(ByErrorPosition).Less")
		return
	}
	construct := "(ByErrorPosition).Less|ties between diagnostics of different map entries"
	side := func(v ssa.Value) (int, bool) {
		ia, ok := v.(*ssa.IndexAddr)
		if !ok || len(fn.Params) < 3 {
			return 0, false
		}
		for i, prm := range fn.Params[1:] {
			if ia.Index == ssa.Value(prm) {
				return i, true
			}
		}
		return 0, false
	}
	// The comparator is evaluated on two abstract diagnostics for every way their five fields can be related. It is a total
	// order on what is printed when, unless all five are equal, exactly one of the two is before the other: that needs the
	// message strings themselves (and then the kinds) compared, not something computed from them.
	keys := []string{"Filepath", "Line", "Column", "Message", "Kind"}
	sym := map[int]string{-1: "<", 0: "=", 1: ">"}
	bad, prio := "", 0
	found := func(p int, s string) { // the most telling failure names the finding
		if p > prio {
			bad, prio = s, p
		}
	}
	if r, ok := evalComparator(fn, map[string]int{"Filepath": 0, "Line": 0, "Column": 0, "Message": 0, "Kind": 0}, side); ok && r {
		found(1, "a diagnostic is before an equal one: the comparator is not strict, so a stable sort need not keep equal diagnostics in place")
	}
	for code := 1; code < 243 && prio < 4; code++ {
		rel, inv := map[string]int{}, map[string]int{}
		var desc []string
		tie := true
		x := code
		for i := len(keys) - 1; i >= 0; i-- { // position keys vary slowest: ties at one position come first
			k := keys[i]
			rel[k] = (x%3+1)%3 - 1 // 0 -> 0, 1 -> 1, 2 -> -1
			inv[k] = -rel[k]
			x /= 3
		}
		for _, k := range keys {
			desc = append(desc, k+sym[rel[k]])
			if rel[k] != 0 && (k == "Filepath" || k == "Line" || k == "Column") {
				tie = false
			}
		}
		ab, ok1 := evalComparator(fn, rel, side)
		ba, ok2 := evalComparator(fn, inv, side)
		switch {
		case !ok1 || !ok2:
			found(4, "the comparator computes on its fields in a way that is not a comparison of the fields themselves (only <, >, ==, strings.Compare on Filepath, Line, Column, Message, Kind give an order on the text): ties are not shown to be broken")
		case ab == ba && tie && rel["Message"] != 0:
			found(3, "for "+strings.Join(desc, " ")+" neither diagnostic is before the other: only file, line and column are compared, so diagnostics of different entries of a mapping that land on one position come out in map order")
		case ab == ba && tie:
			found(2, "for "+strings.Join(desc, " ")+" neither diagnostic is before the other: diagnostics with one position and one message but different kinds come out in map order")
		case ab == ba:
			found(1, "for "+strings.Join(desc, " ")+" the comparator answers "+fmt.Sprint(ab)+" both ways: it is not an order")
		}
	}
	if bad == "" {
		c.ok(construct, fn.Pos(), "all 242 ways two diagnostics can differ in file, line, column, message and kind evaluated: exactly one is before the other, so diagnostics at one position are ordered by their text")
	} else {
		c.bad(construct, fn.Pos(), bad)
	}
}

func init() {
	register(&Rule{ID: "C17.SCANERR", Min: 1, Doc: "an error raised by the scanner while it reads ahead is reported at the column of the character it could not read", Run: runC17ScanErr})
	register(&Rule{ID: "C17.BOM", Min: 1, Doc: "a byte order mark at the start of a glob pattern is not dropped by the scanner", Run: runC17Bom})
	register(&Rule{ID: "C13.ALLFOREIGN", Min: 2, Doc: "every key that does not belong to the kind of job is reported, not only the last one seen", Run: runC13AllForeign})
	register(&Rule{ID: "C20.LINESTART", Min: 1, Doc: "an issue printed by pyflakes is recognised only at the beginning of a line", Run: runC20LineStart})
	register(&Rule{ID: "C12.UNDEFARGS", Min: 1, Doc: "the arguments of a call to an undefined function are still checked", Run: runC12UndefArgs})
	register(&Rule{ID: "C15.NULLITEM", Min: 1, Doc: "a null item of an ignore list is rejected instead of being compiled as the empty pattern", Run: runC15NullItem})
}

func runC17ScanErr(c *Ctx) {
	p := c.P
	initFn := p.Method("globValidator", "init")
	if initFn == nil {
		c.anchorMissing("(*globValidator).init")
		return
	}
	// the function stored into scanner.Scanner.Error: a closure of init, or a method of the validator used as a value
	var cb *ssa.Function
	eachInstr(initFn, func(_ *ssa.BasicBlock, _ int, in ssa.Instruction) {
		st, ok := in.(*ssa.Store)
		if !ok {
			return
		}
		fa, ok := st.Addr.(*ssa.FieldAddr)
		if !ok || !strings.HasSuffix(fieldAddrName(fa), "Scanner.Error") {
			return
		}
		switch x := unwrap(st.Val).(type) {
		case *ssa.MakeClosure:
			f, _ := x.Fn.(*ssa.Function)
			if f != nil && f.Synthetic != "" {
				// bound method wrapper: the method itself
				if obj, ok := f.Object().(*types.Func); ok {
					if m := p.SSA.FuncValue(obj); m != nil {
						f = m
					}
				}
			}
			cb = f
		case *ssa.Function:
			cb = x
		}
	})
	if cb == nil {
		for _, fn := range p.Funcs {
			if fn.Parent() == initFn {
				cb = fn
			}
		}
	}
	if cb == nil {
		c.anchorMissing("scanner error callback in (*globValidator).init")
		return
	}
	construct := "(*globValidator).init|column of a scanner error"
	if len(findCalls(cb, "(*globValidator).error")) > 0 {
		c.bad(construct, cb.Pos(), "the callback reports through (*globValidator).error, which subtracts one column because its callers have already consumed the offending character; the scanner raises its error while reading ahead, so NUL or invalid UTF-8 is reported one column too early (column 0 at the start)")
	} else {
		c.ok(construct, cb.Pos(), "the callback takes the scanner position as it is")
	}
}

func runC17Bom(c *Ctx) {
	p := c.P
	fn := p.Method("globValidator", "init")
	if fn == nil {
		c.anchorMissing("(*globValidator).init")
		return
	}
	guard := false
	for _, call := range findCalls(fn, "strings.HasPrefix") {
		if s, ok := constString(call.Common().Args[1]); ok && s == "\uFEFF" {
			guard = true
		}
	}
	construct := "(*globValidator).init|byte order mark at the start of the pattern"
	if guard {
		c.ok(construct, fn.Pos(), "a leading U+FEFF is replaced before the scanner sees the pattern")
	} else {
		c.bad(construct, fn.Pos(), "text/scanner skips a leading U+FEFF: `\\uFEFF?` is reported as `?` after a special character although the same text is accepted when the mark is anywhere else")
	}
}

func runC13AllForeign(c *Ctx) {
	p := c.P
	fn := p.Method("parser", "parseJob")
	if fn == nil {
		c.anchorMissing("(*parser).parseJob")
		return
	}
	// the two reports about keys of the wrong kind of job
	n := 0
	var stepsOnlyLoop map[*ssa.BasicBlock]bool
	for _, call := range findCalls(fn, "(*parser).errorfAt") {
		s, ok := constString(call.Common().Args[2])
		if !ok {
			continue
		}
		which := ""
		switch {
		case strings.Contains(s, "when a reusable workflow is called"):
			which = "key not available in a reusable workflow call"
		case strings.Contains(s, "is only available for a reusable workflow call"):
			which = "key only available in a reusable workflow call"
		default:
			continue
		}
		n++
		construct := "(*parser).parseJob|" + which
		if blockInCycle(call.Block()) {
			c.ok(construct, call.Pos(), "reported in a loop over all such keys")
			if strings.HasPrefix(which, "key not") {
				for _, h := range loopHeaders(fn) {
					if b := naturalLoop(h); b[call.Block()] {
						stepsOnlyLoop = b
					}
				}
			}
		} else {
			c.bad(construct, call.Pos(), "reported once, for the key remembered last: with `runs-on` and `steps` in a job that has `uses`, only one of them is reported")
		}
	}
	if n == 0 {
		c.anchorMissing("reports about keys of the wrong kind of job in (*parser).parseJob")
		return
	}
	// every key other than the ones GitHub allows in a call job is remembered for the first report
	allowed := map[string]bool{"name": true, "uses": true, "with": true, "secrets": true, "needs": true, "if": true, "permissions": true, "strategy": true, "concurrency": true}
	// the list the first report ranges over
	var list ssa.Value
	for blk := range stepsOnlyLoop {
		for _, in := range blk.Instrs {
			if ia, ok := in.(*ssa.IndexAddr); ok && typeStr(ia.X.Type()) == "[]*String" {
				list = ia.X
			}
		}
	}
	if list == nil {
		c.anchorMissing("the list of keys the report about keys not available in a call job ranges over")
		return
	}
	feedsList := func(v ssa.Value) bool {
		seen := map[ssa.Value]bool{}
		work := []ssa.Value{v}
		for len(work) > 0 {
			x := work[len(work)-1]
			work = work[:len(work)-1]
			if x == list {
				return true
			}
			if seen[x] || x.Referrers() == nil {
				continue
			}
			seen[x] = true
			for _, r := range *x.Referrers() {
				switch r := r.(type) {
				case *ssa.Phi:
					work = append(work, r)
				case *ssa.Call:
					if bi, ok := r.Call.Value.(*ssa.Builtin); ok && bi.Name() == "append" && len(r.Call.Args) > 0 && r.Call.Args[0] == x {
						work = append(work, r)
					}
				}
			}
		}
		return false
	}
	remembers := func(blks map[*ssa.BasicBlock]bool) bool {
		for blk := range blks {
			for _, in := range blk.Instrs {
				if call, ok := in.(*ssa.Call); ok {
					if bi, ok := call.Call.Value.(*ssa.Builtin); ok && bi.Name() == "append" && feedsList(call) {
						return true
					}
				}
			}
		}
		return false
	}
	isKeyID := func(v ssa.Value) bool {
		if f, _ := fieldLoad(v); f == "workflowKeyVal.id" {
			return true
		}
		_, isField := v.(*ssa.Field)
		return isField
	}
	innermost := func(b *ssa.BasicBlock) (*ssa.BasicBlock, map[*ssa.BasicBlock]bool) {
		var hd *ssa.BasicBlock
		var body map[*ssa.BasicBlock]bool
		for _, h := range loopHeaders(fn) {
			if l := naturalLoop(h); l[b] && (body == nil || len(l) < len(body)) {
				hd, body = h, l
			}
		}
		return hd, body
	}
	// keys remembered through a table consulted with the key: `if _, ok := table[kv.id]; ok { list = append(list, k) }`
	tabled := map[string]bool{}
	for _, b := range fn.Blocks {
		for _, in := range b.Instrs {
			lk, ok := in.(*ssa.Lookup)
			if !ok || !isKeyID(lk.Index) {
				continue
			}
			ld, ok := lk.X.(*ssa.UnOp)
			if !ok || ld.Op != token.MUL {
				continue
			}
			g, ok := ld.X.(*ssa.Global)
			if !ok {
				continue
			}
			ifi, ok := b.Instrs[len(b.Instrs)-1].(*ssa.If)
			if !ok {
				continue
			}
			hd, _ := innermost(b)
			if hd == nil {
				continue
			}
			if !remembers(reachableBlocks([]*ssa.BasicBlock{ifi.Block().Succs[0]}, map[*ssa.BasicBlock]bool{ifi.Block().Succs[1]: true, hd: true})) {
				continue
			}
			for _, k := range constMapKeys(p, g) {
				tabled[k] = true
			}
		}
	}
	var missing []string
	keys := 0
	for _, b := range fn.Blocks {
		ifi, ok := b.Instrs[len(b.Instrs)-1].(*ssa.If)
		if !ok {
			continue
		}
		bo, ok := ifi.Cond.(*ssa.BinOp)
		if !ok || bo.Op != token.EQL {
			continue
		}
		k, ok := constString(bo.Y)
		if !ok || !isKeyID(bo.X) {
			continue
		}
		keys++
		if allowed[k] || tabled[k] {
			continue
		}
		// the case body (up to the next key comparison or the next iteration of the key loop) appends the key to that list
		hd, _ := innermost(b)
		stop := map[*ssa.BasicBlock]bool{b.Succs[1]: true}
		if hd != nil {
			stop[hd] = true
		}
		if !remembers(reachableBlocks([]*ssa.BasicBlock{b.Succs[0]}, stop)) {
			missing = append(missing, k)
		}
	}
	sort.Strings(missing)
	_ = stepsOnlyLoop
	construct := "(*parser).parseJob|keys remembered as not available in a call job"
	switch {
	case keys < 10:
		c.anchorMissing("key dispatch of (*parser).parseJob")
	case len(missing) == 0:
		c.ok(construct, fn.Pos(), "every job key outside name/uses/with/secrets/needs/if/permissions/strategy/concurrency is remembered")
	default:
		c.bad(construct, fn.Pos(), "the key(s) "+strings.Join(missing, ", ")+" are not allowed in a job that calls a reusable workflow but are not remembered for the report")
	}
}

func runC20LineStart(c *Ctx) {
	p := c.P
	fn := p.Method("RulePyflakes", "parseNextError")
	if fn == nil {
		c.anchorMissing("(*RulePyflakes).parseNextError")
		return
	}
	unanchored := false
	anchored := false
	eachInstr(fn, func(_ *ssa.BasicBlock, _ int, in ssa.Instruction) {
		call, ok := in.(*ssa.Call)
		if !ok {
			return
		}
		name := calleeFullName(&call.Call)
		if name != "bytes.Index" && name != "bytes.HasPrefix" && name != "bytes.Contains" && name != "bytes.Cut" {
			return
		}
		needle := ""
		if cv, ok := call.Call.Args[1].(*ssa.Convert); ok {
			needle, _ = constString(cv.X)
		}
		switch {
		case name == "bytes.HasPrefix" && needle == "<stdin>:":
			anchored = true
		case needle == "\n<stdin>:":
			anchored = true
		case needle == "<stdin>:":
			unanchored = true
		}
	})
	construct := "(*RulePyflakes).parseNextError|start of an issue"
	switch {
	case unanchored:
		c.bad(construct, fn.Pos(), "`<stdin>:` is searched anywhere in the output: pyflakes echoes the source line under a syntax error, so a script line containing `<stdin>:` turns one issue into two diagnostics")
	case anchored:
		c.ok(construct, fn.Pos(), "`<stdin>:` is only recognised at the start of the output or after a line break")
	default:
		c.anchorMissing("search for <stdin>: in (*RulePyflakes).parseNextError")
	}
}

func runC12UndefArgs(c *Ctx) {
	p := c.P
	fn := p.Method("ExprSemanticsChecker", "checkFuncCall")
	if fn == nil {
		c.anchorMissing("(*ExprSemanticsChecker).checkFuncCall")
		return
	}
	var undef ssa.CallInstruction
	for _, call := range findCalls(fn, "(*ExprSemanticsChecker).errorf") {
		if s, ok := constString(call.Common().Args[2]); ok && strings.HasPrefix(s, "undefined function") {
			undef = call
		}
	}
	if undef == nil {
		c.anchorMissing("report of an undefined function in checkFuncCall")
		return
	}
	checked := false
	for _, call := range findCalls(fn, "(*ExprSemanticsChecker).check") {
		if instrReachableAfter(undef, call) {
			// and it is on the undefined path only: the report's block dominates it
			if undef.Block() == call.Block() || undef.Block().Dominates(call.Block()) {
				checked = true
			}
		}
	}
	construct := "(*ExprSemanticsChecker).checkFuncCall|arguments of an undefined function"
	if checked {
		c.ok(construct, undef.Pos(), "the arguments are checked after the undefined function was reported")
	} else {
		c.bad(construct, undef.Pos(), "the function returns right after reporting the undefined function: `formatt('{0}', secrets.FOO)` at a key where secrets is not allowed, or `unknownfn(github.event.issue.title)` in a script, lose the diagnostics of the arguments")
	}
}

func runC15NullItem(c *Ctx) {
	p := c.P
	fn := p.Method("IgnorePatterns", "UnmarshalYAML")
	if fn == nil {
		c.anchorMissing("(*IgnorePatterns).UnmarshalYAML")
		return
	}
	calls := findCalls(fn, "regexp.Compile")
	if len(calls) == 0 {
		c.anchorMissing("regexp.Compile in (*IgnorePatterns).UnmarshalYAML")
		return
	}
	// a comparison of the node's tag with "!!null" whose outcome can keep the compile from running
	tested := false
	for _, b := range fn.Blocks {
		ifi, ok := b.Instrs[len(b.Instrs)-1].(*ssa.If)
		if !ok {
			continue
		}
		bo, ok := ifi.Cond.(*ssa.BinOp)
		if !ok {
			continue
		}
		f, _ := fieldLoad(bo.X)
		s, isC := constString(bo.Y)
		if f != "yaml.Node.Tag" || !isC || s != "!!null" {
			continue
		}
		nullSucc := b.Succs[0]
		if bo.Op == token.NEQ {
			nullSucc = b.Succs[1]
		}
		if !reachableBlocks([]*ssa.BasicBlock{nullSucc}, nil)[calls[0].Block()] || blockInCycle(calls[0].Block()) && returnsBefore(nullSucc, calls[0].Block()) {
			tested = true
		}
	}
	construct := "(*IgnorePatterns).UnmarshalYAML|null item"
	if tested {
		c.ok(construct, calls[0].Pos(), "an item tagged !!null is rejected")
	} else {
		c.bad(construct, calls[0].Pos(), "an empty item (`-`) is a scalar whose text is empty: it compiles to the empty pattern, which matches every message, so every diagnostic of the matching files is dropped")
	}
}

// returnsBefore: from block b a return is reached without passing through target.
func returnsBefore(b, target *ssa.BasicBlock) bool {
	for blk := range reachableBlocks([]*ssa.BasicBlock{b}, map[*ssa.BasicBlock]bool{target: true}) {
		if _, ok := blk.Instrs[len(blk.Instrs)-1].(*ssa.Return); ok {
			return true
		}
	}
	return false
}

func init() {
	register(&Rule{ID: "C14.NULLDEFAULT", Min: 1, Doc: "a null `default:` of a workflow_call input is no default on the AST path as on the re-parse path", Run: runC14NullDefault})
	register(&Rule{ID: "C14.POPCASE", Min: 2, Doc: "the bundled popular-actions data set is consulted case-insensitively for owner and repository", Run: runC14PopCase})
	register(&Rule{ID: "C16.SNIPBOM", Min: 1, Doc: "the snippet line does not contain the byte order mark the YAML parser does not count", Run: runC16SnipBom})
	register(&Rule{ID: "C16.ESC", Min: 1, Doc: "echoed library errors have escape characters replaced, which the problem matcher would strip from the end of the message", Run: runC16Esc})
	register(&Rule{ID: "C16.TABPAD", Min: 1, Doc: "the padding before the caret repeats the tab characters of the source line", Run: runC16TabPad})
}

func runC14NullDefault(c *Ctx) {
	p := c.P
	n := 0
	for _, fn := range p.Funcs {
		if !strings.HasSuffix(p.unitFile(fn), "/parse.go") {
			continue
		}
		eachInstr(fn, func(b *ssa.BasicBlock, _ int, in ssa.Instruction) {
			st, ok := in.(*ssa.Store)
			if !ok {
				return
			}
			fa, ok := st.Addr.(*ssa.FieldAddr)
			if !ok || fieldAddrName(fa) != "WorkflowCallEventInput.Default" {
				return
			}
			n++
			construct := fmt.Sprintf("%s|default of a workflow_call input#%d", FuncName(fn), n)
			guarded := false
			for ifi, outcome := range controllingConds(b) {
				if call, ok := ifi.Cond.(*ssa.Call); ok && !outcome {
					if f := staticCallee(&call.Call); f != nil && FuncName(f) == "isNull" {
						guarded = true
					}
				}
			}
			if guarded {
				c.ok(construct, st.Pos(), "set only when the node is not null")
			} else {
				c.bad(construct, st.Pos(), "a null `default:` becomes a non-nil String, so WriteWorkflowCallEvent takes the input as having a default (not required) while the re-parse of the file (nil *string) takes it as required: the caller's \"input is required\" diagnostic depends on which path filled the cache")
			}
		})
	}
	if n == 0 {
		c.anchorMissing("store to WorkflowCallEventInput.Default in parse.go")
	}
}

func runC14PopCase(c *Ctx) {
	p := c.P
	n := 0
	for _, fn := range p.Funcs {
		eachInstr(fn, func(_ *ssa.BasicBlock, _ int, in ssa.Instruction) {
			lk, ok := in.(*ssa.Lookup)
			if !ok {
				return
			}
			ld, ok := lk.X.(*ssa.UnOp)
			if !ok {
				return
			}
			g, ok := ld.X.(*ssa.Global)
			if !ok || g.Name() != "PopularActions" {
				return
			}
			n++
			construct := fmt.Sprintf("%s|look-up in PopularActions#%d", FuncName(fn), n)
			// allowed: inside a function that also compares the names with strings.EqualFold (exact hit first, then the
			// case-insensitive search), or with a key taken from the map itself
			if folds := findCalls(fn, "strings.EqualFold"); len(folds) > 0 {
				// the case-insensitive comparison covers the whole of the key in front of the ref: an operand that is a slice
				// of a key needs the two lengths to have been found equal (a longer key - an action in a sub-directory of
				// the same repository - matches a prefix otherwise)
				whole := true
				for _, fc := range folds {
					for _, a := range fc.Common().Args {
						sl, isSlice := a.(*ssa.Slice)
						if !isSlice {
							continue
						}
						if _, fromSpec := sl.X.(*ssa.Parameter); fromSpec {
							continue // a part of the spec that was asked for
						}
						lenEq := false
						for ifi := range controllingConds(fc.Block()) {
							if bo, ok := ifi.Cond.(*ssa.BinOp); ok && (bo.Op == token.EQL || bo.Op == token.NEQ) {
								_, lx := bo.X.(*ssa.Call)
								_, ly := bo.Y.(*ssa.Call)
								if lx && ly && strings.HasPrefix(symName(bo.X), "len(") && strings.HasPrefix(symName(bo.Y), "len(") {
									lenEq = true
								}
							}
						}
						if !lenEq {
							whole = false
						}
					}
				}
				if whole {
					c.ok(construct, lk.Pos(), "the function falls back to a comparison of the whole name with strings.EqualFold")
				} else {
					c.bad(construct, lk.Pos(), "the case-insensitive fallback compares a prefix of the key with the name without having found the lengths equal: `Actions/Cache@v4` also matches the key of actions/cache/restore@v4 and is checked against the wrong interface")
				}
			} else {
				c.bad(construct, lk.Pos(), "the data set is looked up with the spec as written: `uses: Actions/Cache@v4` (owner and repository are case-insensitive) is not found, so none of its inputs and outputs are checked")
			}
		})
	}
	if n == 0 {
		c.anchorMissing("look-up in PopularActions")
	}
}

func runC16SnipBom(c *Ctx) {
	p := c.P
	fn := p.Method("Error", "getLine")
	if fn == nil {
		c.anchorMissing("(*Error).getLine")
		return
	}
	trims := false
	for _, call := range findCalls(fn, "strings.TrimPrefix") {
		if s, ok := constString(call.Common().Args[1]); ok && s == "\uFEFF" {
			trims = true
		}
	}
	construct := "(*Error).getLine|byte order mark on the first line"
	if trims {
		c.ok(construct, fn.Pos(), "removed before the column is applied to the line")
	} else {
		c.bad(construct, fn.Pos(), "the YAML parser does not count a byte order mark at the start of the file as a column, the renderer does: every caret on line 1 is one cell too far left")
	}
}

func runC16Esc(c *Ctx) {
	p := c.P
	fn := p.Func("replaceLineBreaks")
	if fn == nil {
		c.anchorMissing("replaceLineBreaks")
		return
	}
	covered := false
	init := p.SPkg.Func("init")
	for _, f := range append([]*ssa.Function{init}, p.Funcs...) {
		if f == nil {
			continue
		}
		for _, call := range findCalls(f, "strings.NewReplacer") {
			args, ok := variadicArgs(call.Common().Args[0])
			if !ok {
				continue
			}
			has := map[string]bool{}
			for i := 0; i+1 < len(args); i += 2 {
				if s, ok := constString(args[i]); ok {
					has[s] = true
				}
			}
			if has["\n"] && has["\r"] && has["\x1b"] {
				covered = true
			}
		}
	}
	construct := "replaceLineBreaks|escape character"
	if covered {
		c.ok(construct, fn.Pos(), "the replacer that removes line breaks also replaces ESC")
	} else {
		c.bad(construct, fn.Pos(), "an ESC echoed by a library error (`cron: \"@daily\\e[0m\"`) stays in the message; the problem matcher strips colour sequences from the end of the line, so the message it parses back differs")
	}
}

func runC16TabPad(c *Ctx) {
	p := c.P
	fn := p.Method("Error", "getIndicator")
	if fn == nil {
		c.anchorMissing("(*Error).getIndicator")
		return
	}
	// a comparison of a character of the line with '\t' that leads to writing a tab
	tab := false
	eachInstr(fn, func(b *ssa.BasicBlock, _ int, in ssa.Instruction) {
		bo, ok := in.(*ssa.BinOp)
		if !ok || (bo.Op != token.EQL && bo.Op != token.NEQ) {
			return
		}
		if k, ok := constInt(bo.Y); !ok || k != '\t' {
			return
		}
		for _, call := range findCalls(fn, "(*strings.Builder).WriteByte") {
			if k, ok := constInt(call.Common().Args[1]); ok && k == '\t' {
				tab = true
			}
		}
		for _, call := range findCalls(fn, "(*strings.Builder).WriteRune") {
			if k, ok := constInt(call.Common().Args[1]); ok && k == '\t' {
				tab = true
			}
		}
	})
	construct := "(*Error).getIndicator|tab characters before the caret"
	if tab {
		c.ok(construct, fn.Pos(), "a tab of the source line is repeated in the padding, so the caret is aligned for every tab width")
	} else {
		c.bad(construct, fn.Pos(), "the padding is a number of spaces computed with runewidth, which gives a tab the width 0, while the source line is printed with the raw tab: the caret is left of the token for every tab width")
	}
}

func init() {
	register(&Rule{ID: "C01.UNMARSHALNIL", Min: 4, Doc: "the UnmarshalYAML methods of the metadata tables never store a nil element", Run: runC01UnmarshalNil})
}

// With C01.NULLTAG the UnmarshalYAML methods always run; what the rules rely on (elements of the metadata maps can be
// dereferenced without a nil test) then follows from the methods storing the address of a fresh value for every key.
func runC01UnmarshalNil(c *Ctx) {
	p := c.P
	n := 0
	for _, fn := range p.Funcs {
		if fn.Name() != "UnmarshalYAML" || fn.Signature.Recv() == nil {
			continue
		}
		eachInstr(fn, func(_ *ssa.BasicBlock, _ int, in ssa.Instruction) {
			mu, ok := in.(*ssa.MapUpdate)
			if !ok {
				return
			}
			mt, ok := mu.Map.Type().Underlying().(*types.Map)
			if !ok {
				return
			}
			if _, isPtr := mt.Elem().Underlying().(*types.Pointer); !isPtr {
				return
			}
			n++
			construct := fmt.Sprintf("%s|element stored#%d", FuncName(fn), n)
			switch v := mu.Value.(type) {
			case *ssa.Alloc:
				c.ok(construct, mu.Pos(), "the address of a fresh value")
			default:
				if k, ok := v.(*ssa.Const); ok && k.IsNil() {
					c.bad(construct, mu.Pos(), "nil is stored as an element: the rules dereference the elements of this table without a nil test")
				} else {
					c.bad(construct, mu.Pos(), "the stored element ("+symName(v)+") is not the address of a fresh value: it may be nil, and the rules dereference the elements of this table without a nil test")
				}
			}
		})
	}
	if n == 0 {
		c.anchorMissing("map updates in UnmarshalYAML methods")
	}
}

// ---- C02.LESS: comparators are evaluated over the finite set of orderings of their keys ----

func init() {
	register(&Rule{ID: "C02.LESS", Min: 2, Doc: "the position comparators are the strict lexicographic order of their keys (evaluated for every ordering of the keys)", Run: runC02Less})
}

type ordVal struct {
	kind  string // "field", "int", "bool"
	side  int    // 0 / 1 for field values
	field string
	n     int64
	b     bool
}

// evalComparator runs fn on two abstract records whose fields are related by rel[field] in {-1,0,1} (record 0 versus record
// 1; swapped exchanges the roles). sideOf classifies a pointer value as record 0 / 1.
func evalComparator(fn *ssa.Function, rel map[string]int, sideOf func(v ssa.Value) (int, bool)) (result bool, ok bool) {
	r, ok := evalComparatorFn(fn, rel, sideOf, map[ssa.Value]ordVal{}, 0)
	if !ok || r.kind != "bool" {
		return false, false
	}
	return r.b, true
}

// evalComparatorFn evaluates one function; a call of a module function is evaluated on the values of its arguments (a
// comparator that delegates to a compare helper is the same comparator).
func evalComparatorFn(fn *ssa.Function, rel map[string]int, sideOf func(v ssa.Value) (int, bool), vals map[ssa.Value]ordVal, depth int) (ordVal, bool) {
	if depth > 4 || fn.Blocks == nil {
		return ordVal{}, false
	}
	var eval func(v ssa.Value) (ordVal, bool)
	eval = func(v ssa.Value) (ordVal, bool) {
		if r, ok := vals[v]; ok {
			return r, true
		}
		switch x := v.(type) {
		case *ssa.Const:
			if n, ok := constInt(x); ok {
				return ordVal{kind: "int", n: n}, true
			}
			if x.Value != nil && (x.Value.String() == "true" || x.Value.String() == "false") {
				return ordVal{kind: "bool", b: x.Value.String() == "true"}, true
			}
		}
		// one of the two records: classified by the caller of the evaluator (a parameter, by[i])
		if s, ok := sideOf(v); ok {
			return ordVal{kind: "rec", side: s}, true
		}
		if ld, ok := v.(*ssa.UnOp); ok && ld.Op == token.MUL {
			if s, ok := sideOf(ld.X); ok {
				return ordVal{kind: "rec", side: s}, true
			}
		}
		return ordVal{}, false
	}
	cmpFields := func(a, b ordVal) (int, bool) {
		if a.kind == "field" && b.kind == "field" && a.field == b.field && a.side != b.side {
			r, ok := rel[a.field]
			if !ok {
				return 0, false
			}
			if a.side == 1 {
				r = -r
			}
			return r, true
		}
		if a.kind == "int" && b.kind == "int" {
			switch {
			case a.n < b.n:
				return -1, true
			case a.n > b.n:
				return 1, true
			}
			return 0, true
		}
		return 0, false
	}
	blk := fn.Blocks[0]
	var prev *ssa.BasicBlock
	for steps := 0; steps < 200; steps++ {
		for _, in := range blk.Instrs {
			switch x := in.(type) {
			case *ssa.Phi:
				for i, p := range blk.Preds {
					if p == prev {
						r, ok := eval(x.Edges[i])
						if !ok {
							return ordVal{}, false
						}
						vals[x] = r
					}
				}
			case *ssa.FieldAddr, *ssa.IndexAddr, *ssa.DebugRef:
				// resolved at the load
			case *ssa.UnOp:
				switch x.Op {
				case token.MUL:
					if fa, ok := x.X.(*ssa.FieldAddr); ok {
						// the record: the field's base, possibly loaded from by[i], possibly a parameter bound by a caller
						if r, ok := eval(fa.X); ok && r.kind == "rec" {
							name := fieldAddrName(fa)
							if i := strings.LastIndex(name, "."); i >= 0 {
								name = name[i+1:]
							}
							vals[x] = ordVal{kind: "field", side: r.side, field: name}
							continue
						}
					}
					// a pointer load (by[i]): keep the side through sideOf at the field access
				case token.NOT:
					r, ok := eval(x.X)
					if !ok || r.kind != "bool" {
						return ordVal{}, false
					}
					vals[x] = ordVal{kind: "bool", b: !r.b}
				case token.SUB:
					r, ok := eval(x.X)
					if !ok || r.kind != "int" {
						return ordVal{}, false
					}
					vals[x] = ordVal{kind: "int", n: -r.n}
				}
			case *ssa.Call:
				if calleeFullName(&x.Call) == "strings.Compare" {
					a, ok1 := eval(x.Call.Args[0])
					b, ok2 := eval(x.Call.Args[1])
					if !ok1 || !ok2 {
						return ordVal{}, false
					}
					c, ok := cmpFields(a, b)
					if !ok {
						return ordVal{}, false
					}
					vals[x] = ordVal{kind: "int", n: int64(c)}
				} else if g := staticCallee(&x.Call); g != nil && g.Blocks != nil && inModule(g) && !x.Call.IsInvoke() && len(x.Call.Args) == len(g.Params) {
					inner := map[ssa.Value]ordVal{}
					for i, a := range x.Call.Args {
						r, ok := eval(a)
						if !ok {
							return ordVal{}, false
						}
						inner[g.Params[i]] = r
					}
					r, ok := evalComparatorFn(g, rel, func(ssa.Value) (int, bool) { return 0, false }, inner, depth+1)
					if !ok {
						return ordVal{}, false
					}
					vals[x] = r
				} else {
					return ordVal{}, false
				}
			case *ssa.BinOp:
				a, ok1 := eval(x.X)
				b, ok2 := eval(x.Y)
				if !ok1 || !ok2 {
					return ordVal{}, false
				}
				if x.Op == token.SUB {
					// the sign of a difference is the comparison of its operands (all that a comparator reads of it)
					c, ok := cmpFields(a, b)
					if !ok {
						return ordVal{}, false
					}
					vals[x] = ordVal{kind: "int", n: int64(c)}
					continue
				}
				c, ok := cmpFields(a, b)
				if !ok {
					return ordVal{}, false
				}
				var r bool
				switch x.Op {
				case token.LSS:
					r = c < 0
				case token.GTR:
					r = c > 0
				case token.LEQ:
					r = c <= 0
				case token.GEQ:
					r = c >= 0
				case token.EQL:
					r = c == 0
				case token.NEQ:
					r = c != 0
				default:
					return ordVal{}, false
				}
				vals[x] = ordVal{kind: "bool", b: r}
			case *ssa.If:
				r, ok := eval(x.Cond)
				if !ok || r.kind != "bool" {
					return ordVal{}, false
				}
				prev = blk
				if r.b {
					blk = blk.Succs[0]
				} else {
					blk = blk.Succs[1]
				}
			case *ssa.Jump:
				prev = blk
				blk = blk.Succs[0]
			case *ssa.Return:
				if len(x.Results) != 1 {
					return ordVal{}, false
				}
				return eval(x.Results[0])
			default:
				return ordVal{}, false
			}
		}
	}
	return ordVal{}, false
}

func runC02Less(c *Ctx) {
	p := c.P
	type cmpSpec struct {
		fn   *ssa.Function
		keys []string
		side func(v ssa.Value) (int, bool)
	}
	var specs []cmpSpec
	if fn := p.Method("Pos", "IsBefore"); fn != nil {
		specs = append(specs, cmpSpec{fn, []string{"Line", "Col"}, func(v ssa.Value) (int, bool) {
			for i, prm := range fn.Params {
				if v == ssa.Value(prm) {
					return i, true
				}
			}
			return 0, false
		}})
	} else {
		c.anchorMissing("(*Pos).IsBefore")
	}
	var less *ssa.Function
	for _, f := range p.Funcs {
		if FuncName(f) == "(ByErrorPosition).Less" {
			less = f
		}
	}
	if less != nil {
		specs = append(specs, cmpSpec{less, []string{"Filepath", "Line", "Column"}, func(v ssa.Value) (int, bool) {
			ia, ok := v.(*ssa.IndexAddr)
			if !ok {
				return 0, false
			}
			for i, prm := range less.Params[1:] {
				if ia.Index == ssa.Value(prm) {
					return i, true
				}
			}
			return 0, false
		}})
	} else {
		c.anchorMissing("(ByErrorPosition).Less")
	}
	for _, sp := range specs {
		construct := FuncName(sp.fn) + "|strict lexicographic order of " + strings.Join(sp.keys, ", ")
		// fields the comparator reads besides the keys (tie breakers): the keys must decide whatever these are
		isKey := map[string]bool{}
		for _, k := range sp.keys {
			isKey[k] = true
		}
		extraSet := map[string]bool{}
		eachInstr(sp.fn, func(_ *ssa.BasicBlock, _ int, in ssa.Instruction) {
			if fa, ok := in.(*ssa.FieldAddr); ok {
				name := fieldAddrName(fa)
				if i := strings.LastIndex(name, "."); i >= 0 {
					name = name[i+1:]
				}
				if !isKey[name] {
					extraSet[name] = true
				}
			}
		})
		allKeys := append(append([]string{}, sp.keys...), sortedKeys(extraSet)...)
		n := 1
		for range allKeys {
			n *= 3
		}
		bad := ""
		undecided := false
		for code := 0; code < n && bad == ""; code++ {
			rel := map[string]int{}
			x := code
			desc := []string{}
			for _, k := range allKeys {
				rel[k] = x%3 - 1
				x /= 3
				desc = append(desc, fmt.Sprintf("%s%s", k, map[int]string{-1: "<", 0: "=", 1: ">"}[rel[k]]))
			}
			want, decided, same := false, false, true
			for _, k := range sp.keys {
				if rel[k] != 0 {
					want, decided = rel[k] < 0, true
					break
				}
			}
			for _, k := range allKeys {
				if rel[k] != 0 {
					same = false
				}
			}
			if !decided && !same {
				continue // the keys tie and a tie breaker differs: not a question of the order of the keys
			}
			got, ok := evalComparator(sp.fn, rel, sp.side)
			if !ok {
				undecided = true
				break
			}
			if got != want {
				bad = fmt.Sprintf("for %s it answers %v, the lexicographic order says %v", strings.Join(desc, " "), got, want)
			}
		}
		switch {
		case undecided:
			c.undecided(construct, sp.fn.Pos(), "the comparator uses an operation the evaluator does not model")
		case bad != "":
			c.bad(construct, sp.fn.Pos(), bad+": the comparator is not a strict order (a and b can each be before the other), so minima taken while ranging over a map and sort results depend on the order of visiting")
		default:
			c.ok(construct, sp.fn.Pos(), fmt.Sprintf("all %d orderings of the keys evaluated: irreflexive, asymmetric, first differing key decides", n))
		}
	}
}

// ---- rules written after the seeds of round 6 (letters I, J) were missed ----

func init() {
	register(&Rule{ID: "C03.MUSTSCAN", Min: 20, Doc: "every function that hands a scalar to the placeholder scan does so on every path on which the scalar exists; further up, no hand-over towards the scan is conditional on a test of the scalar's own text", Run: runC03MustScan})
	register(&Rule{ID: "C06.JSONMERGE", Min: 1, Doc: "the element types of a JSON array literal are merged unconditionally", Run: runC06JSONMerge})
	register(&Rule{ID: "C09.CYCLESTART", Min: 1, Doc: "the job at which a cycle is reported is chosen among the jobs of the cycle by position, not by where the search entered it", Run: runC09CycleStart})
	register(&Rule{ID: "C14.REQDECODE", Min: 2, Doc: "`required` of a metadata input is decoded as a YAML boolean, not compared as text", Run: runC14ReqDecode})
	register(&Rule{ID: "C15.STDINPROJ", Min: 1, Doc: "the repository of a file given on stdin with a file name is looked up like that of any other file", Run: runC15StdinProj})
	register(&Rule{ID: "C16.SPLITCR", Min: 1, Doc: "a carriage return at the end of a buffer is not taken for a line break before the next byte is known", Run: runC16SplitCR})
	register(&Rule{ID: "C18.ALLROOTS", Min: 1, Doc: "the cycle search gives up only after every job was a root of the search", Run: runC18AllRoots})
	register(&Rule{ID: "C19.DUPALWAYS", Min: 1, Doc: "duplicates in literal rows are looked for whatever the include section contains", Run: runC19DupAlways})
	register(&Rule{ID: "C20.RESET", Min: 3, Doc: "the per-job shell of the tool rules is reset to unspecified, so that the workflow default applies to the next job", Run: runC20Reset})
}

func runC03MustScan(c *Ctx) {
	p := c.P
	scan := c03ScanFunc(p)
	if scan == nil {
		c.anchorMissing("(*RuleExpression).checkExprsIn")
		return
	}
	n := 0
	seen := map[*ssa.Function]bool{}
	for _, e := range p.callersOf(scan) {
		fn := e.Caller.Func
		if e.Site == nil || seen[fn] || !inPkgName(fn) {
			continue
		}
		seen[fn] = true
		n++
		construct := FuncName(fn) + "|scan on every path"
		var calls []ssa.CallInstruction
		eachInstr(fn, func(_ *ssa.BasicBlock, _ int, in ssa.Instruction) {
			if call, ok := in.(ssa.CallInstruction); ok && staticCallee(call.Common()) == scan {
				calls = append(calls, call)
			}
		})
		// blocks from which a return is reached without passing a call; conditions allowed on such paths: nil tests of a
		// parameter (no scalar)
		stop := map[*ssa.BasicBlock]bool{}
		for _, cl := range calls {
			stop[cl.Block()] = true
		}
		badCond := ""
		var walk func(b *ssa.BasicBlock, vis map[*ssa.BasicBlock]bool, okNil bool)
		walk = func(b *ssa.BasicBlock, vis map[*ssa.BasicBlock]bool, okNil bool) {
			if vis[b] || stop[b] || badCond != "" {
				return
			}
			vis[b] = true
			last := b.Instrs[len(b.Instrs)-1]
			switch t := last.(type) {
			case *ssa.Return:
				if !okNil {
					badCond = "a return is reached without the scan at " + p.Pos(t.Pos())
				}
			case *ssa.If:
				v, nilSucc, isNil := nilTest(t)
				_, isParam := v.(*ssa.Parameter)
				for i, s := range b.Succs {
					walk(s, vis, okNil || (isNil && isParam && i == nilSucc))
				}
			default:
				for _, s := range b.Succs {
					walk(s, vis, okNil)
				}
			}
		}
		walk(fn.Blocks[0], map[*ssa.BasicBlock]bool{}, false)
		if badCond == "" {
			c.ok(construct, fn.Pos(), "every path on which the scalar is not nil passes checkExprsIn")
		} else {
			c.bad(construct, fn.Pos(), badCond+": a scalar can be skipped under a condition other than its absence (for example a test that needs the closing }}, which lets `${{ github.ref` through unreported)")
		}
	}
	if n == 0 {
		c.anchorMissing("callers of checkExprsIn")
	}
	// the callers of those callers, up to the visitor methods: no hand-over is filtered by the text of what is handed over
	c03TextGuards(c)
}

func runC06JSONMerge(c *Ctx) {
	p := c.P
	fn := p.Func("typeOfJSONValue")
	if fn == nil {
		c.anchorMissing("typeOfJSONValue")
		return
	}
	n := 0
	scope := jsonTypingFuncs(p, fn)
	eachInstrOf(scope, func(b *ssa.BasicBlock, _ int, in ssa.Instruction) {
		call, ok := in.(*ssa.Call)
		if !ok || !call.Call.IsInvoke() || call.Call.Method.Name() != "Merge" || !blockInCycle(b) {
			return
		}
		n++
		construct := fmt.Sprintf("typeOfJSONValue|merge of element types#%d", n)
		guard := ""
		for ifi := range controllingConds(b) {
			if mentionsInvoke(ifi.Cond, "EqualTypes", 0) || mentionsInvoke(ifi.Cond, "Assignable", 0) {
				guard = "a type comparison"
			}
		}
		if guard == "" {
			c.ok(construct, call.Pos(), "every element (or colliding key) is merged")
		} else {
			c.bad(construct, call.Pos(), "the merge is skipped under "+guard+": `any` compares equal to every type, so an element that should widen the type to any is ignored and `fromJSON('[[\"x\"], []]')[1][0].name` is rejected while the more precise literal is accepted")
		}
	})
	if n == 0 {
		c.anchorMissing("Merge calls in the loops of typeOfJSONValue")
	}
	// no decision at all in the construction of a JSON value's type rests on a comparison that `any` satisfies
	construct := "typeOfJSONValue|no branch on a comparison that any satisfies"
	bad := token.NoPos
	var allBlocks []*ssa.BasicBlock
	for _, f := range scope {
		allBlocks = append(allBlocks, f.Blocks...)
	}
	for _, b := range allBlocks {
		if ifi, ok := b.Instrs[len(b.Instrs)-1].(*ssa.If); ok {
			if mentionsInvoke(ifi.Cond, "EqualTypes", 0) || mentionsInvoke(ifi.Cond, "Assignable", 0) {
				bad = ifi.Cond.Pos()
				if bad == token.NoPos {
					bad = fn.Pos()
				}
			}
		}
	}
	if bad == token.NoPos {
		c.ok(construct, fn.Pos(), "types are compared by their printed form or not at all")
	} else {
		c.bad(construct, bad, "a branch of typeOfJSONValue tests EqualTypes / Assignable, which hold whenever one side is any: a property that already fell back to any (conflicting spellings of one key) is overwritten by the next spelling's specific type, and `fromJSON('{\"Ab\":{\"x\":1},\"aB\":1,\"ab\":2}').ab.x` is rejected")
	}
}

func mentionsInvoke(v ssa.Value, method string, d int) bool {
	if d > 6 {
		return false
	}
	switch x := v.(type) {
	case *ssa.Call:
		if x.Call.IsInvoke() && x.Call.Method.Name() == method {
			return true
		}
		if f := staticCallee(&x.Call); f != nil && f.Name() == method {
			return true
		}
	case *ssa.UnOp:
		return mentionsInvoke(x.X, method, d+1)
	case *ssa.BinOp:
		return mentionsInvoke(x.X, method, d+1) || mentionsInvoke(x.Y, method, d+1)
	case *ssa.Phi:
		for _, e := range x.Edges {
			if mentionsInvoke(e, method, d+1) {
				return true
			}
		}
	}
	return false
}

func runC09CycleStart(c *Ctx) {
	p := c.P
	fn := p.Method("RuleJobNeeds", "VisitWorkflowPost")
	if fn == nil {
		c.anchorMissing("(*RuleJobNeeds).VisitWorkflowPost")
		return
	}
	// the report of the cycle: the Error call whose message comes from a strings.Builder
	var report ssa.CallInstruction
	for _, call := range findCalls(fn, "(*RuleBase).Error") {
		report = call
	}
	if report == nil {
		c.anchorMissing("cycle report in (*RuleJobNeeds).VisitWorkflowPost")
		return
	}
	// its position: jobNode.pos of a value that is a loop-carried minimum chosen with IsBefore
	pos := report.Common().Args[1]
	f, base := fieldLoad(pos)
	construct := "(*RuleJobNeeds).VisitWorkflowPost|job at which the cycle is reported"
	if f != "jobNode.pos" {
		c.bad(construct, report.Pos(), "the cycle is not reported at the position of a job node")
		return
	}
	// the maps handed to collectCycle in this function: the jobs of the cycle
	cycleMap := map[ssa.Value]bool{}
	for _, cc := range findCalls(fn, "collectCycle") {
		for _, a := range cc.Common().Args {
			if typeStr(a.Type()) == "map[*jobNode]*jobNode" {
				cycleMap[a] = true
			}
		}
	}
	// the choice may be made here or in a helper that gets the map: then the helper's result is what is examined, with its
	// parameter standing for the map
	where := fn
	if call, ok := base.(*ssa.Call); ok {
		if g := staticCallee(&call.Call); g != nil && inModule(g) && g.Blocks != nil {
			inner := map[ssa.Value]bool{}
			for i, a := range call.Call.Args {
				if cycleMap[a] && i < len(g.Params) {
					inner[g.Params[i]] = true
				}
			}
			var ret ssa.Value
			for _, b := range g.Blocks {
				if r, ok := b.Instrs[len(b.Instrs)-1].(*ssa.Return); ok && len(r.Results) == 1 {
					ret = r.Results[0]
				}
			}
			if ret != nil && len(inner) > 0 {
				where, base, cycleMap = g, ret, inner
			}
		}
	}
	ph, isPhi := base.(*ssa.Phi)
	usesIsBefore := false
	if isPhi {
		for _, call := range findCalls(where, "(*Pos).IsBefore") {
			if blockInCycle(call.Block()) {
				usesIsBefore = true
			}
		}
	}
	// the candidates that are compared are the keys of the map collectCycle filled (the jobs of the cycle), nothing else
	overCycle := false
	if isPhi {
		for _, call := range findCalls(where, "(*Pos).IsBefore") {
			if !blockInCycle(call.Block()) {
				continue
			}
			_, cand := fieldLoad(call.Common().Args[0])
			ex, ok := cand.(*ssa.Extract)
			if !ok || ex.Index != 1 {
				continue
			}
			nx, ok := ex.Tuple.(*ssa.Next)
			if !ok {
				continue
			}
			rg, ok := nx.Iter.(*ssa.Range)
			if !ok || typeStr(rg.X.Type()) != "map[*jobNode]*jobNode" {
				continue
			}
			if cycleMap[rg.X] {
				overCycle = true
			}
		}
	}
	if isPhi && usesIsBefore && blockInCycleWith(ph) && !overCycle {
		c.bad(construct, report.Pos(), "the earliest job is searched among other jobs than the keys of the map collectCycle filled: a job on the search path that is not on the cycle (a lead-in job defined before the cycle) can be chosen, it has no successor in the cycle and printing the cycle dereferences nil")
		return
	}
	if isPhi && usesIsBefore && blockInCycleWith(ph) {
		c.ok(construct, report.Pos(), "the earliest job of the cycle, found by comparing positions over the cycle's jobs")
	} else {
		c.bad(construct, report.Pos(), "the cycle is reported at "+symName(base)+", the job where the search closed or entered the cycle: a job outside the cycle that needs one of its members changes where (and with which text) the cycle is reported")
	}
}

func blockInCycleWith(ph *ssa.Phi) bool { return blockInCycle(ph.Block()) }

func runC14ReqDecode(c *Ctx) {
	p := c.P
	n := 0
	for _, fn := range p.Funcs {
		if fn.Name() != "UnmarshalYAML" {
			continue
		}
		file := p.File(fn.Pos())
		if !strings.HasSuffix(file, "/action_metadata.go") && !strings.HasSuffix(file, "/reusable_workflow.go") {
			continue
		}
		for _, call := range findCalls(fn, "(*gopkg.in/yaml.v3.Node).Decode") {
			mi, ok := call.Common().Args[1].(*ssa.MakeInterface)
			if !ok {
				continue
			}
			pt, ok := mi.X.Type().Underlying().(*types.Pointer)
			if !ok {
				continue
			}
			st, ok := pt.Elem().Underlying().(*types.Struct)
			if !ok {
				continue
			}
			for i := 0; i < st.NumFields(); i++ {
				if !strings.Contains(st.Tag(i), `yaml:"required"`) {
					continue
				}
				n++
				construct := fmt.Sprintf("%s|decoding of `required`", FuncName(fn))
				t := st.Field(i).Type()
				if b, ok := t.Underlying().(*types.Basic); ok && b.Info()&types.IsString != 0 {
					c.bad(construct, call.Pos(), "`required` is decoded as text and compared with a spelling: `required: True` (a YAML boolean) is not required, so a call site that omits the input gets no \"missing input\"")
				} else {
					c.ok(construct, call.Pos(), "decoded as "+typeStr(t))
				}
			}
		}
	}
	if n == 0 {
		c.anchorMissing("Decode into a struct with a field tagged yaml:\"required\"")
	}
}

func runC15StdinProj(c *Ctx) {
	p := c.P
	fn := p.Method("Linter", "Lint")
	if fn == nil {
		c.anchorMissing("(*Linter).Lint")
		return
	}
	ats := findCalls(fn, "(*Projects).At")
	if len(ats) == 0 {
		c.anchorMissing("(*Projects).At in (*Linter).Lint")
		return
	}
	construct := "(*Linter).Lint|project of a file given on stdin"
	bad := ""
	for ifi := range controllingConds(ats[0].Block()) {
		bo, ok := ifi.Cond.(*ssa.BinOp)
		if !ok || (bo.Op != token.NEQ && bo.Op != token.EQL) {
			continue
		}
		if _, isParam := bo.X.(*ssa.Parameter); !isParam {
			continue
		}
		if _, isConst := bo.Y.(*ssa.Const); isConst {
			continue
		}
		if f, _ := fieldLoad(bo.Y); f == "Linter.stdin" {
			bad = "the look-up is skipped when the path equals Linter.stdin, which LintStdin always passes"
		}
	}
	if bad == "" {
		c.ok(construct, ats[0].Pos(), "only the placeholder name <stdin> (no file name given) skips the look-up")
	} else {
		c.bad(construct, ats[0].Pos(), bad+": with -stdin-filename the repository configuration (paths/ignore) is never applied to the file")
	}
}

func runC16SplitCR(c *Ctx) {
	p := c.P
	fn := p.Func("scanYAMLLines")
	if fn == nil {
		c.anchorMissing("scanYAMLLines")
		return
	}
	atEOF := fn.Params[1]
	n := 0
	okAll := true
	var badPos token.Pos
	for _, b := range fn.Blocks {
		ret, ok := b.Instrs[len(b.Instrs)-1].(*ssa.Return)
		if !ok {
			continue
		}
		adv := linOf(ret.Results[0], 0)
		// advance == position of the break + 1: the break is taken to be one byte long
		if adv["1"] != 1 || len(adv) != 2 {
			continue
		}
		n++
		// allowed when the next byte exists (i+1 < len(data)) or the input is complete (atEOF)
		allowed := false
		for ifi, outcome := range controllingConds(b) {
			if ifi.Cond == ssa.Value(atEOF) && outcome {
				allowed = true
			}
			if bo, ok := ifi.Cond.(*ssa.BinOp); ok && bo.Op == token.LSS && outcome {
				if isLenOf(bo.Y, fn.Params[0]) {
					allowed = true
				}
			}
		}
		if !allowed {
			okAll = false
			badPos = ret.Pos()
		}
	}
	construct := "scanYAMLLines|carriage return at the end of the buffer"
	switch {
	case n == 0:
		c.anchorMissing("one-byte line break in scanYAMLLines")
	case okAll:
		c.ok(construct, fn.Pos(), "a one-byte break is only taken when the next byte is known or the input is complete")
	default:
		c.bad(construct, badPos, "a CR that is the last byte of a buffer is taken for a line break although the LF of a CR LF pair may follow in the next buffer: in a CRLF file with a CR at offset 4095 every later snippet shows the wrong line")
	}
}

func runC18AllRoots(c *Ctx) {
	p := c.P
	fn := p.Func("detectFirstCycle")
	if fn == nil {
		c.anchorMissing("detectFirstCycle")
		return
	}
	construct := "detectFirstCycle|no-cycle answer"
	bad := ""
	n := 0
	for _, b := range fn.Blocks {
		ret, ok := b.Instrs[len(b.Instrs)-1].(*ssa.Return)
		if !ok || len(ret.Results) != 1 || !isNilConst(ret.Results[0]) {
			continue
		}
		n++
		if !onlyLoopExits(fn, b) {
			bad = p.Pos(ret.Pos())
		}
	}
	switch {
	case n == 0:
		c.anchorMissing("return nil in detectFirstCycle")
	case bad == "":
		c.ok(construct, fn.Pos(), "nil is returned only after the loop over all jobs")
	default:
		c.bad(construct, fn.Pos(), "nil is returned at "+bad+" under a condition other than the end of the loop over the jobs: some graphs with a cycle (a single self-dependent job, for instance) get no diagnostic")
	}
	// the loop over the jobs is left before its end only with a cycle
	if leaks := searchLoopLeaks(p, fn); len(leaks) == 0 {
		c.ok("detectFirstCycle|every job tried as a root", fn.Pos(), "the loops are left before their end only by returning a cycle")
	} else {
		c.bad("detectFirstCycle|every job tried as a root", fn.Pos(), strings.Join(leaks, "; ")+": the jobs behind it are never searched, a cycle among them is missed")
	}
}

func runC19DupAlways(c *Ctx) {
	p := c.P
	fn := p.Method("RuleMatrix", "VisitJobPre")
	if fn == nil {
		c.anchorMissing("(*RuleMatrix).VisitJobPre")
		return
	}
	calls := findCalls(fn, "(*RuleMatrix).checkDuplicateInRow")
	if len(calls) == 0 {
		c.anchorMissing("checkDuplicateInRow in (*RuleMatrix).VisitJobPre")
		return
	}
	construct := "(*RuleMatrix).VisitJobPre|duplicate check of literal rows"
	bad := ""
	// the loop over the rows: a test of the include/exclude sections must not lead to a return that bypasses its header
	stop := map[*ssa.BasicBlock]bool{}
	for _, h := range loopHeaders(fn) {
		if naturalLoop(h)[calls[0].Block()] {
			stop[h] = true
		}
	}
	if len(stop) == 0 {
		stop[calls[0].Block()] = true
	}
	for _, b := range fn.Blocks {
		ifi, ok := b.Instrs[len(b.Instrs)-1].(*ssa.If)
		if !ok {
			continue
		}
		what := ""
		if mentionsInvoke(ifi.Cond, "ContainsExpression", 0) {
			what = "a test of ContainsExpression"
		}
		if v, _, ok := nilTest(ifi); ok {
			if f, _ := fieldLoad(v); f == "Matrix.Include" || f == "Matrix.Exclude" {
				what = "a test of " + f
			}
		}
		if what == "" {
			continue
		}
		for _, sc := range b.Succs {
			if stop[sc] {
				continue
			}
			for blk := range reachableBlocks([]*ssa.BasicBlock{sc}, stop) {
				if _, isRet := blk.Instrs[len(blk.Instrs)-1].(*ssa.Return); isRet {
					bad = what
				}
			}
		}
	}
	if bad == "" {
		c.ok(construct, calls[0].Pos(), "reached whenever the matrix itself is not an expression")
	} else {
		c.bad(construct, calls[0].Pos(), "the duplicate check is conditional on "+bad+": duplicates in literal rows go unreported when include is dynamic")
	}
	// every value of a row is compared with the earlier ones: the loop over the values is not left before its end
	if dup := staticCallee(calls[0].Common()); dup != nil && len(dup.Blocks) > 0 {
		if exits := outermostLoopExits(p, dup); len(exits) == 0 {
			c.ok(FuncName(dup)+"|every value of the row examined", dup.Pos(), "the loop over the values of the row runs to its end")
		} else {
			c.bad(FuncName(dup)+"|every value of the row examined", dup.Pos(), strings.Join(exits, "; ")+": the values behind it are never compared, a second duplicate in the same row goes unreported")
		}
		c19DuplicateVerdict(c, dup)
	}
}

func runC20Reset(c *Ctx) {
	p := c.P
	for _, typ := range []string{"RuleShellcheck", "RulePyflakes"} {
		post := p.Method(typ, "VisitJobPost")
		if post == nil {
			c.anchorMissing("(*" + typ + ").VisitJobPost")
			continue
		}
		pre, step := p.Method(typ, "VisitJobPre"), p.Method(typ, "VisitStep")
		// the per-job shell state: the fields of the rule that are stored to while a job is entered or its steps are
		// visited, and that are read on the way from VisitStep to the tool
		type fieldUse struct {
			idx    int
			stores []*ssa.Store
		}
		uses := func(roots ...*ssa.Function) (written map[string]*fieldUse, read map[string]bool) {
			written, read = map[string]*fieldUse{}, map[string]bool{}
			for _, f := range sameReceiverChain(p, roots...) {
				recv := f.Params[0]
				eachInstr(f, func(_ *ssa.BasicBlock, _ int, in ssa.Instruction) {
					switch x := in.(type) {
					case *ssa.Store:
						if fa, ok := x.Addr.(*ssa.FieldAddr); ok && fa.X == recv {
							n := fieldAddrName(fa)
							if written[n] == nil {
								written[n] = &fieldUse{idx: fa.Field}
							}
							written[n].stores = append(written[n].stores, x)
						}
					case *ssa.UnOp:
						if fa, ok := x.X.(*ssa.FieldAddr); ok && x.Op == token.MUL && fa.X == recv {
							read[fieldAddrName(fa)] = true
						}
					}
				})
			}
			return
		}
		var roots []*ssa.Function
		for _, f := range []*ssa.Function{pre, step} {
			if f != nil {
				roots = append(roots, f)
			}
		}
		set, _ := uses(roots...)
		var read map[string]bool
		if step != nil {
			_, read = uses(step)
		}
		inPost, _ := uses(post)
		fields := map[string]int{}
		for n, u := range set {
			if read[n] {
				fields[n] = u.idx
			}
		}
		for n, u := range inPost {
			fields[n] = u.idx // whatever VisitJobPost stores to is judged too
		}
		if len(fields) == 0 {
			c.anchorMissing("per-job shell fields of " + typ)
			continue
		}
		for _, n := range sortedKeys(fields) {
			idx := fields[n]
			construct := "(*" + typ + ").VisitJobPost|reset of " + n
			// the values VisitJobPost gives the field
			nonZero := false
			if u := inPost[n]; u != nil {
				for _, st := range u.stores {
					if !isZeroValue(st.Val) {
						nonZero = true
						c.bad(construct, st.Pos(), "the per-job shell is reset to "+symName(st.Val)+" instead of the unspecified value: the workflow default no longer applies to the jobs that follow, so their scripts are not passed to the tool")
						break
					}
				}
			}
			if nonZero {
				continue
			}
			pos := post.Pos()
			if u := inPost[n]; u != nil {
				pos = u.stores[0].Pos()
			}
			switch {
			case storesFieldOnEveryPath(post, idx, 0):
				c.ok(construct, pos, "reset to the zero value (unspecified) on every path of VisitJobPost")
			case pre != nil && set[n] != nil && assignsFieldFirst(pre, idx):
				c.ok(construct, pos, "assigned by VisitJobPre on every path before any read")
			case inPost[n] == nil:
				c.bad(construct, pos, "set while a job is visited and read when the tool is run, but not reset by VisitJobPost: the shell of one job is applied to the scripts of the jobs that follow")
			default:
				c.bad(construct, pos, "VisitJobPost can return without resetting the field: the shell of one job is applied to the scripts of the jobs that follow")
			}
		}
	}
}

// sameReceiverChain: the functions and the functions they call, transitively, on their own receiver.
func sameReceiverChain(p *Prog, roots ...*ssa.Function) []*ssa.Function {
	seen := map[*ssa.Function]bool{}
	var out []*ssa.Function
	var add func(f *ssa.Function)
	add = func(f *ssa.Function) {
		if f == nil || seen[f] || f.Blocks == nil || len(f.Params) == 0 {
			return
		}
		seen[f] = true
		out = append(out, f)
		eachInstr(f, func(_ *ssa.BasicBlock, _ int, in ssa.Instruction) {
			if call, ok := in.(ssa.CallInstruction); ok {
				g := staticCallee(call.Common())
				if g != nil && g.Signature.Recv() != nil && len(call.Common().Args) > 0 && call.Common().Args[0] == ssa.Value(f.Params[0]) && inPkg(g, p.SPkg) {
					add(g)
				}
			}
		})
	}
	for _, f := range roots {
		add(f)
	}
	return out
}

// storesFieldOnEveryPath: no path from the entry of f to a return avoids every store to field idx of the receiver
// (a call on the receiver of a function that itself stores on every path counts as a store).
func storesFieldOnEveryPath(f *ssa.Function, idx int, depth int) bool {
	if depth > 3 || f.Blocks == nil || len(f.Params) == 0 {
		return false
	}
	recv := ssa.Value(f.Params[0])
	stores := map[*ssa.BasicBlock]bool{}
	eachInstr(f, func(b *ssa.BasicBlock, _ int, in ssa.Instruction) {
		switch x := in.(type) {
		case *ssa.Store:
			if fa, ok := x.Addr.(*ssa.FieldAddr); ok && fa.X == recv && fa.Field == idx {
				stores[b] = true
			}
		case *ssa.Call:
			g := staticCallee(&x.Call)
			if g != nil && inModule(g) && g.Signature.Recv() != nil && len(x.Call.Args) > 0 && x.Call.Args[0] == recv && storesFieldOnEveryPath(g, idx, depth+1) {
				stores[b] = true
			}
		}
	})
	if stores[f.Blocks[0]] {
		return true
	}
	for b := range reachableBlocks([]*ssa.BasicBlock{f.Blocks[0]}, stores) {
		if _, isRet := b.Instrs[len(b.Instrs)-1].(*ssa.Return); isRet {
			return false
		}
	}
	_, isRet := f.Blocks[0].Instrs[len(f.Blocks[0].Instrs)-1].(*ssa.Return)
	return !isRet
}

// ---- rules after the third hunt round ----

func init() {
	register(&Rule{ID: "C06.OPENMERGE", Min: 1, Doc: "merging with an open object does not keep the specific type of a property the open object may also have", Run: runC06OpenMerge})
	register(&Rule{ID: "C06.OPENINCLUDE", Min: 1, Doc: "an include element that is an open object widens the matrix value types like an element of unknown type", Run: runC06OpenInclude})
	register(&Rule{ID: "C05.JOBSCALL", Min: 1, Doc: "the outputs of a job that calls a reusable workflow are typed alike in the needs and the jobs context", Run: runC05JobsCall})
	register(&Rule{ID: "C08.JSONKEYS", Min: 1, Doc: "JSON keys that collide after lower-casing are not folded in an order that depends on their spelling", Run: runC08JSONKeys})
	register(&Rule{ID: "C04.IFEOF", Min: 1, Doc: "an error at the end marker appended to a bare if: condition is reported inside the condition", Run: runC04IfEOF})
	register(&Rule{ID: "C07.KEYPOS", Min: 1, Doc: "undefined with: keys kept outside Inputs are reported at the key", Run: runC07KeyPos})
}

func runC06OpenMerge(c *Ctx) {
	p := c.P
	fn := p.Method("ObjectType", "Merge")
	if fn == nil {
		c.anchorMissing("(*ObjectType).Merge")
		return
	}
	// stores into the result's property map of a value taken unmerged from one operand's Props
	unmerged := 0
	var pos token.Pos
	eachInstr(fn, func(_ *ssa.BasicBlock, _ int, in ssa.Instruction) {
		mu, ok := in.(*ssa.MapUpdate)
		if !ok {
			return
		}
		if _, isMake := mu.Map.(*ssa.MakeMap); !isMake {
			return
		}
		v := mu.Value
		// a range value or a look-up result of an operand's Props, without a Merge in between
		switch x := v.(type) {
		case *ssa.Extract:
			if _, isNext := x.Tuple.(*ssa.Next); isNext {
				unmerged++
				pos = mu.Pos()
			}
		case *ssa.Lookup:
			unmerged++
			pos = mu.Pos()
		}
	})
	usesMappedOfOther := false
	eachInstr(fn, func(_ *ssa.BasicBlock, _ int, in ssa.Instruction) {
		call, ok := in.(*ssa.Call)
		if !ok || !call.Call.IsInvoke() || call.Call.Method.Name() != "Merge" {
			return
		}
		// l.Merge(other.Mapped) / r.Merge(ty.Mapped) where the receiver is a property
		if f, _ := fieldLoad(call.Call.Args[0]); f == "ObjectType.Mapped" {
			switch rv := call.Call.Value.(type) {
			case *ssa.Lookup:
				usesMappedOfOther = true
			case *ssa.Extract:
				if _, isNext := rv.Tuple.(*ssa.Next); isNext {
					usesMappedOfOther = true
				}
				if _, isLk := rv.Tuple.(*ssa.Lookup); isLk {
					usesMappedOfOther = true
				}
			}
		}
	})
	construct := "(*ObjectType).Merge|property known on one side only"
	if unmerged > 0 && !usesMappedOfOther {
		c.bad(construct, pos, "a property that only one operand declares keeps its specific type although the other operand may be open (any property of unknown type): `(fromJSON('{\"a\":1}') || matrix.cfg).a.b` is accepted when matrix.cfg is closed or any, and rejected when it is an open object")
	} else {
		c.ok(construct, fn.Pos(), "one-sided properties are merged with the other operand's mapped type")
	}
}

func runC06OpenInclude(c *Ctx) {
	p := c.P
	fn := p.Method("RuleExpression", "checkMatrix")
	if fn == nil {
		c.anchorMissing("(*RuleExpression).checkMatrix")
		return
	}
	construct := "(*RuleExpression).checkMatrix|include element that is an open object"
	if len(findCalls(fn, "(*ObjectType).IsStrict"))+len(findCalls(fn, "(*ObjectType).IsLoose")) > 0 {
		c.ok(construct, fn.Pos(), "the openness of the element's type is consulted")
	} else {
		c.bad(construct, fn.Pos(), "an include element such as ${{ github.event }} (an open object) is merged like a closed one: the row types stay precise, so `matrix.os.name` is rejected although the element may redefine os")
	}
}

func runC05JobsCall(c *Ctx) {
	p := c.P
	jobs := p.Method("RuleExpression", "checkWorkflowCallOutputs")
	needs := p.Method("RuleExpression", "populateDependantNeedsTypes")
	if needs == nil {
		needs = p.Method("RuleExpression", "calcNeedsType") // the helper merged into its only caller
	}
	if jobs == nil || needs == nil {
		c.anchorMissing("(*RuleExpression).checkWorkflowCallOutputs / populateDependantNeedsTypes")
		return
	}
	n := len(findCalls(needs, "(*RuleExpression).getWorkflowCallOutputsType"))
	j := len(findCalls(jobs, "(*RuleExpression).getWorkflowCallOutputsType"))
	construct := "(*RuleExpression).checkWorkflowCallOutputs|outputs of a job that calls a reusable workflow"
	switch {
	case n == 0:
		c.anchorMissing("getWorkflowCallOutputsType in populateDependantNeedsTypes")
	case j > 0:
		c.ok(construct, jobs.Pos(), "typed by getWorkflowCallOutputsType, as in the needs context")
	default:
		c.bad(construct, jobs.Pos(), "the needs context types them from the called workflow's declared outputs, the jobs context as an open object: `jobs.call.outputs.nope` is accepted where `needs.call.outputs.nope` is reported")
	}
}

func runC08JSONKeys(c *Ctx) {
	p := c.P
	fn := p.Func("typeOfJSONValue")
	if fn == nil {
		c.anchorMissing("typeOfJSONValue")
		return
	}
	construct := "typeOfJSONValue|keys that collide after lower-casing"
	bad := false
	n := 0
	eachInstrOf(jsonTypingFuncs(p, fn), func(b *ssa.BasicBlock, _ int, in ssa.Instruction) {
		call, ok := in.(*ssa.Call)
		if !ok || !call.Call.IsInvoke() || call.Call.Method.Name() != "Merge" {
			return
		}
		// a Merge that is only executed when the lower-cased key is already present
		for ifi, outcome := range controllingConds(b) {
			if ex, ok := ifi.Cond.(*ssa.Extract); ok && ex.Index == 1 && outcome {
				if lk, ok := ex.Tuple.(*ssa.Lookup); ok && lk.CommaOk {
					if _, isMake := lk.X.(*ssa.MakeMap); isMake {
						bad = true
					}
				}
			}
		}
	})
	eachInstrOf(jsonTypingFuncs(p, fn), func(_ *ssa.BasicBlock, _ int, in ssa.Instruction) {
		if lk, ok := in.(*ssa.Lookup); ok && lk.CommaOk {
			if _, isMake := lk.X.(*ssa.MakeMap); isMake {
				n++
			}
		}
	})
	switch {
	case n == 0:
		c.anchorMissing("collision test in typeOfJSONValue")
	case bad:
		c.bad(construct, fn.Pos(), "colliding keys are folded with Merge in the sort order of their original spellings, and Merge is not associative: `{\"AB\":1,\"aB\":true,\"ab\":\"s\"}.ab` and the same literal with the last key spelled `Ab` get different types")
	default:
		c.ok(construct, fn.Pos(), "a collision of different types gives any, whatever the spellings")
	}
	if n == 0 {
		return
	}
	// the test that decides what a collision gives treats both spellings alike: it is not the one-directional relation
	// Assignable (string accepts number but not the reverse, so the spelling that sorts first would decide the type)
	construct = "typeOfJSONValue|test applied to keys that collide after lower-casing"
	var asym *ssa.Call
	eachInstrOf(jsonTypingFuncs(p, fn), func(b *ssa.BasicBlock, _ int, in ssa.Instruction) {
		call, ok := in.(*ssa.Call)
		if !ok {
			return
		}
		if call.Call.IsInvoke() {
			if call.Call.Method.Name() != "Assignable" {
				return
			}
		} else if f := staticCallee(&call.Call); f == nil || FuncName(f) != "EqualTypes" {
			// EqualTypes is assignability in both directions: `any` equals everything, so with three spellings the one
			// that sorts last decides whether the property stays `any`
			return
		}
		underCollision := false
		for ifi, outcome := range controllingConds(b) {
			if ex, ok := ifi.Cond.(*ssa.Extract); ok && ex.Index == 1 && outcome {
				if lk, ok := ex.Tuple.(*ssa.Lookup); ok && lk.CommaOk {
					if _, isMake := lk.X.(*ssa.MakeMap); isMake {
						underCollision = true
					}
				}
			}
		}
		if underCollision && asym == nil {
			asym = call
		}
	})
	if asym != nil {
		c.bad(construct, asym.Pos(), "colliding keys are compared with Assignable / EqualTypes, relations that `any` satisfies or that hold in one direction only: which of `{\"Version\":\"1\",\"version\":3}` and `{\"version\":\"1\",\"Version\":3}` keeps a type depends on the spellings")
	} else {
		c.ok(construct, fn.Pos(), "no one-directional type relation decides what colliding keys give")
	}
}

func runC04IfEOF(c *Ctx) {
	p := c.P
	fn := p.Method("RuleExpression", "checkIfCondition")
	if fn == nil {
		c.anchorMissing("(*RuleExpression).checkIfCondition")
		return
	}
	// ExprError.Offset compared with (or reduced by) the length of the condition
	clamped := false
	eachInstr(fn, func(_ *ssa.BasicBlock, _ int, in ssa.Instruction) {
		bo, ok := in.(*ssa.BinOp)
		if !ok {
			return
		}
		f, _ := fieldLoad(bo.X)
		if f != "ExprError.Offset" {
			return
		}
		if call, ok := bo.Y.(*ssa.Call); ok {
			if bi, ok := call.Call.Value.(*ssa.Builtin); ok && bi.Name() == "len" {
				if g, _ := fieldLoad(call.Call.Args[0]); g == "String.Value" {
					clamped = true
				}
			}
		}
	})
	construct := "(*RuleExpression).checkIfCondition|error at the appended end marker"
	if clamped {
		c.ok(construct, fn.Pos(), "an error offset beyond the condition is moved back to its end")
	} else {
		c.bad(construct, fn.Pos(), "the condition is lexed with }} appended; an unterminated string literal swallows it, and the error is reported two columns behind the end of the line")
	}
}

func runC07KeyPos(c *Ctx) {
	p := c.P
	fn := p.Method("RuleAction", "checkAction")
	if fn == nil {
		c.anchorMissing("(*RuleAction).checkAction")
		return
	}
	read := map[string]bool{}
	eachInstr(fn, func(_ *ssa.BasicBlock, _ int, in ssa.Instruction) {
		if fa, ok := in.(*ssa.FieldAddr); ok {
			read[fieldAddrName(fa)] = true
		}
	})
	construct := "(*RuleAction).checkAction|position of an undefined args/entrypoint input"
	if read["ExecAction.entrypointKeyPos"] && read["ExecAction.argsKeyPos"] {
		c.ok(construct, fn.Pos(), "reported at the positions of the keys recorded by the parser")
	} else {
		c.bad(construct, fn.Pos(), "the keys' positions are not available: `input \"args\" is not defined` is reported at the value, so it moves when only the value moves, unlike every other undefined input")
	}
}

func init() {
	register(&Rule{ID: "C17.CTRL", Min: 1, Doc: "ASCII control characters are reported in ref filters", Run: runC17Ctrl})
}

func runC17Ctrl(c *Ctx) {
	p := c.P
	fn := p.Method("globValidator", "validateNext")
	if fn == nil {
		c.anchorMissing("(*globValidator).validateNext")
		return
	}
	lo, del := false, false
	eachInstr(fn, func(_ *ssa.BasicBlock, _ int, in ssa.Instruction) {
		bo, ok := in.(*ssa.BinOp)
		if !ok {
			return
		}
		if k, ok := constInt(bo.Y); ok {
			if k == 0x20 && (bo.Op == token.LSS || bo.Op == token.GEQ) {
				lo = true
			}
			if k == 0x7f && (bo.Op == token.EQL || bo.Op == token.NEQ) {
				del = true
			}
		}
	})
	construct := "(*globValidator).validateNext|control characters in a ref filter"
	if lo && del {
		c.ok(construct, fn.Pos(), "characters below U+0020 and DEL are tested")
	} else {
		c.bad(construct, fn.Pos(), "only space, tab, ~, ^ and : are tested: `branches: [\"a\\x7Fb\"]`, which git-check-ref-format forbids in the same rule as those, is accepted")
	}
}

func init() {
	register(&Rule{ID: "C11.STARIDX", Min: 1, Doc: "the string index ['*'] is not taken for the object filter", Run: runC11StarIdx})
}

func runC11StarIdx(c *Ctx) {
	p := c.P
	fn := p.Method("UntrustedInputChecker", "OnVisitNodeLeave")
	if fn == nil {
		c.anchorMissing("(*UntrustedInputChecker).OnVisitNodeLeave")
		return
	}
	guarded := false
	for _, f := range p.withHelpers(fn, 1) {
		if f != fn && (f.Signature.Recv() == nil || pointeeName(f.Signature.Recv().Type()) != "UntrustedInputChecker") {
			continue // only helpers of the checker itself
		}
		eachInstr(f, func(_ *ssa.BasicBlock, _ int, in ssa.Instruction) {
			bo, ok := in.(*ssa.BinOp)
			if !ok || (bo.Op != token.EQL && bo.Op != token.NEQ) {
				return
			}
			if s, ok := constString(bo.Y); ok && s == "*" {
				if f, _ := fieldLoad(bo.X); f == "StringNode.Value" {
					guarded = true
				}
			}
		})
	}
	construct := "(*UntrustedInputChecker).OnVisitNodeLeave|string index '*'"
	if guarded {
		c.ok(construct, fn.Pos(), "a string index equal to * is not looked up in the tree, whose array elements are stored under that name")
	} else {
		c.bad(construct, fn.Pos(), "the search tree stores the elements of an array under the child name \"*\" and a string index is looked up by name: `github.event.commits['*'].message`, which reads a property literally named *, is reported as untrusted input")
	}
}

// ---- C08.SPELLCMP ----

// The entries of a name-keyed map carry the spelling the user wrote in a field (ActionMetadataInput.Name, Input.Name,
// Job.ID, ...); the key of the map is its lower-case image. Comparing the spelling with a constant name only succeeds for
// one letter case of the definition. The spelling may reach the comparison through parameters.
func init() {
	register(&Rule{ID: "C08.SPELLCMP", Min: 0, Doc: "the spelling kept beside a case-insensitive key is never compared with a constant name", Run: runC08SpellCmp})
}

func spellingFields(p *Prog) map[string]bool {
	out := map[string]bool{}
	add := func(t types.Type) {
		if pt, ok := t.(*types.Pointer); ok {
			t = pt.Elem()
		}
		nm, ok := t.(*types.Named)
		if !ok {
			return
		}
		st, ok := nm.Underlying().(*types.Struct)
		if !ok {
			return
		}
		for i := 0; i < st.NumFields(); i++ {
			f := st.Field(i)
			if f.Name() != "Name" && f.Name() != "ID" {
				continue
			}
			ts := typeStr(f.Type())
			if ts == "string" || ts == "*String" {
				out[nm.Obj().Name()+"."+f.Name()] = true
			}
		}
	}
	for _, fn := range p.Funcs {
		eachInstr(fn, func(_ *ssa.BasicBlock, _ int, in ssa.Instruction) {
			var mt types.Type
			switch x := in.(type) {
			case *ssa.MapUpdate:
				mt = x.Map.Type()
			case *ssa.Lookup:
				mt = x.X.Type()
			default:
				return
			}
			if _, ok := nameKeyedMapTypes[typeStr(mt)]; !ok {
				return
			}
			if m, ok := mt.Underlying().(*types.Map); ok {
				add(m.Elem())
			}
		})
	}
	return out
}

func runC08SpellCmp(c *Ctx) {
	p := c.P
	fields := spellingFields(p)
	for f := range loweredKeyFields(p) {
		fields[f] = true // string fields whose lower-casing is the key of a name-keyed map (FuncCallNode.Callee, ...)
	}
	if len(fields) < 8 {
		c.anchorMissing(fmt.Sprintf("spelling fields of name-keyed map entries (found %d)", len(fields)))
		return
	}
	// isSpelling: v is a load of a spelling field, the Value of a *String loaded from one, or a parameter that receives one
	var isSpelling func(v ssa.Value, depth int) (string, bool)
	isSpelling = func(v ssa.Value, depth int) (string, bool) {
		if depth > 3 {
			return "", false
		}
		if f, base := fieldLoad(v); f != "" {
			if fields[f] && typeStr(v.Type()) == "string" {
				return f, true
			}
			if f == "String.Value" {
				if f2, _ := fieldLoad(base); fields[f2] {
					return f2 + ".Value", true
				}
			}
			return "", false
		}
		if par, ok := v.(*ssa.Parameter); ok {
			fn := par.Parent()
			idx := -1
			for i, q := range fn.Params {
				if q == par {
					idx = i
				}
			}
			if idx < 0 {
				return "", false
			}
			for _, e := range p.callersOf(fn) {
				if e.Site == nil {
					continue
				}
				args := e.Site.Common().Args
				if e.Site.Common().IsInvoke() {
					continue
				}
				if idx < len(args) {
					if s, ok := isSpelling(args[idx], depth+1); ok {
						return s + " passed by " + FuncName(e.Caller.Func), true
					}
				}
			}
		}
		return "", false
	}
	occ := map[string]int{}
	compared := 0
	for _, fn := range p.Funcs {
		eachInstr(fn, func(_ *ssa.BasicBlock, _ int, in ssa.Instruction) {
			bo, ok := in.(*ssa.BinOp)
			if !ok || (bo.Op != token.EQL && bo.Op != token.NEQ) {
				return
			}
			for _, pr := range [][2]ssa.Value{{bo.X, bo.Y}, {bo.Y, bo.X}} {
				s, ok := constString(pr[1])
				if !ok || strings.ToLower(s) == strings.ToUpper(s) {
					continue // no letter: the comparison does not depend on letter case
				}
				src, ok := isSpelling(pr[0], 0)
				if !ok {
					continue
				}
				k := FuncName(fn) + "|" + src + " == " + strconv.Quote(s)
				occ[k]++
				compared++
				c.bad(fmt.Sprintf("%s#%d", k, occ[k]), bo.Pos(), "the spelling of a case-insensitive name ("+src+") is compared with the constant "+strconv.Quote(s)+": the comparison holds for one letter case of the name only, the map beside it is keyed by the lower-case image")
				return
			}
		})
	}
	if compared > 0 {
		return // the comparisons found are reported one by one; the statement below does not hold
	}
	c.ok("spelling fields never compared with a constant name", token.NoPos, fmt.Sprintf("%d spelling fields of name-keyed map entries; none reaches an == / != / switch against a constant containing a letter", len(fields)))
}

// ---- C13.KEEPCALL ----

// parseJob collects uses/with/secrets into a WorkflowCall and decides at the end whether the job is a call. The keys
// that are foreign to a call job are reported on their own; if they also decided whether the call is attached to the
// job, one foreign key would switch off every check of the job's `uses`, `with` and `secrets` (F97).
func init() {
	register(&Rule{ID: "C13.KEEPCALL", Min: 1, Doc: "the reusable-workflow call of a job is kept whenever `uses` is present, whatever other keys the job has", Run: runC13KeepCall})
}

func runC13KeepCall(c *Ctx) {
	p := c.P
	fn := p.Method("parser", "parseJob")
	if fn == nil {
		c.anchorMissing("(*parser).parseJob")
		return
	}
	n := 0
	eachInstr(fn, func(b *ssa.BasicBlock, _ int, in ssa.Instruction) {
		st, ok := in.(*ssa.Store)
		if !ok {
			return
		}
		fa, ok := st.Addr.(*ssa.FieldAddr)
		if !ok || fieldAddrName(fa) != "Job.WorkflowCall" {
			return
		}
		if cst, ok := st.Val.(*ssa.Const); ok && cst.IsNil() {
			return
		}
		n++
		construct := "(*parser).parseJob|Job.WorkflowCall attached"
		var other []string
		heads := map[*ssa.BasicBlock]bool{}
		for _, h := range loopHeaders(fn) {
			heads[h] = true
		}
		for ifi := range controllingConds(b) {
			if condIsNilTestOfField(ifi.Cond, "WorkflowCall.Uses") {
				continue
			}
			if h := ifi.Block(); heads[h] && !naturalLoop(h)[b] {
				continue // the exit of a loop that precedes the store
			}
			other = append(other, fmt.Sprintf("%s (line %d)", describeCond(ifi.Cond), p.Fset.Position(ifi.Cond.Pos()).Line))
		}
		if len(other) == 0 {
			c.ok(construct, st.Pos(), "attached under no other condition than `uses` being present")
		} else {
			sort.Strings(other)
			c.bad(construct, st.Pos(), "the call is only attached to the job when "+strings.Join(other, " and ")+": a key that is foreign to a call job (timeout-minutes, runs-on, ...) removes all checks of `uses`, `with` and `secrets` of that job")
		}
	})
	if n == 0 {
		c.bad("(*parser).parseJob|Job.WorkflowCall attached", fn.Pos(), "parseJob never stores the collected WorkflowCall into the job")
	}
}

func condIsNilTestOfField(v ssa.Value, field string) bool {
	bo, ok := v.(*ssa.BinOp)
	if !ok || (bo.Op != token.EQL && bo.Op != token.NEQ) {
		return false
	}
	for _, pr := range [][2]ssa.Value{{bo.X, bo.Y}, {bo.Y, bo.X}} {
		if cst, ok := pr[1].(*ssa.Const); ok && cst.IsNil() {
			if f, _ := fieldLoad(pr[0]); f == field {
				return true
			}
		}
	}
	return false
}

func describeCond(v ssa.Value) string {
	if bo, ok := v.(*ssa.BinOp); ok {
		return describeKey(bo.X) + " " + bo.Op.String() + " " + describeKey(bo.Y)
	}
	return describeKey(v)
}

// ---- C16.VALIDUTF8 ----

// The texts of library errors are cut by the libraries at byte offsets (yaml.v3 shortens a scalar to 7 bytes in its type
// errors), so they can end in the middle of a character. encoding/json replaces such bytes with U+FFFD: the message that
// {{json .}} prints is then not the message the linter returned (F99). The function that makes library texts one line is
// the place every such text passes through.
func init() {
	register(&Rule{ID: "C16.VALIDUTF8", Min: 1, Doc: "the sanitiser of library error texts also yields valid UTF-8, which is what the JSON encoder can round-trip", Run: runC16ValidUTF8})
}

func runC16ValidUTF8(c *Ctx) {
	p := c.P
	for _, fn := range p.Funcs {
		var repl *ssa.Call
		eachInstr(fn, func(_ *ssa.BasicBlock, _ int, in ssa.Instruction) {
			if call, ok := in.(*ssa.Call); ok && calleeFullName(&call.Call) == "(*strings.Replacer).Replace" && replacerCoversLineBreaks(p, call.Call.Args[0]) {
				repl = call
			}
		})
		if repl == nil {
			continue
		}
		construct := FuncName(fn) + "|result is valid UTF-8"
		valid := func(v ssa.Value) bool {
			call, ok := v.(*ssa.Call)
			if !ok {
				return false
			}
			switch calleeFullName(&call.Call) {
			case "strings.ToValidUTF8":
				return true
			case "(*strings.Replacer).Replace":
				// replacing line breaks keeps validity when the input was valid
				if in, ok := call.Call.Args[1].(*ssa.Call); ok && calleeFullName(&in.Call) == "strings.ToValidUTF8" {
					return true
				}
			}
			return false
		}
		all, n := true, 0
		for _, b := range fn.Blocks {
			if ret, ok := b.Instrs[len(b.Instrs)-1].(*ssa.Return); ok && len(ret.Results) > 0 {
				n++
				if !valid(ret.Results[0]) {
					all = false
				}
			}
		}
		if n > 0 && all {
			c.ok(construct, fn.Pos(), "every result passes through strings.ToValidUTF8")
		} else {
			c.bad(construct, repl.Pos(), "the text of a library error is made one line but may still end in half a character (yaml.v3 cuts scalars at 7 bytes): the JSON encoder turns those bytes into U+FFFD, so `-format '{{json .}}'` does not give back the message the linter returned")
		}
	}
}

// ---- C14.LITTYPE ----

// The type of a literal `with:` value of a reusable workflow call is derived from its text. YAML decides it: a quoted
// scalar is a string; nan, inf, infinity and hexadecimal floats - which strconv.ParseFloat accepts - are strings (F98).
func init() {
	register(&Rule{ID: "C14.LITTYPE", Min: 2, Doc: "the literal type of a `with:` value follows YAML: number only for YAML numbers, null/bool never for a quoted scalar", Run: runC14LitType})
}

func runC14LitType(c *Ctx) {
	p := c.P
	fn := p.Method("RuleExpression", "checkWorkflowCall")
	if fn == nil {
		c.anchorMissing("(*RuleExpression).checkWorkflowCall")
		return
	}
	// (1) no strconv.ParseFloat directly on scalar text in the functions that type literals
	typers := []*ssa.Function{fn}
	if f := p.Method("RuleExpression", "checkRawYAMLString"); f != nil {
		typers = append(typers, f)
	}
	for _, f := range typers {
		construct := FuncName(f) + "|number verdict of a literal"
		bare := token.NoPos
		eachInstr(f, func(_ *ssa.BasicBlock, _ int, in ssa.Instruction) {
			if call, ok := in.(*ssa.Call); ok && calleeFullName(&call.Call) == "strconv.ParseFloat" {
				bare = call.Pos()
			}
		})
		if bare != token.NoPos {
			c.bad(construct, bare, "the text of a scalar is a number whenever strconv.ParseFloat accepts it: nan, inf, Infinity and 0x1p4 are YAML strings, so `with: {num: nan}` is not reported for a number input (and a matrix value nan is typed number)")
			continue
		}
		// the helper that decides: ParseFloat there must come after a scan of the characters of the same string
		helperOK, helper := false, ""
		eachInstr(f, func(_ *ssa.BasicBlock, _ int, in ssa.Instruction) {
			call, ok := in.(*ssa.Call)
			if !ok {
				return
			}
			g := staticCallee(&call.Call)
			if g == nil || !inModule(g) || g.Blocks == nil {
				return
			}
			var pf *ssa.Call
			eachInstr(g, func(_ *ssa.BasicBlock, _ int, in2 ssa.Instruction) {
				if c2, ok := in2.(*ssa.Call); ok && calleeFullName(&c2.Call) == "strconv.ParseFloat" {
					pf = c2
				}
			})
			if pf == nil {
				return
			}
			helper = FuncName(g)
			// a filter before the call: a range over the string (rune loop) or a regexp match dominating the call
			eachInstr(g, func(b *ssa.BasicBlock, _ int, in2 ssa.Instruction) {
				switch x := in2.(type) {
				case *ssa.Range:
					if bt, ok := x.X.Type().Underlying().(*types.Basic); ok && bt.Info()&types.IsString != 0 && b.Dominates(pf.Block()) {
						helperOK = true
					}
				case *ssa.Call:
					if n := calleeFullName(&x.Call); (n == "(*regexp.Regexp).MatchString" || n == "(*regexp.Regexp).Match") && x.Block().Dominates(pf.Block()) {
						helperOK = true
					}
				}
			})
		})
		if helper == "" {
			c.ok(construct, f.Pos(), "no strconv.ParseFloat decides the type of a literal here")
		} else if helperOK {
			c.ok(construct, f.Pos(), helper+" filters the characters of the text before strconv.ParseFloat is asked")
		} else {
			c.bad(construct, f.Pos(), helper+" hands the text to strconv.ParseFloat without a filter: nan, inf, Infinity and hexadecimal floats are YAML strings")
		}
	}
	// (2) the NullType / BoolType verdicts are only given when the scalar is not quoted
	construct := "(*RuleExpression).checkWorkflowCall|null/bool verdict of a literal"
	heads := map[*ssa.BasicBlock]bool{}
	for _, h := range loopHeaders(fn) {
		heads[h] = true
	}
	n, unguarded, bad := 0, 0, fn.Pos()
	eachInstr(fn, func(b *ssa.BasicBlock, _ int, in ssa.Instruction) {
		mi, ok := in.(*ssa.MakeInterface)
		if !ok {
			return
		}
		ts := typeStr(mi.X.Type())
		if ts != "NullType" && ts != "BoolType" {
			return
		}
		n++
		guarded := false
		for ifi, outcome := range controllingConds(b) {
			if f, _ := fieldLoad(ifi.Cond); f == "String.Quoted" && !outcome {
				guarded = true
			}
			if u, ok := ifi.Cond.(*ssa.UnOp); ok && u.Op == token.NOT {
				if f, _ := fieldLoad(u.X); f == "String.Quoted" && outcome {
					guarded = true
				}
			}
		}
		if !guarded {
			unguarded++
			for _, in2 := range b.Instrs {
				if in2.Pos() != token.NoPos {
					bad = in2.Pos()
					break
				}
			}
		}
	})
	switch {
	case n == 0:
		c.anchorMissing("NullType/BoolType literal verdicts in checkWorkflowCall")
	case unguarded > 0:
		c.bad(construct, bad, "a quoted scalar whose text is null/true/false is typed null/bool: `with: {str: \"true\"}` is reported as a bool passed to a string input although YAML makes it a string")
	default:
		c.ok(construct, fn.Pos(), fmt.Sprintf("%d null/bool verdicts, each only reached when String.Quoted is false", n))
	}
}

// ---- C16.ENCODING ----

// yaml.v3 decodes UTF-16 sources (detected by their byte order mark) and counts lines and columns in the decoded text. The
// snippet is cut out of the bytes handed to the printer, so those bytes have to be decoded the same way first (F101).
func init() {
	register(&Rule{ID: "C16.ENCODING", Min: 1, Doc: "the snippet is cut from the source decoded as the YAML reader decodes it (UTF-16 by byte order mark)", Run: runC16Encoding})
}

func runC16Encoding(c *Ctx) {
	p := c.P
	fn := p.Method("Error", "getLine")
	if fn == nil {
		c.anchorMissing("(*Error).getLine")
		return
	}
	construct := "(*Error).getLine|source decoded before it is split into lines"
	// the reader the line scanner works on
	var src ssa.Value
	var at token.Pos
	eachInstr(fn, func(_ *ssa.BasicBlock, _ int, in ssa.Instruction) {
		if call, ok := in.(*ssa.Call); ok {
			switch calleeFullName(&call.Call) {
			case "bytes.NewReader", "bytes.NewBuffer":
				src, at = call.Call.Args[0], call.Pos()
			}
		}
	})
	if src == nil {
		c.anchorMissing("bytes.NewReader(source) in (*Error).getLine")
		return
	}
	decodes := func(g *ssa.Function) bool {
		utf16, ff, fe := false, false, false
		eachInstr(g, func(_ *ssa.BasicBlock, _ int, in ssa.Instruction) {
			switch x := in.(type) {
			case *ssa.Call:
				if strings.HasPrefix(calleeFullName(&x.Call), "unicode/utf16.") {
					utf16 = true
				}
			case *ssa.BinOp:
				if x.Op == token.EQL || x.Op == token.NEQ {
					for _, o := range []ssa.Value{x.X, x.Y} {
						if k, ok := constInt(o); ok {
							ff = ff || k == 0xff
							fe = fe || k == 0xfe
						}
					}
				}
			}
		})
		return utf16 && ff && fe
	}
	ok := false
	if call, isCall := src.(*ssa.Call); isCall {
		if g := staticCallee(&call.Call); g != nil && inModule(g) && g.Blocks != nil && decodes(g) {
			ok = true
		}
	}
	if !ok && decodes(fn) {
		ok = true
	}
	if ok {
		c.ok(construct, at, "the bytes pass through a function that tests for the byte order marks FF FE / FE FF and decodes with unicode/utf16")
	} else {
		c.bad(construct, at, "the snippet is cut out of the raw bytes: for a UTF-16 workflow (which the YAML reader decodes by its byte order mark) the snippet is a run of NUL-separated bytes, possibly of another line, and the caret is misplaced")
	}
}

// ---- C19.EQSELF ----

// Structural equality of raw YAML values is defined by recursion over Equals itself. Delegating it to another relation of
// the module (the subset test of the exclude filter, which lets any ${{ }} text match everything and matches nested
// mappings by inclusion) makes "duplicate" mean something else than "equal".
func init() {
	register(&Rule{ID: "C19.EQSELF", Min: 3, Doc: "Equals of raw YAML values recurses through Equals only, never through another relation of the module", Run: runC19EqSelf})
}

func runC19EqSelf(c *Ctx) {
	p := c.P
	for _, fn := range p.Funcs {
		if fn.Name() != "Equals" || fn.Signature.Recv() == nil || fn.Parent() != nil {
			continue
		}
		recvT := namedOf(fn.Signature.Recv().Type())
		if recvT == nil || !strings.HasPrefix(recvT.Obj().Name(), "RawYAML") {
			continue
		}
		construct := FuncName(fn) + "|relations used"
		var foreign []string
		eachInstr(fn, func(_ *ssa.BasicBlock, _ int, in ssa.Instruction) {
			call, ok := in.(ssa.CallInstruction)
			if !ok {
				return
			}
			for _, g := range p.calleesOf(call) {
				if !inModule(g) || g.Name() == "Equals" {
					continue
				}
				if sig := g.Signature; sig.Results().Len() == 1 && typeStr(sig.Results().At(0).Type()) == "bool" {
					foreign = append(foreign, FuncName(g))
				}
			}
		})
		if len(foreign) == 0 {
			c.ok(construct, fn.Pos(), "compares through Equals of the members only")
		} else {
			sort.Strings(foreign)
			c.bad(construct, fn.Pos(), "equality is decided by "+strings.Join(foreign, ", ")+", which is not an equality relation: values that merely stand in that relation are reported as duplicates")
		}
	}
}

// ---- C02.CPUBRANCH ----

// The number of CPUs may size the worker pool; it may not select a code path. A branch on runtime.NumCPU() /
// GOMAXPROCS makes the output a function of the machine unless both arms are proved equivalent, which no rule here does.
func init() {
	register(&Rule{ID: "C02.CPUBRANCH", Min: 1, Doc: "the number of CPUs only sizes worker pools and never decides a branch", Run: runC02CPUBranch})
}

func runC02CPUBranch(c *Ctx) {
	p := c.P
	type item struct{ v ssa.Value }
	seen := map[ssa.Value]bool{}
	var work []ssa.Value
	origin := map[ssa.Value]string{}
	n := 0
	for _, fn := range p.Funcs {
		eachInstr(fn, func(_ *ssa.BasicBlock, _ int, in ssa.Instruction) {
			call, ok := in.(*ssa.Call)
			if !ok {
				return
			}
			switch calleeFullName(&call.Call) {
			case "runtime.NumCPU", "runtime.GOMAXPROCS":
				n++
				work = append(work, call)
				origin[call] = calleeFullName(&call.Call) + "() in " + FuncName(fn)
			}
		})
	}
	bad := map[string]token.Pos{}
	for len(work) > 0 {
		v := work[len(work)-1]
		work = work[:len(work)-1]
		if seen[v] || v.Referrers() == nil {
			continue
		}
		seen[v] = true
		push := func(w ssa.Value) {
			if _, ok := origin[w]; !ok {
				origin[w] = origin[v]
			}
			work = append(work, w)
		}
		for _, ref := range *v.Referrers() {
			switch r := ref.(type) {
			case *ssa.If:
				bad[FuncName(r.Parent())+"|branch on "+origin[v]] = r.Cond.Pos()
			case *ssa.BinOp:
				push(r)
			case *ssa.Convert:
				push(r)
			case *ssa.ChangeType:
				push(r)
			case *ssa.Phi:
				push(r)
			case *ssa.UnOp:
				push(r)
			case *ssa.Store:
				// a field or local that keeps the number: follow its loads
				if fa, ok := r.Addr.(*ssa.FieldAddr); ok && r.Val == v {
					name := fieldAddrName(fa)
					for _, fn := range p.Funcs {
						eachInstr(fn, func(_ *ssa.BasicBlock, _ int, in ssa.Instruction) {
							if ld, ok := in.(*ssa.UnOp); ok && ld.Op == token.MUL {
								if fa2, ok := ld.X.(*ssa.FieldAddr); ok && fieldAddrName(fa2) == name {
									push(ld)
								}
							}
						})
					}
				}
				if al, ok := r.Addr.(*ssa.Alloc); ok && r.Val == v {
					for _, r2 := range *al.Referrers() {
						if ld, ok := r2.(*ssa.UnOp); ok && ld.Op == token.MUL {
							push(ld)
						}
					}
				}
			case ssa.CallInstruction:
				cc := r.Common()
				for _, g := range p.calleesOf(r) {
					if !inModule(g) || g.Blocks == nil {
						continue
					}
					off := 0
					if cc.IsInvoke() {
						off = 1
					}
					for i, a := range cc.Args {
						if a == v && i+off < len(g.Params) {
							push(g.Params[i+off])
						}
					}
				}
			}
		}
	}
	if n == 0 {
		c.anchorMissing("runtime.NumCPU / runtime.GOMAXPROCS (the worker pool is no longer sized by the machine?)")
		return
	}
	if len(bad) == 0 {
		c.ok("number of CPUs", token.NoPos, fmt.Sprintf("%d reads of the CPU count; their values reach pool sizes only, no branch condition", n))
		return
	}
	keys := make([]string, 0, len(bad))
	for k := range bad {
		keys = append(keys, k)
	}
	sort.Strings(keys)
	for _, k := range keys {
		c.bad(k, bad[k], "a branch is decided by the number of CPUs: which of the two code paths produces the diagnostics depends on the machine (or GOMAXPROCS), and nothing shows the paths equivalent")
	}
}

// ---- C06.COPYOPEN ----

// Whoever copies the properties of an object type into a new object type has to carry its openness (Mapped) over as
// well: a copy built with a strict constructor turns an open object into a closed one, and every property that was
// accepted because the object is open is reported from then on.
func init() {
	register(&Rule{ID: "C06.COPYOPEN", Min: 2, Doc: "a copy of an object type's properties into a new object type also reads the original's openness", Run: runC06CopyOpen})
}

func runC06CopyOpen(c *Ctx) {
	p := c.P
	for _, fn := range p.Funcs {
		occ := 0
		eachInstr(fn, func(_ *ssa.BasicBlock, _ int, in ssa.Instruction) {
			rg, ok := in.(*ssa.Range)
			if !ok {
				return
			}
			f, base := fieldLoad(rg.X)
			if f != "ObjectType.Props" {
				return
			}
			// the loop stores its key into a map made in this function
			var dst ssa.Value
			for _, ref := range *rg.Referrers() {
				nx, ok := ref.(*ssa.Next)
				if !ok {
					continue
				}
				for _, r2 := range *nx.Referrers() {
					ex, ok := r2.(*ssa.Extract)
					if !ok || ex.Index != 1 {
						continue
					}
					for _, r3 := range *ex.Referrers() {
						if mu, ok := r3.(*ssa.MapUpdate); ok && mu.Key == ssa.Value(ex) {
							// the value is the property's own type (or a copy of it): a copy of the object, not a new
							// object that merely has the same names
							val := unwrap(mu.Value)
							if call, ok := val.(*ssa.Call); ok && call.Call.IsInvoke() {
								val = unwrap(call.Call.Value)
							}
							vex, ok := val.(*ssa.Extract)
							if !ok || vex.Tuple != ex.Tuple || vex.Index != 2 {
								continue
							}
							if _, fresh := mu.Map.(*ssa.MakeMap); fresh {
								dst = mu.Map
							}
						}
					}
				}
			}
			if dst == nil {
				return
			}
			// the map becomes the Props of a new object type
			becomes := false
			for _, ref := range *dst.Referrers() {
				switch r := ref.(type) {
				case *ssa.Store:
					if fa, ok := r.Addr.(*ssa.FieldAddr); ok && fieldAddrName(fa) == "ObjectType.Props" && r.Val == dst {
						becomes = true
					}
				case *ssa.Call:
					if g := staticCallee(&r.Call); g != nil && inModule(g) && strings.HasSuffix(g.Name(), "ObjectType") {
						becomes = true
					}
				}
			}
			if !becomes {
				return
			}
			occ++
			construct := fmt.Sprintf("%s|copy of %s.Props#%d", FuncName(fn), describeKey(base), occ)
			reads := false
			eachInstr(fn, func(_ *ssa.BasicBlock, _ int, in2 ssa.Instruction) {
				if ld, ok := in2.(*ssa.UnOp); ok && ld.Op == token.MUL {
					if fa, ok := ld.X.(*ssa.FieldAddr); ok && fieldAddrName(fa) == "ObjectType.Mapped" && sameContainer(fa.X, base) {
						reads = true
					}
				}
			})
			if reads {
				c.ok(construct, rg.Pos(), "the function also reads Mapped of the copied object")
			} else {
				c.bad(construct, rg.Pos(), "the properties are copied into a new object type and the openness (Mapped) of the original is never read: an open object (e.g. the steps context after a step id written as ${{ }}) becomes closed again, and references that were accepted are reported")
			}
		})
	}
}

// ---- C14.BOOLAGREE ----

// `required` of a reusable workflow's input or secret is derived twice: by (*parser).parseBool when the callee is part of
// the run, and by an UnmarshalYAML method of a bool-like type when the caller re-parses the callee's file. Which of the
// two fills the shared cache depends on the schedule, so both must be the same function of the node: a scalar tagged
// !!bool whose text equals "true" in any letter case. Letting yaml.v3 decode into a Go bool is a different function (it
// accepts yes/on/y).
func init() {
	register(&Rule{ID: "C14.BOOLAGREE", Min: 1, Doc: "the metadata path derives a boolean from a YAML node exactly as the workflow parser does", Run: runC14BoolAgree})
}

func runC14BoolAgree(c *Ctx) {
	p := c.P
	n := 0
	for _, fn := range p.Funcs {
		if fn.Name() != "UnmarshalYAML" || fn.Signature.Recv() == nil || fn.Parent() != nil {
			continue
		}
		rt := fn.Signature.Recv().Type()
		if pt, ok := rt.(*types.Pointer); ok {
			rt = pt.Elem()
		}
		if b, ok := rt.Underlying().(*types.Basic); !ok || b.Kind() != types.Bool {
			continue
		}
		n++
		construct := FuncName(fn) + "|derivation of the boolean"
		fns := []*ssa.Function{fn}
		eachInstr(fn, func(_ *ssa.BasicBlock, _ int, in ssa.Instruction) {
			if call, ok := in.(*ssa.Call); ok {
				if g := staticCallee(&call.Call); g != nil && inModule(g) && g.Blocks != nil {
					fns = append(fns, g)
				}
			}
		})
		fold, tag, decode := false, false, false
		for _, g := range fns {
			eachInstr(g, func(_ *ssa.BasicBlock, _ int, in ssa.Instruction) {
				switch x := in.(type) {
				case *ssa.Call:
					switch calleeFullName(&x.Call) {
					case "strings.EqualFold":
						for i, a := range x.Call.Args {
							if s, ok := constString(a); ok && s == "true" {
								if f, _ := fieldLoad(x.Call.Args[1-i]); strings.HasSuffix(f, "Node.Value") {
									fold = true
								}
							}
						}
					case "(*gopkg.in/yaml.v3.Node).Decode":
						decode = true
					}
				case *ssa.BinOp:
					if x.Op == token.EQL || x.Op == token.NEQ {
						for i, a := range []ssa.Value{x.X, x.Y} {
							if s, ok := constString(a); ok && s == "!!bool" {
								if f, _ := fieldLoad([]ssa.Value{x.Y, x.X}[i]); strings.HasSuffix(f, "Node.Tag") {
									tag = true
								}
							}
						}
					}
				}
			})
		}
		switch {
		case decode:
			c.bad(construct, fn.Pos(), "the value is left to (*yaml.Node).Decode, which also accepts yes/on/y and fails on ${{ }}: the workflow parser reads `required: yes` as a string, so the two derivations of the callee's interface disagree and the caller's diagnostics depend on which goroutine fills the cache")
		case !fold || !tag:
			c.bad(construct, fn.Pos(), "the value is not derived as the workflow parser derives it (tag !!bool and text equal to \"true\" in any letter case): for `required: True` the two derivations of the callee's interface disagree and the caller's diagnostics depend on which goroutine fills the cache")
		default:
			c.ok(construct, fn.Pos(), "tag !!bool and strings.EqualFold(text, \"true\"), as (*parser).parseBool")
		}
	}
	if n == 0 {
		c.anchorMissing("an UnmarshalYAML method of a bool-like type (metadataBool)")
	}
}

// ---- C17.PATHONLY ----

// "Every pattern accepted as a ref filter is also accepted as a path filter": whatever ValidatePathGlob rejects before
// it enters the shared validator must be rejected for refs as well. Today that is a leading or trailing ASCII space, a
// character the ref rules forbid anywhere. A test that is wider than a constant made of such characters (Unicode space
// classes, trimming functions) rejects path filters that are valid ref filters.
func init() {
	register(&Rule{ID: "C17.PATHONLY", Min: 1, Doc: "what the path validator rejects on its own is rejected by the ref rules too", Run: runC17PathOnly})
}

func runC17PathOnly(c *Ctx) {
	p := c.P
	fn := p.Func("ValidatePathGlob")
	if fn == nil {
		c.anchorMissing("ValidatePathGlob")
		return
	}
	construct := "ValidatePathGlob|rejections of its own"
	n := 0
	var bad []string
	at := fn.Pos()
	for _, b := range fn.Blocks {
		ifi, ok := b.Instrs[len(b.Instrs)-1].(*ssa.If)
		if !ok {
			continue
		}
		n++
		okCond := false
		if call, isCall := ifi.Cond.(*ssa.Call); isCall {
			switch calleeFullName(&call.Call) {
			case "strings.HasPrefix", "strings.HasSuffix":
				if s, isC := constString(call.Call.Args[1]); isC && s != "" && strings.Trim(s, " ~^:") == "" {
					okCond = true
				}
			}
		}
		if !okCond {
			bad = append(bad, describeCond(ifi.Cond))
			if ifi.Cond.Pos() != token.NoPos {
				at = ifi.Cond.Pos()
			}
		}
	}
	if len(bad) == 0 {
		c.ok(construct, fn.Pos(), fmt.Sprintf("%d tests, each for a leading/trailing constant made of characters the ref rules forbid", n))
	} else {
		sort.Strings(bad)
		c.bad(construct, at, "the path validator rejects on a condition of its own that is not a leading/trailing constant of characters forbidden in refs ("+strings.Join(bad, "; ")+"): a pattern such as \"release\\u00a0\" is a valid ref filter and an invalid path filter")
	}
}

// ---- C20.JSONWHOLE ----

// "(shellcheck) prints non-JSON yields a fatal error": the whole output has to be JSON. json.Unmarshal rejects anything
// after the first value; a json.Decoder stops after the first value and ignores what follows (a second array, a crash
// message), silently dropping diagnostics.
func init() {
	register(&Rule{ID: "C20.JSONWHOLE", Min: 1, Doc: "the output of shellcheck is decoded as a whole, trailing data is an error", Run: runC20JSONWhole})
}

func runC20JSONWhole(c *Ctx) {
	p := c.P
	n := 0
	for _, fn := range p.Funcs {
		if !strings.HasSuffix(p.unitFile(fn), "/rule_shellcheck.go") {
			continue
		}
		unm := findCalls(fn, "encoding/json.Unmarshal")
		dec := findCalls(fn, "(*encoding/json.Decoder).Decode")
		if len(unm)+len(dec) == 0 {
			continue
		}
		n++
		// output that cannot be decoded is a fatal error: the error of every decoding call, when not nil, is returned
		for _, d := range append(append([]ssa.CallInstruction{}, unm...), dec...) {
			dv, _ := d.(*ssa.Call)
			if dv == nil {
				continue
			}
			if why := failureNotReturned(p, fn, dv); why == "" {
				c.ok(FuncName(fn)+"|undecodable output is an error", d.Pos(), "a decoding error is returned as an error")
			} else {
				c.bad(FuncName(fn)+"|undecodable output is an error", d.Pos(), why+": output of shellcheck that is not JSON silently yields no diagnostics")
			}
		}
		construct := FuncName(fn) + "|decoding of the tool output"
		if len(dec) == 0 {
			c.ok(construct, unm[0].Pos(), "json.Unmarshal: anything after the first value is a syntax error")
			continue
		}
		more := len(findCalls(fn, "(*encoding/json.Decoder).More"))+len(findCalls(fn, "(*encoding/json.Decoder).Token")) > 0 || len(dec) > 1
		if more {
			c.ok(construct, dec[0].Pos(), "streaming decoder, and the rest of the stream is examined")
		} else {
			c.bad(construct, dec[0].Pos(), "a json.Decoder stops after the first JSON value: output such as `[{A}]\\n[{B}]` or `[]\\nshellcheck: crash` loses B / the crash without any error")
		}
	}
	if n == 0 {
		c.anchorMissing("JSON decoding of the shellcheck output in rule_shellcheck.go")
	}
}

// C17.EVERYFILTER — every filter of every event reaches the validator: a loop of the glob rule whose body validates a
// pattern or reports a pattern error visits every element (no return, break or goto out of it).
func init() {
	register(&Rule{ID: "C17.EVERYFILTER", Min: 3, Doc: "loops of the glob rule that validate patterns or report pattern errors have no early exit", Run: runC17EveryFilter})
}

func runC17EveryFilter(c *Ctx) {
	p := c.P
	info := p.info()
	ruleT := p.Named("RuleGlob")
	vr, vp := p.Func("ValidateRefGlob"), p.Func("ValidatePathGlob")
	if ruleT == nil || vr == nil || vp == nil {
		c.anchorMissing("RuleGlob, ValidateRefGlob, ValidatePathGlob")
		return
	}
	var roots []*ssa.Function
	for _, fn := range p.Funcs {
		if recv := fn.Signature.Recv(); recv != nil && fn.Synthetic == "" {
			t := recv.Type()
			if pt, ok := t.(*types.Pointer); ok {
				t = pt.Elem()
			}
			if n, ok := t.(*types.Named); ok && n.Obj() == ruleT.Obj() {
				roots = append(roots, fn)
			}
		}
	}
	if len(roots) == 0 {
		c.anchorMissing("methods of RuleGlob")
		return
	}
	scope := p.reachable(roots...)
	errFns := map[*ssa.Function]bool{}
	for _, m := range []string{"Error", "Errorf"} {
		if f := p.Method("RuleBase", m); f != nil {
			errFns[f] = true
		}
	}
	relevant := map[*ssa.Function]bool{}
	for fn := range scope {
		if !inPkg(fn, p.SPkg) {
			continue
		}
		r := p.reachable(fn)
		if r[vr] || r[vp] {
			relevant[fn] = true
		}
		for e := range errFns {
			if r[e] {
				relevant[fn] = true
			}
		}
	}
	p.FuncDecls(func(_ *ast.File, d *ast.FuncDecl) {
		fn := p.declFunc(d)
		if fn == nil || !scope[fn] || fn == vr || fn == vp || errFns[fn] {
			return
		}
		// the validator itself is not the rule: only functions from which the rule's callbacks reach it
		if r := p.reachable(vr, vp); r[fn] {
			return
		}
		labels := rangeLabels(d.Body)
		n := 0
		ast.Inspect(d.Body, func(nd ast.Node) bool {
			rs, ok := nd.(*ast.RangeStmt)
			if !ok {
				return true
			}
			does := false
			ast.Inspect(rs.Body, func(x ast.Node) bool {
				if call, ok := x.(*ast.CallExpr); ok {
					if obj := calleeObj(info, call); obj != nil {
						if g := p.SSA.FuncValue(obj); g != nil && relevant[g] {
							does = true
						}
					}
				}
				return !does
			})
			if !does {
				return true
			}
			n++
			construct := fmt.Sprintf("%s|range over %s#%d", FuncName(fn), typeStr(info.TypeOf(rs.X)), n)
			if exit := loopEarlyExit(p, rs, labels[rs]); exit != "" {
				c.bad(construct, rs.Pos(), "the loop validates filter patterns or reports their errors but can stop early ("+exit+"): the filters of the remaining elements are never validated")
			} else {
				c.ok(construct, rs.Pos(), "every element is visited")
			}
			return true
		})
	})
}

// constMapKeys: the constant string keys a package-level map is initialised with.
func constMapKeys(p *Prog, g *ssa.Global) []string {
	var out []string
	init := p.SPkg.Func("init")
	if init == nil {
		return nil
	}
	eachInstr(init, func(_ *ssa.BasicBlock, _ int, in ssa.Instruction) {
		st, ok := in.(*ssa.Store)
		if !ok || st.Addr != g {
			return
		}
		mk, ok := st.Val.(*ssa.MakeMap)
		if !ok || mk.Referrers() == nil {
			return
		}
		for _, r := range *mk.Referrers() {
			if mu, ok := r.(*ssa.MapUpdate); ok {
				if k, ok := constString(mu.Key); ok {
					out = append(out, k)
				}
			}
		}
	})
	return out
}

// jsonTypingFuncs: typeOfJSONValue and the module functions it hands a part of the value to that call it back (the switch
// split into one function per JSON kind).
func jsonTypingFuncs(p *Prog, fn *ssa.Function) []*ssa.Function {
	out := []*ssa.Function{fn}
	eachInstr(fn, func(_ *ssa.BasicBlock, _ int, in ssa.Instruction) {
		call, ok := in.(*ssa.Call)
		if !ok {
			return
		}
		g := staticCallee(&call.Call)
		if g == nil || g == fn || !inPkgName(g) || g.Blocks == nil {
			return
		}
		back := false
		eachInstr(g, func(_ *ssa.BasicBlock, _ int, in2 ssa.Instruction) {
			if c2, ok := in2.(*ssa.Call); ok && staticCallee(&c2.Call) == fn {
				back = true
			}
		})
		if back {
			for _, h := range out {
				if h == g {
					return
				}
			}
			out = append(out, g)
		}
	})
	return out
}

func eachInstrOf(fns []*ssa.Function, f func(b *ssa.BasicBlock, i int, in ssa.Instruction)) {
	for _, fn := range fns {
		eachInstr(fn, f)
	}
}
