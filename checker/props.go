package main

// PropSpec lists, per property, the rules that decide its structural clauses and the text that goes
// into the evidence file.
type PropSpec struct {
	ID          string
	Rules       []string
	Explanation string
	NotDecided  string
	Assumptions []string
}

var commonAssumptions = []string{
	"go/types and go/ssa (x/tools v0.29.0) model the program faithfully; no reflection/unsafe/cgo in the analysed package (checked by C01.UNSAFE where it runs)",
	"third-party packages behave as documented (yaml.v3 node kinds, os/exec, errgroup, semaphore, sort, strings)",
	"level 'other': all enumerated structural obligations of the named clauses are discharged on the current source; this is not a proof of the behavioural property",
}

var propSpecs = []PropSpec{
	{
		ID:          "C01",
		Rules:       []string{"C01.NIL", "C01.EXH", "C01.TA", "C01.NILMAP", "C01.PIPE", "C01.EXIT", "C01.UNSAFE", "C01.NILELEM", "C01.LOOP", "C01.REC", "C01.REPEAT", "C01.IDX", "C01.EXTPANIC"},
		Explanation: "Decides necessary conditions for crash freedom in actionlint's own code: no use of a value on a path where the code itself tested it to be nil (C01.NIL). Added after seeded changes and for the 'never hangs' clause: (NILELEM) no parse result that may be nil becomes a sequence/mapping element without a nil test; (REPEAT) the count of strings.Repeat is a sum of lengths/widths that is decremented only when positive; (LOOP) each of the 30 non-range loops has a progress argument (counter with loop-invariant bound, strict suffix, consuming read left on failure, directory fixpoint) or is delegated to the rule that bounds it (lexer bisimulation, grammar extraction, glob progress); (REC) every recursive component descends into a field or element of its argument on every cycle, or is delegated (parser: no left recursion; DFS: colours). (IDX) every index and slice instruction of the module (a superset of the 84 bounds checks the compiler cannot eliminate) is in bounds by a dominating length test, the bound of its own range loop, a constant size, a string search tested against -1, a caller-side guard, the group count of a constant regexp, or one of 26 reviewed reasons with side conditions.",
		NotDecided:  "panics or hangs inside third-party libraries; stack exhaustion; general index/slice bounds; wall-clock bounds",
		Assumptions: commonAssumptions,
	},
	{
		ID:          "C02",
		Rules:       []string{"C02.MAP", "C02.SORT", "C02.GO", "C02.FIRST", "C02.CHAN", "C02.SRC", "C02.FRESHCACHE"},
		Explanation: "Decides that no hash-map iteration order can reach message text, the relative order of diagnostics that tie on (file,line,col), outer state, output or returned values (C02.MAP); that each file's diagnostics are stably sorted before being returned and never unstably sorted (C02.SORT); that goroutines of a multi-file run write only their own slot, never the output, and printing happens after eg.Wait() in argument order (C02.GO). (FRESHCACHE) the metadata caches handed to (*Linter).check are created for the call (or by a factory created in the call) and the Linter type has no cache field; (SRC) clock and process-specific values only feed the debug log.",
		NotDecided:  "that distinct AST nodes really have distinct positions; determinism of third-party libraries",
		Assumptions: commonAssumptions,
	},
	{
		ID:          "C03",
		Rules:       []string{"C03.W", "C03.W2", "C03.R", "C03.LOOP", "C03.DEFER", "C03.REPLACE"},
		Explanation: "Decides the def-use coverage of the workflow AST: every scalar field (String/[]String/Bool/Int/Float/RawYAMLValue) of every node type reachable from Workflow is (W) assigned by a parser method, (W2) by exactly one key of its section switch, and (R) read by a function reachable from RuleExpression's visitor methods and handed to an argument that flows into NewExprLexer; (LOOP) loops handing elements to the scanner have no early exit. (DEFER) a value parsed before or after the node it belongs to exists is handed over in both key orders; (REPLACE) a node that is filled key by key stays the same object for the whole key loop.",
		NotDecided:  "that the diagnostic is located at that scalar and is a syntax error (position arithmetic, see C07); value-dependent behaviour of the excluded positions; conditional (path-dependent) hand-over of a parsed value to its field",
		Assumptions: commonAssumptions,
	},
	{
		ID:          "C13",
		Rules:       []string{"C13.DEF", "C13.CONT", "C13.CASEARG", "C13.DUP", "C13.MAND", "C13.FIXEDLEN"},
		Explanation: "Decides, over every loop on a parseMapping/parseSectionMapping result in the workflow parser: a fixed key set has a default/else branch reporting the key with unexpectedKey at that loop's key (DEF); no return/break leaves a key loop (CONT); fixed-key sections are parsed case-sensitively and name-keyed ones case-insensitively (CASEARG); parseMapping tests for duplicates before storing and folds case iff case-insensitive (DUP); every mandatory key of the workflow syntax is tested after its loop by a reporting check that is not nested under an undocumented condition (MAND); mappings accessed by constant index are length-checked exactly (FIXEDLEN).",
		NotDecided:  "exact messages and columns; the accepted key set itself against GitHub's schema (only that keys outside the switch are reported)",
		Assumptions: commonAssumptions,
	},
	{
		ID:          "C08",
		Rules:       []string{"C08.KEYW", "C08.KEYR", "C08.FIELD", "C13.CASEARG", "C08.SELFKEY"},
		Explanation: "Decides a two-point lattice (lower-case / unknown) on strings: every key stored into (KEYW) or used to look up (KEYR) a map whose keys are case-insensitive names (26 map types: ObjectType.Props, context and function tables, AST maps, action/workflow metadata, untrusted-input tree, job graph) is provably lower-case - a constant equal to its lower-casing, a strings.ToLower result, a field that only ever receives lower-case values (FIELD, greatest fixpoint over all stores), an id produced by a case-insensitive parseMapping call, a range key of another name-keyed map, or a parameter all of whose callers pass lower-case values. CASEARG (shared with C13) fixes which YAML mappings fold case. (SELFKEY) no map decoded from external data is read with a transformed copy of the key (directly or through a slice of collected keys).",
		NotDecided:  "messages compared modulo letter case; names compared by other means than map lookup (strings.EqualFold sites are not enumerated); keywords true/false/null",
		Assumptions: commonAssumptions,
	},
	{
		ID:          "C09",
		Rules:       []string{"C09.IMM", "C09.RESET", "C09.AST", "C09.FRESH", "C13.CONT", "C09.VISITOR"},
		Explanation: "Decides the ownership clauses behind independence: (IMM) every mutation of an ObjectType/ArrayType (field store, Props write/delete) acts on an object whose provenance - followed through callers, returned values and all stores to the fields it is loaded from - consists only of fresh allocations; (RESET) every field of a rule type written while visiting a job is reset by VisitJobPost on all paths, assigned first by VisitJobPre, or undone in the same function; (AST) no rule writes into the workflow AST; (FRESH) expression checkers are never kept in rule state; (CONT, shared with C13) the parser never stops at a bad key. (VISITOR) the visitor calls Pre, the children and Post of every pass for every job/step, leaves a callback loop early only with the callback's error, and returns success only after the Post loop.",
		NotDecided:  "equality of diagnostic multisets across compositions; state kept in maps of workflow scope (RuleJobNeeds.nodes) is by design",
		Assumptions: commonAssumptions,
	},
	{
		ID:          "C10",
		Rules:       []string{"C10.COW", "C10.IMM", "C10.LOCK", "C10.CONF", "C10.CAP", "C10.INST", "C10.PREFIX", "C10.SIB", "C10.PERFILE", "C02.CHAN", "C10.AT", "C10.CACHEKEY", "C02.FRESHCACHE"},
		Explanation: "Decides the sharing discipline of multi-file runs: (COW) every write through ExprSemanticsChecker.vars is dominated by the copy of the table (and by the deep copy of github for nested writes), the copy functions install fresh maps and every DeepCopy copies its components deeply; (IMM) no mutation site reachable from the per-file check acts on data flowing from a package-level table or the shared Config; (LOCK) every access to the cache maps shared by files happens between Lock and Unlock of its mutex; (CONF) functions that are not thread-safe are unreachable from the goroutines; (CAP) goroutine bodies capture no loop variable; (INST) rules are created per file inside check; (PREFIX) project containment is separator-aware; (SIB) the caches handed to check belong to the project handed to check. (PERFILE) the per-file loops of LintFiles carry only counters and result slices; (AT) Projects.At answers only after the file system was consulted for this very path and reuses a remembered project only when its root equals the root found; (CACHEKEY) the per-repository cache tables are keyed by the root directory as is; (CHAN) no result is received from a channel.",
		NotDecided:  "absence of all data races (no happens-before model of third-party code); LintFiles == LintFile result equality; agreement of the two derivations of a reusable workflow's interface is decided under C14.SIB",
		Assumptions: commonAssumptions,
	},
	{
		ID:          "C20",
		Rules:       []string{"C20.WG", "C20.SEMA", "C20.ONEPROC", "C20.WAIT", "C20.ERR", "C20.MU", "C20.ONCE", "C01.PIPE", "C02.CHAN"},
		Explanation: "Decides the ordering/typestate clauses of the tool integration: wg.Add before the goroutine and defer wg.Done first (WG); Acquire -> the single call of cmdExecution.run -> Release -> callback by dominance, bound = runtime.NumCPU() (SEMA); one limiter per Lint* invocation, never per file (ONEPROC); every return after the limiter was handed out is dominated by proc.wait(), eg.Wait before it, rules return cmd.wait() (WAIT); a failed tool run is accepted only under ExitError, exit-code and output tests, and no link of the chain run -> callback -> errgroup -> cmd.wait -> Visit -> check -> Lint* drops its error (ERR); diagnostics from tool goroutines are appended under the rule's mutex (MU); each step starts the tool once (ONCE); stdin is not written before the process starts (PIPE).",
		NotDecided:  "equal-length placeholder substitution; parsing of tool output; which shell a step uses",
		Assumptions: commonAssumptions,
	},
	{
		ID:          "C16",
		Rules:       []string{"C16.TAINT", "C16.FMT", "C16.FIELDS", "C16.WIDTH", "C16.ONCE", "C16.MATCHER"},
		Explanation: "Decides the one-diagnostic-one-line clause structurally: (TAINT) at every site that builds a diagnostic message (all callers of the 16 message primitives), a demand-driven backward search through format verbs, string operations, parameters (to all callers), returns, fields (to all stores), containers, strings.Builder writes and error texts finds no unquoted path from a user-text source (YAML scalars and keys, tokens, metadata read from files, error text of cron/os calls that echo their input) - %q, strconv.Quote*, quotes*/sortedQuotes and a newline-replacing ReplaceAll cut the search; (FMT) every printf-like call has a constant format (forwarded format parameters are followed to all callers); (FIELDS) GetTemplateFields copies every field of Error to the same-named field. (WIDTH) both runs of the caret line are measured in terminal cells; (ONCE) a format template is executed once per run, outside any loop, on the accumulated fields of all files. (MATCHER) the header PrettyPrint writes is replayed symbolically from its entry block (fields as placeholders, colour writes bracketed by a colour and a reset sequence, the reset of a write ending in a line break landing on the next line) and the shipped problem matcher must parse the plain header, the coloured header and a coloured header following another one back to the same file, line, column, message and kind.",
		NotDecided:  "regex round trip through the problem matcher; caret placement; width computations; that the single-line output of shellcheck/pyflakes is single-line (assumption)",
		Assumptions: append([]string{"messages of strconv, net/url, encoding/json, path.Match and text/scanner quote or do not echo their input; shellcheck/pyflakes messages are single-line"}, commonAssumptions...),
	},
	{
		ID:          "C15",
		Rules:       []string{"C15.ROOT", "C15.ABSJOIN", "C15.PURE", "C15.EXIT", "C15.PAT", "C20.ERR", "C15.CONFPAT", "C15.RETALL"},
		Explanation: "Decides the structural clauses of filtering and exit status: (ROOT) the path handed to Config.PathConfigs comes from filepath.Rel(<project root>, ...) and the raw cwd-relative path is only used without a project or when Rel fails; (ABSJOIN) a path is joined to the working directory only under !filepath.IsAbs; (PURE) filterErrors mutates nothing, prints nothing, sorts nothing and returns its input or a slice built from the input's own elements in iteration order, consulting both pattern sets; (EXIT) the (condition -> constant) table of Command.Main's returns; (PAT) every ignore regexp is compiled from one element of the option list and matched against the message alone; (ERR, shared with C20) formatter errors are propagated by LintFiles, LintFile and Lint alike. (CONFPAT) every ignore pattern of the configuration file is compiled on its own from its own sequence element. (RETALL) every successful return of Lint, LintFile and LintFiles hands back the diagnostics of all files (the exit status is derived from them).",
		NotDecided:  "glob and regexp matching semantics; how paths are spelled on the command line beyond the IsAbs/Rel structure",
		Assumptions: commonAssumptions,
	},
	{
		ID:          "C12",
		Rules:       []string{"C12.TBL", "C12.KEYS", "C12.MAP", "C12.CASE", "C11.VISIT", "C11.SCAN"},
		Explanation: "The space (34 workflow keys x 12 contexts x 5 special functions) is finite and enumerated completely from the literals: (TBL) the switch of WorkflowKeyAvailability, SpecialFunctionNames and allWorkflowKeys agree pairwise in both directions, every entry is lower-case and every context exists; (KEYS) the set of constant strings that can reach a workflowKey parameter (constant propagation through concatenation and all call sites) contains only \"\" and table keys, and every table key is used; (MAP) at every call site of RuleExpression with a constant key, the AST field handed over has a YAML path whose governing table key (longest table key that prefixes the path) has the same availability as the key passed; (CASE) names are lower-cased before being compared with the lists.",
		NotDecided:  "agreement with GitHub's live table (not available offline: the generated table is checked for internal consistency and use); positions inside the expression where the name occurs are decided under C11.VISIT",
		Assumptions: commonAssumptions,
	},
	{
		ID:          "C11",
		Rules:       []string{"C11.VISIT", "C11.SITE", "C11.PAIR", "C11.ORDER", "C11.SAFE", "C11.RESET", "C08.KEYR", "C11.SCAN", "C11.FILTER"},
		Explanation: "Decides the traversal and wiring clauses of the detector: (VISIT) in every function of the semantic checker (and in visitExprNode) that receives a concrete expression node, a forward must-analysis over the CFG shows that on every path to a return the node is handed on whole, or each ExprNode child is handed to a checking function, or a diagnostic was emitted - so an untrusted read is seen wherever it is embedded; (SITE) checkUntrusted=true only flows from checkScriptString, which is applied to ExecRun.Run and to a with: value guarded by the actions/github-script@ prefix and the key script; (PAIR) enter callback then deferred leave first in check, Init/walk/OnVisitEnd/Errs in order; (ORDER) index before operand in both traversals; (SAFE) sanitisers are exactly contains/startsWith/endsWith compared in lower case and the tree's names are lower-case; (RESET) end() and Init() reset on every path; (KEYR, shared with C08) the tree is looked up with lower-cased names. (SCAN) the scan over the placeholders of a scalar stops early only on a syntax error; (FILTER) the matcher remembers an object filter on every path of onObjectFilter and the index handler consults it.",
		NotDecided:  "the state machine of the matcher itself (which paths are reported for which chains): completeness/precision over all expression shapes is a semantic property of onPropAccess/onIndexAccess/onObjectFilter",
		Assumptions: commonAssumptions,
	},
	{
		ID:          "C17",
		Rules:       []string{"C17.MONO", "C17.ARG", "C17.CONSUME", "C17.COL", "C17.TERM", "C17.STATELESS", "C17.WHOLE"},
		Explanation: "Recogniser == documentation is not decidable here; decided are: (MONO) no error emission of the shared validator is control-dependent on isRef being false, and the path-only pre-checks only test characters refs reject: ref-accepted implies path-accepted; (ARG) the character argument of every unexpected/invalidRefChar call is the variable holding the consumed rune, the rune constant of an enclosing case, or EOF - never a fresh Peek(); (CONSUME) every scan.Next() either consumes a character known from look-ahead, or its result is dispatched by a switch with cases for both line-break characters, or follows an already reported error; (COL) the error column comes from scanner.Position.Column; (TERM) each call of validateNext consumes a character and returns true only when the look-ahead is not EOF, the [...] loop consumes per iteration. (STATELESS) every non-empty filter value is validated unconditionally by the validator of its filter kind (branches/tags: ref, paths: path). (WHOLE) the scanner is initialised once from the pattern parameter itself.",
		NotDecided:  "which strings are reported (language of the recogniser), message texts, the column arithmetic of rule_glob",
		Assumptions: commonAssumptions,
	},
	{
		ID:          "C19",
		Rules:       []string{"C19.EQ", "C19.EXPR", "C19.CAND", "C02.MAP"},
		Explanation: "Decides the structural clauses of the matrix checks: (EQ) every Equals method of a raw YAML value with a container field compares the sizes of both sides, so the one-sided iteration is symmetric and the duplicate verdict cannot depend on the order of the values; (EXPR) isYAMLValueSubset first accepts an exclude value written as an expression, each of its negative results is control-dependent on the candidate value being a mapping, a sequence or a string without ${{ }}, the duplicate report is guarded by the row having literal values and nothing is checked when the matrix itself is an expression; (CAND) the candidate table holds the literal row values plus every include value that is not Equals() to a value already present (no other test may leave one out), exclude values are matched with isYAMLValueSubset(candidate, exclude value), and an unknown key is reported iff it has no candidates; (MAP, shared with C02) no map iteration in rule_matrix.go/ast.go reaches a diagnostic or a result in iteration order.",
		NotDecided:  "the recursive subset/equality semantics themselves (which values are considered equal or contained) and the candidate set computed from include entries",
		Assumptions: commonAssumptions,
	},
	{
		ID:          "C06",
		Rules:       []string{"C06.ANY", "C06.ASSIGN", "C06.LOOSE", "C06.OPEN", "C06.CMP", "C06.IFACECMP", "C06.MERGE"},
		Explanation: "Monotonicity in the type environment is relational; decided are its local necessary conditions: (ANY) for every chain of type tests on an ExprType value in the semantic checker and the expression rule from which some outcome reaches a diagnostic, either AnyType is one of the tested types and its own outcome is free of diagnostics, or only listed specific types are diagnosed and the fall-through is free of them; (ASSIGN) every Assignable method returns true for an AnyType argument and every Merge has an outcome yielding AnyType; (LOOSE) when the merged type of a matrix include expression is not an object the matrix object is opened. (IFACECMP) no diagnostic depends on two ExprType values being identical; (MERGE) ObjectType.Merge returns an operand as is only when that operand is loose and otherwise combines Mapped of both; when the whole include section is an expression the closed row object is never returned as is.",
		NotDecided:  "that a more precise type never yields fewer diagnostics downstream (relational over all expressions and environments); function-signature overload resolution",
		Assumptions: commonAssumptions,
	},
	{
		ID:          "C14",
		Rules:       []string{"C14.DATA", "C14.REQ", "C14.USE", "C14.OUT", "C14.TYPE", "C08.KEYW", "C08.KEYR", "C14.WHOLE"},
		Explanation: "Decides the structural clauses of interface checking: (DATA) the bundled data set is enumerated completely from its literal: every spec is well-formed and unique, every input/output key is the lower-cased declared name, and no spec is both current and outdated; (REQ) every store to the Required field of an action or reusable-workflow input is `required && Default == nil` with a pointer-typed Default, so the three derivations agree; (USE) for each of the three (call-site table, declared table) pairs the undeclared-name report is control-dependent on exactly the failed lookup of the call site's key in the declared table, the missing collection on exactly Required and the failed lookup of the declared key in the call-site table, every collected name is reported, secrets are skipped only under inherit, and bundled actions are checked iff found and not skip_inputs; (OUT) an open outputs object is returned only on paths where one of the enumerated reasons holds and the strict object is filled from the declared outputs; (TYPE) the typed input check is control-dependent on Assignable of the declared type of the same-named input; (KEYW/KEYR, shared with C08) the tables are written and read with lower-cased keys.",
		NotDecided:  "agreement of the bundled data with the actions' real action.yml files; YAML decoding of metadata files; the type computed for a literal `with:` value",
		Assumptions: commonAssumptions,
	},
	{
		ID:          "C05",
		Rules:       []string{"C05.STEP", "C05.JOB", "C05.NEEDS", "C05.STRICT", "C05.UPD", "C05.SELF", "C06.OPEN", "C08.KEYW"},
		Explanation: "Scope resolution is decided as a typestate discipline on the seven scope fields of RuleExpression: (STEP) no call from which the semantic check is reachable (call graph) can execute after the step's id was stored into stepsTy.Props, and the id is stored lower-cased; (JOB) in VisitJobPre needsTy and matrixTy are stored before any expression-checking call other than the one computing them, stepsTy is a fresh empty strict object on every path and only after the job-level checks, VisitJobPost resets all three on every path and after its checks, and nobody else assigns them; (NEEDS) populateDependantNeedsTypes is not recursive, reads Job.Needs only from the job being checked, and enters needs.<lower id> as a strict object iff the job exists under the same key, with strict outputs from its declared outputs; (STRICT) every object stored into a scope field originates from a strict constructor (matrixTy may be open through checkMatrixExpression) and every Loose() is control-dependent on an expression test; (UPD) each field is handed, iff non-nil and before Check, to the Update method of its own context, which replaces exactly vars[<that context>]; (SELF) a workflow_call input is registered after its own default was checked; (OPEN, shared with C06) undefined-property reports are strict-only; (KEYW, shared with C08) scope keys are lower-cased.",
		NotDecided:  "the matrix row/include merge (value-level), merged dispatch+call inputs in UpdateInputs, automatic secrets list, positions of the diagnostics",
		Assumptions: commonAssumptions,
	},
	{
		ID:          "C04",
		Rules:       []string{"C04.GRAMMAR", "C04.LL1", "C04.TREE", "C04.ONE", "C04.LEX", "C04.NUM"},
		Explanation: "The grammar implemented by the recursive descent parser is extracted from the SSA form: each parse function becomes an automaton whose letters are token kinds consumed by next() (restricted by the look-ahead tests that dominate the consumption on that path) and calls of other parse functions with their look-ahead context; paths through an error report or a failed callee accept nothing. (GRAMMAR) every extracted production is language-equal (subset construction, product search) to the documented production restricted to the calling context, and Parse is exactly parseLogicalOr followed by the end marker - equal productions imply the same language for inputs of every length; (LL1) wherever a function returns under a look-ahead restriction, no token of the FOLLOW set of its nonterminal is excluded, so the greedy parser accepts exactly the context-free language; (TREE) operands of each operator level come from the next-tighter level, binary nodes get the kind constant of their own operator (token kind X builds comparison kind X) and Left/Right in source order, keywords build their literal nodes; (ONE) parser and lexer record only the first error, nobody else writes the error fields, and the rule reports a syntax error exactly once without checking semantics.",
		NotDecided:  "value-level rejections that remain after the 64-bit conversions (integers beyond 2^63, floats beyond the float64 range are still reported as errors); the position of the syntax diagnostic (C07)",
		Assumptions: commonAssumptions,
	},
	{
		ID:          "C07",
		Rules:       []string{"C07.CONV", "C07.ACCUM", "C07.QUOTE", "C07.FIELDS", "C07.ARGS", "C07.TOKEN", "C07.ERRTOK", "C07.LEXPOS", "C07.ORIGIN", "C17.COL", "C07.ARGPOS", "C07.TEXTPOS", "C17.WHOLE", "C07.TEXTFROZEN"},
		Explanation: "Exactness of positions is decided as symbolic position arithmetic: integer values are normalised to linear forms over their sources (fields, parameters, loop-carried variables). (CONV) the placeholder-to-file mapping is base + value - 1 for line and column; (ACCUM) in the scan over the placeholders of a scalar the column handed to the parser is base + offset + bytes cut, the offset advances around the loop by exactly the bytes sliced off the remaining text, the scan starts at offset 0, `${{` is recorded three columns before the expression, and text/position/quoting of one scalar travel together; (QUOTE) every column base derived from a scalar's position is Pos.Col plus one exactly when the scalar is quoted, decided once outside loops (expression scan, bare `if:` conditions, glob errors on a per-error copy); (FIELDS) every integer stored into a line/column/offset field is computed from sources of the same class; (ARGS) arguments named like line/column are passed for parameters of the same class at every call; (TOKEN) each node is positioned at its own token or its leftmost operand; (ERRTOK) no parser error is recorded after the look-ahead was advanced without a new look-ahead test, and nothing is consumed through the parser between the end of the expression and the left-over error; (LEXPOS) the start of a token is moved past every skipped white space and tokens carry the recorded start; (ORIGIN) no position object has a constant or missing component and none is nil at a diagnostic; (COL, shared with C17) glob error columns come from the scanner. (ARGPOS) an argument type error is positioned at the argument whose type was tested (equal index forms, through the re-slicing of the variadic rest). (TEXTPOS/TEXTFROZEN) a scalar node holds the text exactly as written with the position of the same YAML node, and no field of an existing node is overwritten; (WHOLE, shared with C17) the glob scanner reads the whole pattern parameter.",
		NotDecided:  "YAML scalars with escapes, multi-line or non-ASCII text (bytes vs columns); positions computed by go-yaml; the 1 <= line <= #lines bound",
		Assumptions: commonAssumptions,
	},
	{
		ID:          "C18",
		Rules:       []string{"C18.COLOUR", "C18.CYCLE", "C18.REPORT", "C02.MAP", "C02.SORT", "C08.KEYW", "C08.KEYR", "C18.ORDER"},
		Explanation: "Exactness over all graphs is a property of a graph algorithm; decided is the discipline the algorithm's correctness and termination rest on: (COLOUR) the depth-first search marks a node active before looking at neighbours, finishes it on every path that returns no cycle and never on a path that returns one, recurses only into neighbours whose status is new (so each node is visited at most once: termination), reports edge{current, neighbour} only for a neighbour that is active, propagates a deeper cycle, starts only at new nodes, considers all nodes, and nobody else writes the status; (CYCLE) the reconstruction follows active nodes only, records the edge before descending, never re-enters a node of the collected path (depth bounded by the number of nodes) and removes failed branches; (REPORT) a dangling reference is reported iff the lookup of the needs entry fails, at the referring job, edges are exactly the entries that exist, cycle detection is control-dependent on no reference dangling, runs once, and exactly one diagnostic is emitted iff a back edge was returned, reconstructed from that edge; (MAP/SORT shared with C02) the verdict and the printed cycle do not depend on map order; (KEYW/KEYR shared with C08) ids are compared lower-cased. (ORDER) search and reconstruction iterate <node>.resolved in stored order.",
		NotDecided:  "that the printed node sequence is a cycle of the graph for every graph and that the message loop terminates (these follow from the invariants above by an inductive argument that is not mechanised here); duplicate job ids",
		Assumptions: commonAssumptions,
	},
}
