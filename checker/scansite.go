package main

import (
	"golang.org/x/tools/go/ssa"
)

// parseSite: the place in the scan over the placeholders of a scalar (checkExprsIn) where one placeholder is parsed and
// checked. The parse may be done by a helper (checkSemantics on the recorded tree) or inline (the helper merged into its
// caller); the rules about the scan (C07.ACCUM, C11.SCAN, C04.ONE) talk about the roles, not about the helper.
type parseSite struct {
	call   *ssa.Call     // the helper call, or the (*ExprParser).Parse call when inline
	helper *ssa.Function // nil when inline
	text   ssa.Value     // the string the lexer is built from
	line   ssa.Value
	col    ssa.Value // the column the positions inside the placeholder are relative to
	// how the outcome is observed in the scanning function
	isOffset   func(v ssa.Value) bool // v is the number of bytes the lexer consumed
	isSemOK    func(v ssa.Value) bool // v is the "no diagnostic" flag of the placeholder (false also after a semantic error)
	isParseErr func(v ssa.Value) bool // v is non-nil / zero exactly when the placeholder could not be delimited
}

func reachesParse(p *Prog, f *ssa.Function, depth int) bool {
	if f == nil || f.Blocks == nil || depth > 2 {
		return false
	}
	if len(findCalls(f, "(*ExprParser).Parse")) > 0 {
		return true
	}
	found := false
	eachInstr(f, func(_ *ssa.BasicBlock, _ int, in ssa.Instruction) {
		if call, ok := in.(*ssa.Call); ok && !found {
			if g := staticCallee(&call.Call); g != nil && g != f && inPkgName(g) && reachesParse(p, g, depth+1) {
				found = true
			}
		}
	})
	return found
}

// parseSites of a function of RuleExpression.
func parseSites(p *Prog, fn *ssa.Function) []*parseSite {
	var out []*parseSite
	semFn := p.Method("RuleExpression", "checkSemanticsOfExprNode")
	// inline: Parse is called in fn itself
	for _, ci := range findCalls(fn, "(*ExprParser).Parse") {
		pc, ok := ci.(*ssa.Call)
		if !ok {
			continue
		}
		s := &parseSite{call: pc}
		// the lexer handed to Parse and the string it reads
		var lexer ssa.Value
		if len(pc.Call.Args) > 1 {
			lexer = pc.Call.Args[1]
			if mk, ok := lexer.(*ssa.Call); ok && len(mk.Call.Args) > 0 {
				if f := staticCallee(&mk.Call); f != nil && f.Name() == "NewExprLexer" {
					s.text = mk.Call.Args[0]
				}
			}
		}
		var semCall *ssa.Call
		if semFn != nil {
			for _, sc := range findCalls(fn, FuncName(semFn)) {
				if c2, ok := sc.(*ssa.Call); ok && len(c2.Call.Args) > 3 {
					if ex, ok := c2.Call.Args[1].(*ssa.Extract); ok && ex.Tuple == ssa.Value(pc) {
						semCall = c2
					}
				}
			}
		}
		if semCall != nil {
			s.line, s.col = semCall.Call.Args[2], semCall.Call.Args[3]
		}
		s.isOffset = func(v ssa.Value) bool {
			c2, ok := v.(*ssa.Call)
			if !ok || len(c2.Call.Args) == 0 {
				return false
			}
			f := staticCallee(&c2.Call)
			return f != nil && FuncName(f) == "(*ExprLexer).Offset" && c2.Call.Args[0] == lexer
		}
		s.isSemOK = func(v ssa.Value) bool {
			ex, ok := v.(*ssa.Extract)
			return ok && semCall != nil && ex.Tuple == ssa.Value(semCall) && ex.Index == 1
		}
		s.isParseErr = func(v ssa.Value) bool {
			ex, ok := v.(*ssa.Extract)
			return ok && ex.Tuple == ssa.Value(pc) && ex.Index == 1
		}
		out = append(out, s)
	}
	if len(out) > 0 {
		return out
	}
	// through a helper that parses
	eachInstr(fn, func(_ *ssa.BasicBlock, _ int, in ssa.Instruction) {
		call, ok := in.(*ssa.Call)
		if !ok {
			return
		}
		g := staticCallee(&call.Call)
		if g == nil || g == fn || !inPkgName(g) || g == semFn || !reachesParse(p, g, 0) {
			return
		}
		if len(findCalls(g, "(*ExprParser).Parse")) == 0 {
			return // the helper that parses itself, not a wrapper further out
		}
		s := &parseSite{call: call, helper: g}
		args := call.Call.Args
		// roles of the helper's parameters: by what the helper does with them
		ti, li, ci := -1, -1, -1
		eachInstr(g, func(_ *ssa.BasicBlock, _ int, in ssa.Instruction) {
			c2, ok := in.(*ssa.Call)
			if !ok {
				return
			}
			f := staticCallee(&c2.Call)
			if f == nil {
				return
			}
			if f.Name() == "NewExprLexer" && len(c2.Call.Args) > 0 {
				ti = paramIndexOf(g, c2.Call.Args[0])
			}
			if f == semFn && len(c2.Call.Args) > 3 {
				li, ci = paramIndexOf(g, c2.Call.Args[2]), paramIndexOf(g, c2.Call.Args[3])
			}
		})
		if ti >= 0 && ti < len(args) {
			s.text = args[ti]
		}
		if li >= 0 && li < len(args) {
			s.line = args[li]
		}
		if ci >= 0 && ci < len(args) {
			s.col = args[ci]
		}
		// roles of the results: by their types (ExprType, int, bool)
		res := g.Signature.Results()
		s.isOffset = func(v ssa.Value) bool {
			ex, ok := v.(*ssa.Extract)
			return ok && ex.Tuple == ssa.Value(call) && typeStr(res.At(ex.Index).Type()) == "int"
		}
		s.isSemOK = func(v ssa.Value) bool {
			ex, ok := v.(*ssa.Extract)
			return ok && ex.Tuple == ssa.Value(call) && typeStr(res.At(ex.Index).Type()) == "bool"
		}
		s.isParseErr = func(v ssa.Value) bool {
			// the type result is nil / the offset is 0 only when nothing could be parsed
			ex, ok := v.(*ssa.Extract)
			return ok && ex.Tuple == ssa.Value(call) && typeStr(res.At(ex.Index).Type()) != "bool"
		}
		out = append(out, s)
	})
	return out
}

func paramIndexOf(f *ssa.Function, v ssa.Value) int {
	for i, q := range f.Params {
		if ssa.Value(q) == v {
			return i
		}
	}
	return -1
}
