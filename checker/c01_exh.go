package main

import (
	"fmt"
	"go/ast"
	"go/constant"
	"go/token"
	"go/types"
	"regexp/syntax"
	"sort"
	"strings"

	"golang.org/x/tools/go/ssa"
)

// C01.EXH — every panic(...) call site of the package sits in the default clause of a switch that is
// exhaustive over the values that can reach it.
func init() {
	register(&Rule{ID: "C01.EXH", Min: 8, Doc: "every panic call is in the default clause of an exhaustive switch", Run: runC01Exh})
}

type panicSite struct {
	decl   *ast.FuncDecl
	call   *ast.CallExpr
	clause *ast.CaseClause
	sw     ast.Stmt // *ast.SwitchStmt or *ast.TypeSwitchStmt
}

func findPanics(p *Prog) []panicSite {
	var sites []panicSite
	info := p.info()
	p.FuncDecls(func(_ *ast.File, d *ast.FuncDecl) {
		var stack []ast.Node
		ast.Inspect(d.Body, func(n ast.Node) bool {
			if n == nil {
				stack = stack[:len(stack)-1]
				return true
			}
			stack = append(stack, n)
			call, ok := n.(*ast.CallExpr)
			if !ok {
				return true
			}
			id, ok := ast.Unparen(call.Fun).(*ast.Ident)
			if !ok {
				return true
			}
			if b, ok := info.Uses[id].(*types.Builtin); !ok || b.Name() != "panic" {
				return true
			}
			s := panicSite{decl: d, call: call}
			// innermost enclosing case clause and its switch; a function literal in between breaks the link
			for i := len(stack) - 2; i >= 0; i-- {
				if _, isLit := stack[i].(*ast.FuncLit); isLit {
					break
				}
				if cc, ok := stack[i].(*ast.CaseClause); ok {
					s.clause = cc
					if i >= 2 {
						switch sw := stack[i-2].(type) {
						case *ast.SwitchStmt:
							s.sw = sw
						case *ast.TypeSwitchStmt:
							s.sw = sw
						}
					}
					break
				}
			}
			sites = append(sites, s)
			return true
		})
	})
	return sites
}

// concreteImplementors: concrete types converted (MakeInterface) in the analysed packages to an
// interface that is, or implements, iface.
func concreteImplementors(p *Prog, iface *types.Interface) map[string]types.Type {
	out := map[string]types.Type{}
	scan := func(fn *ssa.Function) {
		eachInstr(fn, func(_ *ssa.BasicBlock, _ int, in ssa.Instruction) {
			mi, ok := in.(*ssa.MakeInterface)
			if !ok {
				return
			}
			t := mi.X.Type()
			j, ok := mi.Type().Underlying().(*types.Interface)
			if !ok {
				return
			}
			if !types.Implements(t, iface) {
				return
			}
			if !(types.Identical(j, iface) || types.Implements(mi.Type(), iface)) {
				return
			}
			out[typeStr(t)] = t
		})
	}
	for _, fn := range p.Funcs {
		scan(fn)
	}
	return out
}

func caseTypes(info *types.Info, body *ast.BlockStmt) (ts []types.Type, hasNil bool) {
	for _, s := range body.List {
		cc := s.(*ast.CaseClause)
		for _, e := range cc.List {
			tv := info.Types[e]
			if tv.IsNil() {
				hasNil = true
				continue
			}
			if tv.Type != nil {
				ts = append(ts, tv.Type)
			}
		}
	}
	return
}

func covered(t types.Type, cases []types.Type) bool {
	for _, c := range cases {
		if types.Identical(t, c) {
			return true
		}
		if ci, ok := c.Underlying().(*types.Interface); ok && types.Implements(t, ci) {
			return true
		}
	}
	return false
}

// jsonDynamicTypes are the dynamic types encoding/json stores into an interface value (frozen from
// the package documentation).
var jsonDynamicTypes = []string{"bool", "float64", "string", "[]any", "map[string]any"}

func runC01Exh(c *Ctx) {
	p := c.P
	info := p.info()
	occ := map[string]int{}
	for _, s := range findPanics(p) {
		name := DeclName(info, s.decl)
		occ[name]++
		construct := fmt.Sprintf("%s|panic#%d", name, occ[name])
		pos := s.call.Pos()
		if s.clause == nil || s.sw == nil {
			c.bad(construct, pos, "panic call is not inside a switch: it cannot be discharged by exhaustiveness")
			continue
		}
		if s.clause.List != nil {
			c.bad(construct, pos, "panic call is in a non-default case clause")
			continue
		}
		switch sw := s.sw.(type) {
		case *ast.TypeSwitchStmt:
			var x ast.Expr
			switch a := sw.Assign.(type) {
			case *ast.AssignStmt:
				x = a.Rhs[0].(*ast.TypeAssertExpr).X
			case *ast.ExprStmt:
				x = a.X.(*ast.TypeAssertExpr).X
			}
			st := info.TypeOf(x)
			iface, ok := st.Underlying().(*types.Interface)
			if !ok {
				c.undecided(construct, pos, "type switch operand is not an interface")
				continue
			}
			cases, hasNil := caseTypes(info, sw.Body)
			if iface.NumMethods() == 0 {
				// switch over `any`: must list the json dynamic types, and the function may only be fed by json.Unmarshal
				have := map[string]bool{}
				for _, t := range cases {
					have[types.TypeString(t, nil)] = true
				}
				var missing []string
				for _, w := range jsonDynamicTypes {
					alt := strings.ReplaceAll(w, "any", "interface{}")
					if !have[w] && !have[alt] {
						missing = append(missing, w)
					}
				}
				if !hasNil {
					missing = append(missing, "nil")
				}
				if len(missing) > 0 {
					c.bad(construct, pos, "type switch over `any` fed by encoding/json lacks cases for "+strings.Join(missing, ", "))
					continue
				}
				if why := onlyFedByJSON(p, s.decl); why != "" {
					c.bad(construct, pos, why)
					continue
				}
				c.ok(construct, pos, "type switch lists all six dynamic types produced by encoding/json and the function is only fed by json.Unmarshal results")
				continue
			}
			req := concreteImplementors(p, iface)
			var missing []string
			for k, t := range req {
				if !covered(t, cases) {
					missing = append(missing, k)
				}
			}
			sort.Strings(missing)
			if len(missing) > 0 {
				c.bad(construct, pos, fmt.Sprintf("type switch over %s reaches panic for concrete type(s) %s that are converted to it in the package", typeStr(st), strings.Join(missing, ", ")))
				continue
			}
			if len(req) == 0 {
				c.undecided(construct, pos, "no concrete implementor of "+typeStr(st)+" found: vacuous")
				continue
			}
			c.ok(construct, pos, fmt.Sprintf("type switch over %s covers all %d concrete types converted to it: %s", typeStr(st), len(req), strings.Join(sortedKeys(req), ", ")))
		case *ast.SwitchStmt:
			if sw.Tag == nil {
				c.bad(construct, pos, "panic in default of a tagless switch: not an exhaustiveness argument")
				continue
			}
			tt := info.TypeOf(sw.Tag)
			if named, ok := tt.(*types.Named); ok {
				if b, ok := named.Underlying().(*types.Basic); ok && b.Info()&types.IsInteger != 0 {
					c.checkConstSwitch(construct, pos, sw, named)
					continue
				}
			}
			if b, ok := tt.Underlying().(*types.Basic); ok && b.Kind() == types.String {
				c.checkRegexpSwitch(construct, pos, s.decl, sw)
				continue
			}
			c.undecided(construct, pos, "switch over "+typeStr(tt)+": no exhaustiveness argument known")
		}
	}
}

// checkConstSwitch: the case constants cover every constant of the named integer type declared in its package.
func (c *Ctx) checkConstSwitch(construct string, pos token.Pos, sw *ast.SwitchStmt, named *types.Named) {
	info := c.P.info()
	have := map[string]bool{}
	for _, s := range sw.Body.List {
		for _, e := range s.(*ast.CaseClause).List {
			if tv := info.Types[e]; tv.Value != nil {
				have[tv.Value.ExactString()] = true
			}
		}
	}
	scope := named.Obj().Pkg().Scope()
	var missing []string
	n := 0
	for _, name := range scope.Names() {
		cn, ok := scope.Lookup(name).(*types.Const)
		if !ok || !types.Identical(cn.Type(), named) {
			continue
		}
		n++
		if !have[cn.Val().ExactString()] {
			missing = append(missing, name)
		}
	}
	if len(missing) > 0 {
		c.bad(construct, pos, fmt.Sprintf("switch over %s reaches panic for constant(s) %s", typeStr(named), strings.Join(missing, ", ")))
		return
	}
	if n == 0 {
		c.undecided(construct, pos, "no constants of type "+typeStr(named))
		return
	}
	c.ok(construct, pos, fmt.Sprintf("switch lists all %d constants of %s", n, typeStr(named)))
}

// checkRegexpSwitch: the switched string comes from submatches of a constant pattern; the cases must
// list every literal alternative of its capture groups.
func (c *Ctx) checkRegexpSwitch(construct string, pos token.Pos, d *ast.FuncDecl, sw *ast.SwitchStmt) {
	info := c.P.info()
	// find X.FindAllStringSubmatch / FindStringSubmatch in the function where X is a package-level regexp
	var pattern string
	found := false
	ast.Inspect(d.Body, func(n ast.Node) bool {
		call, ok := n.(*ast.CallExpr)
		if !ok {
			return true
		}
		sel, ok := call.Fun.(*ast.SelectorExpr)
		if !ok || !strings.Contains(sel.Sel.Name, "Submatch") {
			return true
		}
		id, ok := sel.X.(*ast.Ident)
		if !ok {
			return true
		}
		v, ok := info.Uses[id].(*types.Var)
		if !ok || v.Parent() != c.P.Main.Types.Scope() {
			return true
		}
		if pat, ok := c.P.globalRegexpPattern(v); ok {
			pattern, found = pat, true
		}
		return true
	})
	if !found {
		c.undecided(construct, pos, "string switch with panic default: cannot find the constant regexp feeding it")
		return
	}
	re, err := syntax.Parse(pattern, syntax.Perl)
	if err != nil {
		c.undecided(construct, pos, "cannot parse pattern: "+err.Error())
		return
	}
	alts := map[string]bool{}
	okAll := true
	var walk func(r *syntax.Regexp)
	var lits func(r *syntax.Regexp) bool
	lits = func(r *syntax.Regexp) bool {
		if r.Flags&syntax.FoldCase != 0 {
			return false // case-insensitive literal: not a finite set of spellings
		}
		switch r.Op {
		case syntax.OpLiteral:
			alts[string(r.Rune)] = true
			return true
		case syntax.OpAlternate:
			for _, s := range r.Sub {
				if !lits(s) {
					return false
				}
			}
			return true
		case syntax.OpConcat:
			// alternation factored by the parser (common prefix): expand
			var exp func(i int, pre string) bool
			exp = func(i int, pre string) bool {
				if i == len(r.Sub) {
					alts[pre] = true
					return true
				}
				s := r.Sub[i]
				switch s.Op {
				case syntax.OpLiteral:
					return exp(i+1, pre+string(s.Rune))
				case syntax.OpAlternate:
					for _, a := range s.Sub {
						tmp := map[string]bool{}
						save := alts
						alts = tmp
						ok := lits(a)
						alts = save
						if !ok {
							return false
						}
						for k := range tmp {
							if !exp(i+1, pre+k) {
								return false
							}
						}
					}
					return true
				case syntax.OpCharClass:
					// small classes only
					if len(s.Rune) > 16 {
						return false
					}
					for j := 0; j+1 < len(s.Rune); j += 2 {
						if s.Rune[j+1]-s.Rune[j] > 8 {
							return false
						}
						for ch := s.Rune[j]; ch <= s.Rune[j+1]; ch++ {
							if !exp(i+1, pre+string(ch)) {
								return false
							}
						}
					}
					return true
				}
				return false
			}
			return exp(0, "")
		}
		return false
	}
	walk = func(r *syntax.Regexp) {
		if r.Op == syntax.OpCapture {
			if !lits(r.Sub[0]) {
				okAll = false
			}
			return
		}
		for _, s := range r.Sub {
			walk(s)
		}
	}
	walk(re)
	if !okAll || len(alts) == 0 {
		c.undecided(construct, pos, "capture groups of the pattern are not plain alternations of literals")
		return
	}
	have := map[string]bool{}
	for _, s := range sw.Body.List {
		for _, e := range s.(*ast.CaseClause).List {
			if tv := info.Types[e]; tv.Value != nil && tv.Value.Kind() == constant.String {
				have[constant.StringVal(tv.Value)] = true
			}
		}
	}
	var missing []string
	for a := range alts {
		if !have[a] {
			missing = append(missing, a)
		}
	}
	sort.Strings(missing)
	if len(missing) > 0 {
		c.bad(construct, pos, "string switch reaches panic for submatch alternative(s) "+strings.Join(missing, ", "))
		return
	}
	c.ok(construct, pos, fmt.Sprintf("string switch lists all %d literal alternatives of the pattern's capture groups", len(alts)))
}

// globalRegexpPattern returns the constant pattern of `var v = regexp.MustCompile("...")`.
func (p *Prog) globalRegexpPattern(v *types.Var) (string, bool) {
	info := p.info()
	for _, f := range p.Main.Syntax {
		for _, d := range f.Decls {
			gd, ok := d.(*ast.GenDecl)
			if !ok || gd.Tok != token.VAR {
				continue
			}
			for _, sp := range gd.Specs {
				vs := sp.(*ast.ValueSpec)
				for i, n := range vs.Names {
					if info.Defs[n] != v || i >= len(vs.Values) {
						continue
					}
					call, ok := vs.Values[i].(*ast.CallExpr)
					if !ok || len(call.Args) != 1 {
						return "", false
					}
					if fn := calleeObj(info, call); fn == nil || fn.FullName() != "regexp.MustCompile" {
						return "", false
					}
					tv := info.Types[call.Args[0]]
					if tv.Value == nil || tv.Value.Kind() != constant.String {
						return "", false
					}
					return constant.StringVal(tv.Value), true
				}
			}
		}
	}
	return "", false
}

// onlyFedByJSON: every call of the function passes either an element of its own parameter (recursion)
// or a value loaded from a variable whose address was given to encoding/json.Unmarshal.
func onlyFedByJSON(p *Prog, d *ast.FuncDecl) string {
	fn := p.declFunc(d)
	if fn == nil {
		return "cannot find SSA function"
	}
	for _, e := range p.callersOf(fn) {
		site := e.Site
		if site == nil {
			return "called indirectly"
		}
		args := site.Common().Args
		if len(args) == 0 {
			return "no argument"
		}
		a := unwrap(args[0])
		caller := e.Caller.Func
		if caller == fn || (caller.Parent() == fn) {
			continue // recursion on sub-elements
		}
		if onlyCalledWithin(p, caller, fn) {
			continue // a part of the function moved into a helper that nothing else calls: recursion through the helper
		}
		load, ok := a.(*ssa.UnOp)
		if !ok || load.Op != token.MUL {
			return fmt.Sprintf("%s passes a value that is not loaded from a json.Unmarshal target", FuncName(caller))
		}
		fed := false
		for _, ref := range *load.X.Referrers() {
			mi, ok := ref.(*ssa.MakeInterface)
			if !ok {
				continue
			}
			for _, r2 := range *mi.Referrers() {
				if call, ok := r2.(ssa.CallInstruction); ok && calleeFullName(call.Common()) == "encoding/json.Unmarshal" {
					fed = true
				}
			}
		}
		if !fed {
			return fmt.Sprintf("%s passes a variable that is not a json.Unmarshal target", FuncName(caller))
		}
	}
	return ""
}

// onlyCalledWithin: g is a function of the module that is called (transitively) only from fn: every caller of g is fn, g
// itself, or a function for which the same holds. Such a function has no data of its own: what it passes back to fn it got
// from fn.
func onlyCalledWithin(p *Prog, g, fn *ssa.Function) bool {
	in := map[*ssa.Function]bool{}
	var collect func(h *ssa.Function, depth int) bool
	collect = func(h *ssa.Function, depth int) bool {
		if h == fn || in[h] {
			return true
		}
		if !inModule(h) || depth > 3 {
			return false
		}
		in[h] = true
		callers := p.callersOf(h)
		if len(callers) == 0 {
			return false
		}
		for _, e := range callers {
			if e.Site == nil || !collect(e.Caller.Func, depth+1) {
				return false
			}
		}
		return true
	}
	return collect(g, 0)
}

func (p *Prog) declFunc(d *ast.FuncDecl) *ssa.Function {
	return p.funcOfDecl[d]
}
