package main

import (
	"fmt"
	"go/types"
	"strings"

	"golang.org/x/tools/go/ssa"
)

func init() {
	register(&Rule{ID: "C02.SORT", Min: 2, Doc: "diagnostics of a file are stably sorted before being returned; no unstable sort of diagnostics anywhere", Run: runC02Sort})
	register(&Rule{ID: "C02.GO", Min: 3, Doc: "goroutines of a multi-file run write only their own slot and never the output; printing happens after all of them finished", Run: runC02Go})
}

func isErrorSliceType(t types.Type) bool {
	s := typeStr(t)
	return s == "ByErrorPosition" || s == "[]*Error"
}

func runC02Sort(c *Ctx) {
	p := c.P
	check := p.Method("Linter", "check")
	if check == nil {
		c.anchorMissing("(*Linter).check")
		return
	}
	// stable sorts of the diagnostics in check
	var sorts []*ssa.Call
	var sorted []ssa.Value
	eachInstr(check, func(_ *ssa.BasicBlock, _ int, in ssa.Instruction) {
		call, ok := in.(*ssa.Call)
		if !ok || calleeFullName(&call.Call) != "sort.Stable" {
			return
		}
		x := unwrap(call.Call.Args[0])
		if isErrorSliceType(call.Call.Args[0].(*ssa.MakeInterface).X.Type()) {
			sorts = append(sorts, call)
			sorted = append(sorted, x)
		}
	})
	if len(sorts) == 0 {
		c.bad("(*Linter).check|stable sort of diagnostics", check.Pos(), "no sort.Stable(ByErrorPosition(...)) call: diagnostics are returned in rule order")
	}
	for _, b := range check.Blocks {
		if len(b.Instrs) == 0 {
			continue
		}
		ret, ok := b.Instrs[len(b.Instrs)-1].(*ssa.Return)
		if !ok || len(ret.Results) == 0 {
			continue
		}
		construct := fmt.Sprintf("(*Linter).check|return at line %s", "")
		construct = "(*Linter).check|return of diagnostics"
		if isNilConst(ret.Results[0]) {
			continue // the constant nil holds no diagnostics: nothing to decide
		}
		good := false
		for i, s := range sorts {
			if instrDominates(s.Block(), instrIndex(s), b, len(b.Instrs)-1) && unwrap(ret.Results[0]) == sorted[i] {
				good = true
			}
		}
		if good {
			c.ok(construct, ret.Pos(), "the returned slice is the one passed to sort.Stable(ByErrorPosition) which dominates the return")
		} else {
			c.bad(construct, ret.Pos(), "a slice of diagnostics is returned that was not stably sorted (or was extended after the sort)")
		}
	}
	// no unstable sort of diagnostics anywhere
	n, unstable := 0, 0
	for _, fn := range p.Funcs {
		eachInstr(fn, func(_ *ssa.BasicBlock, _ int, in ssa.Instruction) {
			call, ok := in.(ssa.CallInstruction)
			if !ok {
				return
			}
			name := calleeFullName(call.Common())
			if !sorters[name] {
				return
			}
			n++
			if name == "sort.Stable" || name == "sort.SliceStable" || name == "slices.SortStableFunc" {
				return
			}
			a := call.Common().Args[0]
			t := a.Type()
			if mi, ok := a.(*ssa.MakeInterface); ok {
				t = mi.X.Type()
			}
			if isErrorSliceType(t) || strings.Contains(typeStr(t), "*Error") {
				unstable++
				c.bad(FuncName(fn)+"|"+name+" of diagnostics", call.Pos(), "unstable sort applied to diagnostics: ties at one position get an arbitrary order")
			}
		})
	}
	if unstable == 0 {
		c.ok("package|sort calls", 0, fmt.Sprintf("%d sorting calls examined, none is an unstable sort of diagnostics", n))
	}
}

func runC02Go(c *Ctx) {
	p := c.P
	own := p.Own()
	lf := p.Method("Linter", "LintFiles")
	if lf == nil {
		c.anchorMissing("(*Linter).LintFiles")
		return
	}
	var waits []ssa.Instruction
	type goSite struct {
		call ssa.CallInstruction
		cl   *ssa.Function
		mc   *ssa.MakeClosure
	}
	var gos []goSite
	eachInstr(lf, func(_ *ssa.BasicBlock, _ int, in ssa.Instruction) {
		call, ok := in.(ssa.CallInstruction)
		if !ok {
			return
		}
		switch calleeFullName(call.Common()) {
		case "(*golang.org/x/sync/errgroup.Group).Wait":
			waits = append(waits, call)
		case "(*golang.org/x/sync/errgroup.Group).Go":
			if mc, ok := call.Common().Args[1].(*ssa.MakeClosure); ok {
				gos = append(gos, goSite{call, mc.Fn.(*ssa.Function), mc})
			} else {
				c.undecided("(*Linter).LintFiles|eg.Go argument", call.Pos(), "the goroutine body is not a function literal")
			}
		}
	})
	if len(gos) == 0 || len(waits) == 0 {
		c.anchorMissing("errgroup Go/Wait in (*Linter).LintFiles")
		return
	}
	for i, g := range gos {
		construct := fmt.Sprintf("(*Linter).LintFiles|goroutine#%d", i+1)
		// (a) no output from the goroutine
		if len(own.out[g.cl]) > 0 {
			c.bad(construct+" output", g.call.Pos(), "the goroutine body (transitively) writes to an output stream "+own.out[g.cl].String()+": output order would follow goroutine scheduling")
		} else {
			c.ok(construct+" output", g.call.Pos(), "nothing reachable from the goroutine body writes to an io.Writer other than log primitives")
		}
		// (b) direct writes of the closure go through a per-iteration binding
		bad := ""
		eachInstr(g.cl, func(_ *ssa.BasicBlock, _ int, in ssa.Instruction) {
			var addr ssa.Value
			switch x := in.(type) {
			case *ssa.Store:
				if _, isAlloc := x.Addr.(*ssa.Alloc); isAlloc {
					return
				}
				addr = x.Addr
			case *ssa.MapUpdate:
				addr = x.Map
			default:
				return
			}
			for r := range own.roots(g.cl, addr, modeAlias) {
				switch r.K {
				case RFresh:
				case RFreeVar:
					b := g.mc.Bindings[r.I]
					// the binding must be created inside the loop that starts the goroutines (per file)
					bi, ok := b.(ssa.Instruction)
					if !ok || !blockInLoopWith(bi.Block(), g.call.Block()) {
						bad = fmt.Sprintf("write at %s goes through captured variable %s which is shared by all goroutines", p.Pos(in.Pos()), g.cl.FreeVars[r.I].Name())
					}
				default:
					bad = fmt.Sprintf("write at %s goes to %s", p.Pos(in.Pos()), r)
				}
			}
		})
		if bad != "" {
			c.bad(construct+" writes", g.call.Pos(), bad)
		} else {
			c.ok(construct+" writes", g.call.Pos(), "every direct write of the goroutine body goes through a variable created per file")
		}
	}
	// (c) output in LintFiles happens after eg.Wait()
	nout := 0
	eachInstr(lf, func(b *ssa.BasicBlock, idx int, in ssa.Instruction) {
		call, ok := in.(ssa.CallInstruction)
		if !ok {
			return
		}
		writes := false
		for _, g := range p.calleesOf(call) {
			if _, ok := ioExtern[externName(call.Common(), g)]; ok {
				writes = true
			}
			if len(own.out[g]) > 0 {
				writes = true
			}
		}
		if !writes {
			return
		}
		nout++
		// only output that can happen after a goroutine was started matters
		after := false
		for _, g := range gos {
			gb := g.call.Block()
			if gb == b && instrIndex(g.call) < idx {
				after = true
			}
			if reachableBlocks([]*ssa.BasicBlock{gb}, nil)[b] {
				after = true
			}
		}
		if !after {
			c.ok(fmt.Sprintf("(*Linter).LintFiles|output call %s", calleeFullName(call.Common())), call.Pos(), "not reachable from the start of any goroutine")
			return
		}
		dom := false
		for _, w := range waits {
			if instrDominates(w.Block(), instrIndex(w), b, idx) {
				dom = true
			}
		}
		construct := fmt.Sprintf("(*Linter).LintFiles|output call %s", calleeFullName(call.Common()))
		if dom {
			c.ok(construct, call.Pos(), "dominated by eg.Wait()")
		} else {
			c.bad(construct, call.Pos(), "output is written before all goroutines have finished")
		}
	})
	if nout == 0 {
		c.undecided("(*Linter).LintFiles|output", lf.Pos(), "no output call found")
	}
}

// blockInLoopWith: b and anchor are in a common cycle of the CFG (both inside the same loop body).
func blockInLoopWith(b, anchor *ssa.BasicBlock) bool {
	if b == anchor {
		return true
	}
	fromB := reachableBlocks([]*ssa.BasicBlock{b}, nil)
	fromA := reachableBlocks([]*ssa.BasicBlock{anchor}, nil)
	return fromB[anchor] && fromA[b]
}

// C02.FIRST — a shared, lock-protected cache method that reports an error to the first caller only
// (it records the key so later callers take the hit path) makes the reporter of that error depend on
// which goroutine arrives first.
func init() {
	register(&Rule{ID: "C02.FIRST", Min: 2, Doc: "no error is delivered only to the first caller of a cache shared by concurrently linted files", Run: runC02First})
}

func hasMutexField(t types.Type) bool {
	n := namedOf(t)
	if n == nil {
		return false
	}
	st, ok := n.Underlying().(*types.Struct)
	if !ok {
		return false
	}
	for i := 0; i < st.NumFields(); i++ {
		s := types.TypeString(st.Field(i).Type(), nil)
		if s == "sync.Mutex" || s == "sync.RWMutex" {
			return true
		}
	}
	return false
}

func runC02First(c *Ctx) {
	p := c.P
	// concurrent region: everything reachable from closures passed to errgroup.Go in LintFiles
	lf := p.Method("Linter", "LintFiles")
	if lf == nil {
		c.anchorMissing("(*Linter).LintFiles")
		return
	}
	var roots []*ssa.Function
	eachInstr(lf, func(_ *ssa.BasicBlock, _ int, in ssa.Instruction) {
		if call, ok := in.(ssa.CallInstruction); ok && calleeFullName(call.Common()) == "(*golang.org/x/sync/errgroup.Group).Go" {
			if mc, ok := call.Common().Args[1].(*ssa.MakeClosure); ok {
				roots = append(roots, mc.Fn.(*ssa.Function))
			}
		}
	})
	conc := p.reachable(roots...)
	for _, fn := range p.Funcs {
		recv := fn.Signature.Recv()
		if recv == nil || !hasMutexField(recv.Type()) || !conc[fn] || fn.Parent() != nil {
			continue
		}
		res := fn.Signature.Results()
		if res.Len() == 0 || types.TypeString(res.At(res.Len()-1).Type(), nil) != "error" {
			continue
		}
		// calls in fn that write a map field of the receiver (directly or through a callee on the same receiver)
		var writes []ssa.Instruction
		eachInstr(fn, func(_ *ssa.BasicBlock, _ int, in ssa.Instruction) {
			switch x := in.(type) {
			case *ssa.MapUpdate:
				if ld, ok := x.Map.(*ssa.UnOp); ok {
					if fa, ok := ld.X.(*ssa.FieldAddr); ok && fa.X == fn.Params[0] {
						writes = append(writes, x)
					}
				}
			case ssa.CallInstruction:
				g := staticCallee(x.Common())
				if g == nil || len(x.Common().Args) == 0 || x.Common().Args[0] != fn.Params[0] || g.Blocks == nil {
					return
				}
				wr := false
				eachInstr(g, func(_ *ssa.BasicBlock, _ int, in2 ssa.Instruction) {
					if mu, ok := in2.(*ssa.MapUpdate); ok {
						if ld, ok := mu.Map.(*ssa.UnOp); ok {
							if fa, ok := ld.X.(*ssa.FieldAddr); ok && len(g.Params) > 0 && fa.X == g.Params[0] {
								wr = true
							}
						}
					}
				})
				if wr {
					writes = append(writes, x)
				}
			}
		})
		n := 0
		for _, b := range fn.Blocks {
			if len(b.Instrs) == 0 {
				continue
			}
			ret, ok := b.Instrs[len(b.Instrs)-1].(*ssa.Return)
			if !ok {
				continue
			}
			e := ret.Results[len(ret.Results)-1]
			if isNilConst(e) {
				continue
			}
			for _, w := range writes {
				if instrDominates(w.Block(), instrIndex(w), b, len(b.Instrs)-1) {
					n++
				}
			}
		}
		construct := FuncName(fn) + "|error to first caller only"
		if n > 0 {
			c.bad(construct, fn.Pos(), fmt.Sprintf("%d error return(s) are preceded by recording the key in the shared cache: later callers take the cache-hit path and get no error, so which of the concurrently linted files reports it depends on goroutine scheduling", n))
		} else {
			c.ok(construct, fn.Pos(), "no error return is preceded by a write to the shared cache")
		}
	}
}
