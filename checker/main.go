// verifchk: repository-specific static analyses deciding structural clauses of the actionlint
// properties C01..C20. See /verif/DESIGN.md.
package main

import (
	"encoding/json"
	"flag"
	"fmt"
	"os"
	"path/filepath"
	"runtime/debug"
	"sort"
	"strconv"
	"strings"
	"sync"
	"time"
)

var rules = map[string]*Rule{}

func register(r *Rule) {
	if _, dup := rules[r.ID]; dup {
		panic("duplicate rule " + r.ID)
	}
	rules[r.ID] = r
}

type options struct {
	prop, tier, repo, verif, only, replay string
	noFixture, list, dump, noEvidence     bool
	genSymbols                            bool
	expect                                string
}

func main() {
	var o options
	flag.StringVar(&o.prop, "prop", "", "property id (C01..C20)")
	flag.StringVar(&o.tier, "tier", "quick", "quick|thorough")
	flag.StringVar(&o.repo, "repo", "/repo", "repository working tree to analyse")
	flag.StringVar(&o.verif, "verif", "/verif", "verification directory")
	flag.StringVar(&o.only, "rules", "", "comma separated rule ids (overrides the property's rule list)")
	flag.StringVar(&o.replay, "replay", "", "replay file of a reported violation")
	flag.StringVar(&o.expect, "expect", "", "witness mode: rule|construct-substring that must be reported as violation")
	flag.BoolVar(&o.noFixture, "nofixture", false, "skip fixture self-test")
	flag.BoolVar(&o.list, "list", false, "list properties and rules")
	flag.BoolVar(&o.dump, "dump", false, "print every obligation")
	flag.BoolVar(&o.genSymbols, "gen-symbols", false, "write checker/symbols.json (the index used to re-identify renamed functions and fields) from the tree at -repo and exit")
	flag.BoolVar(&o.noEvidence, "noevidence", false, "do not write the evidence file (used when analysing a modified tree)")
	flag.Parse()
	if env := os.Getenv("VERIF_TIER"); env != "" && !isFlagSet("tier") {
		o.tier = env
	}
	if o.list {
		for _, ps := range propSpecs {
			fmt.Printf("%s: %s\n", ps.ID, strings.Join(ps.Rules, " "))
		}
		return
	}
	code := run(o)
	os.Exit(code)
}

func isFlagSet(name string) bool {
	set := false
	flag.Visit(func(f *flag.Flag) {
		if f.Name == name {
			set = true
		}
	})
	return set
}

var ruleMu sync.Mutex

type runResult struct {
	obs   []*Ob
	prog  *Prog
	err   error
	panic string
}

func runRules(p *Prog, ids []string, rev *Reviewed) (res runResult) {
	res.prog = p
	for _, id := range ids {
		r := rules[id]
		if r == nil {
			res.err = fmt.Errorf("unknown rule %s", id)
			return
		}
		c := &Ctx{P: p, rule: r, rev: rev, memo: map[string]interface{}{}}
		func() {
			defer func() {
				if e := recover(); e != nil {
					res.panic = fmt.Sprintf("rule %s panicked: %v\n%s", id, e, debug.Stack())
				}
			}()
			// some engines keep the program they work on in a package variable (idxProg): rules of the real tree and of the
			// fixture tree, which are loaded in parallel, must not run at the same time
			ruleMu.Lock()
			defer ruleMu.Unlock()
			idxProg = c.P
			r.Run(c)
		}()
		if res.panic != "" {
			return
		}
		res.obs = append(res.obs, c.Obs...)
	}
	return
}

func fixturePath(o options) (string, []byte) {
	src := filepath.Join(o.verif, "checker", "fixtures", "fixture.go.txt")
	b, err := os.ReadFile(src)
	if err != nil {
		return "", nil
	}
	return filepath.Join(o.repo, "zz_verifchk_fixture.go"), b
}

func run(o options) int {
	start := time.Now()
	if o.genSymbols {
		p, err := Load(LoadOpts{Dir: o.repo})
		if err != nil {
			fmt.Fprintln(os.Stderr, err)
			return 2
		}
		out := filepath.Join(o.verif, "checker", "symbols.json")
		if err := writeSymbols(p, out); err != nil {
			fmt.Fprintln(os.Stderr, err)
			return 2
		}
		fmt.Println("wrote", out)
		return 0
	}
	seed := 0
	if s := os.Getenv("VERIF_SEED"); s != "" {
		seed, _ = strconv.Atoi(s)
	}
	var ps *PropSpec
	for i := range propSpecs {
		if propSpecs[i].ID == o.prop {
			ps = &propSpecs[i]
		}
	}
	if ps == nil {
		fmt.Fprintf(os.Stderr, "unknown property %q\n", o.prop)
		return 2
	}
	ruleIDs := ps.Rules
	if o.only != "" {
		ruleIDs = strings.Split(o.only, ",")
	}
	if o.replay != "" {
		var rp struct {
			Rule      string `json:"rule"`
			Construct string `json:"construct"`
		}
		b, err := os.ReadFile(o.replay)
		if err != nil || json.Unmarshal(b, &rp) != nil || rp.Rule == "" {
			fmt.Fprintf(os.Stderr, "cannot read replay file %s\n", o.replay)
			return 2
		}
		ruleIDs = []string{rp.Rule}
		o.expect = rp.Rule + "|" + rp.Construct
		o.noFixture = true
	}

	fail := func(reason string) int {
		// Anything that prevents the analysis is a failed check, never a silent pass.
		replay := writeReplay(o, ps.ID, 0, &Ob{Rule: "LOAD", Construct: "analysis", Verdict: UNDECIDED, Detail: reason})
		fmt.Printf("checker failure: %s\n", reason)
		fmt.Printf("VIOLATION property=%s replay=%s reason=undecided\n", ps.ID, replay)
		writeEvidence(o, ps, seed, start, nil, nil, nil, 1, []string{"analysis failed: " + reason}, nil)
		return 1
	}

	rev, err := loadReviewed(filepath.Join(o.verif, "reviewed.json"))
	if err != nil {
		return fail(err.Error())
	}
	known, err := loadKnown(filepath.Join(o.verif, "known_findings.json"))
	if err != nil {
		return fail(err.Error())
	}

	// Load the real tree and, in parallel, the tree plus the positive fixture (self-test of the rules).
	realCh := make(chan runResult, 1)
	fixCh := make(chan runResult, 1)
	go func() {
		p, err := Load(LoadOpts{Dir: o.repo, Verif: o.verif})
		if err != nil {
			realCh <- runResult{err: err}
			return
		}
		realCh <- runRules(p, ruleIDs, rev)
	}()
	fxPath, fxSrc := fixturePath(o)
	doFixture := !o.noFixture && fxSrc != nil
	if doFixture {
		go func() {
			p, err := Load(LoadOpts{Dir: o.repo, Overlay: map[string][]byte{fxPath: fxSrc}, Fixture: fxPath, Verif: o.verif})
			if err != nil {
				fixCh <- runResult{err: err}
				return
			}
			fixCh <- runRules(p, ruleIDs, nil)
		}()
	}
	real := <-realCh
	if real.err != nil {
		return fail(real.err.Error())
	}
	if real.panic != "" {
		return fail(real.panic)
	}
	obs := real.obs
	sortObs(obs)

	// Witness / replay mode: the named construct must be reported.
	if o.expect != "" {
		parts := strings.SplitN(o.expect, "|", 2)
		hit := false
		for _, ob := range obs {
			if ob.Rule == parts[0] && ob.Verdict != OK && (len(parts) < 2 || strings.Contains(ob.Construct, parts[1])) {
				hit = true
				fmt.Printf("REPORTED %s %s at %s: %s\n", ob.Rule, ob.Construct, ob.Pos, ob.Detail)
			}
		}
		if hit {
			return 1
		}
		fmt.Printf("NOT-REPORTED %s\n", o.expect)
		return 0
	}

	// Fixture self-test.
	var selftest map[string]interface{}
	var selfFail []string
	if doFixture {
		fx := <-fixCh
		selftest, selfFail = evalFixture(fx, fxSrc, ruleIDs)
		if os.Getenv("VERIFCHK_FIXTURE_DEBUG") == "funcs" && fx.prog != nil {
			for _, f := range fx.prog.Funcs {
				if strings.Contains(f.String(), "zzFixture") {
					fmt.Println("  fixture func:", f.String())
				}
			}
		}
		if os.Getenv("VERIFCHK_FIXTURE_DEBUG") != "" {
			for _, ob := range fx.obs {
				if ob.fixture {
					fmt.Printf("  fixture: [%s] %s %s @%s %s\n", ob.Verdict, ob.Rule, ob.Construct, ob.Pos, ob.Detail)
				}
			}
		}
	}

	// Vacuity: each rule must have seen at least the number of instances confirmed by hand.
	stats := map[string]*RuleStat{}
	for _, id := range ruleIDs {
		r := rules[id]
		stats[id] = &RuleStat{Rule: id, Doc: r.Doc, MinExpected: r.Min}
	}
	var viol []*Ob
	var knownHit []string
	for _, ob := range obs {
		st := stats[ob.Rule]
		st.Obligations++
		switch ob.Verdict {
		case OK:
			st.Discharged++
			if ob.Reviewed != "" {
				st.Reviewed++
			}
		case VIOLATION, UNDECIDED:
			if ob.Verdict == UNDECIDED {
				st.Undecided++
			} else {
				st.Violations++
			}
			if e := known.match(ps.ID, ob); e != nil && ob.Verdict == VIOLATION {
				knownHit = append(knownHit, fmt.Sprintf("KNOWN-FINDING: property=%s %s %s at %s: %s", ps.ID, ob.Rule, ob.Construct, ob.Pos, e.What))
				continue
			}
			viol = append(viol, ob)
		}
	}
	for _, id := range ruleIDs {
		st := stats[id]
		if st.Obligations < st.MinExpected {
			viol = append(viol, &Ob{Rule: id, Construct: "vacuity", Pos: "-", Verdict: UNDECIDED,
				Detail: fmt.Sprintf("rule matched %d instances, fewer than the %d confirmed by hand: its anchors no longer match the code", st.Obligations, st.MinExpected)})
		}
	}
	for _, f := range selfFail {
		viol = append(viol, &Ob{Rule: "SELFTEST", Construct: f, Pos: "-", Verdict: UNDECIDED, Detail: "a rule did not fire on its positive fixture: insensitive rule"})
	}
	// Unused reviewed exceptions are reported (informational) so the table does not rot.
	var unusedRev []string
	for _, e := range rev.Entries {
		for _, id := range ruleIDs {
			if e.Rule == id && !e.used {
				unusedRev = append(unusedRev, e.Rule+"|"+e.Construct)
			}
		}
	}

	// Output.
	ids := append([]string(nil), ruleIDs...)
	sort.Strings(ids)
	fmt.Printf("property %s tier=%s repo=%s: %d packages, %d functions, %d SSA instructions\n", ps.ID, o.tier, o.repo, real.prog.AllPkgs, len(real.prog.Funcs), real.prog.nInstr)
	for _, id := range ids {
		st := stats[id]
		fmt.Printf("  %-12s obligations=%-4d discharged=%-4d reviewed=%-2d violations=%d undecided=%d (min %d)\n", id, st.Obligations, st.Discharged, st.Reviewed, st.Violations, st.Undecided, st.MinExpected)
	}
	if o.dump {
		for _, ob := range obs {
			fmt.Printf("    [%s] %s %s @%s %s\n", ob.Verdict, ob.Rule, ob.Construct, ob.Pos, ob.Detail)
		}
	}
	for _, k := range knownHit {
		fmt.Println(k)
	}
	var extra map[string]interface{}
	if o.tier == "thorough" {
		var tv []*Ob
		extra, tv = thorough(o, ps, ruleIDs, rev, obs)
		viol = append(viol, tv...)
	}
	code := 0
	for i, ob := range viol {
		replay := writeReplay(o, ps.ID, i, ob)
		reason := ""
		if ob.Verdict == UNDECIDED {
			reason = " reason=undecided"
		}
		fmt.Printf("  %s %s at %s: %s\n", ob.Rule, ob.Construct, ob.Pos, ob.Detail)
		fmt.Printf("VIOLATION property=%s replay=%s%s\n", ps.ID, replay, reason)
		code = 1
	}
	writeEvidence(o, ps, seed, start, real.prog, obs, stats, len(viol), knownHit, map[string]interface{}{"selftest": selftest, "thorough": extra, "unused_reviewed": unusedRev})
	if code == 0 {
		fmt.Printf("OK property=%s (%d obligations discharged, %d known findings) in %.1fs\n", ps.ID, len(obs)-len(knownHit), len(knownHit), time.Since(start).Seconds())
	}
	return code
}

func writeReplay(o options, prop string, n int, ob *Ob) string {
	dir := filepath.Join(o.verif, "replay")
	os.MkdirAll(dir, 0o755)
	path := filepath.Join(dir, fmt.Sprintf("%s-%d.json", prop, n))
	writeJSON(path, map[string]interface{}{
		"property": prop, "rule": ob.Rule, "construct": ob.Construct, "pos": ob.Pos, "verdict": ob.Verdict, "detail": ob.Detail,
		"how_to_replay": fmt.Sprintf("bin/check %s --replay %s", prop, path),
	})
	return path
}

func writeEvidence(o options, ps *PropSpec, seed int, start time.Time, p *Prog, obs []*Ob, stats map[string]*RuleStat, nviol int, known []string, extra map[string]interface{}) {
	if o.noEvidence {
		return
	}
	dir := filepath.Join(o.verif, "evidence")
	os.MkdirAll(dir, 0o755)
	cov := map[string]interface{}{}
	cov["explanation"] = ps.Explanation
	cov["not_decided"] = ps.NotDecided
	total, disch := 0, 0
	distinct := map[string]bool{}
	var rs []*RuleStat
	for _, id := range ps.Rules {
		if st := stats[id]; st != nil {
			rs = append(rs, st)
			total += st.Obligations
			disch += st.Discharged
		}
	}
	for _, ob := range obs {
		if !ob.trivial {
			distinct[ob.Key()] = true
		}
	}
	cov["obligations"] = total
	cov["discharged"] = disch
	cov["evaluations"] = total
	cov["distinct_nontrivial"] = len(distinct)
	cov["rule"] = "one obligation per (rule, type-resolved construct); distinct = distinct rule|construct keys; an instance is non-trivial when the rule had a condition to evaluate on it (all enumerated instances are)"
	cov["per_rule"] = rs
	cov["exhaustive"] = true
	cov["checker_cmd"] = fmt.Sprintf("bin/check %s %s", ps.ID, o.tier)
	cov["trusted_base"] = []string{"go/types and go/ssa of golang.org/x/tools v0.29.0", "the rule implementations in /verif/checker", "frozen reference tables listed in DESIGN.md"}
	// samples: a few obligations of every rule, violations first
	var samples []*Ob
	per := map[string]int{}
	for pass := 0; pass < 2; pass++ {
		for _, ob := range obs {
			if (pass == 0) != (ob.Verdict != OK) {
				continue
			}
			if per[ob.Rule] >= 4 {
				continue
			}
			per[ob.Rule]++
			samples = append(samples, ob)
		}
	}
	if len(samples) == 0 {
		samples = []*Ob{{Rule: "-", Construct: "no obligation was produced", Verdict: UNDECIDED}}
	}
	cov["samples"] = samples
	if p != nil {
		cov["analysed"] = map[string]interface{}{
			"repo": o.repo, "packages_loaded": p.AllPkgs, "functions_in_package": len(p.Funcs), "ssa_instructions": p.nInstr,
			"build_configuration": "default (" + strings.Join(p.Env, " ") + ")",
		}
	}
	cov["known_findings_matched"] = known
	for k, v := range extra {
		if v != nil {
			cov[k] = v
		}
	}
	ev := Evidence{PropertyID: ps.ID, Tier: o.tier, Seed: seed, Level: "other", Coverage: cov, Assumptions: ps.Assumptions,
		WallS: time.Since(start).Seconds(), Violations: nviol}
	if err := writeJSON(filepath.Join(dir, ps.ID+".json"), ev); err != nil {
		fmt.Fprintf(os.Stderr, "cannot write evidence: %v\n", err)
	}
}
