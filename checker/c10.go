package main

import (
	"fmt"
	"go/ast"
	"go/token"
	"go/types"
	"sort"
	"strings"

	"golang.org/x/tools/go/ssa"
)

func init() {
	register(&Rule{ID: "C10.COW", Min: 8, Doc: "the shared context table is copied before every write (copy-on-write protocol of ExprSemanticsChecker)", Run: runC10Cow})
	register(&Rule{ID: "C10.IMM", Min: 50, Doc: "nothing reachable from the per-file check mutates (or sorts in place) data derived from package-level tables or the shared Config", Run: runC10Imm})
	register(&Rule{ID: "C10.LOCK", Min: 6, Doc: "every access to a cache map shared by concurrently linted files happens under its mutex", Run: runC10Lock})
	register(&Rule{ID: "C10.CONF", Min: 3, Doc: "functions that are not thread-safe are not reachable from the per-file goroutines", Run: runC10Conf})
	register(&Rule{ID: "C10.CAP", Min: 1, Doc: "goroutine bodies capture no loop-header variable", Run: runC10Cap})
	register(&Rule{ID: "C10.INST", Min: 15, Doc: "rule instances are created per file inside check and never stored in shared state", Run: runC10Inst})
	register(&Rule{ID: "C10.PREFIX", Min: 2, Doc: "directory containment is never decided by a bare strings.HasPrefix on the project root", Run: runC10Prefix})
	register(&Rule{ID: "C10.SIB", Min: 5, Doc: "the caches handed to check belong to the project handed to check and read files under that project's root only", Run: runC10Sib})
}

// concurrentRegion: functions reachable from (*Linter).check and from closures passed to errgroup.Go in LintFiles.
func concurrentRegion(p *Prog) (map[*ssa.Function]bool, []*ssa.Function) {
	var roots []*ssa.Function
	if f := p.Method("Linter", "check"); f != nil {
		roots = append(roots, f)
	}
	if lf := p.Method("Linter", "LintFiles"); lf != nil {
		eachInstr(lf, func(_ *ssa.BasicBlock, _ int, in ssa.Instruction) {
			if call, ok := in.(ssa.CallInstruction); ok && calleeFullName(call.Common()) == "(*golang.org/x/sync/errgroup.Group).Go" {
				if mc, ok := call.Common().Args[1].(*ssa.MakeClosure); ok {
					roots = append(roots, mc.Fn.(*ssa.Function))
				}
			}
		})
	}
	return p.reachable(roots...), roots
}

// ---- C10.COW ----

func runC10Cow(c *Ctx) {
	p := c.P
	own := p.Own()
	ev := p.Method("ExprSemanticsChecker", "ensureVarsCopied")
	eg := p.Method("ExprSemanticsChecker", "ensureGithubVarCopied")
	if ev == nil || eg == nil {
		c.anchorMissing("ensureVarsCopied / ensureGithubVarCopied")
		return
	}
	// (1) body of ensureVarsCopied: a store of a fresh map into vars dominates every return except the flag's early return
	freshStore := false
	eachInstr(ev, func(_ *ssa.BasicBlock, _ int, in ssa.Instruction) {
		if st, ok := in.(*ssa.Store); ok {
			if fa, ok := st.Addr.(*ssa.FieldAddr); ok && fieldAddrName(fa) == "ExprSemanticsChecker.vars" {
				if _, isMake := st.Val.(*ssa.MakeMap); isMake {
					freshStore = true
				}
			}
		}
	})
	if freshStore {
		c.ok("(*ExprSemanticsChecker).ensureVarsCopied|installs a fresh map", ev.Pos(), "stores a newly made map into vars")
	} else {
		c.bad("(*ExprSemanticsChecker).ensureVarsCopied|installs a fresh map", ev.Pos(), "does not store a newly made map into vars: writers would modify the shared table")
	}
	// (2) body of ensureGithubVarCopied: vars["github"] = <DeepCopy result>, after ensureVarsCopied
	deep := false
	eachInstr(eg, func(_ *ssa.BasicBlock, _ int, in ssa.Instruction) {
		if mu, ok := in.(*ssa.MapUpdate); ok {
			if k, ok := constString(mu.Key); ok && k == "github" {
				if call, ok := unwrap(mu.Value).(*ssa.Call); ok && call.Call.IsInvoke() && call.Call.Method.Name() == "DeepCopy" {
					deep = true
				}
			}
		}
	})
	if deep {
		c.ok("(*ExprSemanticsChecker).ensureGithubVarCopied|deep copy", eg.Pos(), "replaces vars[\"github\"] by its DeepCopy")
	} else {
		c.bad("(*ExprSemanticsChecker).ensureGithubVarCopied|deep copy", eg.Pos(), "does not replace vars[\"github\"] by a DeepCopy: nested writes reach the shared github context type")
	}
	// (3) every write to sema.vars is dominated by the copy
	occ := map[string]int{}
	for _, fn := range p.Funcs {
		eachInstr(fn, func(_ *ssa.BasicBlock, _ int, in ssa.Instruction) {
			mu, ok := in.(*ssa.MapUpdate)
			if !ok {
				return
			}
			// writes to vars itself or to anything reached through vars
			touches := false
			v := mu.Map
			for i := 0; i < 12 && v != nil; i++ {
				switch x := v.(type) {
				case *ssa.UnOp:
					if fa, ok := x.X.(*ssa.FieldAddr); ok {
						if fieldAddrName(fa) == "ExprSemanticsChecker.vars" {
							touches = true
						}
						v = fa.X
					} else {
						v = x.X
					}
				case *ssa.FieldAddr:
					v = x.X
				case *ssa.TypeAssert:
					v = x.X
				case *ssa.Lookup:
					v = x.X
				case *ssa.Extract:
					v = x.Tuple
				default:
					v = nil
				}
			}
			if !touches {
				return
			}
			k := FuncName(fn) + "|write through ExprSemanticsChecker.vars"
			occ[k]++
			construct := fmt.Sprintf("%s#%d", k, occ[k])
			if own.isPrivateCopy(fn, mu.Map, mu) {
				// nested writes (below vars["github"]) additionally need the deep copy
				nested := false
				if ld, ok := mu.Map.(*ssa.UnOp); ok {
					if fa, ok := ld.X.(*ssa.FieldAddr); !ok || fieldAddrName(fa) != "ExprSemanticsChecker.vars" {
						nested = true
					}
				} else {
					nested = true
				}
				if nested && fn != eg {
					dom := false
					eachInstr(fn, func(b *ssa.BasicBlock, i int, in2 ssa.Instruction) {
						if call, ok := in2.(ssa.CallInstruction); ok && staticCallee(call.Common()) == eg && instrDominates(b, i, mu.Block(), instrIndex(mu)) {
							dom = true
						}
					})
					if !dom {
						c.bad(construct, mu.Pos(), "writes below an entry of the context table without a dominating ensureGithubVarCopied(): the nested type object is shared with the global table")
						return
					}
				}
				c.ok(construct, mu.Pos(), "dominated by the copy of the table")
				return
			}
			c.bad(construct, mu.Pos(), "write to the context table is not dominated by ensureVarsCopied(): it modifies BuiltinGlobalVariableTypes, shared by all expressions and files")
		})
	}
	// (4) every DeepCopy copies its ExprType components deeply
	for _, tn := range []string{"ObjectType", "ArrayType"} {
		f := p.Method(tn, "DeepCopy")
		if f == nil {
			c.anchorMissing("(*" + tn + ").DeepCopy")
			continue
		}
		bad := ""
		n := 0
		eachInstr(f, func(_ *ssa.BasicBlock, _ int, in ssa.Instruction) {
			var val ssa.Value
			switch x := in.(type) {
			case *ssa.Store:
				if _, ok := x.Addr.(*ssa.FieldAddr); !ok {
					return
				}
				val = x.Val
			case *ssa.MapUpdate:
				val = x.Value
			default:
				return
			}
			if typeStr(val.Type()) != "ExprType" {
				return
			}
			n++
			// leaves must be DeepCopy results or nil / the nil-guarded original
			var leaves []ssa.Value
			seen := map[ssa.Value]bool{}
			var exp func(v ssa.Value)
			exp = func(v ssa.Value) {
				if seen[v] {
					return
				}
				seen[v] = true
				if ph, ok := v.(*ssa.Phi); ok {
					for _, e := range ph.Edges {
						exp(e)
					}
					return
				}
				leaves = append(leaves, v)
			}
			exp(val)
			for _, lf := range leaves {
				if call, ok := lf.(*ssa.Call); ok && call.Call.IsInvoke() && call.Call.Method.Name() == "DeepCopy" {
					continue
				}
				if isNilConst(lf) {
					continue
				}
				if ld, ok := lf.(*ssa.UnOp); ok {
					// the original value may only pass when it is nil: it must be the operand of a nil test in this function
					guarded := false
					for _, ref := range *ld.Referrers() {
						if bo, ok := ref.(*ssa.BinOp); ok && (isNilConst(bo.X) || isNilConst(bo.Y)) {
							guarded = true
						}
					}
					if guarded {
						continue
					}
				}
				bad = "a component of type ExprType is copied by reference at " + p.Pos(in.Pos())
			}
		})
		construct := "(*" + tn + ").DeepCopy|components"
		if bad != "" || n == 0 {
			if n == 0 {
				bad = "no ExprType component is copied"
			}
			c.bad(construct, f.Pos(), bad+": the copy shares nested type objects with the original")
		} else {
			c.ok(construct, f.Pos(), fmt.Sprintf("%d ExprType components, each copied with DeepCopy", n))
		}
	}
}

// ---- C10.IMM ----

// sharedOrigin: does the value originate from a package-level variable or the shared Config?
func sharedOrigin(p *Prog, v ssa.Value, depth int) string {
	if depth > 3 {
		return ""
	}
	for _, o := range p.Origins(v, FlowOpts{Params: true, Fields: true, MaxDepth: 10}) {
		switch o.Kind {
		case OGlobal:
			if g, ok := o.Val.(*ssa.Global); ok && g.Pkg != nil && g.Pkg.Pkg.Path() == modPath {
				return "package-level variable " + g.Name()
			}
		case OField:
			if strings.HasPrefix(o.Field, "Config.") {
				return "shared configuration field " + o.Field
			}
		case OElem:
			if o.Base != nil {
				if s := sharedOrigin(p, o.Base, depth+1); s != "" {
					return "an element of " + s
				}
			}
		}
	}
	return ""
}

func runC10Imm(c *Ctx) {
	p := c.P
	region, roots := concurrentRegion(p)
	if len(roots) < 2 {
		c.anchorMissing("(*Linter).check / errgroup closure of LintFiles")
		return
	}
	occ := map[string]int{}
	nsites := 0
	var fns []*ssa.Function
	for fn := range region {
		if inPkg(fn, p.SPkg) && fn.Blocks != nil {
			fns = append(fns, fn)
		}
	}
	sort.Slice(fns, func(i, j int) bool { return fns[i].Pos() < fns[j].Pos() })
	for _, fn := range fns {
		clean := 0
		eachInstr(fn, func(_ *ssa.BasicBlock, _ int, in ssa.Instruction) {
			var target ssa.Value
			what := ""
			switch x := in.(type) {
			case *ssa.Store:
				switch a := x.Addr.(type) {
				case *ssa.FieldAddr:
					target, what = a.X, "assignment to "+fieldAddrName(a)
				case *ssa.IndexAddr:
					target, what = a.X, "element assignment"
				case *ssa.Global:
					c.bad(FuncName(fn)+"|assignment to package-level variable "+a.Name(), x.Pos(), "a package-level variable is written while files are linted concurrently")
					return
				default:
					return
				}
			case *ssa.MapUpdate:
				if p.Own().isPrivateCopy(fn, x.Map, x) {
					return // copy-on-write of the context table: decided by C10.COW
				}
				target, what = x.Map, "map write"
			case ssa.CallInstruction:
				cc := x.Common()
				name := calleeFullName(cc)
				if idx, ok := mutExtern[name]; ok && idx < len(cc.Args) {
					target, what = cc.Args[idx], name
				} else {
					return
				}
			default:
				return
			}
			nsites++
			s := sharedOrigin(p, target, 0)
			if s == "" {
				// the written container or object is reached through a shared one (x.f[k] = v with x from a table)
				s = sharedHolder(p, target)
			}
			if s != "" {
				k := FuncName(fn) + "|" + what
				occ[k]++
				c.bad(fmt.Sprintf("%s#%d", k, occ[k]), in.Pos(), "mutates data that comes from "+s+": the built-in tables and the configuration are shared by all files of a run (data race, and later files see the modification)")
				return
			}
			clean++
		})
		if clean > 0 {
			c.ok(FuncName(fn)+"|mutation sites", fn.Pos(), fmt.Sprintf("%d mutation sites, none on data flowing from a package-level table or the Config", clean))
		}
	}
	c.ok("region|functions reachable from check", 0, fmt.Sprintf("%d functions, %d mutation sites examined", len(fns), nsites))
}

// ---- C10.LOCK ----

func runC10Lock(c *Ctx) {
	p := c.P
	guarded := map[string]string{ // map field -> mutex field
		"LocalActionsCache.cache":          "LocalActionsCache.mu",
		"LocalReusableWorkflowCache.cache": "LocalReusableWorkflowCache.mu",
		"ErrorFormatter.rules":             "ErrorFormatter.rulesMu",
	}
	seen := map[string]int{}
	occ := map[string]int{}
	for _, fn := range p.Funcs {
		// lock/unlock calls per mutex field in this function
		type lk struct {
			in     ssa.Instruction
			write  bool
			defer_ bool
		}
		locks := map[string][]lk{}
		unlocks := map[string][]lk{}
		eachInstr(fn, func(_ *ssa.BasicBlock, _ int, in ssa.Instruction) {
			var cc *ssa.CallCommon
			isDefer := false
			switch x := in.(type) {
			case *ssa.Call:
				cc = &x.Call
			case *ssa.Defer:
				cc = &x.Call
				isDefer = true
			default:
				return
			}
			name := calleeFullName(cc)
			if len(cc.Args) == 0 {
				return
			}
			fa, ok := cc.Args[0].(*ssa.FieldAddr)
			if !ok {
				return
			}
			mf := fieldAddrName(fa)
			switch name {
			case "(*sync.RWMutex).Lock", "(*sync.Mutex).Lock":
				locks[mf] = append(locks[mf], lk{in, true, isDefer})
			case "(*sync.RWMutex).RLock":
				locks[mf] = append(locks[mf], lk{in, false, isDefer})
			case "(*sync.RWMutex).Unlock", "(*sync.Mutex).Unlock", "(*sync.RWMutex).RUnlock":
				unlocks[mf] = append(unlocks[mf], lk{in, true, isDefer})
			}
		})
		eachInstr(fn, func(b *ssa.BasicBlock, i int, in ssa.Instruction) {
			var m ssa.Value
			write := false
			switch x := in.(type) {
			case *ssa.MapUpdate:
				m, write = x.Map, true
			case *ssa.Lookup:
				m = x.X
			case *ssa.Range:
				m = x.X
			case *ssa.Call:
				if bi, ok := x.Call.Value.(*ssa.Builtin); ok && (bi.Name() == "delete" || bi.Name() == "len") && len(x.Call.Args) > 0 {
					m, write = x.Call.Args[0], bi.Name() == "delete"
				}
			}
			if m == nil {
				return
			}
			ld, ok := m.(*ssa.UnOp)
			if !ok {
				return
			}
			fa, ok := ld.X.(*ssa.FieldAddr)
			if !ok {
				return
			}
			mf := fieldAddrName(fa)
			mutex, ok := guarded[mf]
			if !ok {
				return
			}
			seen[mf]++
			k := FuncName(fn) + "|access to " + mf
			occ[k]++
			construct := fmt.Sprintf("%s#%d", k, occ[k])
			// the map value must be loaded under the lock as well: use the load's position
			li, lb := instrIndex(ld), ld.Block()
			held := false
			for _, l := range locks[mutex] {
				if l.defer_ {
					continue
				}
				if write && !l.write {
					continue
				}
				if !instrDominates(l.in.Block(), instrIndex(l.in), lb, li) {
					continue
				}
				released := false
				for _, u := range unlocks[mutex] {
					if u.defer_ {
						continue
					}
					if instrDominates(l.in.Block(), instrIndex(l.in), u.in.Block(), instrIndex(u.in)) && instrDominates(u.in.Block(), instrIndex(u.in), b, i) {
						released = true
					}
				}
				if !released {
					held = true
				}
			}
			if held {
				c.ok(construct, in.Pos(), "between "+mutex+" Lock and Unlock")
			} else {
				kind := "read"
				if write {
					kind = "write"
				}
				c.bad(construct, in.Pos(), kind+" of a map shared by concurrently linted files without holding "+mutex+" (or only a read lock for a write)")
			}
		})
	}
	for mf := range guarded {
		if seen[mf] == 0 {
			c.undecided("field "+mf, 0, "no access found: the guarded field no longer exists under this name")
		}
	}
}

// ---- C10.CONF ----

func runC10Conf(c *Ctx) {
	p := c.P
	region, _ := concurrentRegion(p)
	for _, name := range []string{"(*Projects).At", "(*LocalActionsCacheFactory).GetCache", "(*LocalReusableWorkflowCacheFactory).GetCache"} {
		fn := p.funcByName(name)
		if fn == nil {
			c.anchorMissing(name)
			continue
		}
		if region[fn] {
			c.bad(name+"|not thread-safe", fn.Pos(), "documented as not thread-safe (modifies an unguarded cache) but reachable from the per-file goroutines / check")
		} else {
			c.ok(name+"|not thread-safe", fn.Pos(), "not reachable from check nor from the goroutine bodies; callers: "+strings.Join(p.callerNames(fn), ", "))
		}
	}
}

// ---- C10.CAP ----

func runC10Cap(c *Ctx) {
	p := c.P
	info := p.info()
	n := 0
	p.FuncDecls(func(_ *ast.File, d *ast.FuncDecl) {
		var loops []ast.Node
		var walk func(n ast.Node)
		walk = func(root ast.Node) {
			ast.Inspect(root, func(x ast.Node) bool {
				switch s := x.(type) {
				case *ast.ForStmt:
					loops = append(loops, s)
					walk(s.Body)
					loops = loops[:len(loops)-1]
					return false
				case *ast.RangeStmt:
					loops = append(loops, s)
					walk(s.Body)
					loops = loops[:len(loops)-1]
					return false
				case *ast.GoStmt:
					if fl, ok := s.Call.Fun.(*ast.FuncLit); ok {
						n++
						checkCapture(c, info, d, fl, loops)
					}
				case *ast.CallExpr:
					if fn := calleeObj(info, s); fn != nil && fn.FullName() == "(*golang.org/x/sync/errgroup.Group).Go" {
						if fl, ok := s.Args[0].(*ast.FuncLit); ok {
							n++
							checkCapture(c, info, d, fl, loops)
						}
					}
				}
				return true
			})
		}
		walk(d.Body)
	})
	if n == 0 {
		c.undecided("package|goroutine bodies", 0, "no goroutine body found")
	}
}

func checkCapture(c *Ctx, info *types.Info, d *ast.FuncDecl, fl *ast.FuncLit, loops []ast.Node) {
	header := map[types.Object]bool{}
	for _, l := range loops {
		switch s := l.(type) {
		case *ast.ForStmt:
			if as, ok := s.Init.(*ast.AssignStmt); ok && as.Tok == token.DEFINE {
				for _, e := range as.Lhs {
					if id, ok := e.(*ast.Ident); ok {
						header[info.Defs[id]] = true
					}
				}
			}
		case *ast.RangeStmt:
			if s.Tok == token.DEFINE {
				for _, e := range []ast.Expr{s.Key, s.Value} {
					if id, ok := e.(*ast.Ident); ok {
						header[info.Defs[id]] = true
					}
				}
			}
		}
	}
	bad := ""
	ast.Inspect(fl.Body, func(x ast.Node) bool {
		if id, ok := x.(*ast.Ident); ok {
			if obj := info.Uses[id]; obj != nil && header[obj] {
				bad = id.Name
			}
		}
		return true
	})
	construct := fmt.Sprintf("%s|goroutine body at line-independent site #%d", DeclName(info, d), len(loops))
	construct = DeclName(info, d) + "|goroutine body"
	if bad != "" {
		c.bad(construct, fl.Pos(), "captures loop variable "+bad+" (go.mod says go 1.18: one variable shared by all iterations)")
	} else {
		c.ok(construct, fl.Pos(), "captures no variable declared in a loop header")
	}
}

// ---- C10.INST ----

func runC10Inst(c *Ctx) {
	p := c.P
	ruleIface := p.Named("Rule")
	if ruleIface == nil {
		c.anchorMissing("interface Rule")
		return
	}
	it := ruleIface.Underlying().(*types.Interface)
	for _, fn := range p.Funcs {
		if fn.Parent() != nil || fn.Signature.Recv() != nil || !strings.HasPrefix(fn.Name(), "NewRule") || fn.Name() == "NewRuleBase" {
			continue
		}
		res := fn.Signature.Results()
		if res.Len() == 0 || !types.Implements(res.At(0).Type(), it) {
			continue
		}
		callers := p.callerNames(fn)
		bad := []string{}
		for _, cl := range callers {
			if cl != "(*Linter).check" {
				bad = append(bad, cl)
			}
		}
		if len(bad) > 0 {
			c.bad("constructor "+fn.Name()+"|callers", fn.Pos(), "rule instances are also created in "+strings.Join(bad, ", ")+": an instance that outlives one file carries state between files")
		} else {
			c.ok("constructor "+fn.Name()+"|callers", fn.Pos(), "only called from (*Linter).check")
		}
	}
	// no value that is or holds a Rule (a slice, array, map, channel or struct of rules) is put into the Linter, a
	// package-level variable or an object reachable from them: such an instance is used for more than one file
	holds := func(t types.Type) string { return holdsRule(t, it, 0) }
	long := longLivedTypes(p)
	// where a container value comes from: "" for a local one
	longLivedSource := func(v ssa.Value) string {
		for i := 0; i < 8 && v != nil; i++ {
			switch x := v.(type) {
			case *ssa.UnOp:
				switch a := x.X.(type) {
				case *ssa.Global:
					return "package-level variable " + a.Name()
				case *ssa.FieldAddr:
					if long[pointeeName(a.X.Type())] {
						return fieldAddrName(a)
					}
					v = a.X
					continue
				case *ssa.IndexAddr:
					v = a.X
					continue
				}
				return ""
			case *ssa.Slice:
				v = x.X
			case *ssa.FieldAddr:
				if long[pointeeName(x.X.Type())] {
					return fieldAddrName(x)
				}
				v = x.X
			case *ssa.IndexAddr:
				v = x.X
			case *ssa.Global:
				return "package-level variable " + x.Name()
			default:
				return ""
			}
		}
		return ""
	}
	// by type: no field of a long-lived object and no package-level variable can hold a rule at all
	nHold := 0
	var longNames []string
	for nm := range long {
		longNames = append(longNames, nm)
	}
	sort.Strings(longNames)
	for _, nm := range longNames {
		st, ok := p.Named(nm).Underlying().(*types.Struct)
		if !ok {
			continue
		}
		for i := 0; i < st.NumFields(); i++ {
			if what := holds(st.Field(i).Type()); what != "" {
				nHold++
				c.bad(nm+"."+st.Field(i).Name()+"|holds rules", st.Field(i).Pos(), "a field of an object that lives longer than one file ("+nm+" is reachable from the Linter or a package-level variable) is a "+what+": rule instances kept there carry their state from one file to the next")
			}
		}
	}
	nGlobals := 0
	var globalNames []string
	for nm, m := range p.SPkg.Members {
		if _, ok := m.(*ssa.Global); ok {
			globalNames = append(globalNames, nm)
		}
	}
	sort.Strings(globalNames)
	for _, nm := range globalNames {
		g := p.SPkg.Members[nm].(*ssa.Global)
		nGlobals++
		if what := holds(g.Type().Underlying().(*types.Pointer).Elem()); what != "" {
			nHold++
			c.bad("package-level variable "+nm+"|holds rules", g.Pos(), "a package-level variable is a "+what+": the instance is shared by all files and goroutines")
		}
	}
	if nHold == 0 {
		c.ok("package|long-lived objects hold no rules", 0, fmt.Sprintf("%d struct types reachable from the Linter and the package-level variables, %d package-level variables: no field or variable has a type that is or holds a Rule", len(longNames), nGlobals))
	}
	funcs := append([]*ssa.Function{}, p.Funcs...)
	if ini := p.SPkg.Func("init"); ini != nil && ini.Blocks != nil {
		funcs = append(funcs, ini) // initialisers of package-level variables
	}
	occ := map[string]int{}
	emit := func(fn *ssa.Function, pos token.Pos, what, where, why string) {
		k := FuncName(fn) + "|" + what + " stored in " + where
		occ[k]++
		if occ[k] > 1 {
			k = fmt.Sprintf("%s#%d", k, occ[k])
		}
		if why != "" {
			c.bad(k, pos, why)
		} else {
			c.ok(k, pos, "the holder is not the Linter, a package-level variable or an object reachable from them")
		}
	}
	for _, fn := range funcs {
		eachInstr(fn, func(_ *ssa.BasicBlock, _ int, in ssa.Instruction) {
			switch st := in.(type) {
			case *ssa.Store:
				what := holds(st.Val.Type())
				if what == "" {
					if mi, ok := st.Val.(*ssa.MakeInterface); ok {
						what = holds(mi.X.Type())
					}
				}
				if what == "" || isNilConst(st.Val) {
					return
				}
				switch a := st.Addr.(type) {
				case *ssa.Alloc:
					// local variable
				case *ssa.Global:
					emit(fn, st.Pos(), what, "package-level variable "+a.Name(), "a rule instance is shared between files")
				case *ssa.FieldAddr:
					owner := pointeeName(a.X.Type())
					switch {
					case owner == "Linter":
						emit(fn, st.Pos(), what, fieldAddrName(a), "a rule instance is kept in the Linter and used for every file (and by every goroutine) it checks")
					case long[owner]:
						emit(fn, st.Pos(), what, fieldAddrName(a), "a rule instance is kept in a "+owner+", which the Linter or a package-level variable holds: it is used for more than one file")
					default:
						emit(fn, st.Pos(), what, fieldAddrName(a), "")
					}
				case *ssa.IndexAddr:
					if src := longLivedSource(a.X); src != "" {
						emit(fn, st.Pos(), what, "an element of "+src, "a rule instance is kept in "+src+" and used for more than one file")
					}
				default:
					if src := longLivedSource(st.Addr); src != "" {
						emit(fn, st.Pos(), what, src, "a rule instance is kept in "+src+" and used for more than one file")
					}
				}
			case *ssa.MapUpdate:
				what := holds(st.Value.Type())
				if what == "" {
					if mi, ok := st.Value.(*ssa.MakeInterface); ok {
						what = holds(mi.X.Type())
					}
				}
				if what == "" {
					return
				}
				if src := longLivedSource(st.Map); src != "" {
					emit(fn, st.Pos(), what, "the map "+src, "a rule instance is kept in "+src+" and used for more than one file")
				}
			case *ssa.Send:
				if what := holds(st.X.Type()); what != "" {
					if src := longLivedSource(st.Chan); src != "" {
						emit(fn, st.Pos(), what, "the channel "+src, "a rule instance is sent over "+src)
					}
				}
			}
		})
	}
}

// holdsRule: t is a Rule (the interface, or a type that implements it), or a slice / array / map / channel / struct value
// that holds one. Returns a description, "" otherwise.
func holdsRule(t types.Type, it *types.Interface, depth int) string {
	if depth > 3 {
		return ""
	}
	if _, isIface := t.Underlying().(*types.Interface); isIface {
		if types.Implements(t, it) {
			return "rule"
		}
		return ""
	}
	if types.Implements(t, it) {
		return "rule"
	}
	sub := func(e types.Type) bool { return holdsRule(e, it, depth+1) != "" }
	switch u := t.Underlying().(type) {
	case *types.Slice:
		if sub(u.Elem()) {
			return "slice of rules"
		}
	case *types.Array:
		if sub(u.Elem()) {
			return "array of rules"
		}
	case *types.Chan:
		if sub(u.Elem()) {
			return "channel of rules"
		}
	case *types.Map:
		if sub(u.Elem()) || sub(u.Key()) {
			return "map of rules"
		}
	case *types.Struct:
		for i := 0; i < u.NumFields(); i++ {
			if sub(u.Field(i).Type()) {
				return "struct holding rules"
			}
		}
	}
	return ""
}

// longLivedTypes: the named struct types of the module that can be reached from the Linter or from a package-level
// variable through fields, pointers, slices, arrays, maps and channels (the objects that live longer than one file).
func longLivedTypes(p *Prog) map[string]bool {
	if m, ok := p.memo("longLivedTypes").(map[string]bool); ok {
		return m
	}
	out := map[string]bool{}
	seen := map[types.Type]bool{}
	var walk func(t types.Type)
	walk = func(t types.Type) {
		if t == nil || seen[t] {
			return
		}
		seen[t] = true
		if n, ok := t.(*types.Named); ok {
			if n.Obj().Pkg() != p.Main.Types {
				return
			}
			if _, isStruct := n.Underlying().(*types.Struct); isStruct {
				out[n.Obj().Name()] = true
			}
		}
		switch u := t.Underlying().(type) {
		case *types.Pointer:
			walk(u.Elem())
		case *types.Slice:
			walk(u.Elem())
		case *types.Array:
			walk(u.Elem())
		case *types.Chan:
			walk(u.Elem())
		case *types.Map:
			walk(u.Key())
			walk(u.Elem())
		case *types.Struct:
			for i := 0; i < u.NumFields(); i++ {
				walk(u.Field(i).Type())
			}
		}
	}
	if l := p.Named("Linter"); l != nil {
		walk(l)
	}
	for _, m := range p.SPkg.Members {
		if g, ok := m.(*ssa.Global); ok {
			walk(g.Type())
		}
	}
	p.setMemo("longLivedTypes", out)
	return out
}

// ---- C10.PREFIX ----

func runC10Prefix(c *Ctx) {
	p := c.P
	occ := map[string]int{}
	for _, fn := range p.Funcs {
		eachInstr(fn, func(_ *ssa.BasicBlock, _ int, in ssa.Instruction) {
			call, ok := in.(*ssa.Call)
			if !ok || calleeFullName(&call.Call) != "strings.HasPrefix" {
				return
			}
			// does the prefix argument derive from Project.root?
			fromRoot := false
			for _, o := range p.Origins(call.Call.Args[1], FlowOpts{Params: true, Fields: false, MaxDepth: 8}) {
				if o.Kind == OField && o.Field == "Project.root" {
					fromRoot = true
				}
				if o.Kind == OExtern {
					if o.Name == "(*github.com/rhysd/actionlint.Project).RootDir" {
						fromRoot = true
					}
				}
			}
			if !fromRoot {
				return
			}
			k := FuncName(fn) + "|strings.HasPrefix(path, <project root>)"
			occ[k]++
			construct := fmt.Sprintf("%s#%d", k, occ[k])
			// the function must also look at the separator after the prefix
			sep := false
			eachInstr(fn, func(_ *ssa.BasicBlock, _ int, in2 ssa.Instruction) {
				if c2, ok := in2.(*ssa.Call); ok {
					switch calleeFullName(&c2.Call) {
					case "os.IsPathSeparator", "path/filepath.Rel":
						if calleeFullName(&c2.Call) == "os.IsPathSeparator" {
							sep = true
						}
					}
				}
			})
			if sep {
				c.ok(construct, call.Pos(), "the character following the prefix is checked to be a path separator")
			} else {
				c.bad(construct, call.Pos(), "decides whether a path lies inside the project by a bare prefix test: /p/repo12/x.yml has the prefix /p/repo1")
			}
		})
	}
	// the anchors must exist
	for _, name := range []string{"(*Project).Knows", "(*LocalReusableWorkflowCache).convWorkflowPathToSpec"} {
		fn := p.funcByName(name)
		if fn == nil {
			c.anchorMissing(name)
			continue
		}
		// they must reach a separator-aware containment test
		reach := p.reachable(fn)
		okc := false
		for g := range reach {
			if g.Blocks == nil {
				continue
			}
			eachInstr(g, func(_ *ssa.BasicBlock, _ int, in ssa.Instruction) {
				if c2, ok := in.(*ssa.Call); ok && calleeFullName(&c2.Call) == "os.IsPathSeparator" {
					okc = true
				}
			})
		}
		if okc {
			c.ok(name+"|containment test", fn.Pos(), "uses a separator-aware containment test")
		} else {
			c.bad(name+"|containment test", fn.Pos(), "project containment is decided without looking at path separators")
		}
	}
}

// ---- C10.SIB ----

func runC10Sib(c *Ctx) {
	p := c.P
	check := p.Method("Linter", "check")
	if check == nil {
		c.anchorMissing("(*Linter).check")
		return
	}
	n := 0
	for _, e := range p.callersOf(check) {
		site := e.Site
		if site == nil {
			continue
		}
		caller := e.Caller.Func
		args := site.Common().Args // recv, path, content, project, proc, localActions, localReusableWorkflows
		if len(args) < 7 {
			continue
		}
		n++
		proj := args[3]
		construct := FuncName(caller) + "|caches passed to check"
		bad := ""
		for _, ai := range []int{5, 6} {
			cache := args[ai]
			// resolve through closure captures
			src := resolveCapture(cache)
			call, ok := src.(*ssa.Call)
			if !ok {
				bad = "a cache argument is not the direct result of a cache constructor / factory"
				continue
			}
			name := calleeFullName(&call.Call)
			var parg ssa.Value
			switch {
			case strings.HasSuffix(name, "CacheFactory).GetCache"):
				parg = call.Call.Args[1]
			case strings.HasSuffix(name, ".NewLocalActionsCache"), strings.HasSuffix(name, ".NewLocalReusableWorkflowCache"):
				parg = call.Call.Args[0]
			default:
				bad = "a cache argument comes from " + name
				continue
			}
			if resolveCapture(parg) != resolveCapture(proj) {
				bad = fmt.Sprintf("the cache created at %s is for a different project value than the one passed to check", p.Pos(call.Pos()))
			}
		}
		if bad != "" {
			c.bad(construct, site.Pos(), bad+": a file would be checked against the local actions / reusable workflows of another (or no) repository")
		} else {
			c.ok(construct, site.Pos(), "both caches are created for the same project value that is passed to check")
		}
	}
	if n == 0 {
		c.undecided("(*Linter).check|callers", check.Pos(), "no caller found")
	}
	c10CacheReadsOwnRepo(c)
}

// resolveCapture maps a free variable of a closure to the value bound at its creation.
func resolveCapture(v ssa.Value) ssa.Value {
	for i := 0; i < 4; i++ {
		switch x := v.(type) {
		case *ssa.FreeVar:
			fn := x.Parent()
			idx := -1
			for j, q := range fn.FreeVars {
				if q == x {
					idx = j
				}
			}
			var b ssa.Value
			if par := fn.Parent(); par != nil {
				eachInstr(par, func(_ *ssa.BasicBlock, _ int, in ssa.Instruction) {
					if mc, ok := in.(*ssa.MakeClosure); ok && mc.Fn == fn && idx < len(mc.Bindings) {
						b = mc.Bindings[idx]
					}
				})
			}
			if b == nil {
				return v
			}
			v = b
		case *ssa.UnOp:
			// load of a captured variable cell: the single store into it
			if a, ok := x.X.(*ssa.Alloc); ok {
				var st ssa.Value
				n := 0
				for _, ref := range *a.Referrers() {
					if s, ok := ref.(*ssa.Store); ok && s.Addr == a {
						st = s.Val
						n++
					}
				}
				if n == 1 {
					v = st
					continue
				}
				return a
			}
			if fv, ok := x.X.(*ssa.FreeVar); ok {
				r := resolveCapture(fv)
				if a, ok := r.(*ssa.Alloc); ok {
					var st ssa.Value
					n := 0
					for _, ref := range *a.Referrers() {
						if s, ok := ref.(*ssa.Store); ok && s.Addr == a {
							st = s.Val
							n++
						}
					}
					if n == 1 {
						v = st
						continue
					}
					return a
				}
				return r
			}
			return v
		default:
			return v
		}
	}
	return v
}
