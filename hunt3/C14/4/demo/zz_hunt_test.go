package actionlint

import (
	"fmt"
	"io"
	"os"
	"path/filepath"
	"strings"
	"testing"
)

// Property C14, last sentence: "A value whose literal or expression type cannot be assigned to the declared type
// of a reusable-workflow input is reported."
//
// For an input declared with `type: boolean`, nothing is ever reported: BoolType.Assignable() returns true for every
// type (it was written for `if:` conditions where any value is coerced to bool), and checkWorkflowCall uses it for
// the typed check. So a string word, a number, a string/number/object expression are all accepted for a boolean
// input. The same code base rejects the same expressions for the `default:` of the same input in the callee
// ("type of input ... must be bool but found type string"), so the caller side is not consistent with the
// callee side.

const huntC14N4Callee = `on:
  workflow_call:
    inputs:
      flag:
        type: boolean
      num:
        type: number
jobs:
  a:
    runs-on: ubuntu-latest
    steps:
      - run: echo
`

func huntC14N4Lint(t *testing.T, with string) []string {
	t.Helper()
	dir := t.TempDir()
	caller := "on: push\njobs:\n  c:\n    uses: ./.github/workflows/callee.yml\n    with:\n      " + with + "\n"
	files := map[string]string{
		".github/workflows/callee.yml": huntC14N4Callee,
		".github/workflows/caller.yml": caller,
	}
	for p, c := range files {
		fp := filepath.Join(dir, filepath.FromSlash(p))
		if err := os.MkdirAll(filepath.Dir(fp), 0o755); err != nil {
			t.Fatal(err)
		}
		if err := os.WriteFile(fp, []byte(c), 0o644); err != nil {
			t.Fatal(err)
		}
	}
	proj, err := NewProject(dir)
	if err != nil {
		t.Fatal(err)
	}
	l, err := NewLinter(io.Discard, &LinterOptions{WorkingDir: dir})
	if err != nil {
		t.Fatal(err)
	}
	errs, err := l.LintFile(filepath.Join(dir, ".github", "workflows", "caller.yml"), proj)
	if err != nil {
		t.Fatal(err)
	}
	ret := []string{}
	for _, e := range errs {
		ret = append(ret, fmt.Sprintf("%d:%d: %s [%s]", e.Line, e.Column, e.Message, e.Kind))
	}
	return ret
}

func huntC14N4Reported(errs []string, input string) bool {
	for _, e := range errs {
		if strings.Contains(e, fmt.Sprintf("input %q is typed as", input)) && strings.Contains(e, "cannot be assigned") {
			return true
		}
	}
	return false
}

// Sanity: the same values are reported for a number input.
func TestHuntC14N4NumberInputBaseline(t *testing.T) {
	for _, v := range []string{"hello", "${{ 'abc' }}", "${{ github.event }}"} {
		if errs := huntC14N4Lint(t, "num: "+v); !huntC14N4Reported(errs, "num") {
			t.Errorf("`num: %s` must be reported: %v", v, errs)
		}
	}
}

func TestHuntC14N4NonBoolValuesPassedToBooleanInput(t *testing.T) {
	for _, v := range []string{
		"hello",               // string literal
		"42",                  // number literal
		"${{ 'abc' }}",        // string expression
		"${{ 42 }}",           // number expression
		"${{ github.event }}", // object expression
	} {
		errs := huntC14N4Lint(t, "flag: "+v)
		if !huntC14N4Reported(errs, "flag") {
			t.Errorf("`flag: %s` passes a non-bool value to an input typed as boolean but no type error is reported: %v", v, errs)
		}
	}
}
