package actionlint

import (
	"fmt"
	"io"
	"os"
	"path/filepath"
	"strings"
	"testing"
)

// Property C14: "For a step that uses ... an action of the bundled popular-actions data set ...: an input ... is
// reported iff the callee does not declare it".
//
// "args" and "entrypoint" under "with:" are special keys only for Docker container actions. For any other kind of
// action they are ordinary inputs (the runner warns "Unexpected input(s) 'args', 'entrypoint'"). The parser moves
// them out of ExecAction.Inputs, and RuleAction.checkAction looks at them only when meta.Runs.Using is known, which
// is never the case for bundled metadata. So they are never reported for bundled actions, though the same keys are
// reported for a local JavaScript/composite action and though any other undeclared key is reported.

func huntC14N2Lint(t *testing.T, files map[string]string) []string {
	t.Helper()
	dir := t.TempDir()
	for p, c := range files {
		fp := filepath.Join(dir, filepath.FromSlash(p))
		if err := os.MkdirAll(filepath.Dir(fp), 0o755); err != nil {
			t.Fatal(err)
		}
		if err := os.WriteFile(fp, []byte(c), 0o644); err != nil {
			t.Fatal(err)
		}
	}
	proj, err := NewProject(dir)
	if err != nil {
		t.Fatal(err)
	}
	l, err := NewLinter(io.Discard, &LinterOptions{WorkingDir: dir})
	if err != nil {
		t.Fatal(err)
	}
	errs, err := l.LintFile(filepath.Join(dir, ".github", "workflows", "a.yml"), proj)
	if err != nil {
		t.Fatal(err)
	}
	ret := []string{}
	for _, e := range errs {
		ret = append(ret, fmt.Sprintf("%d:%d: %s [%s]", e.Line, e.Column, e.Message, e.Kind))
	}
	return ret
}

func huntC14N2Undefined(errs []string, input string) bool {
	for _, e := range errs {
		if strings.Contains(e, fmt.Sprintf("input %q is not defined in action", input)) {
			return true
		}
	}
	return false
}

func huntC14N2Workflow(uses string) string {
	return "on: push\njobs:\n  test:\n    runs-on: ubuntu-latest\n    steps:\n      - uses: " + uses + "\n        with:\n          args: --foo\n          entrypoint: /bin/sh\n          unknown: x\n"
}

// Sanity: for a local JavaScript action, the three undeclared keys are reported.
func TestHuntC14N2LocalActionBaseline(t *testing.T) {
	errs := huntC14N2Lint(t, map[string]string{
		"act/action.yml":          "name: a\ndescription: d\nruns:\n  using: node20\n  main: index.js\n",
		"act/index.js":            "",
		".github/workflows/a.yml": huntC14N2Workflow("./act"),
	})
	for _, n := range []string{"args", "entrypoint", "unknown"} {
		if !huntC14N2Undefined(errs, n) {
			t.Errorf("input %q must be reported for local JavaScript action: %v", n, errs)
		}
	}
}

// actions/checkout@v4 and actions/setup-node@v4 are JavaScript actions of the bundled data set and declare neither
// "args" nor "entrypoint".
func TestHuntC14N2ArgsAndEntrypointOnBundledJavaScriptAction(t *testing.T) {
	for _, spec := range []string{"actions/checkout@v4", "actions/setup-node@v4"} {
		meta, ok := PopularActions[spec]
		if !ok {
			t.Fatalf("%s is not in the data set", spec)
		}
		for _, n := range []string{"args", "entrypoint", "unknown"} {
			if _, ok := meta.Inputs[n]; ok {
				t.Fatalf("%s declares %q", spec, n)
			}
		}

		errs := huntC14N2Lint(t, map[string]string{".github/workflows/a.yml": huntC14N2Workflow(spec)})
		if !huntC14N2Undefined(errs, "unknown") {
			t.Fatalf("%s: input \"unknown\" must be reported: %v", spec, errs)
		}
		for _, n := range []string{"args", "entrypoint"} {
			if !huntC14N2Undefined(errs, n) {
				t.Errorf("%s does not declare input %q but passing it in \"with:\" is not reported: %v", spec, n, errs)
			}
		}
	}
}
