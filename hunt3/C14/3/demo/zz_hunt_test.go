package actionlint

import (
	"fmt"
	"io"
	"os"
	"path/filepath"
	"strings"
	"testing"
)

// Property C14: "steps.<id>.outputs.<name> ... is reported iff the callee does not declare that output (unless it
// sets outputs dynamically)."
//
// pulumi/actions (v3 and later) sets outputs dynamically: after `pulumi up` it calls core.setOutput() for every
// output of the Pulumi stack ("Stack outputs are available when using this action ...
// ${{ steps.pulumi.outputs.pet-name }}" in the README of the action). Its action.yml only declares "output".
// The bundled data set marks dorny/paths-filter and google-github-actions/get-secretmanager-secrets with
// skip_outputs for exactly this reason, but pulumi/actions@v5 and pulumi/actions@v6 are not marked, so the
// documented way of reading stack outputs is reported as an error.

func huntC14N3Lint(t *testing.T, src string) []string {
	t.Helper()
	dir := t.TempDir()
	fp := filepath.Join(dir, ".github", "workflows", "a.yml")
	if err := os.MkdirAll(filepath.Dir(fp), 0o755); err != nil {
		t.Fatal(err)
	}
	if err := os.WriteFile(fp, []byte(src), 0o644); err != nil {
		t.Fatal(err)
	}
	proj, err := NewProject(dir)
	if err != nil {
		t.Fatal(err)
	}
	l, err := NewLinter(io.Discard, &LinterOptions{WorkingDir: dir})
	if err != nil {
		t.Fatal(err)
	}
	errs, err := l.LintFile(fp, proj)
	if err != nil {
		t.Fatal(err)
	}
	ret := []string{}
	for _, e := range errs {
		ret = append(ret, fmt.Sprintf("%d:%d: %s [%s]", e.Line, e.Column, e.Message, e.Kind))
	}
	return ret
}

func TestHuntC14N3PulumiStackOutputs(t *testing.T) {
	for _, spec := range []string{"pulumi/actions@v5", "pulumi/actions@v6"} {
		if _, ok := PopularActions[spec]; !ok {
			t.Fatalf("%s is not in the data set", spec)
		}
		src := `on: push
jobs:
  up:
    runs-on: ubuntu-latest
    steps:
      - uses: ` + spec + `
        id: pulumi
        with:
          command: up
          stack-name: dev
      - run: echo "$NAME"
        env:
          NAME: ${{ steps.pulumi.outputs.pet-name }}
`
		errs := huntC14N3Lint(t, src)
		for _, e := range errs {
			if strings.Contains(e, `property "pet-name" is not defined`) {
				t.Errorf("%s sets its outputs dynamically (one output per stack output) but steps.pulumi.outputs.pet-name is reported: %s", spec, e)
			}
		}
	}
}

// For comparison: the other actions of the data set which set outputs dynamically accept any output name.
func TestHuntC14N3OtherDynamicOutputActionsBaseline(t *testing.T) {
	src := `on: push
jobs:
  test:
    runs-on: ubuntu-latest
    steps:
      - uses: dorny/paths-filter@v3
        id: filter
        with:
          filters: "src: ['src/**']"
      - run: echo "$SRC"
        env:
          SRC: ${{ steps.filter.outputs.src }}
`
	if errs := huntC14N3Lint(t, src); len(errs) != 0 {
		t.Errorf("dorny/paths-filter@v3 must accept any output: %v", errs)
	}
}
