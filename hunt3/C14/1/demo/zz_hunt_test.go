package actionlint

import (
	"fmt"
	"io"
	"os"
	"path/filepath"
	"strings"
	"testing"
)

// Property C14, last sentence: "A value whose literal or expression type cannot be assigned to the declared type
// of a reusable-workflow input is reported."
//
// The literal type of a `with:` value is guessed from its text with Go's strconv.ParseFloat and by comparing with
// the exact texts "true", "false" and "null". So
//   - plain words which are YAML strings but which strconv.ParseFloat accepts (nan, inf, Infinity, 0x1p4) are taken
//     as numbers and are not reported for `type: number` inputs, though any other word (hello) is reported;
//   - YAML booleans and nulls spelled in another letter case (True, FALSE, Null, NULL, ~) are taken as strings and are
//     not reported for `type: string` inputs, though `true`, `false` and `null` are reported.

const huntC14N1Callee = `on:
  workflow_call:
    inputs:
      num:
        type: number
      str:
        type: string
jobs:
  a:
    runs-on: ubuntu-latest
    steps:
      - run: echo
`

func huntC14N1Lint(t *testing.T, with string) []string {
	t.Helper()
	dir := t.TempDir()
	caller := "on: push\njobs:\n  c:\n    uses: ./.github/workflows/callee.yml\n    with:\n      " + with + "\n"
	files := map[string]string{
		".github/workflows/callee.yml": huntC14N1Callee,
		".github/workflows/caller.yml": caller,
	}
	for p, c := range files {
		fp := filepath.Join(dir, filepath.FromSlash(p))
		if err := os.MkdirAll(filepath.Dir(fp), 0o755); err != nil {
			t.Fatal(err)
		}
		if err := os.WriteFile(fp, []byte(c), 0o644); err != nil {
			t.Fatal(err)
		}
	}
	proj, err := NewProject(dir)
	if err != nil {
		t.Fatal(err)
	}
	l, err := NewLinter(io.Discard, &LinterOptions{WorkingDir: dir})
	if err != nil {
		t.Fatal(err)
	}
	errs, err := l.LintFile(filepath.Join(dir, ".github", "workflows", "caller.yml"), proj)
	if err != nil {
		t.Fatal(err)
	}
	ret := []string{}
	for _, e := range errs {
		ret = append(ret, fmt.Sprintf("%d:%d: %s [%s]", e.Line, e.Column, e.Message, e.Kind))
	}
	return ret
}

func huntC14N1Reported(errs []string, input string) bool {
	for _, e := range errs {
		if strings.Contains(e, fmt.Sprintf("input %q is typed as", input)) && strings.Contains(e, "cannot be assigned") {
			return true
		}
	}
	return false
}

// Sanity: the check works for ordinary words and for the lower-case keywords.
func TestHuntC14N1Baseline(t *testing.T) {
	for _, tc := range []struct{ with, input string }{
		{"num: hello", "num"},
		{"str: true", "str"},
		{"str: null", "str"},
	} {
		if errs := huntC14N1Lint(t, tc.with); !huntC14N1Reported(errs, tc.input) {
			t.Errorf("baseline %q must be reported but got %v", tc.with, errs)
		}
	}
}

// The words nan, inf, Infinity are plain YAML strings (YAML spells these floats .nan and .inf) and 0x1p4 is not a
// YAML number at all. They cannot be assigned to a number input, exactly like `num: hello`.
func TestHuntC14N1StringWordsPassedToNumberInput(t *testing.T) {
	for _, v := range []string{"nan", "inf", "Infinity", "-infinity", "0x1p4"} {
		errs := huntC14N1Lint(t, "num: "+v)
		if !huntC14N1Reported(errs, "num") {
			t.Errorf("`num: %s` passes a string to an input typed as number but it is not reported: %v", v, errs)
		}
	}
}

// True/FALSE are YAML booleans and Null/NULL/~ are YAML nulls (actionlint's own parser treats True and TRUE as
// booleans). They cannot be assigned to a string input, exactly like `str: true` and `str: null`.
func TestHuntC14N1BoolAndNullInOtherLetterCasePassedToStringInput(t *testing.T) {
	for _, v := range []string{"True", "TRUE", "FALSE", "Null", "NULL", "~"} {
		errs := huntC14N1Lint(t, "str: "+v)
		if !huntC14N1Reported(errs, "str") {
			t.Errorf("`str: %s` passes a bool/null to an input typed as string but it is not reported (while `str: true` and `str: null` are): %v", v, errs)
		}
	}
}
