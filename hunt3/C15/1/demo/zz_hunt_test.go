package actionlint

import (
	"bytes"
	"os"
	"path/filepath"
	"strings"
	"testing"
)

// Property C15: a `paths` entry applies to a file iff its glob matches the file's path relative to
// the root of the repository containing it, independent of the current working directory and of how
// the path is spelled on the command line.
//
// Input form: workflow read from stdin with -stdin-filename naming a file inside the repository
// which is not saved yet (the usual editor integration for a new buffer).

const huntC15N1Workflow = `on: push
jobs:
  test:
    runs-on: ubuntu-latest
    steps:
      - run: echo ${{ foo.bar }}
      - run: echo ${{ github.nope }}
`

const huntC15N1Config = `paths:
  .github/workflows/*.yml:
    ignore:
      - undefined variable
`

// Prints "line:col:message" per diagnostic so that outputs are comparable across path spellings
const huntC15N1Format = `{{range $e := .}}{{$e.Line}}:{{$e.Column}}:{{$e.Message}}\n{{end}}`

func huntC15N1Run(t *testing.T, cwd, stdin string, args ...string) (string, int) {
	t.Helper()
	old, err := os.Getwd()
	if err != nil {
		t.Fatal(err)
	}
	if err := os.Chdir(cwd); err != nil {
		t.Fatal(err)
	}
	defer os.Chdir(old)
	var o, e bytes.Buffer
	cmd := Command{Stdin: strings.NewReader(stdin), Stdout: &o, Stderr: &e}
	a := append([]string{"actionlint", "-no-color", "-shellcheck=", "-pyflakes=", "-format", huntC15N1Format}, args...)
	code := cmd.Main(a)
	if code != 0 && code != 1 {
		t.Fatalf("unexpected exit status %d for %v: %s", code, args, e.String())
	}
	return o.String(), code
}

func huntC15N1Repo(t *testing.T, repoConfig string) (string, string) {
	t.Helper()
	d, err := filepath.EvalSymlinks(t.TempDir())
	if err != nil {
		t.Fatal(err)
	}
	repo := filepath.Join(d, "repo")
	for _, p := range []string{
		filepath.Join(repo, ".git"),
		filepath.Join(repo, ".github", "workflows"),
		filepath.Join(repo, "src", "deep"),
	} {
		if err := os.MkdirAll(p, 0755); err != nil {
			t.Fatal(err)
		}
	}
	if err := os.WriteFile(filepath.Join(repo, ".github", "workflows", "saved.yml"), []byte(huntC15N1Workflow), 0644); err != nil {
		t.Fatal(err)
	}
	if repoConfig != "" {
		if err := os.WriteFile(filepath.Join(repo, ".github", "actionlint.yaml"), []byte(repoConfig), 0644); err != nil {
			t.Fatal(err)
		}
	}
	cfg := filepath.Join(d, "external-config.yaml")
	if err := os.WriteFile(cfg, []byte(huntC15N1Config), 0644); err != nil {
		t.Fatal(err)
	}
	return repo, cfg
}

// The `paths` entry of the repository's own config file must apply to .github/workflows/new.yml of
// that repository exactly as it applies to .github/workflows/saved.yml.
func TestHuntC15N1RepoConfigAppliesToUnsavedStdinFile(t *testing.T) {
	repo, _ := huntC15N1Repo(t, huntC15N1Config)

	saved, _ := huntC15N1Run(t, repo, huntC15N1Workflow, "-stdin-filename", ".github/workflows/saved.yml", "-")
	if strings.Contains(saved, "undefined variable") || !strings.Contains(saved, `property "nope"`) {
		t.Fatalf("sanity check failed for the saved file: %q", saved)
	}

	unsaved, _ := huntC15N1Run(t, repo, huntC15N1Workflow, "-stdin-filename", ".github/workflows/new.yml", "-")
	if unsaved != saved {
		t.Errorf("glob .github/workflows/*.yml matches .github/workflows/new.yml relative to the repository root, so the \"undefined variable\" diagnostic must be filtered.\nwant:\n%s\ngot:\n%s", saved, unsaved)
	}
}

// With one and the same configuration (-config-file) the result must not depend on how the stdin
// file name is spelled nor on the working directory.
func TestHuntC15N1SpellingOfUnsavedStdinFile(t *testing.T) {
	repo, cfg := huntC15N1Repo(t, "")

	base, _ := huntC15N1Run(t, repo, huntC15N1Workflow, "-config-file", cfg, "-stdin-filename", ".github/workflows/new.yml", "-")
	if strings.Contains(base, "undefined variable") || !strings.Contains(base, `property "nope"`) {
		t.Fatalf("sanity check failed: %q", base)
	}

	for _, c := range []struct {
		cwd  string
		name string
	}{
		{repo, "./.github/workflows/new.yml"},
		{repo, filepath.Join(repo, ".github", "workflows", "new.yml")},
		{filepath.Join(repo, "src", "deep"), "../../.github/workflows/new.yml"},
		{filepath.Join(repo, ".github", "workflows"), "new.yml"},
		{filepath.Dir(repo), "repo/.github/workflows/new.yml"},
	} {
		out, _ := huntC15N1Run(t, c.cwd, huntC15N1Workflow, "-config-file", cfg, "-stdin-filename", c.name, "-")
		if out != base {
			t.Errorf("cwd=%s -stdin-filename=%s: the same file of the same repository with the same config must give the same diagnostics.\nwant:\n%s\ngot:\n%s", c.cwd, c.name, base, out)
		}
	}
}
