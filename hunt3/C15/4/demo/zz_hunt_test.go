package actionlint

import (
	"bytes"
	"os"
	"path/filepath"
	"strings"
	"testing"
)

// Property C15: the exit status is 1 iff at least one diagnostic remains, 0 iff none, 3 for fatal
// errors and 2 for invalid flags.
//
// Input form: -ignore with a value which is not a valid regular expression. Other flags with an
// invalid value (e.g. -oneline=xx) exit with 2.

func huntC15N4Run(t *testing.T, cwd string, args ...string) (int, string) {
	t.Helper()
	old, err := os.Getwd()
	if err != nil {
		t.Fatal(err)
	}
	if err := os.Chdir(cwd); err != nil {
		t.Fatal(err)
	}
	defer os.Chdir(old)
	var o, e bytes.Buffer
	cmd := Command{Stdin: strings.NewReader(""), Stdout: &o, Stderr: &e}
	a := append([]string{"actionlint", "-no-color", "-shellcheck=", "-pyflakes="}, args...)
	return cmd.Main(a), e.String()
}

func TestHuntC15N4InvalidIgnoreFlagValue(t *testing.T) {
	d, err := filepath.EvalSymlinks(t.TempDir())
	if err != nil {
		t.Fatal(err)
	}
	if err := os.MkdirAll(filepath.Join(d, ".git"), 0755); err != nil {
		t.Fatal(err)
	}
	if err := os.MkdirAll(filepath.Join(d, ".github", "workflows"), 0755); err != nil {
		t.Fatal(err)
	}
	wf := "on: push\njobs:\n  test:\n    runs-on: ubuntu-latest\n    steps:\n      - run: echo\n"
	if err := os.WriteFile(filepath.Join(d, ".github", "workflows", "ok.yml"), []byte(wf), 0644); err != nil {
		t.Fatal(err)
	}

	// Reference: an invalid value for another flag is reported as invalid command line option
	if code, _ := huntC15N4Run(t, d, "-oneline=xx"); code != ExitStatusInvalidCommandOption {
		t.Fatalf("sanity check failed: -oneline=xx exited with %d", code)
	}

	for _, pat := range []string{"(", "[a-", "a**", `\p{Foo}`} {
		code, stderr := huntC15N4Run(t, d, "-ignore", pat)
		if code != ExitStatusInvalidCommandOption {
			t.Errorf("-ignore %q is an invalid flag so exit status must be %d but got %d (stderr: %s)", pat, ExitStatusInvalidCommandOption, code, strings.TrimSpace(stderr))
		}
	}
}
