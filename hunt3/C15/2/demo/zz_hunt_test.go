package actionlint

import (
	"bytes"
	"os"
	"path/filepath"
	"strings"
	"testing"
)

// Property C15: a `paths` entry applies to a file iff its glob matches the file's path relative to
// the root of the repository containing it, independent of the current working directory and of how
// the path is spelled on the command line.
//
// Input form: a Git repository which keeps workflow files in some directory but has no
// .github/workflows directory (for example a repository of workflow templates), linted with an
// explicit -config-file.

const huntC15N2Workflow = `on: push
jobs:
  test:
    runs-on: ubuntu-latest
    steps:
      - run: echo ${{ foo.bar }}
      - run: echo ${{ github.nope }}
`

const huntC15N2Config = `paths:
  templates/*.yml:
    ignore:
      - undefined variable
`

const huntC15N2Format = `{{range $e := .}}{{$e.Line}}:{{$e.Column}}:{{$e.Message}}\n{{end}}`

func huntC15N2Run(t *testing.T, cwd string, args ...string) string {
	t.Helper()
	old, err := os.Getwd()
	if err != nil {
		t.Fatal(err)
	}
	if err := os.Chdir(cwd); err != nil {
		t.Fatal(err)
	}
	defer os.Chdir(old)
	var o, e bytes.Buffer
	cmd := Command{Stdin: strings.NewReader(""), Stdout: &o, Stderr: &e}
	a := append([]string{"actionlint", "-no-color", "-shellcheck=", "-pyflakes=", "-format", huntC15N2Format}, args...)
	code := cmd.Main(a)
	if code != 0 && code != 1 {
		t.Fatalf("unexpected exit status %d for %v: %s", code, args, e.String())
	}
	return o.String()
}

func TestHuntC15N2RepositoryWithoutWorkflowsDir(t *testing.T) {
	d, err := filepath.EvalSymlinks(t.TempDir())
	if err != nil {
		t.Fatal(err)
	}
	repo := filepath.Join(d, "repo")
	for _, p := range []string{
		filepath.Join(repo, ".git"),
		filepath.Join(repo, "templates"),
		filepath.Join(repo, "docs"),
	} {
		if err := os.MkdirAll(p, 0755); err != nil {
			t.Fatal(err)
		}
	}
	if err := os.WriteFile(filepath.Join(repo, "templates", "ci.yml"), []byte(huntC15N2Workflow), 0644); err != nil {
		t.Fatal(err)
	}
	cfg := filepath.Join(d, "config.yaml")
	if err := os.WriteFile(cfg, []byte(huntC15N2Config), 0644); err != nil {
		t.Fatal(err)
	}

	// From the repository root with the plain relative spelling: templates/*.yml matches templates/ci.yml
	base := huntC15N2Run(t, repo, "-config-file", cfg, "templates/ci.yml")
	if strings.Contains(base, "undefined variable") || !strings.Contains(base, `property "nope"`) {
		t.Fatalf("sanity check failed: %q", base)
	}

	for _, c := range []struct {
		cwd  string
		path string
	}{
		{repo, "./templates/ci.yml"},
		{repo, filepath.Join(repo, "templates", "ci.yml")},
		{filepath.Join(repo, "templates"), "ci.yml"},
		{filepath.Join(repo, "docs"), "../templates/ci.yml"},
		{d, "repo/templates/ci.yml"},
	} {
		out := huntC15N2Run(t, c.cwd, "-config-file", cfg, c.path)
		if out != base {
			t.Errorf("cwd=%s path=%s: the file is templates/ci.yml of the repository in every run, so the result must be the same.\nwant:\n%s\ngot:\n%s", c.cwd, c.path, base, out)
		}
	}
}
