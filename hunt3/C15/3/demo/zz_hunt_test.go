package actionlint

import (
	"bytes"
	"os"
	"path/filepath"
	"strings"
	"testing"
)

// Property C15: a `paths` entry applies to a file iff its glob matches the file's path relative to
// the root of the repository containing it, independent of the current working directory and of how
// the path is spelled on the command line (here: given explicitly or found by running actionlint
// without arguments).
//
// Input form: a repository (e.g. a Git submodule, .git is a file) checked out below the
// .github/workflows directory of another repository. Both have their own config file.

const huntC15N3Workflow = `on: push
jobs:
  test:
    runs-on: ubuntu-latest
    steps:
      - run: echo ${{ foo.bar }}
      - run: echo ${{ github.nope }}
`

const huntC15N3Format = `{{range $e := .}}{{$e.Filepath}}|{{$e.Line}}:{{$e.Column}}:{{$e.Message}}\n{{end}}`

func huntC15N3Run(t *testing.T, cwd string, args ...string) string {
	t.Helper()
	old, err := os.Getwd()
	if err != nil {
		t.Fatal(err)
	}
	if err := os.Chdir(cwd); err != nil {
		t.Fatal(err)
	}
	defer os.Chdir(old)
	var o, e bytes.Buffer
	cmd := Command{Stdin: strings.NewReader(""), Stdout: &o, Stderr: &e}
	a := append([]string{"actionlint", "-no-color", "-shellcheck=", "-pyflakes=", "-format", huntC15N3Format}, args...)
	code := cmd.Main(a)
	if code != 0 && code != 1 {
		t.Fatalf("unexpected exit status %d for %v: %s", code, args, e.String())
	}
	return o.String()
}

// Returns "line:col:message" lines of diagnostics for files whose path ends with the suffix
func huntC15N3For(out, suffix string) string {
	var b strings.Builder
	for _, l := range strings.Split(out, "\n") {
		i := strings.IndexByte(l, '|')
		if i < 0 || !strings.HasSuffix(l[:i], suffix) {
			continue
		}
		b.WriteString(l[i+1:] + "\n")
	}
	return b.String()
}

func huntC15N3Write(t *testing.T, path, content string) {
	t.Helper()
	if err := os.MkdirAll(filepath.Dir(path), 0755); err != nil {
		t.Fatal(err)
	}
	if err := os.WriteFile(path, []byte(content), 0644); err != nil {
		t.Fatal(err)
	}
}

func TestHuntC15N3RepositoryBelowWorkflowsDir(t *testing.T) {
	d, err := filepath.EvalSymlinks(t.TempDir())
	if err != nil {
		t.Fatal(err)
	}
	outer := filepath.Join(d, "outer")
	if err := os.MkdirAll(filepath.Join(outer, ".git"), 0755); err != nil {
		t.Fatal(err)
	}
	huntC15N3Write(t, filepath.Join(outer, ".github", "workflows", "ci.yml"), huntC15N3Workflow)
	// The outer repository ignores "undefined variable" in every file named shared.yml
	huntC15N3Write(t, filepath.Join(outer, ".github", "actionlint.yaml"), "paths:\n  \"**/shared.yml\":\n    ignore:\n      - undefined variable\n")

	inner := filepath.Join(outer, ".github", "workflows", "common")
	huntC15N3Write(t, filepath.Join(inner, ".git"), "gitdir: ../../../.git/modules/common\n")
	huntC15N3Write(t, filepath.Join(inner, ".github", "workflows", "shared.yml"), huntC15N3Workflow)
	// The inner repository ignores the "property" diagnostic in its .github/workflows/shared.yml
	huntC15N3Write(t, filepath.Join(inner, ".github", "actionlint.yaml"), "paths:\n  .github/workflows/shared.yml:\n    ignore:\n      - property \"nope\" is not defined\n")

	rel := ".github/workflows/common/.github/workflows/shared.yml"

	// shared.yml is contained in the inner repository. Its path relative to that root is
	// .github/workflows/shared.yml so the inner config applies: only "undefined variable" remains.
	explicit := huntC15N3For(huntC15N3Run(t, outer, rel), "shared.yml")
	if !strings.Contains(explicit, "undefined variable") || strings.Contains(explicit, `property "nope"`) {
		t.Fatalf("sanity check failed: %q", explicit)
	}
	fromInner := huntC15N3For(huntC15N3Run(t, inner), "shared.yml")
	if fromInner != explicit {
		t.Fatalf("sanity check failed: %q vs %q", fromInner, explicit)
	}

	// The same file found by running actionlint without arguments at the outer repository
	all := huntC15N3For(huntC15N3Run(t, outer), "shared.yml")
	if all != explicit {
		t.Errorf("diagnostics of %s must not depend on whether the file is named on the command line or found by the directory scan.\nwant:\n%s\ngot:\n%s", rel, explicit, all)
	}
}
