package actionlint

import (
	"strings"
	"testing"
)

// "a key outside the set is reported at that key ... An unknown or duplicate key never suppresses the
// diagnostics of its sibling keys."
//
// The original job is a normal job (it has steps) which forgot "runs-on". "uses" is outside of the key
// set of a normal job. Inserting it (at the end, so that no position moves) must add a diagnostic at the
// inserted key and must keep the diagnostic about the missing mandatory key.
func TestHuntC13N4UsesInsertedIntoNormalJob(t *testing.T) {
	base := `on: push
jobs:
  test:
    timeout-minutes: 10
    steps:
      - run: echo
`
	_, before := Parse([]byte(base))
	missing := ""
	for _, e := range before {
		if strings.Contains(e.Message, `"runs-on" section is missing`) {
			missing = e.Error()
		}
	}
	if missing == "" {
		t.Fatalf("missing \"runs-on\" is not reported for the original workflow: %v", before)
	}

	_, after := Parse([]byte(base + "    uses: ./.github/workflows/build.yaml\n"))
	var got []string
	atKey := false
	stillMissing := false
	for _, e := range after {
		got = append(got, e.Error())
		if e.Line == 7 && e.Column == 5 {
			atKey = true
		}
		if e.Error() == missing {
			stillMissing = true
		}
	}
	if !atKey {
		t.Errorf("inserted foreign key \"uses\" is at 7:5 but no diagnostic is reported there. diagnostics: %s", strings.Join(got, " | "))
	}
	if !stillMissing {
		t.Errorf("diagnostic %q disappeared after inserting foreign key \"uses\". diagnostics: %s", missing, strings.Join(got, " | "))
	}
}
