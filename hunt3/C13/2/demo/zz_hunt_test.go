package actionlint

import (
	"io"
	"strings"
	"testing"
)

func huntC13N2Lint(t *testing.T, src string) []*Error {
	t.Helper()
	l, err := NewLinter(io.Discard, &LinterOptions{})
	if err != nil {
		t.Fatal(err)
	}
	errs, err := l.Lint("test.yaml", []byte(src), nil)
	if err != nil {
		t.Fatal(err)
	}
	return errs
}

// "a key outside the set is reported at that key"
//
// The key sets of the specifications below are fixed by the workflow syntax:
//   - "push" accepts branches, branches-ignore, tags, tags-ignore, paths, paths-ignore. It has no activity
//     types and "workflows" is only for workflow_run
//   - an input of workflow_dispatch whose type is not "choice" does not accept "options"
//
// Other foreign filters (e.g. "tags" in pull_request) are reported at the key. These are not.
func TestHuntC13N2ForeignKeyOfEventIsReportedAtTheKey(t *testing.T) {
	tests := []struct {
		what string
		src  string
		key  string
		line int
		col  int
	}{
		{
			what: "types in push",
			src: `on:
  push:
    branches: [main]
    types: [opened]
jobs:
  test:
    runs-on: ubuntu-latest
    steps:
      - run: echo
`,
			key:  "types",
			line: 4,
			col:  5,
		},
		{
			what: "workflows in push",
			src: `on:
  push:
    branches: [main]
    workflows: [build]
jobs:
  test:
    runs-on: ubuntu-latest
    steps:
      - run: echo
`,
			key:  "workflows",
			line: 4,
			col:  5,
		},
		{
			what: "options in string input of workflow_dispatch",
			src: `on:
  workflow_dispatch:
    inputs:
      name:
        type: string
        options: [a, b]
jobs:
  test:
    runs-on: ubuntu-latest
    steps:
      - run: echo
`,
			key:  "options",
			line: 6,
			col:  9,
		},
	}

	for _, tc := range tests {
		t.Run(tc.what, func(t *testing.T) {
			errs := huntC13N2Lint(t, tc.src)
			if len(errs) == 0 {
				t.Fatalf("foreign key %q is not reported at all", tc.key)
			}
			for _, e := range errs {
				if e.Line == tc.line && e.Column == tc.col {
					return // reported at the key
				}
			}
			var got []string
			for _, e := range errs {
				got = append(got, e.Error())
			}
			t.Errorf("foreign key %q is at %d:%d but no diagnostic is reported there. diagnostics: %s", tc.key, tc.line, tc.col, strings.Join(got, " | "))
		})
	}
}
