package actionlint

import (
	"strings"
	"testing"
)

// "a key outside the set is reported at that key"
//
// A step which runs an action accepts id, if, name, uses, with, env, continue-on-error, timeout-minutes.
// "run", "shell" and "working-directory" are outside of that set. "run" and "shell" are reported at the
// key, "working-directory" is reported at its value.
func TestHuntC13N3WorkingDirectoryInActionStepIsReportedAtTheKey(t *testing.T) {
	for _, key := range []string{"run", "shell", "working-directory"} {
		t.Run(key, func(t *testing.T) {
			src := `on: push
jobs:
  test:
    runs-on: ubuntu-latest
    steps:
      - uses: actions/checkout@v4
        ` + key + `: foo
`
			_, errs := Parse([]byte(src))
			if len(errs) == 0 {
				t.Fatalf("foreign key %q in step running action is not reported", key)
			}
			for _, e := range errs {
				if e.Line == 7 && e.Column == 9 {
					return // reported at the key
				}
			}
			var got []string
			for _, e := range errs {
				got = append(got, e.Error())
			}
			t.Errorf("foreign key %q is at 7:9 but no diagnostic is reported there. diagnostics: %s", key, strings.Join(got, " | "))
		})
	}
}
