package actionlint

import (
	"fmt"
	"io"
	"testing"
)

func huntC13N1Lint(t *testing.T, src string) []*Error {
	t.Helper()
	l, err := NewLinter(io.Discard, &LinterOptions{})
	if err != nil {
		t.Fatal(err)
	}
	errs, err := l.Lint("test.yaml", []byte(src), nil)
	if err != nil {
		t.Fatal(err)
	}
	return errs
}

// A job which calls a reusable workflow. Every sibling key of the job ("uses", "with", "secrets") has
// something to complain about.
const huntC13N1Base = `on: push
jobs:
  call:
    uses: owner/repo/no-ref.yaml
    with:
      a: ${{ undefined_variable }}
    secrets:
      s: ${{ secretz.FOO }}
`

// "An unknown or duplicate key never suppresses the diagnostics of its sibling keys."
//
// The key set of a job which calls a reusable workflow is fixed by the workflow syntax: name, uses, with,
// secrets, needs, if, permissions (and strategy, concurrency). The keys below are outside of that set.
// The foreign key is appended at the end of the job mapping so no position of the original workflow moves.
func TestHuntC13N1ForeignKeyInCallJobSuppressesSiblings(t *testing.T) {
	base := huntC13N1Lint(t, huntC13N1Base)
	if len(base) != 3 {
		t.Fatalf("unmutated workflow is expected to have 3 diagnostics (uses format at 4:11, with.a at 6:14, secrets.s at 8:14) but got %d: %v", len(base), base)
	}

	for _, foreign := range []string{
		"timeout-minutes: 10",
		"continue-on-error: true",
		"runs-on: ubuntu-latest",
		"environment: prod",
		"env: {A: b}",
	} {
		t.Run(foreign, func(t *testing.T) {
			mutated := huntC13N1Lint(t, huntC13N1Base+"    "+foreign+"\n")

			have := map[string]bool{}
			foreignReported := false
			for _, e := range mutated {
				have[fmt.Sprintf("%d:%d: %s", e.Line, e.Column, e.Message)] = true
				if e.Line == 9 && e.Column == 5 {
					foreignReported = true
				}
			}
			if !foreignReported {
				t.Errorf("foreign key %q is not reported at the key (9:5): %v", foreign, mutated)
			}
			for _, e := range base {
				k := fmt.Sprintf("%d:%d: %s", e.Line, e.Column, e.Message)
				if !have[k] {
					t.Errorf("diagnostic of a sibling key was suppressed by inserting foreign key %q: %s", foreign, k)
				}
			}
		})
	}
}
