package actionlint

import (
	"fmt"
	"io"
	"testing"
)

// Property C19, last clause: "rows or entries built from expressions are never reported".
// Here the expression sits in the KEY of a mapping value instead of in a scalar value.

func huntC19N1MatrixErrors(t *testing.T, src string) []string {
	t.Helper()
	l, err := NewLinter(io.Discard, &LinterOptions{})
	if err != nil {
		t.Fatal(err)
	}
	errs, err := l.Lint("test.yaml", []byte(src), nil)
	if err != nil {
		t.Fatal(err)
	}
	ret := []string{}
	for _, e := range errs {
		if e.Kind == "matrix" {
			ret = append(ret, fmt.Sprintf("%d:%d: %s", e.Line, e.Column, e.Message))
		}
	}
	return ret
}

// The exclude filter is a mapping whose member name is only known at run time. It can be equal to "main" and
// then the filter matches the row value, so the entry must not be reported.
func TestHuntC19N1ExcludeFilterWithExpressionKey(t *testing.T) {
	src := `on: push
jobs:
  test:
    runs-on: ubuntu-latest
    strategy:
      matrix:
        cfg:
          - {main: 1}
          - {dev: 1}
        exclude:
          - cfg: {'${{ github.ref_name }}': 1}
    steps:
      - run: echo
`
	if errs := huntC19N1MatrixErrors(t, src); len(errs) != 0 {
		t.Fatalf("exclude entry built from an expression must not be reported, but got %q", errs)
	}
}

// Same on the candidate side: the row value is built from an expression (its member name is dynamic),
// so a static exclude filter cannot be said not to match it.
func TestHuntC19N1RowValueWithExpressionKey(t *testing.T) {
	src := `on: push
jobs:
  test:
    runs-on: ubuntu-latest
    strategy:
      matrix:
        cfg:
          - {'${{ github.ref_name }}': 1}
        exclude:
          - cfg: {main: 1}
    steps:
      - run: echo
`
	if errs := huntC19N1MatrixErrors(t, src); len(errs) != 0 {
		t.Fatalf("exclude entry matched against a row value built from an expression must not be reported, but got %q", errs)
	}
}
