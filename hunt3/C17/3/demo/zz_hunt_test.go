package actionlint

import (
	"io"
	"testing"
)

// The ref-name character check is skipped for everything between '[' and ']'. A set that lists characters which Git
// forbids in ref names (space, ~, ^, :, \) is a branch/tag filter containing ref-forbidden characters, but it is
// accepted, while the same characters outside of a set are reported.
func TestHuntC17N3RefForbiddenCharsInsideSetAPI(t *testing.T) {
	for _, p := range []string{"v~x", "v x", "v:x", "v^x", `v\x`} {
		if len(ValidateRefGlob(p)) == 0 {
			t.Fatalf("sanity: %q should be reported", p)
		}
	}
	for _, p := range []string{"v[~^:]x", "rel[ \t]x", `v[\\/]x`, "v[:-~]"} {
		if errs := ValidateRefGlob(p); len(errs) == 0 {
			t.Errorf("ValidateRefGlob(%q): set consists of characters forbidden in ref names but nothing is reported", p)
		}
	}
}

func TestHuntC17N3RefForbiddenCharsInsideSetLint(t *testing.T) {
	src := "on:\n  push:\n    tags:\n      - v[~^:]x\njobs:\n  a:\n    runs-on: ubuntu-latest\n    steps:\n      - run: echo\n"
	l, err := NewLinter(io.Discard, &LinterOptions{})
	if err != nil {
		t.Fatal(err)
	}
	errs, err := l.Lint("test.yaml", []byte(src), nil)
	if err != nil {
		t.Fatal(err)
	}
	for _, e := range errs {
		if e.Kind == "glob" && e.Line == 4 {
			return
		}
	}
	t.Errorf("tag filter v[~^:]x on line 4 is not reported; diagnostics: %v", errs)
}
