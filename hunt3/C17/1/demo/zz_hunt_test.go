package actionlint

import (
	"io"
	"testing"
)

// Git ref-name rule (man git-check-ref-format, rule 4): a ref name cannot contain ASCII control characters
// (bytes lower than \040, or \177 DEL), space, ~, ^ or ':' anywhere. The property says a branch/tag filter is
// reported iff it violates the glob syntax or the Git ref-name character rules.
func TestHuntC17N1ControlCharsInRefFilterAPI(t *testing.T) {
	// sanity: the sibling characters of the same Git rule are reported
	for _, p := range []string{"a b", "a\tb", "a~b", "a^b", "a:b"} {
		if len(ValidateRefGlob(p)) == 0 {
			t.Fatalf("sanity: %q should be reported", p)
		}
	}
	for _, p := range []string{"a\x7fb", "a\x01b", "rel\x1bease", "\x08", "v1\x0c", "x\x1f/y"} {
		if errs := ValidateRefGlob(p); len(errs) == 0 {
			t.Errorf("ValidateRefGlob(%q): control character is forbidden in ref names by git-check-ref-format but nothing is reported", p)
		}
	}
}

func TestHuntC17N1ControlCharsInRefFilterLint(t *testing.T) {
	src := "on:\n  push:\n    branches:\n      - \"a\\x7Fb\"\n    tags:\n      - \"v\\x01\"\njobs:\n  a:\n    runs-on: ubuntu-latest\n    steps:\n      - run: echo\n"
	l, err := NewLinter(io.Discard, &LinterOptions{})
	if err != nil {
		t.Fatal(err)
	}
	errs, err := l.Lint("test.yaml", []byte(src), nil)
	if err != nil {
		t.Fatal(err)
	}
	lines := map[int]bool{}
	for _, e := range errs {
		if e.Kind == "glob" {
			lines[e.Line] = true
		}
	}
	if !lines[4] {
		t.Errorf("branch filter \"a\\x7Fb\" (contains DEL) on line 4 is not reported; diagnostics: %v", errs)
	}
	if !lines[6] {
		t.Errorf("tag filter \"v\\x01\" (contains U+0001) on line 6 is not reported; diagnostics: %v", errs)
	}
}
