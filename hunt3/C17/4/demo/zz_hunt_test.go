package actionlint

import (
	"io"
	"testing"
)

// GitHub's filter syntax allows any non-empty [...] set with well-ordered ranges; a set with one member is valid.
// The property says a filter is reported iff it violates the syntax, so these patterns must be accepted. They are
// rejected as "useless. simply use x instead of [x]" - advice that is even wrong when x is a special character
// ([*] matches a literal asterisk, * does not).
func TestHuntC17N4SingleMemberSetIsValidSyntaxAPI(t *testing.T) {
	for _, p := range []string{"docs/[*].md", "what[?]", "c[+][+]", "x[[]y", "v[1].0"} {
		if errs := ValidatePathGlob(p); len(errs) != 0 {
			t.Errorf("ValidatePathGlob(%q): syntactically valid pattern (non-empty set, no ranges) is reported: %v", p, errs)
		}
	}
	for _, p := range []string{"c[+][+]", "v[1].0"} {
		if errs := ValidateRefGlob(p); len(errs) != 0 {
			t.Errorf("ValidateRefGlob(%q): syntactically valid pattern (non-empty set, no ranges) is reported: %v", p, errs)
		}
	}
}

func TestHuntC17N4SingleMemberSetIsValidSyntaxLint(t *testing.T) {
	src := "on:\n  push:\n    paths:\n      - 'docs/[*].md'\njobs:\n  a:\n    runs-on: ubuntu-latest\n    steps:\n      - run: echo\n"
	l, err := NewLinter(io.Discard, &LinterOptions{})
	if err != nil {
		t.Fatal(err)
	}
	errs, err := l.Lint("test.yaml", []byte(src), nil)
	if err != nil {
		t.Fatal(err)
	}
	for _, e := range errs {
		if e.Kind == "glob" {
			t.Errorf("valid path filter 'docs/[*].md' is reported: %v", e)
		}
	}
}
