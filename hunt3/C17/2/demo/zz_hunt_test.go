package actionlint

import (
	"io"
	"testing"
)

// In the filter syntax `\\` is an escaped, i.e. literal, backslash. Git ref names cannot contain a backslash
// (git-check-ref-format rule 9), exactly like they cannot contain '[', '?' and '*' - and the escaped forms `\[`, `\?`,
// `\*` ARE reported for branch/tag filters for that reason. A filter that requires a literal backslash violates the
// ref-name character rules, so it must be reported.
func TestHuntC17N2EscapedBackslashInRefFilterAPI(t *testing.T) {
	for _, p := range []string{`a\[b`, `a\?b`, `a\*b`, `a\b`} {
		if len(ValidateRefGlob(p)) == 0 {
			t.Fatalf("sanity: %q should be reported", p)
		}
	}
	for _, p := range []string{`a\\b`, `\\`, `release\\v1`, `!\\x`} {
		if errs := ValidateRefGlob(p); len(errs) == 0 {
			t.Errorf("ValidateRefGlob(%q): pattern demands a literal backslash, which no ref name can contain, but nothing is reported", p)
		}
	}
}

func TestHuntC17N2EscapedBackslashInRefFilterLint(t *testing.T) {
	src := "on:\n  push:\n    branches:\n      - 'release\\\\v1'\njobs:\n  a:\n    runs-on: ubuntu-latest\n    steps:\n      - run: echo\n"
	l, err := NewLinter(io.Discard, &LinterOptions{})
	if err != nil {
		t.Fatal(err)
	}
	errs, err := l.Lint("test.yaml", []byte(src), nil)
	if err != nil {
		t.Fatal(err)
	}
	for _, e := range errs {
		if e.Kind == "glob" && e.Line == 4 {
			return
		}
	}
	t.Errorf("branch filter 'release\\\\v1' on line 4 is not reported; diagnostics: %v", errs)
}
