package actionlint

import (
	"io"
	"os"
	"path/filepath"
	"strings"
	"testing"
	"time"
)

// Property C01: for every byte sequence (bounded size, e.g. <= 64 KiB) supplied as a workflow file, linting
// terminates in bounded time.
//
// The workflow below is smaller than 64 KiB. Its "if:" condition is one long line with about 21000 undefined
// variables. Checking it takes some milliseconds (see the -oneline run), but reporting the diagnostics takes
// more than half a minute since Error.PrettyPrint scans the source from the start and rebuilds the padding of the
// indicator character by character over the whole ~63 KiB line for every one of the ~21000 diagnostics.
func TestHuntC01N2ManyDiagnosticsOnLongLineTakeTooLong(t *testing.T) {
	dir := t.TempDir()
	for _, d := range []string{".git", filepath.Join(".github", "workflows")} {
		if err := os.MkdirAll(filepath.Join(dir, d), 0o755); err != nil {
			t.Fatal(err)
		}
	}

	src := "on: push\n" +
		"jobs:\n" +
		"  a:\n" +
		"    runs-on: ubuntu-latest\n" +
		"    if: x" + strings.Repeat("||x", 21000) + "\n" +
		"    steps:\n" +
		"      - run: echo\n"
	if len(src) > 64*1024 {
		t.Fatalf("input must not be larger than 64KiB: %d", len(src))
	}
	path := filepath.Join(dir, ".github", "workflows", "test.yaml")

	proj, err := NewProject(dir)
	if err != nil {
		t.Fatal(err)
	}

	// The check itself is fast
	{
		l, err := NewLinter(io.Discard, &LinterOptions{WorkingDir: dir, Oneline: true})
		if err != nil {
			t.Fatal(err)
		}
		start := time.Now()
		errs, err := l.Lint(path, []byte(src), proj)
		t.Logf("with -oneline: %d diagnostics, err=%v, elapsed=%v", len(errs), err, time.Since(start))
	}

	l, err := NewLinter(io.Discard, &LinterOptions{WorkingDir: dir})
	if err != nil {
		t.Fatal(err)
	}
	done := make(chan int, 1)
	start := time.Now()
	go func() {
		errs, _ := l.Lint(path, []byte(src), proj)
		done <- len(errs)
	}()

	const limit = 5 * time.Second
	select {
	case n := <-done:
		t.Logf("linting terminated in %v with %d diagnostics", time.Since(start), n)
	case <-time.After(limit):
		t.Fatalf("Linter.Lint did not return within %v for a %d bytes workflow (default output with snippets)", limit, len(src))
	}
}
