package actionlint

import (
	"io"
	"os"
	"path/filepath"
	"strings"
	"testing"
	"time"
)

// Property C01: for every byte sequence supplied as a workflow file, linting terminates in bounded time and
// either returns diagnostics or a fatal error. It never hangs.
//
// The workflow below calls a "local reusable workflow" whose path climbs out of the repository to /proc/kmsg.
// LocalReusableWorkflowCache.FindMetadata only refuses files for which os.Stat says !Mode().IsRegular().
// Files of procfs are reported as regular files, and reading /proc/kmsg never reaches EOF (it blocks waiting
// for the next kernel message), so os.ReadFile never returns and Linter.Lint hangs forever.
func TestHuntC01N1ReusableWorkflowProcKmsgHang(t *testing.T) {
	const target = "/proc/kmsg"
	info, err := os.Stat(target)
	if err != nil || !info.Mode().IsRegular() {
		t.Skipf("%s is not available on this system: %v", target, err)
	}
	f, err := os.Open(target)
	if err != nil {
		t.Skipf("%s cannot be opened by this user (root or CAP_SYSLOG is necessary to demonstrate the hang): %v", target, err)
	}
	f.Close()

	dir := t.TempDir()
	for _, d := range []string{".git", filepath.Join(".github", "workflows")} {
		if err := os.MkdirAll(filepath.Join(dir, d), 0o755); err != nil {
			t.Fatal(err)
		}
	}

	src := "on: push\n" +
		"jobs:\n" +
		"  call:\n" +
		"    uses: ./" + strings.Repeat("../", 40) + "proc/kmsg\n"
	path := filepath.Join(dir, ".github", "workflows", "test.yaml")
	if err := os.WriteFile(path, []byte(src), 0o644); err != nil {
		t.Fatal(err)
	}

	proj, err := NewProject(dir)
	if err != nil {
		t.Fatal(err)
	}
	l, err := NewLinter(io.Discard, &LinterOptions{WorkingDir: dir})
	if err != nil {
		t.Fatal(err)
	}

	type result struct {
		errs []*Error
		err  error
	}
	done := make(chan result, 1)
	go func() {
		errs, err := l.Lint(path, []byte(src), proj)
		done <- result{errs, err}
	}()

	select {
	case r := <-done:
		// Either diagnostics or a fatal error are fine. The statement only requires termination.
		t.Logf("linting terminated: %d diagnostics, err=%v", len(r.errs), r.err)
		for _, e := range r.errs {
			t.Log(e.Error())
		}
	case <-time.After(10 * time.Second):
		t.Fatalf("Linter.Lint did not return within 10 seconds for a %d bytes workflow. it hangs on reading %s as a local reusable workflow:\n%s", len(src), target, src)
	}
}
