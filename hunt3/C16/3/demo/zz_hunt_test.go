package actionlint

import (
	"bytes"
	"encoding/json"
	"os"
	"path/filepath"
	"regexp"
	"strconv"
	"strings"
	"testing"

	"github.com/fatih/color"
)

func huntC16N3Matcher(t *testing.T) *regexp.Regexp {
	t.Helper()
	b, err := os.ReadFile(filepath.Join(".github", "actionlint-matcher.json"))
	if err != nil {
		t.Fatal(err)
	}
	var m struct {
		ProblemMatcher []struct {
			Pattern []struct {
				Regexp string `json:"regexp"`
			} `json:"pattern"`
		} `json:"problemMatcher"`
	}
	if err := json.Unmarshal(b, &m); err != nil {
		t.Fatal(err)
	}
	return regexp.MustCompile(m.ProblemMatcher[0].Pattern[0].Regexp)
}

// In default mode the referenced source line is printed after the header line. Feeding the output to the shipped
// problem matcher must give back exactly the diagnostics which the linter returned.
func huntC16N3Check(t *testing.T, src string, colorOpt ColorOptionKind) {
	t.Helper()
	re := huntC16N3Matcher(t)
	defer func(b bool) { color.NoColor = b }(color.NoColor) // NewLinter modifies the global flag
	var out bytes.Buffer
	l, err := NewLinter(&out, &LinterOptions{Color: colorOpt, Shellcheck: "", Pyflakes: ""})
	if err != nil {
		t.Fatal(err)
	}
	errs, err := l.Lint("test.yaml", []byte(src), nil)
	if err != nil {
		t.Fatal(err)
	}
	if len(errs) != 1 {
		t.Fatalf("one diagnostic should be reported but got %v", errs)
	}

	var parsed [][]string
	for _, line := range strings.Split(out.String(), "\n") {
		if m := re.FindStringSubmatch(line); m != nil {
			parsed = append(parsed, m[1:])
		}
	}

	if len(parsed) != len(errs) {
		t.Errorf("linter returned %d diagnostic(s) but the problem matcher found %d in the output:\n%s\nparsed: %q", len(errs), len(parsed), out.String(), parsed)
	}
	for _, p := range parsed {
		found := false
		for _, e := range errs {
			if p[0] == e.Filepath && p[1] == strconv.Itoa(e.Line) && p[2] == strconv.Itoa(e.Column) && p[3] == e.Message && p[4] == e.Kind {
				found = true
			}
		}
		if !found {
			t.Errorf("problem matcher parsed a diagnostic which the linter did not return: file=%q line=%s col=%s message=%q kind=%q", p[0], p[1], p[2], p[3], p[4])
		}
	}
}

const huntC16N3Workflow = `on: push
jobs:
  test:
    runs-on: ubuntu-latest
    steps:
      - run: echo ${{ foo }} # 2024-01-01 10:30:00: temporary hack [TODO]
`

func TestHuntC16N3SnippetLineParsedAsDiagnosticNoColor(t *testing.T) {
	huntC16N3Check(t, huntC16N3Workflow, ColorOptionKindNever)
}

func TestHuntC16N3SnippetLineParsedAsDiagnosticColor(t *testing.T) {
	huntC16N3Check(t, huntC16N3Workflow, ColorOptionKindAlways)
}
