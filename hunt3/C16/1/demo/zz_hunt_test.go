package actionlint

import (
	"bytes"
	"encoding/json"
	"os"
	"path/filepath"
	"testing"
	"unicode/utf8"
)

func huntC16N1Write(t *testing.T, root, rel, content string) {
	t.Helper()
	p := filepath.Join(root, filepath.FromSlash(rel))
	if err := os.MkdirAll(filepath.Dir(p), 0o755); err != nil {
		t.Fatal(err)
	}
	if err := os.WriteFile(p, []byte(content), 0o644); err != nil {
		t.Fatal(err)
	}
}

// huntC16N1Check lints .github/workflows/main.yaml of the project with -format '{{json .}}' and checks that
// the JSON output gives back the fields of the diagnostics which the library API returned.
func huntC16N1Check(t *testing.T, root string) {
	t.Helper()
	var out bytes.Buffer
	l, err := NewLinter(&out, &LinterOptions{Format: "{{json .}}", WorkingDir: root, Shellcheck: "", Pyflakes: ""})
	if err != nil {
		t.Fatal(err)
	}
	errs, err := l.LintFile(filepath.Join(root, ".github", "workflows", "main.yaml"), nil)
	if err != nil {
		t.Fatal(err)
	}
	if len(errs) == 0 {
		t.Fatal("no diagnostic was reported")
	}

	var got []struct {
		Message  string `json:"message"`
		Filepath string `json:"filepath"`
		Line     int    `json:"line"`
		Column   int    `json:"column"`
		Kind     string `json:"kind"`
	}
	if err := json.Unmarshal(out.Bytes(), &got); err != nil {
		t.Fatalf("output of -format '{{json .}}' is not JSON: %v: %q", err, out.String())
	}
	if len(got) != len(errs) {
		t.Fatalf("%d diagnostics were returned but %d objects are in JSON output", len(errs), len(got))
	}
	for i, e := range errs {
		g := got[i]
		if g.Filepath != e.Filepath || g.Line != e.Line || g.Column != e.Column || g.Kind != e.Kind {
			t.Errorf("position/kind did not round-trip: %+v vs %+v", g, e)
		}
		if g.Message != e.Message {
			t.Errorf("message did not round-trip through -format '{{json .}}':\n  returned: %q\n  JSON:     %q\n  (valid UTF-8: %v)", e.Message, g.Message, utf8.ValidString(e.Message))
		}
	}
}

// A local action whose input is described with a plain Japanese string instead of a mapping
func TestHuntC16N1JSONRoundTripLocalActionMetadataError(t *testing.T) {
	root := t.TempDir()
	if err := os.MkdirAll(filepath.Join(root, ".git"), 0o755); err != nil {
		t.Fatal(err)
	}
	huntC16N1Write(t, root, "act/action.yml", "name: test\ndescription: test\ninputs:\n  name: 名前を入力してください\nruns:\n  using: node20\n  main: index.js\n")
	huntC16N1Write(t, root, ".github/workflows/main.yaml", "on: push\njobs:\n  a:\n    runs-on: ubuntu-latest\n    steps:\n      - uses: ./act\n")
	huntC16N1Check(t, root)
}

// The same with a local reusable workflow
func TestHuntC16N1JSONRoundTripReusableWorkflowError(t *testing.T) {
	root := t.TempDir()
	if err := os.MkdirAll(filepath.Join(root, ".git"), 0o755); err != nil {
		t.Fatal(err)
	}
	huntC16N1Write(t, root, ".github/workflows/reuse.yaml", "on:\n  workflow_call:\n    inputs:\n      name: 名前を入力してください\njobs:\n  a:\n    runs-on: ubuntu-latest\n    steps:\n      - run: echo\n")
	huntC16N1Write(t, root, ".github/workflows/main.yaml", "on: push\njobs:\n  b:\n    uses: ./.github/workflows/reuse.yaml\n")
	huntC16N1Check(t, root)
}
