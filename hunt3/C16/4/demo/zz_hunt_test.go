package actionlint

import (
	"bytes"
	"strings"
	"testing"
	"unicode/utf16"
)

// huntC16N4UTF16 encodes the text in UTF-16 (little endian) with byte order mark. The YAML parser detects the
// encoding from the mark, so such a file is checked by actionlint like a UTF-8 file.
func huntC16N4UTF16(s string) []byte {
	b := []byte{0xff, 0xfe}
	for _, u := range utf16.Encode([]rune(s)) {
		b = append(b, byte(u), byte(u>>8))
	}
	return b
}

// huntC16N4Check checks that the snippet shown for the single diagnostic is the referenced line of the text and
// the caret is under the reported column.
func huntC16N4Check(t *testing.T, text string) {
	t.Helper()
	src := huntC16N4UTF16(text)

	var out bytes.Buffer
	l, err := NewLinter(&out, &LinterOptions{Color: ColorOptionKindNever, Shellcheck: "", Pyflakes: ""})
	if err != nil {
		t.Fatal(err)
	}
	errs, err := l.Lint("test.yaml", src, nil)
	if err != nil {
		t.Fatal(err)
	}
	if len(errs) != 1 || errs[0].Kind != "expression" {
		t.Fatalf("one diagnostic of expression rule should be reported but got %v", errs)
	}
	e := errs[0]
	want := strings.Split(text, "\n")[e.Line-1]
	if !strings.HasPrefix(string([]rune(want)[e.Column-1:]), "foo") {
		t.Fatalf("position %d:%d is not the position of the variable in %q", e.Line, e.Column, want)
	}

	lines := strings.Split(out.String(), "\n")
	// lines[0] is the header, lines[1] is "  |", lines[2] is the source line, lines[3] is the indicator
	if len(lines) < 4 {
		return // Snippet is not shown
	}
	gutter := len("N | ")
	if got := lines[2][gutter:]; got != want {
		t.Errorf("snippet in default mode is not the source line %d:\n  want: %q\n  got:  %q", e.Line, want, got)
	}
	if got := strings.Index(lines[3][gutter:], "^"); got != e.Column-1 {
		t.Errorf("caret in default mode is at offset %d but the reported column is %d", got, e.Column)
	}

	f := e.GetTemplateFields(src)
	ss := strings.Split(f.Snippet, "\n")
	if ss[0] != want {
		t.Errorf("snippet for -format is not the source line %d:\n  want: %q\n  got:  %q", e.Line, want, ss[0])
	}
	if len(ss) > 1 {
		if got := strings.Index(ss[1], "^"); got != e.Column-1 {
			t.Errorf("caret for -format is at offset %d but the reported column is %d", got, e.Column)
		}
	}
}

func TestHuntC16N4SnippetOfUTF16Source(t *testing.T) {
	huntC16N4Check(t, "on: push\njobs:\n  test:\n    runs-on: ubuntu-latest\n    steps:\n      - run: echo ${{ foo }}\n")
}

// U+010A is encoded as 0A 01. The byte 0A is counted as a line break on looking for the line of the snippet
func TestHuntC16N4SnippetOfUTF16SourceWrongLine(t *testing.T) {
	huntC16N4Check(t, "# \u010A\u010A\non: push\njobs:\n  test:\n    runs-on: ubuntu-latest\n    steps:\n      - run: echo ${{ foo }}\n")
}
