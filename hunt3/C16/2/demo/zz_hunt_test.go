package actionlint

import (
	"bytes"
	"encoding/json"
	"os"
	"path/filepath"
	"regexp"
	"runtime"
	"strconv"
	"strings"
	"testing"
)

// huntC16N2FakeTool creates an executable which ignores its input and prints the given output like the real
// tool does for the script in the workflow of the test (the real tools are not installed in the sandbox).
func huntC16N2FakeTool(t *testing.T, name, output string) string {
	t.Helper()
	if runtime.GOOS == "windows" {
		t.Skip("shell script is used as fake external command")
	}
	dir := t.TempDir()
	out := filepath.Join(dir, name+".out")
	if err := os.WriteFile(out, []byte(output), 0o644); err != nil {
		t.Fatal(err)
	}
	p := filepath.Join(dir, name)
	script := "#!/bin/sh\ncat >/dev/null\ncat '" + out + "'\nexit 1\n"
	if err := os.WriteFile(p, []byte(script), 0o755); err != nil {
		t.Fatal(err)
	}
	return p
}

// huntC16N2Matcher compiles the regular expression of the shipped problem matcher. The project tests the pattern
// with JavaScript's RegExp (scripts/generate-actionlint-matcher/test.mjs) where '.' does not match the line
// terminators LF, CR, U+2028 and U+2029. Go's '.' only excludes LF so it is replaced with the equivalent class.
func huntC16N2Matcher(t *testing.T) *regexp.Regexp {
	t.Helper()
	b, err := os.ReadFile(filepath.Join(".github", "actionlint-matcher.json"))
	if err != nil {
		t.Fatal(err)
	}
	var m struct {
		ProblemMatcher []struct {
			Pattern []struct {
				Regexp string `json:"regexp"`
			} `json:"pattern"`
		} `json:"problemMatcher"`
	}
	if err := json.Unmarshal(b, &m); err != nil {
		t.Fatal(err)
	}
	r := m.ProblemMatcher[0].Pattern[0].Regexp
	r = strings.ReplaceAll(r, "(.+?)", `([^\n\r\x{2028}\x{2029}]+?)`)
	return regexp.MustCompile(r)
}

func huntC16N2Check(t *testing.T, src string, want string, opts *LinterOptions) {
	t.Helper()
	re := huntC16N2Matcher(t)
	var out bytes.Buffer
	opts.Oneline = true
	opts.Color = ColorOptionKindNever
	l, err := NewLinter(&out, opts)
	if err != nil {
		t.Fatal(err)
	}
	errs, err := l.Lint("test.yaml", []byte(src), nil)
	if err != nil {
		t.Fatal(err)
	}
	if len(errs) != 1 || errs[0].Kind != want {
		t.Fatalf("one diagnostic of %s rule should be reported but got %v", want, errs)
	}

	for _, e := range errs {
		if strings.ContainsAny(e.Message, "\n\r\u0085\u2028\u2029") {
			t.Errorf("message contains a line break: %q", e.Message)
		}
	}

	// One diagnostic must be one line for consumers of -oneline output whatever line terminator they know
	lines := strings.FieldsFunc(out.String(), func(r rune) bool {
		return r == '\n' || r == '\r' || r == '\u0085' || r == '\u2028' || r == '\u2029'
	})
	if len(lines) != len(errs) {
		t.Errorf("%d diagnostics were returned but -oneline output consists of %d lines: %q", len(errs), len(lines), out.String())
	}

	// Each header line (lines are separated by LF in the output) is parsed back by the problem matcher
	hs := strings.Split(strings.TrimSuffix(out.String(), "\n"), "\n")
	for i, e := range errs {
		if i >= len(hs) {
			break
		}
		m := re.FindStringSubmatch(hs[i])
		if m == nil {
			t.Errorf("header line is not matched by the problem matcher pattern: %q", hs[i])
			continue
		}
		if m[1] != e.Filepath || m[2] != strconv.Itoa(e.Line) || m[3] != strconv.Itoa(e.Column) || m[4] != e.Message || m[5] != e.Kind {
			t.Errorf("header line %q was parsed back to %q but the diagnostic is %#v", hs[i], m[1:], e)
		}
	}
}

// pyflakes reports keys of the dict literal as they are evaluated. The key 'b\rc' is written with an escape
// sequence in the script, and pyflakes prints CR as-is in the middle of its one-line message:
//
//	<stdin>:1:7: '...' % ... has unused named argument(s): b<CR>c
func TestHuntC16N2PyflakesMessageWithCarriageReturn(t *testing.T) {
	pyflakes := huntC16N2FakeTool(t, "pyflakes", "<stdin>:1:7: '...' % ... has unused named argument(s): b\rc\n")
	src := `on: push
jobs:
  test:
    runs-on: ubuntu-latest
    steps:
      - run: |
          print('%(a)s' % {'a': 1, 'b\rc': 2})
        shell: python
`
	huntC16N2Check(t, src, "pyflakes", &LinterOptions{Pyflakes: pyflakes})
}

// shellcheck echoes the character following a backslash in SC1001. The script is `echo \<U+2028>` (written with an
// escape sequence in a double quoted YAML string) and the JSON output of shellcheck contains U+2028 as-is.
func TestHuntC16N2ShellcheckMessageWithLineSeparator(t *testing.T) {
	shellcheck := huntC16N2FakeTool(t, "shellcheck", `[{"file":"-","line":2,"endLine":2,"column":6,"endColumn":8,"level":"info","code":1001,"message":"This \\`+"\u2028"+` will be a regular '`+"\u2028"+`' in this context.","fix":null}]`+"\n")
	src := `on: push
jobs:
  test:
    runs-on: ubuntu-latest
    steps:
      - run: "echo \\\u2028"
`
	huntC16N2Check(t, src, "shellcheck", &LinterOptions{Shellcheck: shellcheck})
}
