package actionlint

import (
	"io"
	"os"
	"path/filepath"
	"strings"
	"testing"
)

// Property C10: "each file gets exactly the diagnostics it gets when linted alone with its own
// repository's configuration ... and a file is always attributed to the repository that actually
// contains it."
//
// Layout: repository "outer" has a Git submodule (own .git, own .github/workflows) checked out below
// its .github/workflows directory, e.g. a repository of shared workflows. Running actionlint without
// arguments (Linter.LintRepository) collects the workflow files recursively and lints all of them as
// files of "outer". Passing the same file as an argument attributes it to the submodule.

const huntC10N3Workflow = `on: push
jobs:
  test:
    runs-on: my-runner
    steps:
      - run: echo hello
`

func huntC10N3Layout(t *testing.T, files map[string]string) string {
	t.Helper()
	root := t.TempDir()
	if r, err := filepath.EvalSymlinks(root); err == nil {
		root = r
	}
	for p, c := range files {
		full := filepath.Join(root, filepath.FromSlash(p))
		if strings.HasSuffix(p, "/") {
			if err := os.MkdirAll(full, 0o755); err != nil {
				t.Fatal(err)
			}
			continue
		}
		if err := os.MkdirAll(filepath.Dir(full), 0o755); err != nil {
			t.Fatal(err)
		}
		if err := os.WriteFile(full, []byte(c), 0o644); err != nil {
			t.Fatal(err)
		}
	}
	return root
}

func huntC10N3Messages(errs []*Error, file string) []string {
	r := []string{}
	for _, e := range errs {
		if filepath.ToSlash(e.Filepath) == file {
			r = append(r, e.Error())
		}
	}
	return r
}

func TestHuntC10N3RepositoryWalkAttributesNestedRepositoryToOuter(t *testing.T) {
	root := huntC10N3Layout(t, map[string]string{
		"outer/.git/":                   "",
		"outer/.github/workflows/o.yml": huntC10N3Workflow,
		"outer/.github/actionlint.yaml": "self-hosted-runner:\n  labels: [my-runner]\n",
		"outer/.github/workflows/shared/.git":                      "gitdir: ../../../.git/modules/shared\n",
		"outer/.github/workflows/shared/.github/workflows/x.yml":   huntC10N3Workflow,
		"outer/.github/workflows/shared/.github/actionlint.yaml":   "self-hosted-runner:\n  labels: []\n",
	})
	target := "outer/.github/workflows/shared/.github/workflows/x.yml"

	// The file linted alone: it belongs to the repository "shared" whose configuration does not know "my-runner"
	l, err := NewLinter(io.Discard, &LinterOptions{WorkingDir: root})
	if err != nil {
		t.Fatal(err)
	}
	errs, err := l.LintFiles([]string{filepath.Join(root, filepath.FromSlash(target))}, nil)
	if err != nil {
		t.Fatal(err)
	}
	alone := huntC10N3Messages(errs, target)
	if len(alone) != 1 || !strings.Contains(alone[0], `label "my-runner" is unknown`) {
		t.Fatalf("unexpected diagnostics for the file linted alone: %q", alone)
	}

	// The file linted together with the other files of the run (actionlint without arguments in "outer")
	l, err = NewLinter(io.Discard, &LinterOptions{WorkingDir: root})
	if err != nil {
		t.Fatal(err)
	}
	errs, err = l.LintRepository(filepath.Join(root, "outer"))
	if err != nil {
		t.Fatal(err)
	}
	multi := huntC10N3Messages(errs, target)
	if strings.Join(alone, "\n") != strings.Join(multi, "\n") {
		t.Errorf("%s gets different diagnostics in the multi-file run (it is attributed to \"outer\" instead of the repository containing it).\nalone: %q\nmulti: %q", target, alone, multi)
	}
}
