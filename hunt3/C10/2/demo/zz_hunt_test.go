package actionlint

import (
	"io"
	"os"
	"path/filepath"
	"strings"
	"testing"
)

// Property C10: "... a file is always attributed to the repository that actually contains it", and
// each file is linted "with its own repository's configuration, local actions and reusable
// workflows".
//
// Layout: Git repository "outer" contains another Git repository "outer/inner" (e.g. a submodule or
// a nested clone of an organization's ".github" repository which keeps workflows in
// "workflow-templates/"). "inner" has its own .git and its own .github/actionlint.yaml but no
// .github/workflows directory. The workflow file is inside "inner".

const huntC10N2Workflow = `on: push
jobs:
  test:
    runs-on: my-runner
    steps:
      - run: echo ${{ vars.FOO }}
`

func huntC10N2Layout(t *testing.T, files map[string]string) string {
	t.Helper()
	root := t.TempDir()
	if r, err := filepath.EvalSymlinks(root); err == nil {
		root = r
	}
	for p, c := range files {
		full := filepath.Join(root, filepath.FromSlash(p))
		if strings.HasSuffix(p, "/") {
			if err := os.MkdirAll(full, 0o755); err != nil {
				t.Fatal(err)
			}
			continue
		}
		if err := os.MkdirAll(filepath.Dir(full), 0o755); err != nil {
			t.Fatal(err)
		}
		if err := os.WriteFile(full, []byte(c), 0o644); err != nil {
			t.Fatal(err)
		}
	}
	return root
}

func TestHuntC10N2NestedRepositoryWithoutWorkflowsDir(t *testing.T) {
	root := huntC10N2Layout(t, map[string]string{
		"outer/.git/":                           "",
		"outer/.github/workflows/o.yml":         huntC10N2Workflow,
		"outer/.github/actionlint.yaml":         "self-hosted-runner:\n  labels: [my-runner]\nconfig-variables: [FOO]\n",
		"outer/inner/.git/":                     "",
		"outer/inner/.github/actionlint.yaml":   "self-hosted-runner:\n  labels: []\nconfig-variables: []\n",
		"outer/inner/workflow-templates/ci.yml": huntC10N2Workflow,
	})
	outer := filepath.Join(root, "outer")
	file := filepath.Join(root, "outer", "inner", "workflow-templates", "ci.yml")

	// (1) Attribution through the public API
	p, err := NewProjects().At(file)
	if err != nil {
		t.Fatal(err)
	}
	if p != nil && p.RootDir() == outer {
		t.Errorf("%s is inside the Git repository %s but it is attributed to the repository %s", file, filepath.Join(outer, "inner"), p.RootDir())
	}

	// (2) Observable consequence: the configuration of "outer" (which allows the label "my-runner" and the
	// variable FOO) is applied to a file of "inner", whose own configuration allows neither.
	l, err := NewLinter(io.Discard, &LinterOptions{WorkingDir: root})
	if err != nil {
		t.Fatal(err)
	}
	errs, err := l.LintFiles([]string{file}, nil)
	if err != nil {
		t.Fatal(err)
	}
	found := false
	for _, e := range errs {
		if strings.Contains(e.Message, `label "my-runner" is unknown`) {
			found = true
		}
	}
	if !found {
		msgs := []string{}
		for _, e := range errs {
			msgs = append(msgs, e.Error())
		}
		t.Errorf("label \"my-runner\" is only allowed by the configuration of the enclosing repository %q, not by the repository containing the file, but no diagnostic was reported for it. diagnostics: %q", outer, msgs)
	}
}
