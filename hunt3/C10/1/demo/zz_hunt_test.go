package actionlint

import (
	"io"
	"os"
	"path/filepath"
	"strings"
	"testing"
)

// Property C10: when several files are linted in one invocation, each file gets exactly the
// diagnostics it gets when linted alone with its own repository's configuration, for every subset
// and argument order.
//
// Layout: two unrelated repositories "a" and "b". The configuration file of "a" is broken. The
// workflow of "b" has one ordinary diagnostic (unknown runner label) and "b" has no configuration
// file at all.

const huntC10N1Workflow = `on: push
jobs:
  test:
    runs-on: my-runner
    steps:
      - run: echo hello
`

func huntC10N1Layout(t *testing.T, files map[string]string) string {
	t.Helper()
	root := t.TempDir()
	if r, err := filepath.EvalSymlinks(root); err == nil {
		root = r
	}
	for p, c := range files {
		full := filepath.Join(root, filepath.FromSlash(p))
		if strings.HasSuffix(p, "/") {
			if err := os.MkdirAll(full, 0o755); err != nil {
				t.Fatal(err)
			}
			continue
		}
		if err := os.MkdirAll(filepath.Dir(full), 0o755); err != nil {
			t.Fatal(err)
		}
		if err := os.WriteFile(full, []byte(c), 0o644); err != nil {
			t.Fatal(err)
		}
	}
	return root
}

func huntC10N1Messages(errs []*Error, file string) []string {
	r := []string{}
	for _, e := range errs {
		if filepath.ToSlash(e.Filepath) == file {
			r = append(r, e.Error())
		}
	}
	return r
}

func huntC10N1Check(t *testing.T, root string, other string) {
	t.Helper()
	target := "b/.github/workflows/x.yml"
	abs := func(p string) string { return filepath.Join(root, filepath.FromSlash(p)) }

	l, err := NewLinter(io.Discard, &LinterOptions{WorkingDir: root})
	if err != nil {
		t.Fatal(err)
	}
	errs, err := l.LintFiles([]string{abs(target)}, nil)
	if err != nil {
		t.Fatalf("linting %s alone must work: %v", target, err)
	}
	alone := huntC10N1Messages(errs, target)
	if len(alone) != 1 || !strings.Contains(alone[0], `label "my-runner" is unknown`) {
		t.Fatalf("unexpected diagnostics for %s alone: %v", target, alone)
	}

	for _, order := range [][]string{{other, target}, {target, other}} {
		l, err := NewLinter(io.Discard, &LinterOptions{WorkingDir: root})
		if err != nil {
			t.Fatal(err)
		}
		errs, err := l.LintFiles([]string{abs(order[0]), abs(order[1])}, nil)
		got := huntC10N1Messages(errs, target)
		if strings.Join(got, "\n") != strings.Join(alone, "\n") {
			t.Errorf("order %v: %s does not get the diagnostics it gets when linted alone.\nalone: %q\nmulti: %q (run error: %v)", order, target, alone, got, err)
		}
	}
}

// The configuration of repository "a" is broken. Files of repository "b" lose all their diagnostics.
func TestHuntC10N1BrokenConfigInOtherRepository(t *testing.T) {
	root := huntC10N1Layout(t, map[string]string{
		"a/.git/":                   "",
		"a/.github/workflows/o.yml": huntC10N1Workflow,
		"a/.github/actionlint.yaml": "self-hosted-runner: [oops\n",
		"b/.git/":                   "",
		"b/.github/workflows/x.yml": huntC10N1Workflow,
	})
	huntC10N1Check(t, root, "a/.github/workflows/o.yml")
}

// One argument names a file which does not exist. The other file loses all its diagnostics.
func TestHuntC10N1MissingFileAmongArguments(t *testing.T) {
	root := huntC10N1Layout(t, map[string]string{
		"a/.git/":                   "",
		"a/.github/workflows/":      "",
		"b/.git/":                   "",
		"b/.github/workflows/x.yml": huntC10N1Workflow,
	})
	huntC10N1Check(t, root, "a/.github/workflows/typo.yml")
}
