package actionlint

import (
	"bytes"
	"fmt"
	"os"
	"path/filepath"
	"runtime"
	"strings"
	"testing"
)

// Reusable workflow which uses a YAML alias for the value of "required". The workflow parser does not
// resolve aliases: it reports the alias node as an error and handles "bar" as NOT required. The
// metadata reader used for `uses: ./...` (reusable_workflow.go) decodes the file with yaml.v3 which
// resolves the alias, so "bar" IS required.
const huntC02N2Reusable = `on:
  workflow_call:
    inputs:
      foo:
        required: &req true
        type: string
      bar:
        required: *req
        type: string
jobs:
  j:
    runs-on: ubuntu-latest
    steps:
      - run: echo
`

func huntC02N2Caller(i int) string {
	return fmt.Sprintf("on: push\njobs:\n  call:\n    uses: ./.github/workflows/b%d.yml\n    with:\n      foo: x\n", i)
}

func huntC02N2Project(t *testing.T, pairs int, reusable string) (string, []string) {
	t.Helper()
	dir := t.TempDir()
	wf := filepath.Join(dir, ".github", "workflows")
	if err := os.MkdirAll(wf, 0755); err != nil {
		t.Fatal(err)
	}
	if err := os.MkdirAll(filepath.Join(dir, ".git"), 0755); err != nil {
		t.Fatal(err)
	}
	var paths []string
	for i := 0; i < pairs; i++ {
		a := filepath.Join(wf, fmt.Sprintf("a%d.yml", i))
		b := filepath.Join(wf, fmt.Sprintf("b%d.yml", i))
		if err := os.WriteFile(a, []byte(huntC02N2Caller(i)), 0644); err != nil {
			t.Fatal(err)
		}
		if err := os.WriteFile(b, []byte(reusable), 0644); err != nil {
			t.Fatal(err)
		}
		paths = append(paths, a, b)
	}
	return dir, paths
}

// The statement: linting the same files with the same options always produces byte-identical results
// regardless of goroutine scheduling and of how many times the run is repeated.
func TestHuntC02N2RepeatedLintFilesGiveSameOutput(t *testing.T) {
	if runtime.GOMAXPROCS(0) < 4 {
		defer runtime.GOMAXPROCS(runtime.GOMAXPROCS(4))
	}
	dir, paths := huntC02N2Project(t, 12, huntC02N2Reusable)

	var first string
	for i := 0; i < 60; i++ {
		var out bytes.Buffer
		l, err := NewLinter(&out, &LinterOptions{Oneline: true, WorkingDir: dir})
		if err != nil {
			t.Fatal(err)
		}
		if _, err := l.LintFiles(paths, nil); err != nil {
			t.Fatal(err)
		}
		if i == 0 {
			first = out.String()
			continue
		}
		if s := out.String(); s != first {
			t.Fatalf("run #%d of LintFiles on the same files printed different diagnostics.\n--- first run:\n%s\n--- run #%d:\n%s", i+1, first, i+1, s)
		}
	}
}

// Same as above but through Command.Main: the stdout bytes and the exit status must be the same.
func TestHuntC02N2RepeatedMainGivesSameExitStatus(t *testing.T) {
	if runtime.GOMAXPROCS(0) < 4 {
		defer runtime.GOMAXPROCS(runtime.GOMAXPROCS(4))
	}
	_, paths := huntC02N2Project(t, 1, huntC02N2Reusable)

	args := append([]string{"actionlint", "-shellcheck=", "-pyflakes=", "-oneline", "-no-color", "-ignore", "alias node"}, paths...)
	var firstOut string
	var firstStatus int
	for i := 0; i < 2000; i++ {
		var out, errOut bytes.Buffer
		cmd := Command{Stdin: strings.NewReader(""), Stdout: &out, Stderr: &errOut}
		status := cmd.Main(args)
		if i == 0 {
			firstOut, firstStatus = out.String(), status
			continue
		}
		if status != firstStatus || out.String() != firstOut {
			t.Fatalf("run #%d with the same arguments gave a different result.\n--- first run: exit status %d, stdout:\n%s\n--- run #%d: exit status %d, stdout:\n%s", i+1, firstStatus, firstOut, i+1, status, out.String())
		}
	}
}

// Deterministic model of the two possible schedules of a two-file run. LintFiles runs check() for
// each file in its own goroutine with caches shared in the project. Here check() is called for the
// two files one after another with shared caches in both possible orders. The diagnostics reported
// for each file must not depend on the order.
func TestHuntC02N2ResultDoesNotDependOnSchedule(t *testing.T) {
	huntC02N2CheckSchedules(t, huntC02N2Reusable)
}

// Same for the YAML merge key "<<". The workflow parser reports it as unexpected key and handles "bar"
// as NOT required. yaml.v3 merges the aliased mapping on decoding the metadata so "bar" IS required.
func TestHuntC02N2ResultDoesNotDependOnScheduleMergeKey(t *testing.T) {
	huntC02N2CheckSchedules(t, huntC02N2ReusableMerge)
}

func TestHuntC02N2RepeatedLintFilesGiveSameOutputMergeKey(t *testing.T) {
	if runtime.GOMAXPROCS(0) < 4 {
		defer runtime.GOMAXPROCS(runtime.GOMAXPROCS(4))
	}
	dir, paths := huntC02N2Project(t, 12, huntC02N2ReusableMerge)

	var first string
	for i := 0; i < 60; i++ {
		var out bytes.Buffer
		l, err := NewLinter(&out, &LinterOptions{Oneline: true, WorkingDir: dir})
		if err != nil {
			t.Fatal(err)
		}
		if _, err := l.LintFiles(paths, nil); err != nil {
			t.Fatal(err)
		}
		if i == 0 {
			first = out.String()
			continue
		}
		if s := out.String(); s != first {
			t.Fatalf("run #%d of LintFiles on the same files printed different diagnostics.\n--- first run:\n%s\n--- run #%d:\n%s", i+1, first, i+1, s)
		}
	}
}

const huntC02N2ReusableMerge = `on:
  workflow_call:
    inputs:
      foo: &common
        required: true
        type: string
      bar:
        <<: *common
jobs:
  j:
    runs-on: ubuntu-latest
    steps:
      - run: echo
`

func huntC02N2CheckSchedules(t *testing.T, reusable string) {
	t.Helper()
	dir, paths := huntC02N2Project(t, 1, reusable)

	lint := func(order []string) map[string]string {
		l, err := NewLinter(&bytes.Buffer{}, &LinterOptions{WorkingDir: dir})
		if err != nil {
			t.Fatal(err)
		}
		proj, err := l.projects.At(order[0])
		if err != nil || proj == nil {
			t.Fatal("project was not found", err)
		}
		proc := newConcurrentProcess(1)
		ac := NewLocalActionsCache(proj, nil)
		rwc := NewLocalReusableWorkflowCache(proj, dir, nil)
		ret := map[string]string{}
		for _, p := range order {
			src, err := os.ReadFile(p)
			if err != nil {
				t.Fatal(err)
			}
			rel, err := filepath.Rel(dir, p)
			if err != nil {
				t.Fatal(err)
			}
			errs, err := l.check(rel, src, proj, proc, ac, rwc)
			if err != nil {
				t.Fatal(err)
			}
			var b strings.Builder
			for _, e := range errs {
				b.WriteString(e.Error())
				b.WriteByte('\n')
			}
			ret[filepath.Base(p)] = b.String()
		}
		proc.wait()
		return ret
	}

	callerFirst := lint([]string{paths[0], paths[1]})
	reusableFirst := lint([]string{paths[1], paths[0]})
	for _, f := range []string{"a0.yml", "b0.yml"} {
		if callerFirst[f] != reusableFirst[f] {
			t.Errorf("diagnostics of %s depend on which file is checked first.\n--- when a0.yml is checked first:\n%s\n--- when b0.yml is checked first:\n%s", f, callerFirst[f], reusableFirst[f])
		}
	}
}
