package actionlint

import (
	"bytes"
	"os"
	"path/filepath"
	"strings"
	"testing"

	"github.com/fatih/color"
)

const huntC02N4Workflow = `on: push
jobs:
  test:
    runs-on: ubuntu-latest
    steps:
      - run: echo ${{ foo }}
`

func huntC02N4Project(t *testing.T) string {
	t.Helper()
	dir := t.TempDir()
	wf := filepath.Join(dir, ".github", "workflows")
	if err := os.MkdirAll(wf, 0755); err != nil {
		t.Fatal(err)
	}
	if err := os.MkdirAll(filepath.Join(dir, ".git"), 0755); err != nil {
		t.Fatal(err)
	}
	file := filepath.Join(wf, "test.yml")
	if err := os.WriteFile(file, []byte(huntC02N4Workflow), 0644); err != nil {
		t.Fatal(err)
	}
	return file
}

func huntC02N4Main(t *testing.T, args ...string) (int, string) {
	t.Helper()
	var out, errOut bytes.Buffer
	cmd := Command{Stdin: strings.NewReader(""), Stdout: &out, Stderr: &errOut}
	status := cmd.Main(append([]string{"actionlint", "-shellcheck=", "-pyflakes="}, args...))
	return status, out.String()
}

// The statement: linting the same files with the same configuration and options always produces
// byte-identical results, however many times the run is repeated (quantifier: histories). Here the
// same command line is run three times. Between the runs the same file is linted once with -color and
// once with -no-color. These runs must not change what the unchanged command line prints.
func TestHuntC02N4SameOptionsGiveSameOutputAfterOtherRuns(t *testing.T) {
	defer func(v bool) { color.NoColor = v }(color.NoColor)

	file := huntC02N4Project(t)

	status1, out1 := huntC02N4Main(t, file)

	huntC02N4Main(t, "-color", file)
	status2, out2 := huntC02N4Main(t, file)
	if status1 != status2 || out1 != out2 {
		t.Errorf("the same command line printed different bytes after a run with -color.\n--- before (status %d):\n%q\n--- after (status %d):\n%q", status1, out1, status2, out2)
	}

	huntC02N4Main(t, "-no-color", file)
	status3, out3 := huntC02N4Main(t, file)
	if status1 != status3 || out1 != out3 {
		t.Errorf("the same command line printed different bytes after a run with -no-color.\n--- before (status %d):\n%q\n--- after (status %d):\n%q", status1, out1, status3, out3)
	}
}

// The same with the library API: two Linter instances created with the same options and linting the
// same content must print the same bytes even if another Linter was created between them.
func TestHuntC02N4SameLinterOptionsGiveSameOutputAfterOtherLinter(t *testing.T) {
	defer func(v bool) { color.NoColor = v }(color.NoColor)

	file := huntC02N4Project(t)
	lint := func(opts *LinterOptions) string {
		var out bytes.Buffer
		l, err := NewLinter(&out, opts)
		if err != nil {
			t.Fatal(err)
		}
		if _, err := l.LintFile(file, nil); err != nil {
			t.Fatal(err)
		}
		return out.String()
	}

	before := lint(&LinterOptions{})
	lint(&LinterOptions{Color: ColorOptionKindAlways})
	after := lint(&LinterOptions{})
	if before != after {
		t.Errorf("Linter with the same options printed different bytes after a Linter with ColorOptionKindAlways was created.\n--- before:\n%q\n--- after:\n%q", before, after)
	}

	lint(&LinterOptions{Color: ColorOptionKindNever})
	after = lint(&LinterOptions{})
	if before != after {
		t.Errorf("Linter with the same options printed different bytes after a Linter with ColorOptionKindNever was created.\n--- before:\n%q\n--- after:\n%q", before, after)
	}
}
