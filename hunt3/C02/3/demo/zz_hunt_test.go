package actionlint

import (
	"bytes"
	"fmt"
	"os"
	"path/filepath"
	"runtime"
	"strings"
	"testing"
)

// Workflow whose "on" section has two keys which are equal to "workflow_call" when compared case
// insensitively. The workflow parser compares event names case sensitively: "Workflow_Call" is an
// unknown webhook event and the inputs of the reusable workflow are those of "workflow_call" ("bar").
// The metadata reader used for `uses: ./...` (parseReusableWorkflowMetadata in reusable_workflow.go)
// lower-cases the keys and takes the first match, so the inputs are those of "Workflow_Call" ("foo").
const huntC02N3Reusable = `on:
  Workflow_Call:
    inputs:
      foo:
        required: true
        type: string
  workflow_call:
    inputs:
      bar:
        required: true
        type: string
jobs:
  j:
    runs-on: ubuntu-latest
    steps:
      - run: echo
`

func huntC02N3Caller(i int) string {
	return fmt.Sprintf("on: push\njobs:\n  call:\n    uses: ./.github/workflows/b%d.yml\n    with:\n      bar: x\n", i)
}

func huntC02N3Project(t *testing.T, pairs int) (string, []string) {
	t.Helper()
	dir := t.TempDir()
	wf := filepath.Join(dir, ".github", "workflows")
	if err := os.MkdirAll(wf, 0755); err != nil {
		t.Fatal(err)
	}
	if err := os.MkdirAll(filepath.Join(dir, ".git"), 0755); err != nil {
		t.Fatal(err)
	}
	var paths []string
	for i := 0; i < pairs; i++ {
		a := filepath.Join(wf, fmt.Sprintf("a%d.yml", i))
		b := filepath.Join(wf, fmt.Sprintf("b%d.yml", i))
		if err := os.WriteFile(a, []byte(huntC02N3Caller(i)), 0644); err != nil {
			t.Fatal(err)
		}
		if err := os.WriteFile(b, []byte(huntC02N3Reusable), 0644); err != nil {
			t.Fatal(err)
		}
		paths = append(paths, a, b)
	}
	return dir, paths
}

// The statement: linting the same files with the same options always produces byte-identical results
// regardless of goroutine scheduling and of how many times the run is repeated.
func TestHuntC02N3RepeatedLintFilesGiveSameOutput(t *testing.T) {
	if runtime.GOMAXPROCS(0) < 4 {
		defer runtime.GOMAXPROCS(runtime.GOMAXPROCS(4))
	}
	dir, paths := huntC02N3Project(t, 12)

	var first string
	for i := 0; i < 60; i++ {
		var out bytes.Buffer
		l, err := NewLinter(&out, &LinterOptions{Oneline: true, WorkingDir: dir})
		if err != nil {
			t.Fatal(err)
		}
		if _, err := l.LintFiles(paths, nil); err != nil {
			t.Fatal(err)
		}
		if i == 0 {
			first = out.String()
			continue
		}
		if s := out.String(); s != first {
			t.Fatalf("run #%d of LintFiles on the same files printed different diagnostics.\n--- first run:\n%s\n--- run #%d:\n%s", i+1, first, i+1, s)
		}
	}
}

// Same as above but through Command.Main: the stdout bytes and the exit status must be the same.
func TestHuntC02N3RepeatedMainGivesSameExitStatus(t *testing.T) {
	if runtime.GOMAXPROCS(0) < 4 {
		defer runtime.GOMAXPROCS(runtime.GOMAXPROCS(4))
	}
	_, paths := huntC02N3Project(t, 1)

	args := append([]string{"actionlint", "-shellcheck=", "-pyflakes=", "-oneline", "-no-color", "-ignore", "Workflow_Call"}, paths...)
	var firstOut string
	var firstStatus int
	for i := 0; i < 2000; i++ {
		var out, errOut bytes.Buffer
		cmd := Command{Stdin: strings.NewReader(""), Stdout: &out, Stderr: &errOut}
		status := cmd.Main(args)
		if i == 0 {
			firstOut, firstStatus = out.String(), status
			continue
		}
		if status != firstStatus || out.String() != firstOut {
			t.Fatalf("run #%d with the same arguments gave a different result.\n--- first run: exit status %d, stdout:\n%s\n--- run #%d: exit status %d, stdout:\n%s", i+1, firstStatus, firstOut, i+1, status, out.String())
		}
	}
}

// Deterministic model of the two possible schedules of a two-file run. LintFiles runs check() for
// each file in its own goroutine with caches shared in the project. Here check() is called for the
// two files one after another with shared caches in both possible orders. The diagnostics reported
// for each file must not depend on the order.
func TestHuntC02N3ResultDoesNotDependOnSchedule(t *testing.T) {
	dir, paths := huntC02N3Project(t, 1)

	lint := func(order []string) map[string]string {
		l, err := NewLinter(&bytes.Buffer{}, &LinterOptions{WorkingDir: dir})
		if err != nil {
			t.Fatal(err)
		}
		proj, err := l.projects.At(order[0])
		if err != nil || proj == nil {
			t.Fatal("project was not found", err)
		}
		proc := newConcurrentProcess(1)
		ac := NewLocalActionsCache(proj, nil)
		rwc := NewLocalReusableWorkflowCache(proj, dir, nil)
		ret := map[string]string{}
		for _, p := range order {
			src, err := os.ReadFile(p)
			if err != nil {
				t.Fatal(err)
			}
			rel, err := filepath.Rel(dir, p)
			if err != nil {
				t.Fatal(err)
			}
			errs, err := l.check(rel, src, proj, proc, ac, rwc)
			if err != nil {
				t.Fatal(err)
			}
			var b strings.Builder
			for _, e := range errs {
				b.WriteString(e.Error())
				b.WriteByte('\n')
			}
			ret[filepath.Base(p)] = b.String()
		}
		proc.wait()
		return ret
	}

	callerFirst := lint([]string{paths[0], paths[1]})
	reusableFirst := lint([]string{paths[1], paths[0]})
	for _, f := range []string{"a0.yml", "b0.yml"} {
		if callerFirst[f] != reusableFirst[f] {
			t.Errorf("diagnostics of %s depend on which file is checked first.\n--- when a0.yml is checked first:\n%s\n--- when b0.yml is checked first:\n%s", f, callerFirst[f], reusableFirst[f])
		}
	}
}
