package actionlint

import (
	"io"
	"strings"
	"testing"
)

// Property C12: availability verdict must not depend on where inside the value of a workflow key the
// name occurs. actionlint checks ${{ }} in the names of "env" mappings (control below) but not in the
// names of other mappings which belong to a table key: the service ID inside "jobs.<job_id>.services"
// (secrets is not listed there) and the input name inside "jobs.<job_id>.steps.with" (always() is not
// listed there).

func huntC12N2Lint(t *testing.T, src string) []*Error {
	t.Helper()
	l, err := NewLinter(io.Discard, &LinterOptions{})
	if err != nil {
		t.Fatal(err)
	}
	errs, err := l.Lint("<stdin>", []byte(src), nil)
	if err != nil {
		t.Fatal(err)
	}
	return errs
}

func huntC12N2Has(errs []*Error, line int, msg string) bool {
	for _, e := range errs {
		if e.Line == line && strings.Contains(strings.ToLower(e.Message), strings.ToLower(msg)) {
			return true
		}
	}
	return false
}

func huntC12N2Dump(errs []*Error) string {
	var b strings.Builder
	for _, e := range errs {
		b.WriteString("\n    " + e.Error())
	}
	if len(errs) == 0 {
		b.WriteString(" (no diagnostics at all)")
	}
	return b.String()
}

func TestHuntC12N2ServiceID(t *testing.T) {
	src := `on: push
jobs:
  j:
    runs-on: ubuntu-latest
    services:
      ctl: ${{ secrets.SVC }}
      ${{ secrets.SVC }}:
        image: redis
    steps:
      - run: echo
`
	errs := huntC12N2Lint(t, src)
	if !huntC12N2Has(errs, 6, `context "secrets" is not allowed here`) {
		t.Fatalf("control: secrets as a service image at line 6 should be reported:%s", huntC12N2Dump(errs))
	}
	if !huntC12N2Has(errs, 7, `context "secrets" is not allowed here`) {
		t.Errorf("context \"secrets\" used in a service ID (line 7, inside jobs.<job_id>.services) is not reported as not allowed:%s", huntC12N2Dump(errs))
	}
}

func TestHuntC12N2StepWithInputName(t *testing.T) {
	src := `on: push
jobs:
  j:
    runs-on: ubuntu-latest
    steps:
      - uses: foo/bar@v1
        env:
          ${{ always() }}: x
        with:
          ctl: ${{ always() }}
          ${{ always() }}: x
`
	errs := huntC12N2Lint(t, src)
	if !huntC12N2Has(errs, 8, `calling function "always" is not allowed here`) {
		t.Fatalf("control: always() in the name of a step env variable at line 8 should be reported:%s", huntC12N2Dump(errs))
	}
	if !huntC12N2Has(errs, 10, `calling function "always" is not allowed here`) {
		t.Fatalf("control: always() in an input value at line 10 should be reported:%s", huntC12N2Dump(errs))
	}
	if !huntC12N2Has(errs, 11, `calling function "always" is not allowed here`) {
		t.Errorf("special function always() used in an input name (line 11, inside jobs.<job_id>.steps.with) is not reported as not allowed:%s", huntC12N2Dump(errs))
	}
}
