package actionlint

import (
	"io"
	"strings"
	"testing"
)

// Property C12: a context which GitHub's availability table does not list for a workflow key must be
// reported as "not allowed" wherever inside the value of that key the name occurs.
//
// "jobs.<job_id>.strategy" lists only github, inputs, needs and vars. The tests below put a forbidden
// context into a mapping KEY inside the strategy value (matrix row name, key of an include/exclude
// entry, key of a nested object in a row value). The very same expression is reported when it is
// written as a value next to it (control), but it is silently accepted as a key.

func huntC12N1Lint(t *testing.T, src string) []*Error {
	t.Helper()
	l, err := NewLinter(io.Discard, &LinterOptions{})
	if err != nil {
		t.Fatal(err)
	}
	errs, err := l.Lint("<stdin>", []byte(src), nil)
	if err != nil {
		t.Fatal(err)
	}
	return errs
}

func huntC12N1NotAllowedAt(errs []*Error, ctx string, line int) bool {
	want := strings.ToLower(`context "` + ctx + `" is not allowed here`)
	for _, e := range errs {
		if e.Line == line && strings.Contains(strings.ToLower(e.Message), want) {
			return true
		}
	}
	return false
}

func huntC12N1Dump(errs []*Error) string {
	var b strings.Builder
	for _, e := range errs {
		b.WriteString("\n    " + e.Error())
	}
	if len(errs) == 0 {
		b.WriteString(" (no diagnostics at all)")
	}
	return b.String()
}

func TestHuntC12N1MatrixRowName(t *testing.T) {
	src := `on: push
jobs:
  j:
    runs-on: ubuntu-latest
    strategy:
      matrix:
        ctl: ["${{ secrets.ROW }}"]
        ${{ secrets.ROW }}: [1, 2]
    steps:
      - run: echo
`
	errs := huntC12N1Lint(t, src)
	if !huntC12N1NotAllowedAt(errs, "secrets", 7) {
		t.Fatalf("control: secrets as a matrix value at line 7 should be reported:%s", huntC12N1Dump(errs))
	}
	if !huntC12N1NotAllowedAt(errs, "secrets", 8) {
		t.Errorf("context \"secrets\" used in a matrix row name (line 8, inside jobs.<job_id>.strategy) is not reported as not allowed:%s", huntC12N1Dump(errs))
	}
}

func TestHuntC12N1MatrixIncludeKey(t *testing.T) {
	src := `on: push
jobs:
  j:
    runs-on: ubuntu-latest
    strategy:
      matrix:
        os: [linux]
        include:
          - os: ${{ env.KEY }}
          - ${{ env.KEY }}: 1
    steps:
      - run: echo
`
	errs := huntC12N1Lint(t, src)
	if !huntC12N1NotAllowedAt(errs, "env", 9) {
		t.Fatalf("control: env as a value of an include entry at line 9 should be reported:%s", huntC12N1Dump(errs))
	}
	if !huntC12N1NotAllowedAt(errs, "env", 10) {
		t.Errorf("context \"env\" used in the key of an include entry (line 10, inside jobs.<job_id>.strategy) is not reported as not allowed:%s", huntC12N1Dump(errs))
	}
}

func TestHuntC12N1MatrixNestedObjectKey(t *testing.T) {
	src := `on: push
jobs:
  j:
    runs-on: ubuntu-latest
    strategy:
      matrix:
        os:
          - name: ${{ matrix.os }}
            ${{ matrix.os }}: x
    steps:
      - run: echo
`
	errs := huntC12N1Lint(t, src)
	if !huntC12N1NotAllowedAt(errs, "matrix", 8) {
		t.Fatalf("control: matrix as a nested value at line 8 should be reported:%s", huntC12N1Dump(errs))
	}
	if !huntC12N1NotAllowedAt(errs, "matrix", 9) {
		t.Errorf("context \"matrix\" used in the key of an object inside a matrix row value (line 9, inside jobs.<job_id>.strategy) is not reported as not allowed:%s", huntC12N1Dump(errs))
	}
}
