package actionlint

import (
	"io"
	"strings"
	"testing"
)

// Property C12: for the pair (jobs.<job_id>.with.<with_id>, secrets) and the pair
// (jobs.<job_id>.secrets.<secrets_id>, env) the table does not list the context, so the use must be
// reported as not allowed. It is reported for a clean reusable workflow call (control) but the verdict
// disappears as soon as the same job contains an unrelated key which is not available in a reusable
// workflow call (the parser reports that key and then drops the whole "with"/"secrets" sections), or
// when "uses" is missing.

func huntC12N3Lint(t *testing.T, src string) []*Error {
	t.Helper()
	l, err := NewLinter(io.Discard, &LinterOptions{})
	if err != nil {
		t.Fatal(err)
	}
	errs, err := l.Lint("<stdin>", []byte(src), nil)
	if err != nil {
		t.Fatal(err)
	}
	return errs
}

func huntC12N3Has(errs []*Error, line int, msg string) bool {
	for _, e := range errs {
		if e.Line == line && strings.Contains(strings.ToLower(e.Message), strings.ToLower(msg)) {
			return true
		}
	}
	return false
}

func huntC12N3Dump(errs []*Error) string {
	var b strings.Builder
	for _, e := range errs {
		b.WriteString("\n    " + e.Error())
	}
	if len(errs) == 0 {
		b.WriteString(" (no diagnostics at all)")
	}
	return b.String()
}

func TestHuntC12N3WorkflowCallWithExtraKey(t *testing.T) {
	control := `on: push
jobs:
  j:
    uses: a/b/.github/workflows/c.yaml@v1
    with:
      x: ${{ secrets.FOO }}
    secrets:
      y: ${{ env.FOO }}
`
	errs := huntC12N3Lint(t, control)
	if !huntC12N3Has(errs, 6, `context "secrets" is not allowed here`) || !huntC12N3Has(errs, 8, `context "env" is not allowed here`) {
		t.Fatalf("control: both uses should be reported in a clean reusable workflow call:%s", huntC12N3Dump(errs))
	}

	src := `on: push
jobs:
  j:
    uses: a/b/.github/workflows/c.yaml@v1
    with:
      x: ${{ secrets.FOO }}
    secrets:
      y: ${{ env.FOO }}
    timeout-minutes: 5
`
	errs = huntC12N3Lint(t, src)
	if !huntC12N3Has(errs, 6, `context "secrets" is not allowed here`) {
		t.Errorf("context \"secrets\" at jobs.<job_id>.with.<with_id> (line 6) is not reported as not allowed when the job also has \"timeout-minutes\":%s", huntC12N3Dump(errs))
	}
	if !huntC12N3Has(errs, 8, `context "env" is not allowed here`) {
		t.Errorf("context \"env\" at jobs.<job_id>.secrets.<secrets_id> (line 8) is not reported as not allowed when the job also has \"timeout-minutes\":%s", huntC12N3Dump(errs))
	}
}

func TestHuntC12N3WithInNormalJob(t *testing.T) {
	src := `on: push
jobs:
  j:
    runs-on: ubuntu-latest
    with:
      x: ${{ secrets.FOO }}
    steps:
      - run: echo
`
	errs := huntC12N3Lint(t, src)
	if !huntC12N3Has(errs, 6, `context "secrets" is not allowed here`) {
		t.Errorf("context \"secrets\" at jobs.<job_id>.with.<with_id> (line 6) is not reported as not allowed when \"uses\" is missing:%s", huntC12N3Dump(errs))
	}
}
