package actionlint

import (
	"strings"
	"testing"
)

// The workflow visited first. It is unrelated to the second one.
const huntC09N2First = `on: push
jobs:
  build:
    runs-on: ubuntu-latest
    steps:
      - run: echo
  lint:
    runs-on: ubuntu-latest
    steps:
      - run: echo
`

// The workflow under test. Job "test" needs job "lint" which does not exist in THIS workflow.
const huntC09N2Second = `on: push
jobs:
  build:
    runs-on: ubuntu-latest
    steps:
      - run: echo
  test:
    needs: [lint]
    runs-on: ubuntu-latest
    steps:
      - run: echo
`

func huntC09N2Parse(t *testing.T, src string) *Workflow {
	t.Helper()
	w, errs := Parse([]byte(src))
	if len(errs) > 0 {
		t.Fatalf("unexpected parse errors: %v", errs)
	}
	return w
}

// Visits the workflows one after another with ONE RuleJobNeeds instance (through the exported Visitor API) and
// returns the diagnostics which were reported while visiting the last workflow.
func huntC09N2Visit(t *testing.T, srcs ...string) []string {
	t.Helper()
	rule := NewRuleJobNeeds()
	v := NewVisitor()
	v.AddPass(rule)
	before := 0
	for _, src := range srcs {
		before = len(rule.Errs())
		if err := v.Visit(huntC09N2Parse(t, src)); err != nil {
			t.Fatal(err)
		}
	}
	ret := []string{}
	for _, e := range rule.Errs()[before:] {
		ret = append(ret, e.Error())
	}
	return ret
}

// The diagnostics for the jobs "build" and "test" must depend only on the jobs of THEIR workflow. They must not
// depend on the history of the rule instance, i.e. on another workflow which the same rule visited before.
func TestHuntC09N2JobNeedsRuleKeepsJobsOfPreviousWorkflow(t *testing.T) {
	alone := huntC09N2Visit(t, huntC09N2Second)
	after := huntC09N2Visit(t, huntC09N2First, huntC09N2Second)

	t.Logf("diagnostics for the second workflow visited alone:\n%s", strings.Join(alone, "\n"))
	t.Logf("diagnostics for the second workflow visited after the first one:\n%s", strings.Join(after, "\n"))

	if strings.Join(alone, "\n") != strings.Join(after, "\n") {
		t.Errorf("diagnostics of the jobs changed because an unrelated workflow was visited before by the same rule instance.\nalone:\n  %s\nafter another workflow:\n  %s",
			strings.Join(alone, "\n  "), strings.Join(after, "\n  "))
	}

	has := func(errs []string, sub string) bool {
		for _, e := range errs {
			if strings.Contains(e, sub) {
				return true
			}
		}
		return false
	}
	if has(alone, `needs job "lint" which does not exist`) && !has(after, `needs job "lint" which does not exist`) {
		t.Errorf("the missing job \"lint\" in \"needs\" of job \"test\" is no longer reported: job \"lint\" of the previous workflow is still known")
	}
	if !has(alone, `job ID "build" duplicates`) && has(after, `job ID "build" duplicates`) {
		t.Errorf("job \"build\" is reported as duplicate of the job \"build\" of the previous workflow")
	}
}
