package actionlint

import (
	"strings"
	"testing"
)

// The workflow visited first. It is unrelated to the second one: it only declares inputs and secrets of
// workflow_call/workflow_dispatch in ITS OWN header.
const huntC09N1First = `on:
  workflow_call:
    inputs:
      foo:
        type: string
    secrets:
      tok:
        required: true
  workflow_dispatch:
    inputs:
      bar:
        type: boolean
jobs:
  first:
    runs-on: ubuntu-latest
    steps:
      - run: echo
`

// The workflow under test. Its header is just "on: push": no inputs and no secrets are declared.
const huntC09N1Second = `on: push
jobs:
  build:
    runs-on: ubuntu-latest
    steps:
      - run: echo ${{ inputs.foo }}
      - run: echo ${{ inputs.bar }}
      - run: echo ${{ secrets.other }}
      - run: echo ${{ github.event.inputs.zzz }}
`

func huntC09N1Parse(t *testing.T, src string) *Workflow {
	t.Helper()
	w, errs := Parse([]byte(src))
	if len(errs) > 0 {
		t.Fatalf("unexpected parse errors: %v", errs)
	}
	return w
}

// Visits the workflows one after another with ONE RuleExpression instance (through the exported Visitor API) and
// returns the diagnostics which were reported while visiting the last workflow.
func huntC09N1Visit(t *testing.T, srcs ...string) []string {
	t.Helper()
	rule := NewRuleExpression(NewLocalActionsCache(nil, nil), NewLocalReusableWorkflowCache(nil, "", nil))
	v := NewVisitor()
	v.AddPass(rule)
	before := 0
	for _, src := range srcs {
		before = len(rule.Errs())
		if err := v.Visit(huntC09N1Parse(t, src)); err != nil {
			t.Fatal(err)
		}
	}
	ret := []string{}
	for _, e := range rule.Errs()[before:] {
		ret = append(ret, e.Error())
	}
	return ret
}

// The diagnostics for the job "build" must depend only on the job and on the header of ITS workflow. They must
// not depend on the history of the rule instance, i.e. on another workflow which the same rule visited before.
func TestHuntC09N1ExpressionRuleKeepsInputsAndSecretsOfPreviousWorkflow(t *testing.T) {
	alone := huntC09N1Visit(t, huntC09N1Second)
	after := huntC09N1Visit(t, huntC09N1First, huntC09N1Second)

	t.Logf("diagnostics for the second workflow visited alone:\n%s", strings.Join(alone, "\n"))
	t.Logf("diagnostics for the second workflow visited after the first one:\n%s", strings.Join(after, "\n"))

	if strings.Join(alone, "\n") != strings.Join(after, "\n") {
		t.Errorf("diagnostics of job \"build\" changed because an unrelated workflow was visited before by the same rule instance.\nalone:\n  %s\nafter another workflow:\n  %s",
			strings.Join(alone, "\n  "), strings.Join(after, "\n  "))
	}

	// Spell out the individual consequences
	has := func(errs []string, sub string) bool {
		for _, e := range errs {
			if strings.Contains(e, sub) {
				return true
			}
		}
		return false
	}
	if has(alone, `property "foo" is not defined`) && !has(after, `property "foo" is not defined`) {
		t.Errorf("the undefined input \"inputs.foo\" is no longer reported: the inputs of the previous workflow are still in scope")
	}
	if !has(alone, `property "other" is not defined`) && has(after, `property "other" is not defined`) {
		t.Errorf("\"secrets.other\" is reported only after visiting the previous workflow: its workflow_call secrets are still in scope")
	}
}
