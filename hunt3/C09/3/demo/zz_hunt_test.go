package actionlint

import (
	"fmt"
	"io"
	"strings"
	"testing"
)

const huntC09N3Header = "on: push\njobs:\n"

// An unrelated job. Job "TEST" below does not need it.
const huntC09N3Other = `  test:
    runs-on: ubuntu-latest
    steps:
      - run: echo
`

// The job under test. It contains two mistakes: an unknown runner label and an undefined variable.
const huntC09N3Job = `  TEST:
    runs-on: ubuntu-latst
    steps:
      - run: echo ${{ foo }}
`

// Lints the source and returns "relative line:column: message [kind]" of the diagnostics in lines [from, to)
func huntC09N3Lint(t *testing.T, src string, from, to int) []string {
	t.Helper()
	l, err := NewLinter(io.Discard, &LinterOptions{})
	if err != nil {
		t.Fatal(err)
	}
	errs, err := l.Lint("test.yaml", []byte(src), nil)
	if err != nil {
		t.Fatal(err)
	}
	ret := []string{}
	for _, e := range errs {
		if from <= e.Line && e.Line < to {
			ret = append(ret, fmt.Sprintf("+%d:%d: %s [%s]", e.Line-from, e.Column, e.Message, e.Kind))
		}
	}
	return ret
}

// Every diagnostic which is reported for job "TEST" when it is the only job must still be reported (apart from
// the line offset) when another job which "TEST" does not need is put before it.
func TestHuntC09N3DiagnosticsOfJobAreHiddenByJobWithSameIDInOtherCase(t *testing.T) {
	hl := strings.Count(huntC09N3Header, "\n") + 1
	jl := strings.Count(huntC09N3Job, "\n")
	ol := strings.Count(huntC09N3Other, "\n")

	alone := huntC09N3Lint(t, huntC09N3Header+huntC09N3Job, hl, hl+jl)
	composed := huntC09N3Lint(t, huntC09N3Header+huntC09N3Other+huntC09N3Job, hl+ol, hl+ol+jl)

	t.Logf("job TEST alone:\n%s", strings.Join(alone, "\n"))
	t.Logf("job TEST after job test:\n%s", strings.Join(composed, "\n"))

	if len(alone) == 0 {
		t.Fatal("the mistakes in job TEST must be reported when it is alone")
	}
	for _, a := range alone {
		found := false
		for _, c := range composed {
			if a == c {
				found = true
			}
		}
		if !found {
			t.Errorf("diagnostic of job TEST is no longer reported after adding job \"test\": %s", a)
		}
	}
}
