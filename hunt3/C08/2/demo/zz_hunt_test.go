package actionlint

import (
	"fmt"
	"io"
	"sort"
	"strings"
	"testing"
)

func huntC08N2Lint(t *testing.T, src string) []string {
	t.Helper()
	l, err := NewLinter(io.Discard, &LinterOptions{})
	if err != nil {
		t.Fatal(err)
	}
	errs, err := l.Lint("hunt-c08-n2-does-not-exist.yaml", []byte(src), nil)
	if err != nil {
		t.Fatal(err)
	}
	out := make([]string, 0, len(errs))
	for _, e := range errs {
		out = append(out, fmt.Sprintf("%d:%d:%s:%s", e.Line, e.Column, e.Kind, strings.ToLower(e.Message)))
	}
	sort.Strings(out)
	return out
}

const huntC08N2Workflow = `on: push
jobs:
  test:
    runs-on: ubuntu-latest
    strategy:
      matrix:
        v: ["${{ %s }}", "${{ %s }}"]
    steps:
      - run: echo ${{ matrix.v }}
`

// Both elements of the matrix row are the same value. Only the letter case of a property name, a context
// name or a function name differs between the two inputs of each pair. The diagnostics must be the same.
func TestHuntC08N2MatrixDuplicateDependsOnNameCase(t *testing.T) {
	for _, tc := range []struct{ what, x, y string }{
		{"property name", "github.sha", "github.SHA"},
		{"context name", "github.sha", "GITHUB.sha"},
		{"function name", "toJSON(github.sha)", "tojson(github.sha)"},
	} {
		same := fmt.Sprintf(huntC08N2Workflow, tc.x, tc.x)
		diff := fmt.Sprintf(huntC08N2Workflow, tc.x, tc.y)
		es := huntC08N2Lint(t, same)
		ed := huntC08N2Lint(t, diff)
		if strings.Join(es, "\n") != strings.Join(ed, "\n") {
			t.Errorf("%s: changing %q to %q at the second element changed the diagnostics\nsame spelling: %d diagnostics\n%s\nother spelling: %d diagnostics\n%s", tc.what, tc.x, tc.y, len(es), strings.Join(es, "\n"), len(ed), strings.Join(ed, "\n"))
		}
	}
}
