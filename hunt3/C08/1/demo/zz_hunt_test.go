package actionlint

import (
	"fmt"
	"io"
	"sort"
	"strings"
	"testing"
)

// huntC08N1Lint lints the workflow source without any project and returns the diagnostics as
// "line:col:kind:message" where the message is lower-cased (messages are compared modulo letter case).
func huntC08N1Lint(t *testing.T, src string) []string {
	t.Helper()
	l, err := NewLinter(io.Discard, &LinterOptions{})
	if err != nil {
		t.Fatal(err)
	}
	errs, err := l.Lint("hunt-c08-n1-does-not-exist.yaml", []byte(src), nil)
	if err != nil {
		t.Fatal(err)
	}
	out := make([]string, 0, len(errs))
	for _, e := range errs {
		out = append(out, fmt.Sprintf("%d:%d:%s:%s", e.Line, e.Column, e.Kind, strings.ToLower(e.Message)))
	}
	sort.Strings(out)
	return out
}

const huntC08N1Workflow = `on: push
jobs:
  test:
    runs-on: ubuntu-latest
    timeout-minutes: ${{ fromJSON('%s').ab }}
    steps:
      - run: echo
`

// The three keys of the JSON literal are the same property name "ab" in case-insensitive. The two
// inputs differ only in the letter case of ONE key of the JSON literal ("ab" -> "Ab"). The length
// of the line does not change. The property requires the same diagnostics for both spellings.
func TestHuntC08N1JSONKeyCaseChangesType(t *testing.T) {
	a := fmt.Sprintf(huntC08N1Workflow, `{"AB":1,"aB":true,"ab":"s"}`)
	b := fmt.Sprintf(huntC08N1Workflow, `{"AB":1,"aB":true,"Ab":"s"}`)

	ea := huntC08N1Lint(t, a)
	eb := huntC08N1Lint(t, b)
	if strings.Join(ea, "\n") != strings.Join(eb, "\n") {
		t.Errorf("changing the letter case of one JSON key changed the diagnostics\nwith key \"ab\": %d diagnostics\n%s\nwith key \"Ab\": %d diagnostics\n%s", len(ea), strings.Join(ea, "\n"), len(eb), strings.Join(eb, "\n"))
	}
}

// Same thing observed at the use site: the case of the property at the use must not matter either, and
// the same case permutation of the definition keys must give the same result for every spelling of the use.
func TestHuntC08N1JSONKeyCasePermutation(t *testing.T) {
	for _, use := range []string{"ab", "AB", "Ab"} {
		wf := strings.Replace(huntC08N1Workflow, ".ab", "."+use, 1)
		a := fmt.Sprintf(wf, `{"AB":1,"Ab":true,"aB":"s"}`)
		b := fmt.Sprintf(wf, `{"AB":1,"Ab":"s","aB":true}`) // spellings "Ab" and "aB" swapped between the two definitions
		ea := huntC08N1Lint(t, a)
		eb := huntC08N1Lint(t, b)
		if strings.Join(ea, "\n") != strings.Join(eb, "\n") {
			t.Errorf("use %q: swapping the letter case of two JSON keys changed the diagnostics\nA: %v\nB: %v", use, ea, eb)
		}
	}
}

// Two keys only. When both definitions are spelled "a" the later one wins (number). When the letter case
// of one of the two definitions is changed, the value is typed as string. The use site is not modified.
func TestHuntC08N1JSONKeyCaseOfDuplicateKey(t *testing.T) {
	base := huntC08N1Lint(t, strings.Replace(fmt.Sprintf(huntC08N1Workflow, `{"a":"s","a":1}`), ".ab", ".a", 1))
	for _, j := range []string{`{"a":"s","A":1}`, `{"A":"s","a":1}`} {
		got := huntC08N1Lint(t, strings.Replace(fmt.Sprintf(huntC08N1Workflow, j), ".ab", ".a", 1))
		if strings.Join(base, "\n") != strings.Join(got, "\n") {
			t.Errorf("diagnostics for %s differ from diagnostics for {\"a\":\"s\",\"a\":1}\nbase: %v\ngot:  %v", j, base, got)
		}
	}
}
