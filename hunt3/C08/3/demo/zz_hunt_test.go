package actionlint

import (
	"fmt"
	"io"
	"os"
	"path/filepath"
	"sort"
	"strings"
	"testing"
)

func huntC08N3Lint(t *testing.T, action, reusable, workflow string) []string {
	t.Helper()
	root := t.TempDir()
	for p, c := range map[string]string{
		".git/HEAD":                      "ref: refs/heads/main\n",
		"act/action.yml":                 action,
		"act/index.js":                   "",
		".github/workflows/reusable.yml": reusable,
		".github/workflows/test.yml":     workflow,
	} {
		f := filepath.Join(root, filepath.FromSlash(p))
		if err := os.MkdirAll(filepath.Dir(f), 0o755); err != nil {
			t.Fatal(err)
		}
		if err := os.WriteFile(f, []byte(c), 0o644); err != nil {
			t.Fatal(err)
		}
	}
	proj, err := NewProject(root)
	if err != nil {
		t.Fatal(err)
	}
	l, err := NewLinter(io.Discard, &LinterOptions{WorkingDir: root})
	if err != nil {
		t.Fatal(err)
	}
	errs, err := l.LintFile(filepath.Join(root, ".github", "workflows", "test.yml"), proj)
	if err != nil {
		t.Fatal(err)
	}
	out := make([]string, 0, len(errs))
	for _, e := range errs {
		m := strings.ReplaceAll(e.Message, root, "<root>")
		// Messages are compared modulo letter case
		out = append(out, fmt.Sprintf("%d:%d:%s:%s", e.Line, e.Column, e.Kind, strings.ToLower(m)))
	}
	sort.Strings(out)
	return out
}

const huntC08N3Action = `name: my action
description: test
inputs:
  alpha:
    default: a
  %s:
    default: b
runs:
  using: node20
  main: index.js
`

const huntC08N3Reusable = `on:
  workflow_call:
    inputs:
      alpha:
        type: string
      %s:
        type: string
    secrets:
      alpha:
      %s:
jobs:
  a:
    runs-on: ubuntu-latest
    steps:
      - run: echo
`

const huntC08N3Workflow = `on: push
jobs:
  call:
    uses: ./.github/workflows/reusable.yml
    with:
      gamma: x
    secrets:
      gamma: x
  test:
    runs-on: ubuntu-latest
    steps:
      - uses: ./act
        with:
          gamma: x
`

// Only the letter case of one input/secret name at its definition changes ("beta" -> "BETA"). The same
// diagnostics must be reported and the messages must be the same except for the spelling of the name.
func TestHuntC08N3MessagesDifferOnlyInSpelling(t *testing.T) {
	lower := huntC08N3Lint(t, fmt.Sprintf(huntC08N3Action, "beta"), fmt.Sprintf(huntC08N3Reusable, "beta", "beta"), huntC08N3Workflow)
	upper := huntC08N3Lint(t, fmt.Sprintf(huntC08N3Action, "BETA"), fmt.Sprintf(huntC08N3Reusable, "BETA", "BETA"), huntC08N3Workflow)
	if len(lower) != 3 {
		t.Fatalf("3 diagnostics (undefined input of action, undefined input and secret of reusable workflow) are expected but got %d:\n%s", len(lower), strings.Join(lower, "\n"))
	}
	if strings.Join(lower, "\n") != strings.Join(upper, "\n") {
		t.Errorf("messages differ in more than letter case after changing \"beta\" to \"BETA\" at the definitions\nbeta:\n%s\nBETA:\n%s", strings.Join(lower, "\n"), strings.Join(upper, "\n"))
	}
}
