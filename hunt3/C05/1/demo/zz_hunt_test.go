package actionlint

import (
	"fmt"
	"io"
	"os"
	"path/filepath"
	"strings"
	"testing"
)

// Property C05: jobs.<job>.outputs.<name> is reported as undefined iff the output is not in scope.
//
// The job "call" calls a local reusable workflow which declares exactly one output "zed". actionlint knows that:
// the same unknown output is reported when it is referred through the needs context
// (needs.call.outputs.nope). But it is not reported when it is referred through the jobs context at
// on.workflow_call.outputs.<id>.value (jobs.call.outputs.nope).
func TestHuntC05N1JobsContextOutputsOfLocalReusableWorkflowCall(t *testing.T) {
	dir := t.TempDir()
	files := map[string]string{
		".github/workflows/callee.yml": `on:
  workflow_call:
    outputs:
      zed:
        value: x
jobs:
  a:
    runs-on: ubuntu-latest
    steps:
      - run: echo
`,
		".github/workflows/main.yml": `on:
  workflow_call:
    outputs:
      ok:
        value: ${{ jobs.call.outputs.zed }}
      ng:
        value: ${{ jobs.call.outputs.nope }}
jobs:
  call:
    uses: ./.github/workflows/callee.yml
  after:
    needs: call
    runs-on: ubuntu-latest
    steps:
      - run: echo ${{ needs.call.outputs.zed }}
      - run: echo ${{ needs.call.outputs.nope }}
`,
	}
	for p, c := range files {
		fp := filepath.Join(dir, filepath.FromSlash(p))
		if err := os.MkdirAll(filepath.Dir(fp), 0o755); err != nil {
			t.Fatal(err)
		}
		if err := os.WriteFile(fp, []byte(c), 0o644); err != nil {
			t.Fatal(err)
		}
	}
	proj, err := NewProject(dir)
	if err != nil {
		t.Fatal(err)
	}
	l, err := NewLinter(io.Discard, &LinterOptions{WorkingDir: dir})
	if err != nil {
		t.Fatal(err)
	}
	errs, err := l.LintFile(filepath.Join(dir, ".github", "workflows", "main.yml"), proj)
	if err != nil {
		t.Fatal(err)
	}

	msgs := []string{}
	viaNeeds, viaJobs := false, false
	for _, e := range errs {
		msgs = append(msgs, fmt.Sprintf("%d:%d: %s", e.Line, e.Column, e.Message))
		if !strings.Contains(e.Message, `property "nope" is not defined in object type`) {
			// "zed" is declared. No other error is expected
			t.Errorf("unexpected error: %s", e)
			continue
		}
		switch e.Line {
		case 7:
			viaJobs = true
		case 16:
			viaNeeds = true
		}
	}
	all := strings.Join(msgs, "\n")

	// Sanity check: the outputs of the called workflow are known to actionlint
	if !viaNeeds {
		t.Fatalf("needs.call.outputs.nope at line 16 should be reported as undefined. errors:\n%s", all)
	}
	// The statement of the property
	if !viaJobs {
		t.Fatalf("jobs.call.outputs.nope at line 7 refers an output which is not declared by the called workflow (it only declares \"zed\") but it was not reported as undefined. errors:\n%s", all)
	}
}
