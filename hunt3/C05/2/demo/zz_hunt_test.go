package actionlint

import (
	"fmt"
	"io"
	"strings"
	"testing"
)

func huntC05N2Lint(t *testing.T, src string) []string {
	t.Helper()
	l, err := NewLinter(io.Discard, &LinterOptions{})
	if err != nil {
		t.Fatal(err)
	}
	errs, err := l.Lint("test.yaml", []byte(src), nil)
	if err != nil {
		t.Fatal(err)
	}
	ret := []string{}
	for _, e := range errs {
		ret = append(ret, fmt.Sprintf("%d:%d: %s [%s]", e.Line, e.Column, e.Message, e.Kind))
	}
	return ret
}

// Property C05, last sentence: "Where the defining section is given by an expression instead of a literal,
// references into it are not reported."
//
// The "include" section of the matrix is given by an expression. A reference to a matrix key which is not found in
// the value of the expression is reported as undefined.
func TestHuntC05N2MatrixIncludeGivenByExpression(t *testing.T) {
	src := `on: push
jobs:
  a:
    strategy:
      matrix:
        os: [ubuntu-latest]
        include: ${{ fromJSON('[{"a":1}]') }}
    runs-on: ${{ matrix.os }}
    steps:
      - run: echo ${{ matrix.b }}
`
	errs := huntC05N2Lint(t, src)
	for _, e := range errs {
		if strings.Contains(e, "is not defined in object type") {
			t.Errorf("include section is given by an expression but a reference into matrix was reported as undefined: %s", e)
		}
	}
}

// The same matrix where the entire "matrix" section is given by an expression. This case follows the statement: the
// reference is not reported. It shows that the two forms are handled inconsistently.
func TestHuntC05N2MatrixGivenByExpressionIsNotReported(t *testing.T) {
	src := `on: push
jobs:
  a:
    strategy:
      matrix: ${{ fromJSON('{"os":["ubuntu-latest"],"include":[{"a":1}]}') }}
    runs-on: ${{ matrix.os }}
    steps:
      - run: echo ${{ matrix.b }}
`
	errs := huntC05N2Lint(t, src)
	if len(errs) != 0 {
		t.Skipf("control case: %v", errs)
	}
}
