package actionlint

import (
	"fmt"
	"io"
	"strings"
	"testing"
)

// Property C05: "matrix sees exactly the row keys plus include keys". "os" and "version" are row keys of the matrix.
// Their values are wrong (a mapping, and an empty sequence) and the mistakes are reported by the parser. However the
// keys are additionally reported as undefined at every reference to them.
func TestHuntC05N4MatrixRowKeyWithInvalidValueIsReportedAsUndefined(t *testing.T) {
	src := `on: push
jobs:
  a:
    strategy:
      matrix:
        os: {name: ubuntu-latest}
        version: []
        ok: [1]
    runs-on: ubuntu-latest
    steps:
      - run: echo ${{ matrix.ok }}
      - run: echo ${{ matrix.os }}
      - run: echo ${{ matrix.version }}
`
	l, err := NewLinter(io.Discard, &LinterOptions{})
	if err != nil {
		t.Fatal(err)
	}
	errs, err := l.Lint("test.yaml", []byte(src), nil)
	if err != nil {
		t.Fatal(err)
	}
	syntax := 0
	for _, e := range errs {
		m := fmt.Sprintf("%d:%d: %s [%s]", e.Line, e.Column, e.Message, e.Kind)
		if e.Kind == "syntax-check" {
			syntax++
			continue
		}
		if strings.Contains(e.Message, "is not defined in object type") {
			t.Errorf("row key of the matrix is reported as undefined: %s", m)
		}
	}
	if syntax != 2 {
		t.Fatalf("2 syntax errors are expected for the values of the rows: %v", errs)
	}
}

// Same kind of problem for the needs context: the job "call" calls a reusable workflow in another repository, so its
// outputs cannot be known and references to them are not reported usually. When the job has a key which is not
// allowed for a reusable workflow call (reported by the parser), the job is handled as a normal job which declares no
// output, and every reference to an output of the job is additionally reported as undefined.
func TestHuntC05N4OutputsOfReusableWorkflowCallWithUnavailableKey(t *testing.T) {
	src := `on: push
jobs:
  call:
    uses: owner/repo/.github/workflows/x.yml@v1
    timeout-minutes: 10
  after:
    needs: call
    runs-on: ubuntu-latest
    steps:
      - run: echo ${{ needs.call.outputs.zed }}
`
	l, err := NewLinter(io.Discard, &LinterOptions{})
	if err != nil {
		t.Fatal(err)
	}
	errs, err := l.Lint("test.yaml", []byte(src), nil)
	if err != nil {
		t.Fatal(err)
	}
	syntax := 0
	for _, e := range errs {
		m := fmt.Sprintf("%d:%d: %s [%s]", e.Line, e.Column, e.Message, e.Kind)
		if e.Kind == "syntax-check" {
			syntax++
			continue
		}
		if strings.Contains(e.Message, "is not defined in object type") {
			t.Errorf("output of a reusable workflow in another repository is reported as undefined: %s", m)
		}
	}
	if syntax != 1 {
		t.Fatalf("1 syntax error is expected for \"timeout-minutes\": %v", errs)
	}
}
