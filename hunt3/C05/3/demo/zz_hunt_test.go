package actionlint

import (
	"fmt"
	"strings"
	"testing"
)

func huntC05N3Visit(t *testing.T, rule *RuleExpression, src string) {
	t.Helper()
	w, errs := Parse([]byte(src))
	if len(errs) > 0 {
		t.Fatalf("parse error: %v", errs)
	}
	v := NewVisitor()
	v.AddPass(rule)
	if err := v.Visit(w); err != nil {
		t.Fatal(err)
	}
}

// Property C05: inputs.<name>/secrets.<name>/jobs.<job> are reported as undefined iff they are not declared in the
// workflow being checked. The state which describes what is in scope (RuleExpression.inputsTy, dispatchInputsTy,
// secretsTy, jobsTy) is not reset when visiting a workflow ends nor when visiting the next workflow starts, unlike
// matrixTy/stepsTy/needsTy which are reset per job. When a program checks two workflows with one RuleExpression
// instance, the second workflow sees inputs/secrets/jobs of the first workflow.
func TestHuntC05N3ScopeLeaksToNextWorkflow(t *testing.T) {
	first := `on:
  workflow_call:
    inputs:
      from_first:
        type: string
    secrets:
      first_secret:
        required: true
  workflow_dispatch:
    inputs:
      dispatch_first:
        type: string
jobs:
  a:
    runs-on: ubuntu-latest
    steps:
      - run: echo
`
	// This workflow declares no input. "inputs.from_first" and "inputs.dispatch_first" are undefined here.
	// It does not declare secrets so any secret can be inherited from the caller.
	second := `on:
  workflow_call:
jobs:
  b:
    runs-on: ubuntu-latest
    steps:
      - run: echo ${{ inputs.from_first }}
      - run: echo ${{ inputs.dispatch_first }}
      - run: echo ${{ secrets.any_secret }}
`

	collect := func(r *RuleExpression) []string {
		ret := []string{}
		for _, e := range r.Errs() {
			ret = append(ret, fmt.Sprintf("%d:%d: %s", e.Line, e.Column, e.Message))
		}
		return ret
	}

	fresh := NewRuleExpression(NewLocalActionsCache(nil, nil), NewLocalReusableWorkflowCache(nil, "", nil))
	huntC05N3Visit(t, fresh, second)
	want := collect(fresh)
	if len(want) != 2 || !strings.Contains(want[0], `property "from_first" is not defined`) || !strings.Contains(want[1], `property "dispatch_first" is not defined`) {
		t.Fatalf("unexpected errors from the second workflow alone: %v", want)
	}

	reused := NewRuleExpression(NewLocalActionsCache(nil, nil), NewLocalReusableWorkflowCache(nil, "", nil))
	huntC05N3Visit(t, reused, first)
	if errs := collect(reused); len(errs) != 0 {
		t.Fatalf("first workflow should have no error: %v", errs)
	}
	huntC05N3Visit(t, reused, second)
	have := collect(reused)

	if strings.Join(want, "\n") != strings.Join(have, "\n") {
		t.Fatalf("the second workflow was checked with the scope of the first workflow.\nwant:\n%s\nhave:\n%s", strings.Join(want, "\n"), strings.Join(have, "\n"))
	}
}
