package actionlint

import (
	"fmt"
	"io"
	"strings"
	"testing"
)

// Property C03: replacing a scalar value that is evaluated as an expression template by a malformed
// ${{ }} placeholder must yield a diagnostic located at that scalar, and that diagnostic must be an
// expression syntax error.
//
// The base workflow lints clean. Each case replaces exactly one scalar by an unterminated placeholder.

const huntC03N1Base = `on: push
jobs:
  test:
    runs-on: ubuntu-latest
    timeout-minutes: @TIMEOUT@
    continue-on-error: @COE@
    strategy:
      fail-fast: @FAILFAST@
      max-parallel: @MAXPAR@
      matrix:
        os: @ROW@
    env: @ENV@
    name: @NAME@
    steps:
      - run: echo
`

var huntC03N1Defaults = map[string]string{
	"@TIMEOUT@":  "10",
	"@COE@":      "false",
	"@FAILFAST@": "true",
	"@MAXPAR@":   "2",
	"@ROW@":      "[a, b]",
	"@ENV@":      "{A: b}",
	"@NAME@":     "n",
}

func huntC03N1Lint(t *testing.T, src string) []*Error {
	t.Helper()
	l, err := NewLinter(io.Discard, &LinterOptions{})
	if err != nil {
		t.Fatal(err)
	}
	errs, err := l.Lint("<stdin>", []byte(src), nil)
	if err != nil {
		t.Fatal(err)
	}
	return errs
}

func huntC03N1Build(slot, val string) (string, int, int) {
	src := huntC03N1Base
	line, col := 0, 0
	for i, l := range strings.Split(src, "\n") {
		if idx := strings.Index(l, slot); idx >= 0 {
			line, col = i+1, idx+1
		}
	}
	for k, v := range huntC03N1Defaults {
		if k == slot {
			v = val
		}
		src = strings.ReplaceAll(src, k, v)
	}
	return src, line, col
}

func TestHuntC03N1BaseIsClean(t *testing.T) {
	src, _, _ := huntC03N1Build("", "")
	if errs := huntC03N1Lint(t, src); len(errs) != 0 {
		t.Fatalf("base workflow must lint clean but got %v", errs)
	}
}

func huntC03N1Check(t *testing.T, slot, ph string) {
	src, line, col := huntC03N1Build(slot, ph)
	errs := huntC03N1Lint(t, src)
	var all []string
	found := false
	for _, e := range errs {
		all = append(all, fmt.Sprintf("%d:%d [%s] %s", e.Line, e.Column, e.Kind, e.Message))
		if e.Line == line && e.Column >= col && e.Column <= col+len(ph) && e.Kind == "expression" {
			found = true
		}
	}
	if !found {
		t.Errorf("%s replaced by %q (scalar at %d:%d): no expression syntax error is reported at the scalar. diagnostics: %v", slot, ph, line, col, all)
	}
}

// Control: in a plain string field the unterminated placeholder is reported as expression syntax error.
func TestHuntC03N1ControlName(t *testing.T) {
	huntC03N1Check(t, "@NAME@", "${{ github.sha }")
	huntC03N1Check(t, "@NAME@", "${{")
}

func TestHuntC03N1TimeoutMinutes(t *testing.T) {
	huntC03N1Check(t, "@TIMEOUT@", "${{ github.sha }")
	huntC03N1Check(t, "@TIMEOUT@", "${{")
}

func TestHuntC03N1ContinueOnError(t *testing.T) {
	huntC03N1Check(t, "@COE@", "${{ github.sha }")
}

func TestHuntC03N1FailFast(t *testing.T) {
	huntC03N1Check(t, "@FAILFAST@", "${{ github.sha }")
}

func TestHuntC03N1MaxParallel(t *testing.T) {
	huntC03N1Check(t, "@MAXPAR@", "${{ github.sha }")
}

func TestHuntC03N1MatrixRow(t *testing.T) {
	huntC03N1Check(t, "@ROW@", "${{ github.sha }")
}

func TestHuntC03N1Env(t *testing.T) {
	huntC03N1Check(t, "@ENV@", "${{ github.sha }")
}
