package actionlint

import (
	"io"
	"strings"
	"testing"
)

func huntC11N1Untrusted(t *testing.T, src string) []string {
	t.Helper()
	l, err := NewLinter(io.Discard, &LinterOptions{})
	if err != nil {
		t.Fatal(err)
	}
	errs, err := l.Lint("test.yaml", []byte(src), nil)
	if err != nil {
		t.Fatal(err)
	}
	r := []string{}
	for _, e := range errs {
		if strings.Contains(e.Message, "potentially untrusted") {
			r = append(r, e.Error())
		}
	}
	return r
}

// ['*'] is an index with the *string* '*', not the object filter `.*`. Indexing the arrays
// github.event.commits / github.event.pages with a non-numeric string yields null, exactly like
// ['x'] does, so no commit message / page name is read. The property says expressions that read no
// untrusted input are never reported.
func TestHuntC11N1StringStarIndexIsNotObjectFilter(t *testing.T) {
	for _, expr := range []string{
		"github.event.commits['*'].message",
		"github.event.commits['*'].author.name",
		"github.event.pages['*'].page_name",
		"github['event']['commits']['*']['message']",
	} {
		wf := "on: push\njobs:\n  test:\n    runs-on: ubuntu-latest\n    steps:\n      - run: echo \"${{ " + expr + " }}\"\n"
		if got := huntC11N1Untrusted(t, wf); len(got) != 0 {
			t.Errorf("%s reads no untrusted input (string index '*' is not the `.*` filter) but was reported: %q", expr, got)
		}
		// Control: any other string index at the same place is (correctly) not reported
		ctl := strings.ReplaceAll(expr, "'*'", "'x'")
		wf = "on: push\njobs:\n  test:\n    runs-on: ubuntu-latest\n    steps:\n      - run: echo \"${{ " + ctl + " }}\"\n"
		if got := huntC11N1Untrusted(t, wf); len(got) != 0 {
			t.Errorf("control %s was reported: %q", ctl, got)
		}
	}
}
