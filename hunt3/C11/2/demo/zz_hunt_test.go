package actionlint

import (
	"io"
	"strings"
	"testing"
)

func huntC11N2Untrusted(t *testing.T, src string) []string {
	t.Helper()
	l, err := NewLinter(io.Discard, &LinterOptions{})
	if err != nil {
		t.Fatal(err)
	}
	errs, err := l.Lint("test.yaml", []byte(src), nil)
	if err != nil {
		t.Fatal(err)
	}
	r := []string{}
	for _, e := range errs {
		if strings.Contains(e.Message, "potentially untrusted") {
			r = append(r, e.Error())
		}
	}
	return r
}

// An array index may be spelled as a numeric string: the expression evaluator converts the index
// of an array to a number, so github.event.commits['0'].message is github.event.commits[0].message.
// (github.event is loosely typed, so actionlint's type checker accepts the expression silently.)
// The property requires every array-index spelling reaching an untrusted input to be reported.
func TestHuntC11N2NumericStringArrayIndex(t *testing.T) {
	for _, c := range []struct{ expr, path string }{
		{"github.event.commits['0'].message", "github.event.commits.*.message"},
		{"github.event.commits['1'].author.email", "github.event.commits.*.author.email"},
		{"github.event.pages['0'].page_name", "github.event.pages.*.page_name"},
		{"github['event']['commits']['0']['message']", "github.event.commits.*.message"},
	} {
		wf := "on: push\njobs:\n  test:\n    runs-on: ubuntu-latest\n    steps:\n      - run: echo \"${{ " + c.expr + " }}\"\n"
		got := huntC11N2Untrusted(t, wf)
		if len(got) != 1 || !strings.Contains(got[0], `"`+c.path+`"`) {
			t.Errorf("%s reads %s but untrusted-input diagnostics are %q", c.expr, c.path, got)
		}
		// Control: the same expression with a number literal index is reported
		ctl := strings.NewReplacer("'0'", "0", "'1'", "1").Replace(c.expr)
		wf = "on: push\njobs:\n  test:\n    runs-on: ubuntu-latest\n    steps:\n      - run: echo \"${{ " + ctl + " }}\"\n"
		if got := huntC11N2Untrusted(t, wf); len(got) != 1 {
			t.Errorf("control %s: want 1 diagnostic, got %q", ctl, got)
		}
	}
}
