package actionlint

import (
	"io"
	"strings"
	"testing"
)

func huntC11N3Untrusted(t *testing.T, src string) []string {
	t.Helper()
	l, err := NewLinter(io.Discard, &LinterOptions{})
	if err != nil {
		t.Fatal(err)
	}
	errs, err := l.Lint("test.yaml", []byte(src), nil)
	if err != nil {
		t.Fatal(err)
	}
	r := []string{}
	for _, e := range errs {
		if strings.Contains(e.Message, "potentially untrusted") {
			r = append(r, e.Error())
		}
	}
	return r
}

// On a pull_request event github.event[github.event_name] is github.event.pull_request, so the
// expressions below read github.event.pull_request.title / .body / .head.ref. A computed index on
// an array node (github.event.commits[env.I].message) is matched as "any element", but a computed
// index on an object node drops the whole chain, so nothing is reported.
func TestHuntC11N3ComputedKeyOnObject(t *testing.T) {
	for _, expr := range []string{
		"github.event[github.event_name].title",
		"github.event[github.event_name].body",
		"github.event[github.event_name].head.ref",
		"github.event[format('{0}_request', 'pull')].title",
	} {
		wf := "on: pull_request\njobs:\n  test:\n    runs-on: ubuntu-latest\n    steps:\n      - run: echo \"${{ " + expr + " }}\"\n"
		got := huntC11N3Untrusted(t, wf)
		if len(got) == 0 {
			t.Errorf("%s reads github.event.pull_request.* on a pull_request event but no untrusted-input diagnostic was reported", expr)
		}
	}
	// Control: computed index on the array node is followed
	wf := "on: push\njobs:\n  test:\n    runs-on: ubuntu-latest\n    steps:\n      - run: echo \"${{ github.event.commits[env.I].message }}\"\n        env:\n          I: 0\n"
	if got := huntC11N3Untrusted(t, wf); len(got) != 1 {
		t.Errorf("control: want 1 diagnostic, got %q", got)
	}
}
