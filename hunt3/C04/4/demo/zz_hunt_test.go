package actionlint

import (
	"io"
	"testing"
)

// Property C04: "rejected text yields exactly one syntax diagnostic positioned within the
// placeholder". The empty string is not a sentence of the expression language. For an empty
// `if:` condition two diagnostics are reported at the same position: one by the workflow parser
// ("string should not be empty") and one by the expression parser ("unexpected end of input ...").

func TestHuntC04N4EmptyIfConditionOneDiagnostic(t *testing.T) {
	for _, v := range []string{"''", "\"\"", ""} {
		src := "on: push\njobs:\n  j:\n    runs-on: ubuntu-latest\n    steps:\n      - run: echo\n        if: " + v + "\n"
		l, err := NewLinter(io.Discard, &LinterOptions{Shellcheck: "", Pyflakes: ""})
		if err != nil {
			t.Fatal(err)
		}
		errs, err := l.Lint("test.yaml", []byte(src), nil)
		if err != nil {
			t.Fatal(err)
		}
		if len(errs) != 1 {
			t.Errorf("`if: %s`: want exactly one diagnostic for the empty condition, got %d:", v, len(errs))
			for _, e := range errs {
				t.Errorf("    %d:%d [%s] %s", e.Line, e.Column, e.Kind, e.Message)
			}
		}
	}
}
