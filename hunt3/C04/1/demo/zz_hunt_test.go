package actionlint

import (
	"io"
	"testing"
)

// Property C04: "Accepted text is analysed according to that structure" (comparison operators are
// one precedence level; in the documented language, as in GitHub's evaluator, binary operators of
// the same level group from left to right).
//
// `1 < 2 == true` is `(1 < 2) == true`: a bool compared with a bool, which is fine.
// actionlint parses comparison chains right-recursively, i.e. as `1 < (2 == true)`, and therefore
// reports a bogus type error for a valid expression.

func huntC04N1Lint(t *testing.T, src string) []*Error {
	t.Helper()
	l, err := NewLinter(io.Discard, &LinterOptions{Shellcheck: "", Pyflakes: ""})
	if err != nil {
		t.Fatal(err)
	}
	errs, err := l.Lint("test.yaml", []byte(src), nil)
	if err != nil {
		t.Fatal(err)
	}
	return errs
}

func TestHuntC04N1ComparisonChainNoFalsePositive(t *testing.T) {
	for _, expr := range []string{
		"1 < 2 == true",
		"github.run_attempt < '3' != false",
		"fromJSON('[1]')[0] >= 1 == true",
	} {
		src := "on: push\njobs:\n  j:\n    runs-on: ubuntu-latest\n    steps:\n      - run: echo\n        env:\n          X: ${{ " + expr + " }}\n"
		errs := huntC04N1Lint(t, src)
		for _, e := range errs {
			t.Errorf("valid expression %q: unexpected diagnostic %d:%d [%s] %s", expr, e.Line, e.Column, e.Kind, e.Message)
		}
	}
}

func TestHuntC04N1ComparisonChainTreeShape(t *testing.T) {
	n, err := NewExprParser().Parse(NewExprLexer("a < b == c}}"))
	if err != nil {
		t.Fatal(err)
	}
	root, ok := n.(*CompareOpNode)
	if !ok {
		t.Fatalf("root is %T", n)
	}
	// (a < b) == c : root operator is ==, its left operand is the < comparison, its right operand is c
	if root.Kind != CompareOpNodeKindEq {
		t.Errorf("root operator of `a < b == c` is %q, want \"==\" (operators of one level group left to right)", root.Kind.String())
	}
	if _, ok := root.Left.(*CompareOpNode); !ok {
		t.Errorf("left operand of root of `a < b == c` is %T, want *CompareOpNode for `a < b`", root.Left)
	}
	if v, ok := root.Right.(*VariableNode); !ok || v.Name != "c" {
		t.Errorf("right operand of root of `a < b == c` is %T, want variable c", root.Right)
	}
}
