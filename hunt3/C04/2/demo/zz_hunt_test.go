package actionlint

import (
	"io"
	"strings"
	"testing"
)

// Property C04: "rejected text yields exactly one syntax diagnostic positioned within the
// placeholder" (for an `if:` condition without ${{ }} the placeholder is the condition scalar).
//
// For a bare `if:` condition actionlint appends "}}" to the text before lexing. When the condition
// ends inside an unterminated string literal, the appended "}}" is swallowed by the string and the
// error is positioned at the EOF of the *extended* text, i.e. two columns after the position just
// behind the last character of the condition: outside the condition and outside the line.

func huntC04N2Lint(t *testing.T, src string) []*Error {
	t.Helper()
	l, err := NewLinter(io.Discard, &LinterOptions{Shellcheck: "", Pyflakes: ""})
	if err != nil {
		t.Fatal(err)
	}
	errs, err := l.Lint("test.yaml", []byte(src), nil)
	if err != nil {
		t.Fatal(err)
	}
	return errs
}

func TestHuntC04N2UnterminatedStringInBareIfPosition(t *testing.T) {
	for _, line := range []string{
		"        if: github.ref == 'abc",
		"        if: \"github.ref == 'abc\"",
		"    if: startsWith(github.ref, 'refs/tags/)",
	} {
		var src string
		if strings.HasPrefix(line, "        ") {
			src = "on: push\njobs:\n  j:\n    runs-on: ubuntu-latest\n    steps:\n      - run: echo\n" + line + "\n"
		} else {
			src = "on: push\njobs:\n  j:\n    runs-on: ubuntu-latest\n" + line + "\n    steps:\n      - run: echo\n"
		}
		lineNo := 0
		for i, l := range strings.Split(src, "\n") {
			if l == line {
				lineNo = i + 1
			}
		}
		errs := huntC04N2Lint(t, src)
		if len(errs) != 1 {
			t.Errorf("%q: want exactly one diagnostic, got %d: %v", line, len(errs), errs)
			continue
		}
		e := errs[0]
		first := strings.Index(line, "if: ") + len("if: ") + 1 // column of the first character of the scalar
		last := len(line)                                     // column of the last character of the line (ASCII only)
		// Be generous: accept any column from the start of the scalar up to one past the end of the line
		if e.Line != lineNo || e.Column < first || e.Column > last+1 {
			t.Errorf("%q: diagnostic at %d:%d is outside the condition (line %d, columns %d..%d, end of input at column %d): %s", line, e.Line, e.Column, lineNo, first, last, last+1, e.Message)
		}
	}
}
