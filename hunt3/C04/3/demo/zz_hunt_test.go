package actionlint

import (
	"io"
	"testing"
)

// Property C04: "Numbers follow the JSON forms plus 0x hex". The JSON forms are
// -?(0|[1-9][0-9]*)(\.[0-9]+)?([eE][+-]?[0-9]+)? and the extra form is 0x followed by hex digits.
// A minus sign in front of a 0x literal is neither (GitHub's own number parser rejects "-0x1F"),
// but the lexer accepts it as an integer token and the parser evaluates it to -31.

func TestHuntC04N3SignedHexRejectedByParser(t *testing.T) {
	for _, src := range []string{"-0x1F", "-0x0", "-0xff", "a[-0x1]", "-0xFFFFFFFFFFFFFFFFFFFF"} {
		n, err := NewExprParser().Parse(NewExprLexer(src + "}}"))
		if err == nil {
			t.Errorf("%q is not a JSON number nor a 0x hex literal but it was accepted (parsed as %T)", src, n)
		}
	}
}

func TestHuntC04N3SignedHexRejectedByLexer(t *testing.T) {
	ts, _, err := LexExpression("-0x1F}}")
	if err == nil {
		t.Errorf("\"-0x1F\" was lexed without error into %d tokens; first token %s %q", len(ts), ts[0].Kind.String(), ts[0].Value)
	}
}

func TestHuntC04N3SignedHexDiagnosticInWorkflow(t *testing.T) {
	src := "on: push\njobs:\n  j:\n    runs-on: ubuntu-latest\n    steps:\n      - run: echo\n        env:\n          X: ${{ -0x1F }}\n"
	l, err := NewLinter(io.Discard, &LinterOptions{Shellcheck: "", Pyflakes: ""})
	if err != nil {
		t.Fatal(err)
	}
	errs, err := l.Lint("test.yaml", []byte(src), nil)
	if err != nil {
		t.Fatal(err)
	}
	if len(errs) != 1 {
		t.Fatalf("want exactly one syntax diagnostic for ${{ -0x1F }}, got %d: %v", len(errs), errs)
	}
	if e := errs[0]; e.Line != 8 || e.Column < 14 || e.Column > 25 {
		t.Errorf("diagnostic %d:%d is not within the placeholder (8:14..8:25)", e.Line, e.Column)
	}
}
