package actionlint

import (
	"io"
	"strings"
	"testing"
)

// Property C07: a diagnostic about a mapping key is reported exactly at the position of that key.
//
// A step which runs an action must not have keys which are only for "run" steps. For the keys "run" and "shell" the
// diagnostic is reported at the key. For the key "working-directory" the diagnostic (which names the key, not its value)
// is reported at the position of the VALUE.

func huntC07N2Lint(t *testing.T, src string) []*Error {
	t.Helper()
	l, err := NewLinter(io.Discard, &LinterOptions{})
	if err != nil {
		t.Fatal(err)
	}
	errs, err := l.Lint("test.yaml", []byte(src), nil)
	if err != nil {
		t.Fatal(err)
	}
	return errs
}

func huntC07N2Workflow(gap string) string {
	return "on: push\n" +
		"jobs:\n" +
		"  a:\n" +
		"    runs-on: ubuntu-latest\n" +
		"    steps:\n" +
		"      - uses: actions/checkout@v4\n" +
		"        shell:" + gap + "bash\n" +
		"        working-directory:" + gap + "foo\n"
}

func huntC07N2Find(t *testing.T, errs []*Error, key string) *Error {
	t.Helper()
	for _, e := range errs {
		if e.Kind == "syntax-check" && strings.Contains(e.Message, "\""+key+"\"") && e.Line >= 7 {
			return e
		}
	}
	t.Fatalf("no diagnostic about key %q in %v", key, errs)
	return nil
}

func TestHuntC07N2WorkingDirectoryWithUsesIsReportedAtItsKey(t *testing.T) {
	src := huntC07N2Workflow(" ")
	errs := huntC07N2Lint(t, src)
	lines := strings.Split(src, "\n")
	for _, key := range []string{"shell", "working-directory"} {
		e := huntC07N2Find(t, errs, key)
		wantLine, wantCol := 0, 0
		for i, l := range lines {
			if c := strings.Index(l, key+":"); c >= 0 {
				wantLine, wantCol = i+1, c+1
			}
		}
		if e.Line != wantLine || e.Column != wantCol {
			t.Errorf("diagnostic about key %q must be at the key %d:%d but it is at %d:%d: %s", key, wantLine, wantCol, e.Line, e.Column, e.Message)
		}
	}
}

func TestHuntC07N2WorkingDirectoryDiagnosticDoesNotMoveWithItsValue(t *testing.T) {
	base := huntC07N2Lint(t, huntC07N2Workflow(" "))
	moved := huntC07N2Lint(t, huntC07N2Workflow("      ")) // 5 more characters AFTER the keys. The keys do not move
	for _, key := range []string{"shell", "working-directory"} {
		b, m := huntC07N2Find(t, base, key), huntC07N2Find(t, moved, key)
		if b.Line != m.Line || b.Column != m.Column {
			t.Errorf("key %q did not move but its diagnostic moved from %d:%d to %d:%d", key, b.Line, b.Column, m.Line, m.Column)
		}
	}
}
