package actionlint

import (
	"fmt"
	"io"
	"strings"
	"testing"
)

// Property C07: a diagnostic about a scalar value written on one line is reported exactly at the position of the value,
// so inserting k characters before it on its line, or k lines above it, moves the report by exactly k.
//
// "job X needs job Y which does not exist" is caused by the scalar Y in the "needs" section. Other diagnostics about
// elements of "needs" (duplicate ID in "needs") are reported at the element. This one is reported at the ID of the job
// which has the "needs" section, so it does not follow the offending value.

func huntC07N4Lint(t *testing.T, src string) []*Error {
	t.Helper()
	l, err := NewLinter(io.Discard, &LinterOptions{})
	if err != nil {
		t.Fatal(err)
	}
	errs, err := l.Lint("test.yaml", []byte(src), nil)
	if err != nil {
		t.Fatal(err)
	}
	return errs
}

func huntC07N4Workflow(spaces, linesAbove int) string {
	return "on: push\n" +
		"jobs:\n" +
		"  first:\n" +
		"    runs-on: ubuntu-latest\n" +
		"    steps:\n" +
		"      - run: echo\n" +
		"  second:\n" +
		"    runs-on: ubuntu-latest\n" +
		strings.Repeat("    # comment\n", linesAbove) +
		"    needs: [first, " + strings.Repeat(" ", spaces) + "missing, first]\n" +
		"    steps:\n" +
		"      - run: echo\n"
}

func huntC07N4Pos(t *testing.T, src, msg string) (string, string) {
	t.Helper()
	var got string
	for _, e := range huntC07N4Lint(t, src) {
		if strings.Contains(e.Message, msg) {
			got = fmt.Sprintf("%d:%d", e.Line, e.Column)
		}
	}
	if got == "" {
		t.Fatalf("no diagnostic %q", msg)
	}
	return got, src
}

func TestHuntC07N4UnknownJobInNeedsIsReportedAtTheValue(t *testing.T) {
	for _, c := range []struct{ spaces, lines int }{{0, 0}, {3, 0}, {0, 2}, {5, 1}} {
		src := huntC07N4Workflow(c.spaces, c.lines)
		want := ""
		for i, l := range strings.Split(src, "\n") {
			if col := strings.Index(l, "missing"); col >= 0 {
				want = fmt.Sprintf("%d:%d", i+1, col+1)
			}
		}
		got, _ := huntC07N4Pos(t, src, "needs job \"missing\" which does not exist")
		if got != want {
			t.Errorf("spaces=%d lines=%d: offending value \"missing\" is at %s but the diagnostic is at %s", c.spaces, c.lines, want, got)
		}
	}
}

func TestHuntC07N4DuplicateJobInNeedsIsReportedAtTheValue(t *testing.T) {
	// This one passes. The sibling diagnostic about an element of "needs" is reported at the element
	for _, c := range []struct{ spaces, lines int }{{0, 0}, {3, 0}, {0, 2}, {5, 1}} {
		src := huntC07N4Workflow(c.spaces, c.lines)
		want := ""
		for i, l := range strings.Split(src, "\n") {
			if col := strings.LastIndex(l, "first]"); col >= 0 {
				want = fmt.Sprintf("%d:%d", i+1, col+1)
			}
		}
		got, _ := huntC07N4Pos(t, src, "job ID \"first\" duplicates in \"needs\" section")
		if got != want {
			t.Errorf("spaces=%d lines=%d: duplicate element is at %s but the diagnostic is at %s", c.spaces, c.lines, want, got)
		}
	}
}
