package actionlint

import (
	"fmt"
	"io"
	"strings"
	"testing"
)

// Property C07: a diagnostic about a scalar value written on one line is reported exactly at the position of the value,
// so inserting k characters before the value on its line moves the report by exactly k.
//
// `on: schedule` is rejected because of the scalar value "schedule". When the same value is written as an element of a
// sequence (`on: [schedule]`) the diagnostic is at the value. In the scalar form the diagnostic is reported at the "on"
// key instead and does not follow the value.

func huntC07N3Lint(t *testing.T, src string) []*Error {
	t.Helper()
	l, err := NewLinter(io.Discard, &LinterOptions{})
	if err != nil {
		t.Fatal(err)
	}
	errs, err := l.Lint("test.yaml", []byte(src), nil)
	if err != nil {
		t.Fatal(err)
	}
	return errs
}

const huntC07N3Jobs = "jobs:\n  a:\n    runs-on: ubuntu-latest\n    steps:\n      - run: echo\n"

func huntC07N3Find(t *testing.T, errs []*Error) *Error {
	t.Helper()
	for _, e := range errs {
		if e.Kind == "syntax-check" && strings.Contains(e.Message, "schedule") {
			return e
		}
	}
	t.Fatalf("no diagnostic about schedule in %v", errs)
	return nil
}

func TestHuntC07N3OnScheduleScalarIsReportedAtTheValue(t *testing.T) {
	for k := 0; k < 4; k++ {
		first := "on: " + strings.Repeat(" ", k) + "schedule"
		e := huntC07N3Find(t, huntC07N3Lint(t, first+"\n"+huntC07N3Jobs))
		want := fmt.Sprintf("1:%d", strings.Index(first, "schedule")+1)
		if got := fmt.Sprintf("%d:%d", e.Line, e.Column); got != want {
			t.Errorf("%q: offending value is at %s but the diagnostic is at %s: %s", first, want, got, e.Message)
		}
	}
}

func TestHuntC07N3OnScheduleInSequenceIsReportedAtTheValue(t *testing.T) {
	// This one passes. It shows the behavior the property describes for the same offending value
	for k := 0; k < 4; k++ {
		first := "on: [push, " + strings.Repeat(" ", k) + "schedule]"
		e := huntC07N3Find(t, huntC07N3Lint(t, first+"\n"+huntC07N3Jobs))
		want := fmt.Sprintf("1:%d", strings.Index(first, "schedule")+1)
		if got := fmt.Sprintf("%d:%d", e.Line, e.Column); got != want {
			t.Errorf("%q: offending value is at %s but the diagnostic is at %s: %s", first, want, got, e.Message)
		}
	}
}
