package actionlint

import (
	"io"
	"os"
	"path/filepath"
	"strings"
	"testing"
)

// Property C07: a diagnostic about a mapping key is reported exactly at the position of that key.
//
// "input %q is not defined in action ..." is a diagnostic about a key of the "with" mapping. For ordinary inputs it is
// reported at the key. For the keys "args" and "entrypoint" (which are ordinary inputs when the local action is not a
// Docker action) it is reported at the position of the VALUE, so the report moves when characters are inserted between
// the key and its value although the key did not move.

func huntC07N1Lint(t *testing.T, src string) []*Error {
	t.Helper()
	dir := t.TempDir()
	must := func(err error) {
		t.Helper()
		if err != nil {
			t.Fatal(err)
		}
	}
	must(os.MkdirAll(filepath.Join(dir, ".github", "workflows"), 0o755))
	must(os.MkdirAll(filepath.Join(dir, "act"), 0o755))
	must(os.WriteFile(filepath.Join(dir, "act", "action.yml"), []byte("name: a\ndescription: d\ninputs:\n  ok:\n    required: false\nruns:\n  using: node20\n  main: index.js\n"), 0o644))
	must(os.WriteFile(filepath.Join(dir, "act", "index.js"), []byte(""), 0o644))
	proj, err := NewProject(dir)
	must(err)
	l, err := NewLinter(io.Discard, &LinterOptions{})
	must(err)
	errs, err := l.Lint(filepath.Join(dir, ".github", "workflows", "t.yaml"), []byte(src), proj)
	must(err)
	return errs
}

func huntC07N1Workflow(gap string) string {
	return "on: push\n" +
		"jobs:\n" +
		"  a:\n" +
		"    runs-on: ubuntu-latest\n" +
		"    steps:\n" +
		"      - uses: ./act\n" +
		"        with:\n" +
		"          foo:" + gap + "1\n" +
		"          args:" + gap + "2\n" +
		"          entrypoint:" + gap + "3\n"
}

func huntC07N1Find(t *testing.T, errs []*Error, input string) *Error {
	t.Helper()
	for _, e := range errs {
		if strings.Contains(e.Message, "input \""+input+"\" is not defined in action") {
			return e
		}
	}
	t.Fatalf("no diagnostic for undefined input %q in %v", input, errs)
	return nil
}

func TestHuntC07N1UndefinedArgsInputIsReportedAtItsKey(t *testing.T) {
	src := huntC07N1Workflow(" ")
	errs := huntC07N1Lint(t, src)
	lines := strings.Split(src, "\n")
	for _, key := range []string{"foo", "args", "entrypoint"} {
		e := huntC07N1Find(t, errs, key)
		wantLine, wantCol := 0, 0
		for i, l := range lines {
			if c := strings.Index(l, key+":"); c >= 0 {
				wantLine, wantCol = i+1, c+1
			}
		}
		if e.Line != wantLine || e.Column != wantCol {
			t.Errorf("diagnostic about key %q must be at the key %d:%d but it is at %d:%d: %s", key, wantLine, wantCol, e.Line, e.Column, e.Message)
		}
	}
}

func TestHuntC07N1UndefinedArgsInputDoesNotMoveWithItsValue(t *testing.T) {
	base := huntC07N1Lint(t, huntC07N1Workflow(" "))
	moved := huntC07N1Lint(t, huntC07N1Workflow("        ")) // 7 more characters AFTER the keys. The keys do not move
	for _, key := range []string{"foo", "args", "entrypoint"} {
		b, m := huntC07N1Find(t, base, key), huntC07N1Find(t, moved, key)
		if b.Line != m.Line || b.Column != m.Column {
			t.Errorf("key %q did not move but its diagnostic moved from %d:%d to %d:%d", key, b.Line, b.Column, m.Line, m.Column)
		}
	}
}
