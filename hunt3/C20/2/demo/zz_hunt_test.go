package actionlint

import (
	"fmt"
	"io"
	"os"
	"strings"
	"testing"
	"unicode/utf8"
)

// Stand-in for shellcheck: the test binary itself (active only when HUNT_C20N2_MODE is set). It
// reports one issue, in shellcheck's JSON format, at the line and column (1-based, in characters)
// of every occurrence of the word MARK in the script it receives on stdin.
func TestHuntC20N2Helper(t *testing.T) {
	if os.Getenv("HUNT_C20N2_MODE") == "" {
		return
	}
	in, _ := io.ReadAll(os.Stdin)
	if os.Getenv("HUNT_C20N2_MODE") == "py" {
		// pyflakes output format
		n := 0
		for i, l := range strings.Split(string(in), "\n") {
			if idx := strings.Index(l, "MARK"); idx >= 0 {
				fmt.Printf("<stdin>:%d:%d: undefined name 'MARK'\n", i+1, utf8.RuneCountInString(l[:idx])+1)
				n++
			}
		}
		if n > 0 {
			os.Exit(1)
		}
		os.Exit(0)
	}
	var out []string
	for i, l := range strings.Split(string(in), "\n") {
		if idx := strings.Index(l, "MARK"); idx >= 0 {
			col := utf8.RuneCountInString(l[:idx]) + 1
			out = append(out, fmt.Sprintf(`{"file":"-","line":%d,"endLine":%d,"column":%d,"endColumn":%d,"level":"info","code":2086,"message":"Double quote to prevent globbing and word splitting."}`, i+1, i+1, col, col+4))
		}
	}
	fmt.Printf("[%s]\n", strings.Join(out, ","))
	if len(out) > 0 {
		os.Exit(1)
	}
	os.Exit(0)
}

func huntC20N2Lint(t *testing.T, src string) []string {
	t.Helper()
	t.Setenv("HUNT_C20N2_MODE", "1")
	tool := `"` + os.Args[0] + `" -test.run=^TestHuntC20N2Helper$ --`
	l, err := NewLinter(io.Discard, &LinterOptions{Shellcheck: tool})
	if err != nil {
		t.Fatal(err)
	}
	errs, err := l.Lint("test.yaml", []byte(src), nil)
	if err != nil {
		t.Fatal(err)
	}
	var r []string
	for _, e := range errs {
		if e.Kind != "shellcheck" {
			t.Fatalf("unexpected diagnostic: %v", e)
		}
		r = append(r, fmt.Sprintf("%d:%d: %s", e.Line, e.Column, e.Message))
	}
	return r
}

// Control: placeholder on one line. MARK is on line 2, column 6 of the script.
func TestHuntC20N2Control(t *testing.T) {
	src := `on: push
jobs:
  test:
    runs-on: ubuntu-latest
    steps:
      - run: |
          echo ${{ github.sha }}
          echo MARK
`
	got := huntC20N2Lint(t, src)
	if len(got) != 1 || !strings.Contains(got[0], "SC2086:info:2:6:") || !strings.HasPrefix(got[0], "6:9: ") {
		t.Fatalf("control failed: %q", got)
	}
}

// The ${{ }} placeholder spans three lines of the script (valid, and accepted without any
// diagnostic by the expression checker). MARK is on line 4, column 6 of the script, so the
// location quoted in the diagnostic must be 4:6 for "reported offsets stay valid" to hold.
func TestHuntC20N2MultiLinePlaceholderKeepsLineNumbers(t *testing.T) {
	src := `on: push
jobs:
  test:
    runs-on: ubuntu-latest
    steps:
      - run: |
          echo ${{
            github.sha
          }}
          echo MARK
`
	got := huntC20N2Lint(t, src)
	if len(got) != 1 {
		t.Fatalf("want exactly one shellcheck diagnostic, got %q", got)
	}
	if !strings.Contains(got[0], "SC2086:info:4:6:") {
		t.Errorf("the issue is at line 4, column 6 of the script but the diagnostic says: %s", got[0])
	}
}

// Same for pyflakes, which receives the script through the same replacement. MARK is on line 4,
// column 7 of the Python script.
func TestHuntC20N2MultiLinePlaceholderKeepsLineNumbersPyflakes(t *testing.T) {
	t.Setenv("HUNT_C20N2_MODE", "py")
	tool := `"` + os.Args[0] + `" -test.run=^TestHuntC20N2Helper$ --`
	l, err := NewLinter(io.Discard, &LinterOptions{Pyflakes: tool})
	if err != nil {
		t.Fatal(err)
	}
	src := `on: push
jobs:
  test:
    runs-on: ubuntu-latest
    steps:
      - shell: python
        run: |
          x = ${{
            github.run_id
          }}
          print(MARK)
`
	errs, err := l.Lint("test.yaml", []byte(src), nil)
	if err != nil {
		t.Fatal(err)
	}
	if len(errs) != 1 || errs[0].Kind != "pyflakes" {
		t.Fatalf("want exactly one pyflakes diagnostic, got %v", errs)
	}
	if !strings.Contains(errs[0].Message, ": 4:7: undefined name") {
		t.Errorf("the issue is at line 4, column 7 of the script but the diagnostic says: %s", errs[0].Message)
	}
}
