package actionlint

import (
	"fmt"
	"io"
	"os"
	"sort"
	"strings"
	"testing"
)

// Stand-in for shellcheck and pyflakes: the test binary itself (active only when HUNT_C20N4_MODE
// is set). It reports one issue for every script it is given, quoting the step tag (sNN) found in
// the script, so the diagnostics tell which scripts were passed to the tool.
func TestHuntC20N4Helper(t *testing.T) {
	mode := os.Getenv("HUNT_C20N4_MODE")
	if mode == "" {
		return
	}
	in, _ := io.ReadAll(os.Stdin)
	tag := "?"
	if i := strings.Index(string(in), "TAG_"); i >= 0 {
		tag = string(in)[i : i+7]
	}
	// shellcheck is called with arguments ending in "-", pyflakes without tool arguments
	if os.Args[len(os.Args)-1] == "-" {
		fmt.Printf(`[{"file":"-","line":2,"endLine":2,"column":1,"endColumn":2,"level":"info","code":1000,"message":"seen %s."}]`, tag)
	} else {
		fmt.Printf("<stdin>:1:1: seen %s\n", tag)
	}
	os.Exit(1)
}

func huntC20N4Lint(t *testing.T, src string) (seen []string, other []string) {
	t.Helper()
	t.Setenv("HUNT_C20N4_MODE", "1")
	tool := `"` + os.Args[0] + `" -test.run=^TestHuntC20N4Helper$ --`
	l, err := NewLinter(io.Discard, &LinterOptions{Shellcheck: tool, Pyflakes: tool})
	if err != nil {
		t.Fatal(err)
	}
	errs, err := l.Lint("test.yaml", []byte(src), nil)
	if err != nil {
		t.Fatal(err)
	}
	for _, e := range errs {
		if e.Kind == "shellcheck" || e.Kind == "pyflakes" {
			i := strings.Index(e.Message, "TAG_")
			seen = append(seen, e.Kind+":"+e.Message[i:i+7])
		} else {
			other = append(other, e.Error())
		}
	}
	sort.Strings(seen)
	return
}

// Control: lower-case names at step, job and workflow level.
func TestHuntC20N4Control(t *testing.T) {
	src := `on: push
defaults:
  run:
    shell: sh
jobs:
  a:
    runs-on: ubuntu-latest
    steps:
      - run: echo TAG_s01
      - run: echo TAG_s02
        shell: bash
      - run: print("TAG_s03")
        shell: python
  b:
    runs-on: ubuntu-latest
    defaults:
      run:
        shell: python
    steps:
      - run: print("TAG_s04")
`
	seen, other := huntC20N4Lint(t, src)
	want := "pyflakes:TAG_s03 pyflakes:TAG_s04 shellcheck:TAG_s01 shellcheck:TAG_s02"
	if len(other) != 0 || strings.Join(seen, " ") != want {
		t.Fatalf("control failed: seen %q, other %q", seen, other)
	}
}

// The same workflow with the shell names written with capital letters. The runner looks up the
// built-in shells case-insensitively and actionlint's own shell-name rule accepts these spellings
// (no "shell name is invalid" diagnostic), so the effective shells are sh, bash and python, and
// every script has to be passed to the tool.
func TestHuntC20N4CapitalisedShellNameIsChecked(t *testing.T) {
	src := `on: push
defaults:
  run:
    shell: Sh
jobs:
  a:
    runs-on: ubuntu-latest
    steps:
      - run: echo TAG_s01
      - run: echo TAG_s02
        shell: Bash
      - run: print("TAG_s03")
        shell: Python
  b:
    runs-on: ubuntu-latest
    defaults:
      run:
        shell: PYTHON
    steps:
      - run: print("TAG_s04")
`
	seen, other := huntC20N4Lint(t, src)
	if len(other) != 0 {
		t.Fatalf("the workflow is expected to be accepted by all other rules, got %q", other)
	}
	want := "pyflakes:TAG_s03 pyflakes:TAG_s04 shellcheck:TAG_s01 shellcheck:TAG_s02"
	if strings.Join(seen, " ") != want {
		t.Errorf("scripts passed to the tools: %q, want %q (no diagnostic of any other rule explains the difference)", seen, want)
	}
}
