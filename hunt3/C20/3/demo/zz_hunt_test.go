package actionlint

import (
	"fmt"
	"io"
	"os"
	"strings"
	"testing"
	"unicode/utf8"
)

// Stand-in for shellcheck: the test binary itself (active only when HUNT_C20N3_MODE is set). It
// reports one issue, in shellcheck's JSON format, at the line and column of every occurrence of the
// word MARK in the script it receives on stdin. Like shellcheck it counts columns in characters.
func TestHuntC20N3Helper(t *testing.T) {
	if os.Getenv("HUNT_C20N3_MODE") == "" {
		return
	}
	in, _ := io.ReadAll(os.Stdin)
	var out []string
	for i, l := range strings.Split(string(in), "\n") {
		if idx := strings.Index(l, "MARK"); idx >= 0 {
			col := utf8.RuneCountInString(l[:idx]) + 1
			out = append(out, fmt.Sprintf(`{"file":"-","line":%d,"endLine":%d,"column":%d,"endColumn":%d,"level":"info","code":2086,"message":"Double quote to prevent globbing and word splitting."}`, i+1, i+1, col, col+4))
		}
	}
	fmt.Printf("[%s]\n", strings.Join(out, ","))
	if len(out) > 0 {
		os.Exit(1)
	}
	os.Exit(0)
}

func huntC20N3Lint(t *testing.T, src string) []string {
	t.Helper()
	t.Setenv("HUNT_C20N3_MODE", "1")
	tool := `"` + os.Args[0] + `" -test.run=^TestHuntC20N3Helper$ --`
	l, err := NewLinter(io.Discard, &LinterOptions{Shellcheck: tool})
	if err != nil {
		t.Fatal(err)
	}
	errs, err := l.Lint("test.yaml", []byte(src), nil)
	if err != nil {
		t.Fatal(err)
	}
	var r []string
	for _, e := range errs {
		if e.Kind != "shellcheck" {
			t.Fatalf("unexpected diagnostic: %v", e)
		}
		r = append(r, fmt.Sprintf("%d:%d: %s", e.Line, e.Column, e.Message))
	}
	return r
}

const huntC20N3Workflow = `on: push
jobs:
  test:
    runs-on: ubuntu-latest
    steps:
      - run: echo "${{ 'PLACEHOLDER' }}" MARK
`

// Control: ASCII string literal in the placeholder.
func TestHuntC20N3Control(t *testing.T) {
	script := `echo "${{ 'eee' }}" MARK`
	want := utf8.RuneCountInString(script[:strings.Index(script, "MARK")]) + 1 // 21
	got := huntC20N3Lint(t, strings.Replace(huntC20N3Workflow, "PLACEHOLDER", "eee", 1))
	if len(got) != 1 || !strings.Contains(got[0], fmt.Sprintf("SC2086:info:1:%d:", want)) {
		t.Fatalf("control failed: want column %d, got %q", want, got)
	}
}

// Same script, but the string literal inside ${{ }} is not ASCII. MARK is still the 21st character
// of the script line, so a valid offset is column 21.
func TestHuntC20N3NonASCIIPlaceholderKeepsColumns(t *testing.T) {
	script := `echo "${{ 'ééé' }}" MARK`
	want := utf8.RuneCountInString(script[:strings.Index(script, "MARK")]) + 1 // 21
	got := huntC20N3Lint(t, strings.Replace(huntC20N3Workflow, "PLACEHOLDER", "ééé", 1))
	if len(got) != 1 {
		t.Fatalf("want exactly one shellcheck diagnostic, got %q", got)
	}
	if !strings.Contains(got[0], fmt.Sprintf("SC2086:info:1:%d:", want)) {
		t.Errorf("MARK is at column %d of the script line %q but the diagnostic says: %s", want, script, got[0])
	}
}
