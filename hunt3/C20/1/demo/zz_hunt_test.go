package actionlint

import (
	"fmt"
	"io"
	"os"
	"strings"
	"testing"
)

// Stand-in for the pyflakes executable: the test binary itself. It only acts as a tool when
// HUNT_C20N1_MODE is set (the variable is inherited by the child process started by actionlint).
func TestHuntC20N1Helper(t *testing.T) {
	mode := os.Getenv("HUNT_C20N1_MODE")
	if mode == "" {
		return
	}
	_, _ = io.ReadAll(os.Stdin)
	switch mode {
	case "issue":
		// What pyflakes prints when it works and finds one issue
		fmt.Fprint(os.Stdout, "<stdin>:1:1: 'os' imported but unused\n")
		os.Exit(1)
	case "crash":
		// What `python -m pyflakes` / a broken pyflakes installation prints: nothing on stdout, a
		// traceback on stderr, exit status 1. The tool never looked at the script.
		fmt.Fprint(os.Stderr, "Traceback (most recent call last):\n  File \"/usr/bin/pyflakes\", line 5, in <module>\n    from pyflakes.api import main\nModuleNotFoundError: No module named 'pyflakes'\n")
		os.Exit(1)
	case "nomodule":
		fmt.Fprint(os.Stderr, "/usr/bin/python3: No module named pyflakes\n")
		os.Exit(1)
	}
	os.Exit(0)
}

func huntC20N1Lint(t *testing.T, mode string) ([]*Error, error) {
	t.Helper()
	t.Setenv("HUNT_C20N1_MODE", mode)
	tool := `"` + os.Args[0] + `" -test.run=^TestHuntC20N1Helper$ --`
	l, err := NewLinter(io.Discard, &LinterOptions{Pyflakes: tool})
	if err != nil {
		t.Fatal(err)
	}
	src := `on: push
jobs:
  test:
    runs-on: ubuntu-latest
    steps:
      - run: import os
        shell: python
`
	return l.Lint("test.yaml", []byte(src), nil)
}

func huntC20N1Pyflakes(errs []*Error) []string {
	var r []string
	for _, e := range errs {
		if e.Kind == "pyflakes" {
			r = append(r, fmt.Sprintf("%d:%d: %s", e.Line, e.Column, e.Message))
		}
	}
	return r
}

// Control: the stand-in is really run for the python step and its issue is reported at the run: key.
func TestHuntC20N1Control(t *testing.T) {
	errs, err := huntC20N1Lint(t, "issue")
	if err != nil {
		t.Fatal(err)
	}
	got := huntC20N1Pyflakes(errs)
	if len(got) != 1 || !strings.HasPrefix(got[0], "6:9: ") {
		t.Fatalf("control failed: want one pyflakes diagnostic at 6:9, got %q", got)
	}
}

// The tool crashes (exit status 1, traceback on stderr, nothing on stdout). The property requires a
// fatal error; in no case may the run look like "script checked, no issues".
func TestHuntC20N1PyflakesCrashIsSilent(t *testing.T) {
	for _, mode := range []string{"crash", "nomodule"} {
		errs, err := huntC20N1Lint(t, mode)
		got := huntC20N1Pyflakes(errs)
		if err == nil && len(got) == 0 {
			t.Errorf("mode %s: pyflakes exited with status 1 printing only a crash report on stderr, but Lint returned no fatal error and no diagnostic: the failure was silently dropped", mode)
		}
	}
}
