package actionlint

import (
	"io"
	"strings"
	"testing"
)

// Property C06: making the statically known type of a matrix value less precise (any, or an open object instead of a
// closed one) never introduces a diagnostic.
//
// An element of matrix `include:` can be a ${{ }} expression which evaluates to an object. Its properties overwrite or
// extend the matrix rows. When the type of the element is a closed object, conflicting row types fall back to `any`.
// When it is `any`, all row types fall back to `any`. When it is an open object (nothing is known about its
// properties, e.g. github.event), the row types are kept, so that the unknown value becomes the reason of a type error.

func huntC06N2Lint(t *testing.T, src string) []string {
	t.Helper()
	l, err := NewLinter(io.Discard, &LinterOptions{})
	if err != nil {
		t.Fatal(err)
	}
	errs, err := l.Lint("test.yaml", []byte(src), nil)
	if err != nil {
		t.Fatal(err)
	}
	msgs := []string{}
	for _, e := range errs {
		msgs = append(msgs, e.Error())
	}
	return msgs
}

func TestHuntC06N2MatrixIncludeOpenObject(t *testing.T) {
	tmpl := `on: push
jobs:
  test:
    strategy:
      matrix:
        os: [1, 2]
        include:
          - INCLUDE
    runs-on: ubuntu-latest
    steps:
      - run: echo ${{ matrix.os.name }}
`
	closed := strings.Replace(tmpl, "INCLUDE", `${{ fromJSON('{"os":{"name":"linux"}}') }}`, 1)
	if errs := huntC06N2Lint(t, closed); len(errs) != 0 {
		t.Fatalf("precondition: matrix.os.name must be accepted when the include element is the closed object {os: {name: string}}: %q", errs)
	}

	// Type of the include element is `any`
	unknown := strings.Replace(tmpl, "INCLUDE", `${{ fromJSON(github.event.client_payload.extra) }}`, 1)
	if errs := huntC06N2Lint(t, unknown); len(errs) != 0 {
		t.Errorf("matrix.os.name is rejected when the include element is typed any: %q", errs)
	}

	// Type of the include element is an open object
	open := strings.Replace(tmpl, "INCLUDE", `${{ github.event }}`, 1)
	if errs := huntC06N2Lint(t, open); len(errs) != 0 {
		t.Errorf("matrix.os.name is accepted when the include element is the closed object {os: {name: string}} but rejected when it is the open object github.event: %q", errs)
	}
}

// The same for a matrix which only consists of include elements, and for an element of a matrix row.
func TestHuntC06N2MatrixOpenObjectOtherPlaces(t *testing.T) {
	tmpl := `on: push
jobs:
  test:
    strategy:
      matrix:
        include:
          - INCLUDE
          - os: 1
    runs-on: ubuntu-latest
    steps:
      - run: echo ${{ matrix.os.name }}
  test2:
    strategy:
      matrix:
        cfg:
          - {os: 1}
          - INCLUDE
    runs-on: ubuntu-latest
    steps:
      - run: echo ${{ matrix.cfg.os.name }}
`
	closed := strings.Replace(tmpl, "INCLUDE", `${{ fromJSON('{"os":{"name":"linux"}}') }}`, 2)
	if errs := huntC06N2Lint(t, closed); len(errs) != 0 {
		t.Fatalf("precondition: workflow must be accepted when the element is the closed object {os: {name: string}}: %q", errs)
	}
	open := strings.Replace(tmpl, "INCLUDE", `${{ github.event }}`, 2)
	if errs := huntC06N2Lint(t, open); len(errs) != 0 {
		t.Errorf("workflow is accepted when the element is the closed object {os: {name: string}} but rejected when it is the open object github.event: %q", errs)
	}
}
