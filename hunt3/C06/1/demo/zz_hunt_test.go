package actionlint

import (
	"io"
	"strings"
	"testing"
)

// Property C06: replacing a closed object type in the typing environment by an open object (or by `any`) never
// introduces a diagnostic.
//
// Here the type of `matrix.cfg` is loosened from the closed object {a: {b: number}} to an open object whose
// properties are unknown. The expression merges it with another object through `||`. With the closed type the
// expression is accepted (the conflicting property `a` falls back to `any`), with the open type it is rejected.

func huntC06N1Check(t *testing.T, src string, matrix *ObjectType) []string {
	t.Helper()
	e, perr := NewExprParser().Parse(NewExprLexer(src + "}}"))
	if perr != nil {
		t.Fatalf("parse error: %s", perr.Message)
	}
	c := NewExprSemanticsChecker(false, nil)
	c.SetContextAvailability([]string{"matrix", "github", "strategy"})
	c.UpdateMatrix(matrix)
	_, errs := c.Check(e)
	msgs := []string{}
	for _, err := range errs {
		msgs = append(msgs, err.Message)
	}
	return msgs
}

func TestHuntC06N1MergeWithOpenObjectInChecker(t *testing.T) {
	for _, src := range []string{
		`(fromJSON('{"a":1}') || matrix.cfg).a.b`,
		`(matrix.cfg || fromJSON('{"a":1}')).a.b`,
	} {
		closed := NewStrictObjectType(map[string]ExprType{
			"cfg": NewStrictObjectType(map[string]ExprType{
				"a": NewStrictObjectType(map[string]ExprType{
					"b": NumberType{},
				}),
			}),
		})
		open := NewStrictObjectType(map[string]ExprType{
			"cfg": NewEmptyObjectType(), // open object: nothing is known about its properties
		})
		anyTy := NewStrictObjectType(map[string]ExprType{
			"cfg": AnyType{},
		})

		if errs := huntC06N1Check(t, src, closed); len(errs) != 0 {
			t.Fatalf("precondition: %q must be accepted with closed type of matrix.cfg but got %q", src, errs)
		}
		if errs := huntC06N1Check(t, src, anyTy); len(errs) != 0 {
			t.Errorf("%q is accepted when matrix.cfg is a closed object, but rejected when it is any: %q", src, errs)
		}
		if errs := huntC06N1Check(t, src, open); len(errs) != 0 {
			t.Errorf("%q is accepted when matrix.cfg is the closed object {a: {b: number}}, but rejected when matrix.cfg is an open object: %q", src, errs)
		}
	}
}

func huntC06N1Lint(t *testing.T, src string) []string {
	t.Helper()
	l, err := NewLinter(io.Discard, &LinterOptions{})
	if err != nil {
		t.Fatal(err)
	}
	errs, err := l.Lint("test.yaml", []byte(src), nil)
	if err != nil {
		t.Fatal(err)
	}
	msgs := []string{}
	for _, e := range errs {
		msgs = append(msgs, e.Error())
	}
	return msgs
}

// The same through Linter.Lint: a literal definition (closed object) is replaced by a context whose type is an open
// object (github.event, outputs of actions/github-script).
func TestHuntC06N1MergeWithOpenObjectInWorkflow(t *testing.T) {
	tmpl := `on: push
jobs:
  test:
    runs-on: ubuntu-latest
    steps:
      - uses: actions/github-script@v7
        id: gs
        with:
          script: return 1
      - run: echo ${{ (fromJSON('{"retries":1}') || EXPR).retries.max }}
`
	closed := strings.Replace(tmpl, "EXPR", `fromJSON('{"retries":{"max":3}}')`, 1)
	if errs := huntC06N1Lint(t, closed); len(errs) != 0 {
		t.Fatalf("precondition: workflow with closed object must be accepted: %q", errs)
	}
	for _, e := range []string{"github.event", "steps.gs.outputs", "fromJSON(github.event.x)"} {
		open := strings.Replace(tmpl, "EXPR", e, 1)
		if errs := huntC06N1Lint(t, open); len(errs) != 0 {
			t.Errorf("expression is accepted with the closed object fromJSON('{\"retries\":{\"max\":3}}') but rejected with %s whose type is less precise: %q", e, errs)
		}
	}
}
