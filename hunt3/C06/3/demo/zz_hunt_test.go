package actionlint

import (
	"testing"
)

// Property C06: for all typing environments (types of matrix, steps, needs, inputs, secrets, jobs), replacing a closed
// object by an open one (or a type by any) never introduces a diagnostic.
//
// ExprSemanticsChecker.UpdateSecrets and ExprSemanticsChecker.UpdateDispatchInputs only copy the known properties of the
// given object type and always build a closed object from them. When the given type is an open object, every property
// which is not known is reported as undefined.

func huntC06N3Check(t *testing.T, src string, update func(c *ExprSemanticsChecker)) []string {
	t.Helper()
	e, perr := NewExprParser().Parse(NewExprLexer(src + "}}"))
	if perr != nil {
		t.Fatalf("parse error: %s", perr.Message)
	}
	c := NewExprSemanticsChecker(false, nil)
	c.SetContextAvailability([]string{"secrets", "inputs", "github"})
	update(c)
	_, errs := c.Check(e)
	msgs := []string{}
	for _, err := range errs {
		msgs = append(msgs, err.Message)
	}
	return msgs
}

func TestHuntC06N3OpenSecrets(t *testing.T) {
	src := `secrets.deploy_key != ''`

	closed := NewStrictObjectType(map[string]ExprType{"deploy_key": StringType{}})
	if errs := huntC06N3Check(t, src, func(c *ExprSemanticsChecker) { c.UpdateSecrets(closed) }); len(errs) != 0 {
		t.Fatalf("precondition: %q must be accepted when secrets is {deploy_key: string}: %q", src, errs)
	}

	// Nothing is known about the secrets: open object
	open := NewEmptyObjectType()
	if errs := huntC06N3Check(t, src, func(c *ExprSemanticsChecker) { c.UpdateSecrets(open) }); len(errs) != 0 {
		t.Errorf("%q is accepted when type of secrets is the closed object {deploy_key: string} but rejected when it is an open object: %q", src, errs)
	}

	// One secret is known, the object is left open
	open2 := NewObjectType(map[string]ExprType{"other": StringType{}})
	if errs := huntC06N3Check(t, src, func(c *ExprSemanticsChecker) { c.UpdateSecrets(open2) }); len(errs) != 0 {
		t.Errorf("%q is accepted when type of secrets is the closed object {deploy_key: string} but rejected when it is an open object with property \"other\": %q", src, errs)
	}
}

func TestHuntC06N3OpenDispatchInputs(t *testing.T) {
	src := `github.event.inputs.level == 'debug' || inputs.level == 'debug'`

	closed := NewStrictObjectType(map[string]ExprType{"level": StringType{}})
	if errs := huntC06N3Check(t, src, func(c *ExprSemanticsChecker) { c.UpdateDispatchInputs(closed) }); len(errs) != 0 {
		t.Fatalf("precondition: %q must be accepted when inputs is {level: string}: %q", src, errs)
	}

	open := NewEmptyObjectType()
	if errs := huntC06N3Check(t, src, func(c *ExprSemanticsChecker) { c.UpdateDispatchInputs(open) }); len(errs) != 0 {
		t.Errorf("%q is accepted when type of the inputs is the closed object {level: string} but rejected when it is an open object: %q", src, errs)
	}
}
