#!/bin/bash
# usage: neutralrun.sh [ids...]   runs the quick check of every claimed property against each behaviour-preserving change
# under /verif/neutral and prints the checks that raise an alarm (there should be none). Scratch exports under /tmp.
set -u
export GOFLAGS=-mod=mod GOPROXY=off GOSUMDB=off GOTOOLCHAIN=local GOWORK=off
cd /verif
props=$(python3 -c "import json;print(' '.join(c['property_id'] for c in json.load(open('/verif/MANIFEST.json'))['checks']))")
ids=${*:-$(ls /verif/neutral | grep -v RESULTS)}
vchk=/tmp/neutralrun-verifchk-$$
cp ${VERIFCHK_BIN:-/verif/bin/verifchk} $vchk
base=/tmp/neutralrun-base-$$
rm -rf $base; mkdir -p $base
git -C /repo archive HEAD | tar -x -C $base --exclude='testdata' --exclude='docs' --exclude='playground' 2>/dev/null
trap 'rm -rf $base $vchk' EXIT
for id in $ids; do
  d=/verif/neutral/$id
  [ -f $d/patch.diff ] || continue
  tmp=/tmp/neutralrun-$id-$$
  rm -rf $tmp; cp -r $base $tmp
  if ! (cd $tmp && git apply --whitespace=nowarn $d/patch.diff 2>/dev/null); then
    if ! (cd $tmp && patch -p1 -s < $d/patch.diff >/dev/null 2>&1); then echo "$id: patch does not apply"; rm -rf $tmp; continue; fi
  fi
  res=$(echo $props | tr ' ' '\n' | xargs -P 10 -I{} sh -c "out=\$($vchk -prop {} -repo $tmp -verif /verif -nofixture -noevidence 2>&1); if echo \"\$out\" | grep -q '^VIOLATION'; then rules=\$(echo \"\$out\" | grep -B1 '^VIOLATION' | grep -v '^VIOLATION\|^--' | awk '{print \$1}' | sort -u | tr '\n' ','); echo \"{}[\$rules]\"; fi" | sort | tr '\n' ' ')
  rm -rf $tmp
  if [ -n "$res" ]; then echo "$id: FALSE-ALARM $res"; else echo "$id: SILENT"; fi
done
