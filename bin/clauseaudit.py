#!/usr/bin/env python3
"""Clause coverage of the witnesses and seeds: which kinds of obligation of each rule have been shown to fire.

For every witness patch and every seeded change, the rule(s) it is meant for are run on a scratch copy with the change
applied, and the constructs reported as violations that are not violations on the unchanged tree are collected. The
obligations of the unchanged tree are grouped into kinds (construct text with site details removed); a kind that no
witness or seed has ever made fire is listed: either it needs a witness, or the clause cannot fire at all (that is how the
vacuous second clause of C13.ALLFOREIGN was found after seeding round 11).

usage: clauseaudit.py [-j N]      writes /verif/checker/CLAUSES.txt, scratch under /tmp (removed)
"""
import subprocess, sys, os, re, json, glob, shutil, tempfile, collections, concurrent.futures as cf
ENV = dict(os.environ, GOFLAGS='-mod=mod', GOPROXY='off', GOSUMDB='off', GOTOOLCHAIN='local', GOWORK='off')
VCHK = '/verif/bin/verifchk'
props = ['C%02d' % i for i in range(1, 21)]
rules_of = {}
for l in subprocess.run([VCHK, '-list'], capture_output=True, text=True).stdout.splitlines():
    p, _, r = l.partition(':')
    rules_of[p.strip()] = r.split()
obre = re.compile(r'^\s+\[(\w+)\] (\S+) (.*?) @(\S+) ')

def obligations(tree, prop, rules=None):
    cmd = [VCHK, '-prop', prop, '-repo', tree, '-verif', '/verif', '-dump', '-noevidence', '-nofixture']
    if rules:
        cmd += ['-rules', ','.join(rules)]
    out = subprocess.run(cmd, capture_output=True, text=True, env=ENV).stdout
    res = []
    for l in out.splitlines():
        m = obre.match(l)
        if m:
            res.append((m.group(2), m.group(3), m.group(1)))
    return res

def kind(c):
    a = c.split('|', 1)
    k = a[1] if len(a) > 1 else a[0]
    k = re.sub(r'#\d+', '', k)
    k = re.sub(r'\d+', 'N', k)
    return k

def main():
    jobs = 8
    if '-j' in sys.argv:
        jobs = int(sys.argv[sys.argv.index('-j') + 1])
    base = tempfile.mkdtemp(prefix='clauseaudit-base-')
    subprocess.run('git -C /repo archive HEAD | tar -x -C %s --exclude=testdata --exclude=docs --exclude=playground' % base, shell=True)
    baseobs = collections.defaultdict(dict)  # rule -> construct -> verdict
    with cf.ThreadPoolExecutor(jobs) as ex:
        for p, obs in zip(props, ex.map(lambda p: obligations(base, p), props)):
            for r, c, v in obs:
                baseobs[r][c] = v
    # changes: witnesses (one rule each) and seeds (all rules of all properties that list... the seed's own property)
    changes = []
    for f in sorted(glob.glob('/verif/checker/witnesses/*.patch')):
        h = {}
        for l in open(f):
            if not l.startswith('#'):
                break
            k, _, v = l[1:].partition(':')
            h[k.strip()] = v.strip()
        changes.append((os.path.basename(f), f, h.get('property', ''), [h.get('rule', '')]))
    for d in sorted(glob.glob('/verif/seeded/C*-*')):
        if os.path.exists(d + '/patch.diff'):
            prop = os.path.basename(d)[:3]
            changes.append(('seed ' + os.path.basename(d), d + '/patch.diff', prop, None))
    fired = collections.defaultdict(lambda: collections.defaultdict(list))  # rule -> kind -> [change]

    def run(ch):
        name, patch, prop, rules = ch
        tmp = tempfile.mkdtemp(prefix='clauseaudit-')
        try:
            shutil.rmtree(tmp)
            shutil.copytree(base, tmp)
            r = subprocess.run(['git', 'apply', '--whitespace=nowarn', patch], cwd=tmp, capture_output=True, env=dict(ENV, GIT_CEILING_DIRECTORIES=os.path.dirname(tmp)))
            if r.returncode != 0:
                return name, None
            return name, obligations(tmp, prop, rules)
        finally:
            shutil.rmtree(tmp, ignore_errors=True)
    with cf.ThreadPoolExecutor(jobs) as ex:
        for name, obs in ex.map(run, changes):
            if obs is None:
                print('does not apply:', name, file=sys.stderr)
                continue
            for r, c, v in obs:
                if v in ('ok', 'reviewed'):
                    continue
                if baseobs.get(r, {}).get(c) not in (None, 'ok', 'reviewed'):
                    continue  # already a (known) violation on the unchanged tree
                fired[r][kind(c)].append(name)
    shutil.rmtree(base, ignore_errors=True)
    out = []
    nk = nun = 0
    for r in sorted(baseobs):
        kinds = collections.defaultdict(list)
        for c in baseobs[r]:
            kinds[kind(c)].append(c)
        persite = len(kinds) > 12
        anyfired = sum(len(v) for v in fired[r].values())
        out.append('%s  (%d obligations, %d kinds%s; %d firing changes)' % (r, len(baseobs[r]), len(kinds), ', per-site rule' if persite else '', anyfired))
        if persite:
            nk += 1
            if not anyfired:
                nun += 1
                out.append('    NEVER FIRED')
            continue
        for k in sorted(kinds):
            nk += 1
            f = fired[r].get(k, [])
            if f:
                out.append('    fired   %-70s %s' % (k[:70], ', '.join(sorted(set(f))[:3])))
            else:
                nun += 1
                out.append('    UNSHOWN %-70s (%d constructs)' % (k[:70], len(kinds[k])))
        # kinds that only exist on changed trees (e.g. vacuity, new constructs)
        for k in sorted(set(fired[r]) - set(kinds)):
            out.append('    fired*  %-70s %s' % (k[:70], ', '.join(sorted(set(fired[r][k]))[:3])))
    out.insert(0, 'clause coverage: %d kinds of obligation, %d never shown to fire by a witness or seed\n' % (nk, nun))
    open('/verif/checker/CLAUSES.txt', 'w').write('\n'.join(out) + '\n')
    print(out[0])

main()
