#!/bin/bash
# usage: WT=/tmp/wt-x tryw.sh <property> <rule>
# Runs one rule on the scratch worktree $WT (default /tmp/wt-wit) and prints every obligation that is not discharged,
# i.e. what a witness patch made the rule report. Nothing is written (no evidence, no replay kept).
export GOFLAGS=-mod=mod GOPROXY=off GOSUMDB=off GOTOOLCHAIN=local GOWORK=off
${VERIFCHK_BIN:-/verif/bin/verifchk} -prop "$1" -repo "${WT:-/tmp/wt-wit}" -verif /verif -rules "$2" -dump -noevidence -nofixture 2>&1 | grep -v '^\s*\[ok\]'
