#!/bin/bash
# usage: confirm_neutral.sh <src-dir> <id>     e.g. confirm_neutral.sh /tmp/neutral-C01/N1 C01-N1
# Confirms in a scratch worktree that a behaviour-preserving change applies, is gofmt-clean, compiles and passes the
# baseline suite; then stores it under /verif/neutral/<id>. (Equivalence itself is argued in meta.json and read by hand.)
set -u
export GOFLAGS=-mod=mod GOPROXY=off GOSUMDB=off GOTOOLCHAIN=local
src=$1; id=$2
wt=/tmp/wt-confirm-$id
rm -rf "$wt"; git -C /repo worktree prune
git -C /repo worktree add --detach "$wt" HEAD >/dev/null 2>&1 || { echo "cannot create worktree"; exit 2; }
cleanup() { git -C /repo worktree remove --force "$wt" >/dev/null 2>&1; rm -rf "$wt"; }
trap cleanup EXIT
cd "$wt"
if ! git apply --check "$src/patch.diff" 2>/dev/null; then echo "$id: PATCH DOES NOT APPLY to current HEAD"; exit 3; fi
git apply "$src/patch.diff"
if [ -n "$(gofmt -l $(git diff --name-only | grep '\.go$'))" ]; then echo "$id: NOT GOFMT-CLEAN"; exit 4; fi
if ! go build ./... 2>/tmp/confirm-$id.build; then echo "$id: DOES NOT COMPILE"; exit 4; fi
if git diff --name-only | grep -q '_test.go\|^testdata/'; then echo "$id: TOUCHES TESTS"; exit 4; fi
if ! /verif/bin/baseline.sh "$wt" > /tmp/confirm-$id.base 2>&1; then echo "$id: BASELINE FAILS with change: $(tail -3 /tmp/confirm-$id.base)"; exit 5; fi
base=$(head -1 /tmp/confirm-$id.base)
dst=/verif/neutral/$id
mkdir -p "$dst"
cp "$src/patch.diff" "$dst/patch.diff"
python3 - "$src/meta.json" "$dst/meta.json" "$id" "$base" <<'PY'
import json,sys
src,dst,id,base=sys.argv[1:5]
try: m=json.load(open(src))
except Exception as e: m={"note":"agent meta.json unreadable: %s"%e}
m["id"]=id
m["confirmed_by_me"]=["git apply in a scratch worktree of /repo HEAD: applies, gofmt-clean, `go build ./...` ok, touches no test", "bin/baseline.sh <worktree> with the change: "+base]
json.dump(m,open(dst,"w"),indent=1)
PY
echo "$id: CONFIRMED ($base)"
