#!/bin/bash
# usage: ingest9.sh C03 C04 ...   confirm round-11 seeds (M, N) from /tmp/seed11-<prop> and run all checks against them
for s in "$@"; do for x in M N; do [ -f /tmp/seed11-$s/$x/patch.diff ] && /verif/bin/confirm_seed.sh /tmp/seed11-$s/$x $s-$x 2>&1 | tail -1; done; done
ids=""; for s in "$@"; do for x in M N; do [ -d /verif/seeded/$s-$x ] && ids="$ids $s-$x"; done; done
[ -n "$ids" ] && VERIFCHK_BIN=${FROZEN:-/tmp/verifchk-round11-frozen} /verif/bin/seedrun.sh $ids
