#!/bin/bash
# usage: mkw.sh <name> <rule> <expect> <property> <desc>
# Takes the uncommitted diff of the scratch worktree $WT (default /tmp/wt-wit) as the witness patch, checks it still
# builds, then resets the worktree.
set -e
export GOFLAGS=-mod=mod GOPROXY=off GOSUMDB=off GOTOOLCHAIN=local
cd ${WT:-/tmp/wt-wit}
if ! go build ./... ; then echo "DOES NOT BUILD"; git checkout -- . ; exit 1; fi
if git diff --quiet; then echo "EMPTY DIFF - no witness written"; exit 1; fi
git diff | /verif/bin/mkwitness.sh "$@"
git checkout -- . && git clean -fdq
