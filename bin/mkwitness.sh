#!/bin/bash
# usage: mkwitness.sh <name> <rule> <expect-substring> <property> <desc>   (diff on stdin)
set -e
out=/verif/checker/witnesses/$1.patch
{ echo "# rule: $2"; echo "# expect: $3"; echo "# property: $4"; echo "# desc: $5"; cat; } > "$out"
echo "wrote $out"
