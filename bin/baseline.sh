#!/bin/bash
# Runs the repository's test suite (guard off; no hooks exist) on a tree (default /repo) and
# compares the passing set with BASELINE.json's stable_pass. Exit 0 iff every stable test passes.
export GOFLAGS=-mod=mod GOPROXY=off GOSUMDB=off GOTOOLCHAIN=local
unset GOWORK
DIR=${1:-/repo}
OUT=$(mktemp)
(cd "$DIR" && go test -json -vet=off -count=1 -timeout 25m ./... > "$OUT" 2>/dev/null)
python3 - "$OUT" <<'PY'
import json,sys
base=json.load(open('/root/.vp/BASELINE.json'))
want=set(base['stable_pass'])
got=set()
for l in open(sys.argv[1]):
    try: e=json.loads(l)
    except Exception: continue
    if e.get('Action')=='pass' and e.get('Test'):
        got.add(e['Package']+'::'+e['Test'])
missing=sorted(want-got)
print('stable_pass=%d passed_now=%d missing=%d'%(len(want),len(got),len(missing)))
for m in missing[:40]: print('  MISSING',m)
sys.exit(1 if missing else 0)
PY
rc=$?
rm -f "$OUT"
exit $rc
