#!/usr/bin/env python3
"""Regenerates the generated blocks of /verif/DESIGN.md (between <!-- BEGIN:x --> and <!-- END:x -->):
   rules    - per property: the clauses decided (from the checker's own explanation), the rules with their instance counts
              on today's tree (from /verif/evidence, written by the last run of each check) and what is not decided
   seeds    - the seeded changes under /verif/seeded with the checks that report them (seeded/RESULTS.txt)
   witness  - the witness patches per rule
"""
import json, os, re, glob, sys

HERE = os.path.dirname(os.path.dirname(os.path.abspath(__file__)))

def rules_block():
    out = []
    props = {json.loads(l)["id"]: json.loads(l) for l in open(os.path.join(HERE, "properties.jsonl"))}
    for pid in sorted(props):
        ev_path = os.path.join(HERE, "evidence", pid + ".json")
        out.append("### %s — %s\n" % (pid, props[pid]["title"]))
        if not os.path.exists(ev_path):
            out.append("_no evidence file yet_\n")
            continue
        ev = json.load(open(ev_path))
        cov = ev.get("coverage", {})
        out.append("**Decides.** " + cov.get("explanation", "") + "\n")
        out.append("| rule | what it requires | instances today | min | reviewed |")
        out.append("|---|---|---|---|---|")
        for r in cov.get("per_rule", []):
            out.append("| `%s` | %s | %d | %d | %d |" % (r["rule"], r.get("doc", "").replace("|", "\\|"), r["obligations"], r.get("min_instances_expected", 0), r.get("discharged_by_reviewed_exception", 0)))
        out.append("")
        out.append("**Not decided.** " + cov.get("not_decided", "") + "\n")
        kf = cov.get("known_findings_matched")
        if kf:
            out.append("**Known findings reported on today's tree:** " + "; ".join(kf) + "\n")
    return "\n".join(out)

def seeds_block():
    res = {}
    p = os.path.join(HERE, "seeded", "RESULTS.txt")
    if os.path.exists(p):
        for l in open(p):
            m = re.match(r"(\S+): (\S+)\s*(.*)", l.strip())
            if m:
                res[m.group(1)] = (m.group(2), m.group(3).strip())
    out = ["| seed | where | what breaks (agent's summary, shortened) | reported by |", "|---|---|---|---|"]
    for d in sorted(glob.glob(os.path.join(HERE, "seeded", "C*-*"))):
        sid = os.path.basename(d)
        try:
            meta = json.load(open(os.path.join(d, "meta.json")))
        except Exception:
            meta = {}
        summ = meta.get("summary", "")
        where = summ.split(":")[0][:70] if ":" in summ[:90] else summ[:70]
        brk = meta.get("breaks", "")
        brk = re.sub(r"\s+", " ", brk)[:170]
        st, by = res.get(sid, ("?", ""))
        by = re.sub(r"\[([^\]]*),\]", r"[\1]", by)
        if st == "MISSED":
            by = "**missed**"
        out.append("| %s | %s | %s | %s |" % (sid, where.replace("|", "/"), brk.replace("|", "/"), by.replace("|", "/")))
    return "\n".join(out)

def witness_block():
    byrule = {}
    for f in sorted(glob.glob(os.path.join(HERE, "checker", "witnesses", "*.patch"))):
        rule = desc = ""
        for l in open(f):
            if not l.startswith("#"):
                break
            if l.startswith("# rule:"):
                rule = l.split(":", 1)[1].strip()
            if l.startswith("# desc:"):
                desc = l.split(":", 1)[1].strip()
        byrule.setdefault(rule, []).append("%s (%s)" % (os.path.basename(f)[:-6], desc))
    out = ["| rule | witnesses (one seeded breakage each; the rule must report it in the thorough tier) |", "|---|---|"]
    for r in sorted(byrule):
        out.append("| `%s` | %s |" % (r, "; ".join(byrule[r])))
    return "\n".join(out)

def main():
    path = os.path.join(HERE, "DESIGN.md")
    s = open(path).read()
    for name, fn in (("rules", rules_block), ("seeds", seeds_block), ("witness", witness_block)):
        b, e = "<!-- BEGIN:%s -->" % name, "<!-- END:%s -->" % name
        if b in s and e in s:
            i, j = s.index(b) + len(b), s.index(e)
            s = s[:i] + "\n" + fn() + "\n" + s[j:]
    open(path, "w").write(s)
    print("DESIGN.md regenerated")

if __name__ == "__main__":
    main()
