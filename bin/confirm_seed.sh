#!/bin/bash
# usage: confirm_seed.sh <seed-src-dir> <id>     e.g. confirm_seed.sh /tmp/seed-C01/A C01-A
# Confirms in a scratch worktree that the change compiles, passes the baseline suite, that its
# demonstration fails with the change and passes without it; then stores it under /verif/seeded/<id>.
set -u
export GOFLAGS=-mod=mod GOPROXY=off GOSUMDB=off GOTOOLCHAIN=local
src=$1; id=$2
wt=/tmp/wt-confirm-$id
rm -rf "$wt"; git -C /repo worktree prune
git -C /repo worktree add --detach "$wt" HEAD >/dev/null 2>&1 || { echo "cannot create worktree"; exit 2; }
cleanup() { git -C /repo worktree remove --force "$wt" >/dev/null 2>&1; rm -rf "$wt"; }
trap cleanup EXIT
cd "$wt"
if ! git apply --check "$src/patch.diff" 2>/dev/null; then echo "$id: PATCH DOES NOT APPLY to current HEAD"; exit 3; fi
git apply "$src/patch.diff"
if ! go build ./... 2>/tmp/confirm-$id.build; then echo "$id: DOES NOT COMPILE"; exit 4; fi
if ! /verif/bin/baseline.sh "$wt" > /tmp/confirm-$id.base 2>&1; then echo "$id: BASELINE FAILS with change: $(tail -3 /tmp/confirm-$id.base)"; exit 5; fi
base=$(head -1 /tmp/confirm-$id.base)
# demo with the change
cp "$src"/demo/*_test.go . 2>/dev/null
go test -vet=off -count=1 -run 'TestSeed' . > /tmp/confirm-$id.with 2>&1; rc_with=$?
git checkout -- . 
go test -vet=off -count=1 -run 'TestSeed' . > /tmp/confirm-$id.without 2>&1; rc_without=$?
if [ $rc_with -eq 0 ]; then echo "$id: DEMO PASSES WITH CHANGE (not a demonstration)"; exit 6; fi
if [ $rc_without -ne 0 ]; then echo "$id: DEMO FAILS WITHOUT CHANGE: $(tail -5 /tmp/confirm-$id.without)"; exit 7; fi
dst=/verif/seeded/$id
mkdir -p "$dst/demo"
cp "$src/patch.diff" "$dst/patch.diff"
cp -r "$src"/demo/. "$dst/demo/"
python3 - "$src/meta.json" "$dst/meta.json" "$id" "$base" <<'PY'
import json,sys
src,dst,id,base=sys.argv[1:5]
try: m=json.load(open(src))
except Exception as e: m={"note":"agent meta.json unreadable: %s"%e}
m["id"]=id
m["confirmed_by_me"]=[
 "git apply patch.diff in a scratch worktree of /repo HEAD: applies, `go build ./...` ok",
 "bin/baseline.sh <worktree> with the change: "+base,
 "go test -vet=off -count=1 -run TestSeed . with the change: FAIL (exit != 0)",
 "same command after `git checkout -- .`: PASS",
]
json.dump(m,open(dst,"w"),indent=1)
PY
echo "$id: CONFIRMED ($base)"
