#!/bin/bash
# usage: seedrun.sh [ids...]   runs the quick check of every claimed property against each seeded change and prints
# which checks catch it. Each change is applied to a scratch export of /repo's HEAD under /tmp (removed afterwards),
# so /repo itself is never modified and several checks can run in parallel.
set -u
export GOFLAGS=-mod=mod GOPROXY=off GOSUMDB=off GOTOOLCHAIN=local GOWORK=off
cd /verif
props=$(python3 -c "import json;print(' '.join(c['property_id'] for c in json.load(open('/verif/MANIFEST.json'))['checks']))")
ids=${*:-$(ls /verif/seeded | grep -v RESULTS)}
# snapshot of the checker binary and of /repo's HEAD: the run is not disturbed when either changes meanwhile
vchk=/tmp/seedrun-verifchk-$$
cp ${VERIFCHK_BIN:-/verif/bin/verifchk} $vchk
base=/tmp/seedrun-base-$$
rm -rf $base; mkdir -p $base
git -C /repo archive HEAD | tar -x -C $base --exclude='testdata' --exclude='docs' --exclude='playground' 2>/dev/null
trap 'rm -rf $base $vchk' EXIT
for id in $ids; do
  d=/verif/seeded/$id
  [ -f $d/patch.diff ] || continue
  tmp=/tmp/seedrun-$id-$$
  rm -rf $tmp; cp -r $base $tmp
  if ! (cd $tmp && git apply --whitespace=nowarn $d/patch.diff 2>/dev/null); then
    if ! (cd $tmp && patch -p1 -s < $d/patch.diff >/dev/null 2>&1); then echo "$id: patch does not apply"; rm -rf $tmp; continue; fi
  fi
  res=$(echo $props | tr ' ' '\n' | xargs -P 10 -I{} sh -c "out=\$($vchk -prop {} -repo $tmp -verif /verif -nofixture -noevidence 2>&1); if echo \"\$out\" | grep -q '^VIOLATION'; then rules=\$(echo \"\$out\" | grep -B1 '^VIOLATION' | grep -v '^VIOLATION\|^--' | awk '{print \$1}' | sort -u | tr '\n' ','); echo \"{}[\$rules]\"; fi" | sort | tr '\n' ' ')
  rm -rf $tmp
  own=${id%%-*}
  if echo "$res" | grep -q "$own\["; then st="CAUGHT-BY-OWN"; elif [ -n "$res" ]; then st="CAUGHT-BY-OTHER"; else st="MISSED"; fi
  echo "$id: $st $res"
done
