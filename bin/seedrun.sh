#!/bin/bash
# usage: seedrun.sh [ids...]   runs the quick check of every claimed property against each seeded change
# (applied to /repo, undone straight afterwards) and prints which checks catch it.
set -u
cd /verif
if [ -n "$(git -C /repo status --porcelain)" ]; then echo "/repo is dirty"; exit 2; fi
props=$(python3 -c "import json;print(' '.join(c['property_id'] for c in json.load(open('/verif/MANIFEST.json'))['checks']))")
ids=${*:-$(ls /verif/seeded | grep -v RESULTS)}
for id in $ids; do
  d=/verif/seeded/$id
  [ -f $d/patch.diff ] || continue
  if ! git -C /repo apply --check $d/patch.diff 2>/dev/null; then echo "$id: patch does not apply"; continue; fi
  git -C /repo apply $d/patch.diff
  caught=""
  for p in $props; do
    out=$(VERIF_NOEVIDENCE=1 bin/verifchk -prop $p -repo /repo -verif /verif -nofixture -noevidence 2>&1)
    if echo "$out" | grep -q "^VIOLATION"; then
      rules=$(echo "$out" | grep -B1 "^VIOLATION" | grep -v "^VIOLATION\|^--" | awk '{print $1}' | sort -u | tr '\n' ',' )
      caught="$caught $p[$rules]"
    fi
  done
  git -C /repo checkout -- .
  own=${id%%-*}
  if echo "$caught" | grep -q "$own\["; then st="CAUGHT-BY-OWN"; elif [ -n "$caught" ]; then st="CAUGHT-BY-OTHER"; else st="MISSED"; fi
  echo "$id: $st $caught"
done
