#!/usr/bin/env python3
"""Generates /verif/MANIFEST.json from the table below (kept next to the checker so both change together)."""
import json, os, subprocess, sys

HERE = os.path.dirname(os.path.dirname(os.path.abspath(__file__)))

# property -> (claimed?, technique, level text, level note, design ref)
CLAIMS = {
}

NOT_APPLICABLE = {
    "C18": "Exactness of cycle detection/reconstruction over all needs graphs is a property of a graph algorithm over runtime data; "
           "a static rule precise enough to catch a wrong DFS would restate the algorithm and fire on behaviour-preserving rewrites. "
           "Its determinism (C02.MAP), termination pattern (C01.REC) and case-insensitive ids (C08) are covered under those properties.",
}

def main():
    claims = json.load(open(os.path.join(HERE, "bin", "claims.json")))
    checks = []
    na = []
    for pid in ["C%02d" % i for i in range(1, 21)]:
        c = claims.get(pid)
        if c and c.get("claimed"):
            checks.append({
                "property_id": pid,
                "quick_cmd": "bin/check %s quick" % pid,
                "thorough_cmd": "bin/check %s thorough" % pid,
                "evidence_file": "/verif/evidence/%s.json" % pid,
                "replay_cmd_template": "bin/check %s --replay {path}" % pid,
                "engine": "verifchk",
                "level_claimed": {
                    "category": "other",
                    "text": c["level_text"],
                    "design_ref": c.get("design_ref", "DESIGN.md §4 " + pid),
                },
                "level_note": c["level_note"],
                "technique": c["technique"],
            })
        else:
            reason = NOT_APPLICABLE.get(pid) or (c or {}).get("reason") or "no sound static rule built for this property (see DESIGN.md)"
            na.append({"property_id": pid, "reason": reason})
    m = {
        "version": 1,
        "setup_cmd": "cd /verif/checker && GOFLAGS=-mod=mod GOPROXY=off GOSUMDB=off GOTOOLCHAIN=local GOWORK=off go build -o /verif/bin/verifchk .",
        "hooks": {
            "guard": "verif",
            "enable": "no hooks: the checks are static analyses of the unmodified sources; nothing is built with a tag",
            "baseline_off_cmd": "/verif/bin/baseline.sh /repo",
            "source_commits": [],
            "add_only": True,
        },
        "engines": [{
            "name": "verifchk",
            "path": "/verif/checker",
            "serves_properties": [c["property_id"] for c in checks],
            "kind_free_text": "custom static analyses (go/packages + go/types + go/ssa + VTA call graph, golang.org/x/tools v0.29.0): "
                              "per-rule obligations over type-resolved constructs, positive fixtures, seeded witnesses in the thorough tier",
        }],
        "checks": checks,
        "not_applicable": na,
        "notes": "All checks are static: they load /repo's working tree on every run and never execute actionlint or its tests. "
                 "Known findings are listed in /verif/known_findings.json; reviewed rule exceptions in /verif/reviewed.json.",
    }
    json.dump(m, open(os.path.join(HERE, "MANIFEST.json"), "w"), indent=1)
    print("wrote MANIFEST.json: %d checks, %d not applicable" % (len(checks), len(na)))

if __name__ == "__main__":
    main()
