#!/bin/bash
# usage: ingest9.sh C03 C04 ...   confirm round-9 seeds (K, L) from /tmp/seed9-<prop> and run all checks against them
for s in "$@"; do for x in K L; do [ -f /tmp/seed9-$s/$x/patch.diff ] && /verif/bin/confirm_seed.sh /tmp/seed9-$s/$x $s-$x 2>&1 | tail -1; done; done
ids=""; for s in "$@"; do for x in K L; do [ -d /verif/seeded/$s-$x ] && ids="$ids $s-$x"; done; done
[ -n "$ids" ] && VERIFCHK_BIN=${FROZEN:-/tmp/verifchk-round9-frozen} /verif/bin/seedrun.sh $ids
