#!/bin/bash
# usage: ingest13.sh C03 C04 ...   confirm round-13 seeds (Q) from /tmp/seed13-<prop> and run all checks against them
[ $# -gt 0 ] || { echo "usage: ingest13.sh Cxx ..."; exit 2; }
for s in "$@"; do for x in Q; do [ -f /tmp/seed13-$s/$x/patch.diff ] && /verif/bin/confirm_seed.sh /tmp/seed13-$s/$x $s-$x 2>&1 | tail -1; done; done
ids=""; for s in "$@"; do for x in Q; do [ -d /verif/seeded/$s-$x ] && ids="$ids $s-$x"; done; done
[ -n "$ids" ] && VERIFCHK_BIN=${FROZEN:-/tmp/verifchk-round13-frozen} /verif/bin/seedrun.sh $ids
