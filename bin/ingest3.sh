#!/bin/bash
# usage: ingest3.sh C03 C04 ...   confirm round-3 seeds (E, F) from /tmp/seed3-<prop> and run all checks against them
for s in "$@"; do for x in E F; do [ -f /tmp/seed3-$s/$x/patch.diff ] && /verif/bin/confirm_seed.sh /tmp/seed3-$s/$x $s-$x 2>&1 | tail -1; done; done
ids=""; for s in "$@"; do for x in E F; do [ -d /verif/seeded/$s-$x ] && ids="$ids $s-$x"; done; done
/verif/bin/seedrun.sh $ids
