#!/bin/bash
# usage: ingest.sh <round> <letters> C03 C04 ...   e.g. ingest.sh 4 "G H" C03 C05
# confirms the seeds of /tmp/seed<round>-<prop>/<letter> and runs all checks against them
round=$1; letters=$2; shift 2
for s in "$@"; do for x in $letters; do [ -f /tmp/seed$round-$s/$x/patch.diff ] && /verif/bin/confirm_seed.sh /tmp/seed$round-$s/$x $s-$x 2>&1 | tail -1; done; done
ids=""; for s in "$@"; do for x in $letters; do [ -d /verif/seeded/$s-$x ] && ids="$ids $s-$x"; done; done
/verif/bin/seedrun.sh $ids
