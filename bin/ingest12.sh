#!/bin/bash
# usage: ingest12.sh C03 C04 ...   confirm round-12 seeds (O, P) from /tmp/seed12-<prop> and run all checks against them
[ $# -gt 0 ] || { echo "usage: ingest12.sh Cxx ..."; exit 2; }
for s in "$@"; do for x in O P; do [ -f /tmp/seed12-$s/$x/patch.diff ] && /verif/bin/confirm_seed.sh /tmp/seed12-$s/$x $s-$x 2>&1 | tail -1; done; done
ids=""; for s in "$@"; do for x in O P; do [ -d /verif/seeded/$s-$x ] && ids="$ids $s-$x"; done; done
[ -n "$ids" ] && VERIFCHK_BIN=${FROZEN:-/tmp/verifchk-round12-frozen} /verif/bin/seedrun.sh $ids
