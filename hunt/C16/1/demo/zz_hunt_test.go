package actionlint

import (
	"bytes"
	"encoding/json"
	"os"
	"regexp"
	"strconv"
	"strings"
	"testing"
)

// Loads the regular expression of the shipped problem matcher. The matcher is consumed by JavaScript
// (and line oriented) consumers where '.' does not match the line terminators \n, \r, U+2028 and
// U+2029, so '.' is translated to the equivalent negated class for Go's regexp package.
func huntC16N1Matcher(t *testing.T) *regexp.Regexp {
	b, err := os.ReadFile(".github/actionlint-matcher.json")
	if err != nil {
		t.Fatal(err)
	}
	var m struct {
		ProblemMatcher []struct {
			Pattern []struct {
				Regexp string `json:"regexp"`
			} `json:"pattern"`
		} `json:"problemMatcher"`
	}
	if err := json.Unmarshal(b, &m); err != nil {
		t.Fatal(err)
	}
	re := m.ProblemMatcher[0].Pattern[0].Regexp
	re = strings.ReplaceAll(re, "(.+?)", `([^\n\r\x{2028}\x{2029}]+?)`)
	return regexp.MustCompile(re)
}

func huntC16N1Check(t *testing.T, src string) {
	t.Helper()
	var out bytes.Buffer
	l, err := NewLinter(&out, &LinterOptions{Oneline: true, Color: ColorOptionKindNever})
	if err != nil {
		t.Fatal(err)
	}
	errs, err := l.Lint("test.yaml", []byte(src), nil)
	if err != nil {
		t.Fatal(err)
	}
	if len(errs) != 1 {
		t.Fatalf("wanted exactly one diagnostic but got %d: %v", len(errs), errs)
	}
	e := errs[0]

	// "messages never contain line breaks"
	if strings.ContainsAny(e.Message, "\n\r\u2028\u2029\u0085") {
		t.Errorf("message of the diagnostic contains a line break character: %q", e.Message)
	}

	// "-oneline mode: each diagnostic yields exactly one header line". Line oriented consumers
	// (terminals, the GitHub Actions runner reading the process output) end a line at \n, \r\n or \r
	lines := strings.FieldsFunc(out.String(), func(r rune) bool { return r == '\n' || r == '\r' })
	if len(lines) != 1 {
		t.Errorf("-oneline output for one diagnostic consists of %d lines: %q", len(lines), lines)
	}

	// "the shipped problem-matcher pattern parses [the header] back to the same file, line, column, message and kind"
	header := strings.TrimSuffix(out.String(), "\n")
	m := huntC16N1Matcher(t).FindStringSubmatch(header)
	if m == nil {
		t.Fatalf("the problem matcher does not match the header line %q", header)
	}
	if m[1] != e.Filepath || m[2] != strconv.Itoa(e.Line) || m[3] != strconv.Itoa(e.Column) || m[4] != e.Message || m[5] != e.Kind {
		t.Errorf("the problem matcher parsed %q from header %q but the diagnostic is %#v", m[1:], header, e)
	}
}

// cron: "@foo\rbar" (carriage return written as YAML escape in a double-quoted scalar)
func TestHuntC16N1CronCarriageReturn(t *testing.T) {
	huntC16N1Check(t, "on:\n  schedule:\n    - cron: \"@foo\\rbar\"\njobs:\n  test:\n    runs-on: ubuntu-latest\n    steps:\n      - run: echo\n")
}

// cron: "@foo\u2028bar" (Unicode LINE SEPARATOR U+2028 written as YAML escape)
func TestHuntC16N1CronLineSeparator(t *testing.T) {
	huntC16N1Check(t, "on:\n  schedule:\n    - cron: \"@foo\\u2028bar\"\njobs:\n  test:\n    runs-on: ubuntu-latest\n    steps:\n      - run: echo\n")
}
