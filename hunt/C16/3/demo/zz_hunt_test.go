package actionlint

import (
	"bytes"
	"strings"
	"testing"
)

// A workflow where the first line break is a lone carriage return (CR is a line break in YAML as
// well as LF and CRLF; the YAML parser counts it). The lines of the document are:
//
//	1: on: push
//	2: # comment
//	3: jobs:
//	4:   test:
//	5:     runs-on: ubuntu-latest
//	6:     steps:
//	7:       - run: echo ${{ foo }}     <- undefined variable "foo" is reported at 7:23
//	8:       - run: echo hello
const huntC16N3Src = "on: push\r# comment\njobs:\n  test:\n    runs-on: ubuntu-latest\n    steps:\n      - run: echo ${{ foo }}\n      - run: echo hello\n"

func huntC16N3Lint(t *testing.T, opts *LinterOptions) ([]*Error, string) {
	t.Helper()
	var out bytes.Buffer
	opts.Color = ColorOptionKindNever
	l, err := NewLinter(&out, opts)
	if err != nil {
		t.Fatal(err)
	}
	errs, err := l.Lint("test.yaml", []byte(huntC16N3Src), nil)
	if err != nil {
		t.Fatal(err)
	}
	if len(errs) != 1 || !strings.Contains(errs[0].Message, `undefined variable "foo"`) {
		t.Fatalf("wanted exactly one diagnostic for `foo` but got %v", errs)
	}
	if errs[0].Line != 7 || errs[0].Column != 23 {
		t.Fatalf("wanted the diagnostic at 7:23 but got %d:%d", errs[0].Line, errs[0].Column)
	}
	return errs, out.String()
}

func huntC16N3Check(t *testing.T, snippetLine, indicator string) {
	t.Helper()
	const want = "      - run: echo ${{ foo }}"
	if snippetLine != want {
		t.Errorf("diagnostic is reported at 7:23 for `foo` in %q but the snippet shows another source line %q", want, snippetLine)
	}
	caret := strings.IndexByte(indicator, '^')
	if caret < 0 || caret >= len(snippetLine) || !strings.HasPrefix(snippetLine[caret:], "foo") {
		above := ""
		if caret >= 0 && caret < len(snippetLine) {
			above = snippetLine[caret:]
		}
		t.Errorf("caret does not point to the reported token `foo`. it points to %q\n%s\n%s", above, snippetLine, indicator)
	}
}

func TestHuntC16N3LoneCRSnippetDefaultMode(t *testing.T) {
	_, out := huntC16N3Lint(t, &LinterOptions{})
	lines := strings.Split(strings.TrimSuffix(out, "\n"), "\n")
	if len(lines) != 4 {
		t.Fatalf("wanted header + 3 snippet lines but got %q", lines)
	}
	if !strings.HasPrefix(lines[2], "7 | ") || !strings.HasPrefix(lines[3], "  | ") {
		t.Fatalf("unexpected snippet %q", lines[2:])
	}
	huntC16N3Check(t, lines[2][4:], lines[3][4:])
}

func TestHuntC16N3LoneCRSnippetFormat(t *testing.T) {
	_, out := huntC16N3Lint(t, &LinterOptions{Format: "{{range $ := .}}{{$.Snippet}}{{end}}"})
	lines := strings.Split(out, "\n")
	if len(lines) != 2 {
		t.Fatalf("wanted source line and indicator but got %q", lines)
	}
	huntC16N3Check(t, lines[0], lines[1])
}
