package actionlint

import (
	"bytes"
	"strings"
	"testing"

	"github.com/mattn/go-runewidth"
)

// The source line which causes the diagnostic. The key before the value is written in non-ASCII
// characters. The diagnostic ("undefined variable foo") refers to the token `foo`.
const huntC16N2Line = "      日本語: ${{ foo }}"

const huntC16N2Src = "on: push\njobs:\n  test:\n    runs-on: ubuntu-latest\n    env:\n" + huntC16N2Line + "\n    steps:\n      - run: echo\n"

func huntC16N2CheckIndicator(t *testing.T, e *Error, line, indicator string) {
	t.Helper()
	if line != huntC16N2Line {
		t.Fatalf("snippet is not the referenced source line: %q", line)
	}
	caret := strings.IndexByte(indicator, '^')
	if caret < 0 {
		t.Fatalf("no caret in indicator %q", indicator)
	}
	if strings.Trim(indicator[:caret], " ") != "" {
		t.Fatalf("unexpected indicator %q", indicator)
	}
	// The indicator is ASCII only so the byte offset of '^' is the display column of it (0-based).
	// The token `foo` which the diagnostic is reported for is displayed at this column:
	want := runewidth.StringWidth(huntC16N2Line[:strings.Index(huntC16N2Line, "foo")])
	if caret != want {
		// What is displayed above the caret?
		w, above := 0, ""
		for _, r := range line {
			if w >= caret {
				above = string(r)
				break
			}
			w += runewidth.RuneWidth(r)
		}
		t.Errorf(
			"diagnostic at %d:%d (%s): caret is displayed at column %d under %q but the reported token `foo` is displayed at column %d\n%s\n%s",
			e.Line, e.Column, e.Message, caret+1, above, want+1, line, indicator,
		)
	}
	if !strings.HasPrefix(indicator[caret:], "^~~") || strings.HasPrefix(indicator[caret:], "^~~~") {
		t.Errorf("wanted the indicator ^~~ which underlines `foo` but got %q", indicator[caret:])
	}
}

func huntC16N2Lint(t *testing.T, opts *LinterOptions) ([]*Error, string) {
	t.Helper()
	var out bytes.Buffer
	opts.Color = ColorOptionKindNever
	l, err := NewLinter(&out, opts)
	if err != nil {
		t.Fatal(err)
	}
	errs, err := l.Lint("test.yaml", []byte(huntC16N2Src), nil)
	if err != nil {
		t.Fatal(err)
	}
	if len(errs) != 1 || !strings.Contains(errs[0].Message, `undefined variable "foo"`) {
		t.Fatalf("wanted exactly one diagnostic for `foo` but got %v", errs)
	}
	return errs, out.String()
}

// Default output mode: header, separator, source line, indicator
func TestHuntC16N2CaretAfterNonASCIIKeyDefaultMode(t *testing.T) {
	errs, out := huntC16N2Lint(t, &LinterOptions{})
	lines := strings.Split(strings.TrimSuffix(out, "\n"), "\n")
	if len(lines) != 4 {
		t.Fatalf("wanted header + 3 snippet lines but got %q", lines)
	}
	// lines[2] is "6 | <source line>" and lines[3] is "  | <indicator>"
	if !strings.HasPrefix(lines[2], "6 | ") || !strings.HasPrefix(lines[3], "  | ") {
		t.Fatalf("unexpected snippet %q", lines[2:])
	}
	huntC16N2CheckIndicator(t, errs[0], lines[2][4:], lines[3][4:])
}

// -format '{{range $ := .}}{{$.Snippet}}{{end}}'
func TestHuntC16N2CaretAfterNonASCIIKeyFormatSnippet(t *testing.T) {
	errs, out := huntC16N2Lint(t, &LinterOptions{Format: "{{range $ := .}}{{$.Snippet}}{{end}}"})
	lines := strings.Split(out, "\n")
	if len(lines) != 2 {
		t.Fatalf("wanted source line and indicator but got %q", lines)
	}
	huntC16N2CheckIndicator(t, errs[0], lines[0], lines[1])
}
