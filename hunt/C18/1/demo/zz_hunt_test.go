package actionlint

import (
	"io"
	"strings"
	"testing"
)

func huntC18N1Lint(t *testing.T, src string) []*Error {
	t.Helper()
	l, err := NewLinter(io.Discard, &LinterOptions{})
	if err != nil {
		t.Fatal(err)
	}
	errs, err := l.Lint("test.yaml", []byte(src), nil)
	if err != nil {
		t.Fatal(err)
	}
	return errs
}

const huntC18N1Job = "    runs-on: ubuntu-latest\n    steps:\n      - run: echo\n"

// Job "b" refers to job id "İ" (U+0130). The only other job is "i". "İ" and "i" are not equal under
// case-insensitive comparison (Unicode default caseless matching, strings.EqualFold), so the reference
// is dangling and must be reported at the referring job "b" (line 7, col 3).
func TestHuntC18N1DanglingDottedCapitalI(t *testing.T) {
	if strings.EqualFold("\u0130", "i") {
		t.Skip("premise does not hold on this Go version")
	}
	src := "on: push\njobs:\n  i:\n" + huntC18N1Job + "  b:\n" + huntC18N1Job + "    needs: [\"\u0130\"]\n"
	errs := huntC18N1Lint(t, src)
	for _, e := range errs {
		if e.Kind == "job-needs" && strings.Contains(e.Message, "does not exist") && e.Line == 7 && e.Column == 3 {
			return
		}
	}
	t.Fatalf("dangling reference to job %q was not reported at the referring job b (7:3). got: %v", "\u0130", errs)
}

// Job "i" refers to job id "İ". There is no job "İ", so the reference is dangling: a dangling-reference
// diagnostic is required and, since not all references resolve, no cycle may be printed. The graph has no
// edge i -> i, so a printed cycle "i" -> "i" is not a real cycle of the graph.
func TestHuntC18N1SpuriousSelfCycle(t *testing.T) {
	if strings.EqualFold("\u0130", "i") {
		t.Skip("premise does not hold on this Go version")
	}
	src := "on: push\njobs:\n  i:\n" + huntC18N1Job + "    needs: [\"\u0130\"]\n"
	errs := huntC18N1Lint(t, src)
	dangling := false
	for _, e := range errs {
		if e.Kind != "job-needs" {
			continue
		}
		if strings.Contains(e.Message, "cyclic dependencies") {
			t.Errorf("cycle reported although job i never names itself: %s", e.Message)
		}
		if strings.Contains(e.Message, "does not exist") && e.Line == 3 && e.Column == 3 {
			dangling = true
		}
	}
	if !dangling {
		t.Errorf("dangling reference to %q not reported at job i (3:3). got: %v", "\u0130", errs)
	}
}
