package actionlint

import (
	"io"
	"strings"
	"testing"
)

func huntC18N2Lint(t *testing.T, src string) []*Error {
	t.Helper()
	l, err := NewLinter(io.Discard, &LinterOptions{})
	if err != nil {
		t.Fatal(err)
	}
	errs, err := l.Lint("test.yaml", []byte(src), nil)
	if err != nil {
		t.Fatal(err)
	}
	return errs
}

const huntC18N2Job = "    runs-on: ubuntu-latest\n    steps:\n      - run: echo\n"

// Pairs of ids that are equal under case-insensitive comparison (strings.EqualFold; Unicode simple case
// folding) but have different strings.ToLower results. The job exists, so the reference resolves and no
// "does not exist" diagnostic may be reported.
func TestHuntC18N2ExistingJobReportedMissing(t *testing.T) {
	pairs := [][2]string{
		{"S", "\u017f"},      // S / LATIN SMALL LETTER LONG S
		{"\u03c2", "\u03a3"}, // GREEK SMALL LETTER FINAL SIGMA / GREEK CAPITAL LETTER SIGMA
		{"\u03bc", "\u00b5"}, // GREEK SMALL LETTER MU / MICRO SIGN
	}
	for _, p := range pairs {
		if !strings.EqualFold(p[0], p[1]) {
			t.Fatalf("premise: %q and %q must be case-insensitively equal", p[0], p[1])
		}
		src := "on: push\njobs:\n  \"" + p[0] + "\":\n" + huntC18N2Job + "  b:\n" + huntC18N2Job + "    needs: [\"" + p[1] + "\"]\n"
		for _, e := range huntC18N2Lint(t, src) {
			if e.Kind == "job-needs" && strings.Contains(e.Message, "does not exist") {
				t.Errorf("job %q exists (case-insensitively equal to %q) but: %d:%d %s", p[0], p[1], e.Line, e.Column, e.Message)
			}
		}
	}
}

// S needs b, b needs "ſ" (== S case-insensitively): all references resolve and the graph has the cycle
// S -> b -> S, so exactly one cyclic-dependency diagnostic is required.
func TestHuntC18N2CycleMissed(t *testing.T) {
	src := "on: push\njobs:\n  S:\n" + huntC18N2Job + "    needs: [b]\n  b:\n" + huntC18N2Job + "    needs: [\"\u017f\"]\n"
	n := 0
	errs := huntC18N2Lint(t, src)
	for _, e := range errs {
		if e.Kind == "job-needs" && strings.Contains(e.Message, "cyclic dependencies") {
			n++
		}
	}
	if n != 1 {
		t.Fatalf("want exactly one cyclic dependency diagnostic for S -> b -> S, got %d: %v", n, errs)
	}
}
