package actionlint

import (
	"bytes"
	"os"
	"path/filepath"
	"strings"
	"testing"
)

const huntC15N3Workflow = `on: push
permissions:
  foo: read
jobs:
  test:
    runs-on: ubuntu-latest
    steps:
      - run: echo ${{ unknown_ctx }}
`

// huntC15N3Run runs the actionlint command in the working directory cwd. pwd is the value of $PWD,
// as a shell sets it after `cd <cwd>`.
func huntC15N3Run(t *testing.T, cwd, pwd string, args ...string) (int, string, string) {
	t.Helper()
	old, err := os.Getwd()
	if err != nil {
		t.Fatal(err)
	}
	if err := os.Chdir(cwd); err != nil {
		t.Fatal(err)
	}
	defer os.Chdir(old)
	t.Setenv("PWD", pwd)
	var stdout, stderr bytes.Buffer
	cmd := Command{Stdin: strings.NewReader(""), Stdout: &stdout, Stderr: &stderr}
	a := append([]string{"actionlint", "-shellcheck=", "-pyflakes=", "-no-color", "-format", "{{range $ := .}}{{$.Line}}:{{$.Column}}: {{$.Message}}\n{{end}}"}, args...)
	st := cmd.Main(a)
	return st, stdout.String(), stderr.String()
}

// The repository <tmp>/repo ignores all diagnostics of .github/workflows/a.yml through its `paths`
// configuration. The working directory is the nested directory <tmp>/repo/nested/dir, entered
// through the symbolic link <tmp>/link (so $PWD is <tmp>/link, as after `cd <tmp>/link` in a
// shell). From there the workflow is named once by its absolute path and once by the relative path
// ../../.github/workflows/a.yml. Both name the same file of the same repository, so the `paths`
// entry must apply to both and the two runs must agree.
func TestHuntC15N3SymlinkedWorkingDirectory(t *testing.T) {
	tmp, err := filepath.EvalSymlinks(t.TempDir())
	if err != nil {
		t.Fatal(err)
	}
	root := filepath.Join(tmp, "repo")
	nested := filepath.Join(root, "nested", "dir")
	for _, d := range []string{filepath.Join(root, ".git"), filepath.Join(root, ".github", "workflows"), nested} {
		if err := os.MkdirAll(d, 0o755); err != nil {
			t.Fatal(err)
		}
	}
	abs := filepath.Join(root, ".github", "workflows", "a.yml")
	if err := os.WriteFile(abs, []byte(huntC15N3Workflow), 0o644); err != nil {
		t.Fatal(err)
	}
	cfg := "paths:\n  \".github/workflows/a.yml\":\n    ignore:\n      - '.*'\n"
	if err := os.WriteFile(filepath.Join(root, ".github", "actionlint.yaml"), []byte(cfg), 0o644); err != nil {
		t.Fatal(err)
	}
	link := filepath.Join(tmp, "link")
	if err := os.Symlink(nested, link); err != nil {
		t.Skip("symbolic links are not available:", err)
	}
	rel := filepath.Join("..", "..", ".github", "workflows", "a.yml")

	// Sanity: from the link directory the relative path really is the workflow of the repository.
	{
		old, _ := os.Getwd()
		if err := os.Chdir(link); err != nil {
			t.Fatal(err)
		}
		b, err := os.ReadFile(rel)
		os.Chdir(old)
		if err != nil || string(b) != huntC15N3Workflow {
			t.Fatalf("relative path does not name the workflow file: %v", err)
		}
	}

	// Control: same directory, $PWD spelled physically. Both spellings are filtered.
	stP, outP, errP := huntC15N3Run(t, link, nested, rel)
	if stP != 0 || outP != "" || errP != "" {
		t.Fatalf("control run (physical $PWD) is wrong: status=%d stdout=%q stderr=%q", stP, outP, errP)
	}

	stA, outA, errA := huntC15N3Run(t, link, link, abs)
	stR, outR, errR := huntC15N3Run(t, link, link, rel)
	t.Logf("absolute spelling: status=%d stderr=%q stdout:\n%s", stA, errA, outA)
	t.Logf("relative spelling: status=%d stderr=%q stdout:\n%s", stR, errR, outR)
	if stA != 0 || outA != "" {
		t.Errorf("absolute spelling: the paths entry must apply and drop everything, got status %d and output\n%s", stA, outA)
	}
	if stR != 0 || outR != "" {
		t.Errorf("relative spelling from the symlinked working directory: the paths entry must apply and drop everything, got status %d and output\n%s", stR, outR)
	}
}
