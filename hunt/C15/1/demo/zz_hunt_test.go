package actionlint

import (
	"bytes"
	"os"
	"path/filepath"
	"strings"
	"testing"
)

// Workflow with four diagnostics:
//   3:3  unknown permission scope "foo" ...            [permissions]
//   6:14 label "linux-unknown-label" is unknown ...    [runner-label]
//   8:23 property "nonexistent" is not defined ...     [expression]
//   9:23 undefined variable "unknown_ctx" ...          [expression]
const huntC15N1Workflow = `on: push
permissions:
  foo: read
jobs:
  test:
    runs-on: linux-unknown-label
    steps:
      - run: echo ${{ github.nonexistent }}
      - run: echo ${{ unknown_ctx }}
`

// huntC15N1Run creates a repository <tmp>/repo with the given .github/actionlint.yaml (none when
// cfg is empty) and runs the actionlint command on its single workflow file.
func huntC15N1Run(t *testing.T, cfg string) (int, string, string) {
	t.Helper()
	root := filepath.Join(t.TempDir(), "repo")
	for _, d := range []string{".git", filepath.Join(".github", "workflows")} {
		if err := os.MkdirAll(filepath.Join(root, d), 0o755); err != nil {
			t.Fatal(err)
		}
	}
	wf := filepath.Join(root, ".github", "workflows", "a.yml")
	if err := os.WriteFile(wf, []byte(huntC15N1Workflow), 0o644); err != nil {
		t.Fatal(err)
	}
	if cfg != "" {
		if err := os.WriteFile(filepath.Join(root, ".github", "actionlint.yaml"), []byte(cfg), 0o644); err != nil {
			t.Fatal(err)
		}
	}
	var stdout, stderr bytes.Buffer
	cmd := Command{Stdin: strings.NewReader(""), Stdout: &stdout, Stderr: &stderr}
	st := cmd.Main([]string{"actionlint", "-shellcheck=", "-pyflakes=", "-no-color", "-format", "{{range $ := .}}{{$.Line}}:{{$.Column}}: {{$.Message}}\n{{end}}", wf})
	return st, stdout.String(), stderr.String()
}

// The pattern of the "ignore" list is written once with an anchor and referenced with a YAML alias.
// The output must be the unfiltered list minus the diagnostics matching the pattern, i.e. the same
// output as when the pattern is written literally in the list.
func TestHuntC15N1AliasedPatternIsApplied(t *testing.T) {
	literal := `paths:
  ".github/workflows/*.yml":
    ignore:
      - 'unknown permission scope'
`
	aliased := `x-patterns:
  - &zq 'unknown permission scope'
paths:
  ".github/workflows/*.yml":
    ignore:
      - *zq
`
	stU, outU, errU := huntC15N1Run(t, "")
	stL, outL, errL := huntC15N1Run(t, literal)
	stA, outA, errA := huntC15N1Run(t, aliased)
	if stU != 1 || stL != 1 || errU != "" || errL != "" {
		t.Fatalf("unexpected control runs: unfiltered status=%d stderr=%q, literal status=%d stderr=%q", stU, errU, stL, errL)
	}
	if !strings.Contains(outU, "unknown permission scope") || strings.Contains(outL, "unknown permission scope") {
		t.Fatalf("control runs are wrong:\nunfiltered:\n%s\nliteral:\n%s", outU, outL)
	}
	if stA != 1 || errA != "" {
		t.Fatalf("aliased config: status=%d stderr=%q", stA, errA)
	}
	if outA != outL {
		t.Errorf("the aliased pattern 'unknown permission scope' was not applied.\nwant (same as literal pattern):\n%s\ngot:\n%s", outL, outA)
	}
}

// Same as above but the anchor happens to be named "a". No message must be dropped except the one
// matching the pattern the alias refers to.
func TestHuntC15N1AliasDoesNotDropOtherDiagnostics(t *testing.T) {
	literal := `paths:
  ".github/workflows/*.yml":
    ignore:
      - 'unknown permission scope'
`
	aliased := `x-patterns:
  - &a 'unknown permission scope'
paths:
  ".github/workflows/*.yml":
    ignore:
      - *a
`
	stL, outL, _ := huntC15N1Run(t, literal)
	stA, outA, errA := huntC15N1Run(t, aliased)
	if stL != 1 || strings.Count(outL, "\n") != 3 {
		t.Fatalf("control run is wrong: status=%d\n%s", stL, outL)
	}
	if stA != stL || outA != outL {
		t.Errorf("aliased pattern: want status %d and output\n%s\ngot status %d (stderr %q) and output\n%s", stL, outL, stA, errA, outA)
	}
}
