package actionlint

import (
	"bytes"
	"os"
	"path/filepath"
	"strings"
	"testing"
)

const huntC15N2Workflow = `on: push
permissions:
  foo: read
jobs:
  test:
    runs-on: ubuntu-latest
    steps:
      - run: echo ${{ unknown_ctx }}
`

// huntC15N2Run runs the actionlint command with the given working directory.
func huntC15N2Run(t *testing.T, cwd string, args ...string) (int, string, string) {
	t.Helper()
	old, err := os.Getwd()
	if err != nil {
		t.Fatal(err)
	}
	if err := os.Chdir(cwd); err != nil {
		t.Fatal(err)
	}
	defer os.Chdir(old)
	var stdout, stderr bytes.Buffer
	cmd := Command{Stdin: strings.NewReader(""), Stdout: &stdout, Stderr: &stderr}
	a := append([]string{"actionlint", "-shellcheck=", "-pyflakes=", "-no-color", "-format", "{{range $ := .}}{{$.Line}}:{{$.Column}}: {{$.Message}}\n{{end}}"}, args...)
	st := cmd.Main(a)
	return st, stdout.String(), stderr.String()
}

// One workflow file <tmp>/x/wf/a.yml which does not belong to any repository, checked with a config
// given by -config-file, always from the same working directory <tmp>/x. Only the spelling of the
// file path on the command line changes. Whether the `paths` entry applies (and so the output and
// the exit status) must not depend on the spelling.
func TestHuntC15N2SpellingOfPathMustNotChangeFiltering(t *testing.T) {
	tmp, err := filepath.EvalSymlinks(t.TempDir())
	if err != nil {
		t.Fatal(err)
	}
	x := filepath.Join(tmp, "x")
	if err := os.MkdirAll(filepath.Join(x, "wf"), 0o755); err != nil {
		t.Fatal(err)
	}
	abs := filepath.Join(x, "wf", "a.yml")
	if err := os.WriteFile(abs, []byte(huntC15N2Workflow), 0o644); err != nil {
		t.Fatal(err)
	}
	cfg := filepath.Join(tmp, "cfg.yaml")
	if err := os.WriteFile(cfg, []byte("paths:\n  \"wf/*.yml\":\n    ignore:\n      - 'unknown permission scope'\n      - 'undefined variable'\n"), 0o644); err != nil {
		t.Fatal(err)
	}

	type result struct {
		status int
		stdout string
		stderr string
	}
	spellings := []string{"wf/a.yml", abs, "./wf/a.yml", "wf//a.yml", "../x/wf/a.yml"}
	results := make([]result, 0, len(spellings))
	for _, s := range spellings {
		st, out, errs := huntC15N2Run(t, x, "-config-file", cfg, s)
		t.Logf("spelling %q: status=%d stderr=%q stdout:\n%s", s, st, errs, out)
		results = append(results, result{st, out, errs})
	}
	for i := 1; i < len(spellings); i++ {
		if results[i].status != results[0].status || results[i].stdout != results[0].stdout {
			t.Errorf("the same file from the same working directory is filtered differently when spelled %q and %q:\nstatus %d vs %d\n--- %q:\n%s--- %q:\n%s",
				spellings[0], spellings[i], results[0].status, results[i].status, spellings[0], results[0].stdout, spellings[i], results[i].stdout)
		}
	}
}
