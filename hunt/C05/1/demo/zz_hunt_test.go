package actionlint

import (
	"strings"
	"testing"
)

// Property C05 (last sentence): "Where the defining section is given by an expression instead of a
// literal, references into it are not reported."
//
// Here the whole `matrix:` section is given by an expression. At run time `matrix.os` is one string
// per combination and `matrix.cfg` is one object per combination, so the references below are all
// valid. actionlint types the matrix context as the *unexpanded* JSON object ({os: array<string>})
// and reports the references.

func huntC05N1Check(t *testing.T, src string) []*Error {
	t.Helper()
	w, perrs := Parse([]byte(src))
	if len(perrs) > 0 {
		t.Fatalf("unexpected parse errors: %v", perrs)
	}
	r := NewRuleExpression(newNullLocalActionsCache(nil), newNullLocalReusableWorkflowCache(nil))
	v := NewVisitor()
	v.AddPass(r)
	if err := v.Visit(w); err != nil {
		t.Fatal(err)
	}
	return r.Errs()
}

func TestHuntC05N1MatrixExprScalarRow(t *testing.T) {
	src := `on: push
jobs:
  a:
    strategy:
      matrix: ${{ fromJSON('{"os":["ubuntu-latest","macos-latest"]}') }}
    runs-on: ${{ matrix.os }}
    steps:
      - run: echo ${{ matrix.os }}
      - run: echo linux
        if: matrix.os == 'ubuntu-latest'
`
	errs := huntC05N1Check(t, src)
	for _, e := range errs {
		t.Errorf("matrix section is given by an expression, so references into it must not be reported, but got %d:%d: %s", e.Line, e.Column, e.Message)
	}
}

func TestHuntC05N1MatrixExprObjectRow(t *testing.T) {
	src := `on: push
jobs:
  a:
    strategy:
      matrix: ${{ fromJSON('{"cfg":[{"name":"x"},{"name":"y"}]}') }}
    runs-on: ubuntu-latest
    steps:
      - run: echo ${{ matrix.cfg.name }}
`
	errs := huntC05N1Check(t, src)
	for _, e := range errs {
		t.Errorf("matrix section is given by an expression, so references into it must not be reported, but got %d:%d: %s", e.Line, e.Column, e.Message)
	}
}

// Same defining section, a name that is not a key of the JSON literal. The statement says references
// into a section given by an expression are not reported; actionlint reports it as undefined.
// (This one is a true positive semantically, so it is the more debatable half of the finding.)
func TestHuntC05N1MatrixExprUndefinedKey(t *testing.T) {
	src := `on: push
jobs:
  a:
    strategy:
      matrix: ${{ fromJSON('{"os":["ubuntu-latest","macos-latest"]}') }}
    runs-on: ubuntu-latest
    steps:
      - run: echo ${{ matrix.foo }}
`
	errs := huntC05N1Check(t, src)
	for _, e := range errs {
		if strings.Contains(e.Message, "is not defined in object type") {
			t.Errorf("matrix section is given by an expression, so references into it must not be reported as undefined, but got %d:%d: %s", e.Line, e.Column, e.Message)
		}
	}
}
