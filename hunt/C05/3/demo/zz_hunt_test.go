package actionlint

import (
	"fmt"
	"sort"
	"strings"
	"testing"
)

// Property C05: "inputs.<name> ... is reported as undefined iff the entity is not in scope there:
// ... inputs/secrets exactly the declared names", quantified over "any combination of workflow_call
// and workflow_dispatch inputs x every position from which a reference can be made".
//
// In `on.workflow_call.inputs.<id>.default` (a position where the `inputs` context is available) the
// set of names in scope is not "the declared names": it is whatever has been registered so far while
// walking the `on:` section, so it depends on the textual order of the inputs and of the events.

func huntC05N3Check(t *testing.T, src string) []*Error {
	t.Helper()
	w, perrs := Parse([]byte(src))
	if len(perrs) > 0 {
		t.Fatalf("unexpected parse errors: %v", perrs)
	}
	r := NewRuleExpression(newNullLocalActionsCache(nil), newNullLocalReusableWorkflowCache(nil))
	v := NewVisitor()
	v.AddPass(r)
	if err := v.Visit(w); err != nil {
		t.Fatal(err)
	}
	return r.Errs()
}

// `b` is a declared input of the reusable workflow, but a reference to it from the default value of
// the input `a` (declared one line earlier) is reported as undefined. Swapping the two inputs makes
// the error disappear.
func TestHuntC05N3ForwardReferenceToDeclaredInput(t *testing.T) {
	src := `on:
  workflow_call:
    inputs:
      a:
        type: string
        default: ${{ inputs.b }}
      b:
        type: string
jobs:
  j:
    runs-on: ubuntu-latest
    steps:
      - run: echo ${{ inputs.a }} ${{ inputs.b }}
`
	for _, e := range huntC05N3Check(t, src) {
		if strings.Contains(e.Message, "property \"b\" is not defined") {
			t.Errorf("input \"b\" is declared in on.workflow_call.inputs but inputs.b was reported as undefined at %d:%d: %s", e.Line, e.Column, e.Message)
		}
	}
}

// The same workflow with the two event keys of `on:` written in the other order gives a different
// answer for the very same reference `inputs.d` at the very same kind of position, so "undefined iff
// not in scope" cannot hold for both.
func TestHuntC05N3EventOrderChangesScope(t *testing.T) {
	call := `  workflow_call:
    inputs:
      a:
        type: string
        default: ${{ inputs.d }}
`
	dispatch := `  workflow_dispatch:
    inputs:
      d:
        type: string
`
	jobs := `jobs:
  j:
    runs-on: ubuntu-latest
    steps:
      - run: echo ${{ inputs.a }} ${{ inputs.d }}
`
	msgs := func(src string) []string {
		ret := []string{}
		for _, e := range huntC05N3Check(t, src) {
			ret = append(ret, e.Message)
		}
		sort.Strings(ret)
		return ret
	}
	m1 := msgs("on:\n" + call + dispatch + jobs)
	m2 := msgs("on:\n" + dispatch + call + jobs)
	if fmt.Sprint(m1) != fmt.Sprint(m2) {
		t.Errorf("scope of `inputs` depends on the order of the keys in `on:`\n  workflow_call first:     %q\n  workflow_dispatch first: %q", m1, m2)
	}
}
