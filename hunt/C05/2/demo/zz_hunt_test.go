package actionlint

import (
	"strings"
	"testing"
)

// Property C05: "A reference steps.<id>, needs.<job>..., matrix.<key>, inputs.<name> ... is reported
// as undefined iff the entity is not in scope there".
//
// When one YAML scalar contains several ${{ }} expressions (several on one line, or on several lines
// of a `run: |` script), checking of the scalar stops at the first expression that has an error, so
// every later out-of-scope reference in the same scalar is silently accepted.

func huntC05N2Check(t *testing.T, src string) []*Error {
	t.Helper()
	w, perrs := Parse([]byte(src))
	if len(perrs) > 0 {
		t.Fatalf("unexpected parse errors: %v", perrs)
	}
	r := NewRuleExpression(newNullLocalActionsCache(nil), newNullLocalReusableWorkflowCache(nil))
	v := NewVisitor()
	v.AddPass(r)
	if err := v.Visit(w); err != nil {
		t.Fatal(err)
	}
	return r.Errs()
}

func huntC05N2Reported(errs []*Error, name string) bool {
	for _, e := range errs {
		if strings.Contains(e.Message, "property \""+name+"\" is not defined in object type") {
			return true
		}
	}
	return false
}

func TestHuntC05N2TwoUndefinedStepsOnOneLine(t *testing.T) {
	src := `on: push
jobs:
  a:
    runs-on: ubuntu-latest
    steps:
      - run: echo ${{ steps.nope1.outputs.x }} ${{ steps.nope2.outputs.x }}
`
	errs := huntC05N2Check(t, src)
	for _, id := range []string{"nope1", "nope2"} {
		if !huntC05N2Reported(errs, id) {
			t.Errorf("steps.%s is not in scope (no such step) but it was not reported as undefined. all errors: %v", id, errs)
		}
	}
}

func TestHuntC05N2UndefinedRefsInMultiLineScript(t *testing.T) {
	src := `on: push
jobs:
  build:
    runs-on: ubuntu-latest
    outputs:
      v: x
    steps:
      - run: echo
  a:
    needs: build
    strategy:
      matrix:
        os: [a, b]
    runs-on: ubuntu-latest
    steps:
      - run: |
          echo ${{ needs.build.outputs.nope_out }}
          echo ${{ matrix.nope_key }}
          echo ${{ needs.nope_job.result }}
`
	errs := huntC05N2Check(t, src)
	for _, id := range []string{"nope_out", "nope_key", "nope_job"} {
		if !huntC05N2Reported(errs, id) {
			t.Errorf("reference to %q is out of scope but it was not reported as undefined. all errors: %v", id, errs)
		}
	}
}
