package actionlint

import (
	"io"
	"testing"
)

// Property C04: "Numbers follow the JSON forms plus 0x hex" and text is accepted iff it is a
// sentence of the documented language.
//
// JSON (RFC 8259): exp = e [ minus / plus ] 1*DIGIT -- leading zeros are allowed in the exponent.
// So 1e05, 1e00, 1E-01, 1.5e+007 are JSON numbers (and valid GitHub Actions expressions), but
// the lexer applies the "no leading zero" rule of the integer part to the exponent too.

func TestHuntC04N2ExponentWithLeadingZeroIsAJSONNumber(t *testing.T) {
	for _, tc := range []struct {
		in   string
		want float64
	}{
		{"1e05", 1e5},
		{"1e00", 1},
		{"1E-01", 0.1},
		{"1.5e+007", 1.5e7},
		{"-2E-00", -2},
		{"0e00", 0},
		{"1e01 > 1e001", 0}, // only acceptance is checked
	} {
		n, err := NewExprParser().Parse(NewExprLexer(tc.in + "}}"))
		if err != nil {
			t.Errorf("%q consists of JSON number literals and must be accepted, but it was rejected: %d:%d: %s", tc.in, err.Line, err.Column, err.Message)
			continue
		}
		if f, ok := n.(*FloatNode); ok && f.Value != tc.want {
			t.Errorf("%q: wanted value %v but got %v", tc.in, tc.want, f.Value)
		}
	}
}

// Controls which hold on the unmodified tree: same literals without leading zero are accepted,
// and truly malformed exponents are rejected.
func TestHuntC04N2Controls(t *testing.T) {
	for _, in := range []string{"1e5", "1e0", "1E-1", "1.5e+7"} {
		if _, err := NewExprParser().Parse(NewExprLexer(in + "}}")); err != nil {
			t.Errorf("%q must be accepted: %s", in, err.Message)
		}
	}
	for _, in := range []string{"1e", "1e+", "1e0x", "1e0.5e1", "01e1"} {
		if _, err := NewExprParser().Parse(NewExprLexer(in + "}}")); err == nil {
			t.Errorf("%q must be rejected", in)
		}
	}
}

func TestHuntC04N2LintReportsNoSyntaxErrorForJSONNumber(t *testing.T) {
	src := "on: push\njobs:\n  test:\n    runs-on: ubuntu-latest\n    steps:\n      - run: echo ${{ 1e05 }}\n        if: ${{ 1e05 > 1E-01 }}\n"
	l, err := NewLinter(io.Discard, &LinterOptions{})
	if err != nil {
		t.Fatal(err)
	}
	errs, err := l.Lint("test.yaml", []byte(src), nil)
	if err != nil {
		t.Fatal(err)
	}
	for _, e := range errs {
		t.Errorf("valid expression reported as error: %d:%d [%s] %s", e.Line, e.Column, e.Kind, e.Message)
	}
}
