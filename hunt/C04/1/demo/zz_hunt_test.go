package actionlint

import (
	"io"
	"strings"
	"testing"
)

// Property C04: text of an `if:` condition is accepted iff it is a sentence of the documented
// expression language; rejected text yields exactly one syntax diagnostic positioned within it.
//
// An `if:` condition written without ${{ }} that itself contains the characters "}}" is cut at
// that point: everything after the first "}}" is never lexed nor parsed, so arbitrary garbage is
// accepted without any diagnostic.

func huntC04N1Lint(t *testing.T, cond string) (string, []*Error) {
	t.Helper()
	src := "on: push\njobs:\n  test:\n    runs-on: ubuntu-latest\n    steps:\n      - run: echo\n        if: " + cond + "\n"
	l, err := NewLinter(io.Discard, &LinterOptions{})
	if err != nil {
		t.Fatal(err)
	}
	errs, err := l.Lint("test.yaml", []byte(src), nil)
	if err != nil {
		t.Fatal(err)
	}
	return src, errs
}

func huntC04N1Check(t *testing.T, cond string, scalarLen int) {
	t.Helper()
	src, errs := huntC04N1Lint(t, cond)
	line := strings.Split(src, "\n")[6]
	startCol := strings.Index(line, "if: ") + len("if: ") + 1 // 1-based column of the first char of the scalar
	n := 0
	for _, e := range errs {
		if e.Kind != "expression" {
			continue
		}
		n++
		if e.Line != 7 || e.Column < startCol || e.Column > startCol+scalarLen+1 {
			t.Errorf("diagnostic for rejected condition %q is not positioned within the condition (line 7, columns %d..%d): %d:%d %s", cond, startCol, startCol+scalarLen+1, e.Line, e.Column, e.Message)
		}
	}
	if n != 1 {
		t.Errorf("if: condition %q is not a sentence of the expression language, so exactly one syntax diagnostic is required, but got %d expression diagnostics (all diagnostics: %v)", cond, n, errs)
	}
}

// Control: the same garbage without the "}}" is rejected with exactly one diagnostic.
func TestHuntC04N1ControlGarbageWithoutEndMarkerIsRejected(t *testing.T) {
	c := "true ) ) garbage (("
	huntC04N1Check(t, c, len(c))
}

func TestHuntC04N1GarbageAfterEndMarkerInBareIfCondition(t *testing.T) {
	c := "true }} ) ) garbage (("
	huntC04N1Check(t, c, len(c))
}

func TestHuntC04N1TrailingEndMarkerInBareIfCondition(t *testing.T) {
	c := "true }}"
	huntC04N1Check(t, c, len(c))
}

// "}}" appears before the first "${{", so ContainsExpression() is false and the condition is
// handled as a bare expression; the broken placeholder after "}}" is never looked at.
func TestHuntC04N1BrokenPlaceholderAfterEndMarker(t *testing.T) {
	c := `"true }} ${{ 1 ) }}"`
	huntC04N1Check(t, c, len(c))
}
