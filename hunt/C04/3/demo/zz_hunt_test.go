package actionlint

import (
	"io"
	"testing"
)

// Property C04: text is accepted iff it is a sentence of the documented expression language.
//
// U+FEFF (byte order mark) is not a character of the expression language: anywhere else in an
// expression it is rejected with "got unexpected character '\ufeff'". But when it is the very
// first character of the text given to the lexer (i.e. directly after "${{", or the first char of
// a bare if: condition), text/scanner.Scanner.Peek() silently skips it. The lexer then lexes the
// following token, and the token text (sliced from offset 0) includes the BOM bytes:
//   - "\uFEFF'abc'" is accepted as a string literal whose value is "\xbb\xbf'abc" (parseString
//     strips the first and last *byte*);
//   - "\uFEFFtrue" is accepted as a variable named "\ufefftrue" instead of being a syntax error.

func TestHuntC04N3LeadingBOMIsNotPartOfTheGrammar(t *testing.T) {
	for _, in := range []string{
		"\uFEFF'abc'",
		"\uFEFFtrue",
		"\uFEFFgithub.ref",
		"\uFEFFcontains('a', 'b')",
		"\uFEFF(true)",
		"\uFEFF!true",
	} {
		n, err := NewExprParser().Parse(NewExprLexer(in + "}}"))
		if err == nil {
			t.Errorf("%q starts with U+FEFF which is not in the expression grammar, but it was accepted as %T %+v", in, n, n)
		}
	}
}

// Control: everywhere else the BOM is rejected (holds on the unmodified tree).
func TestHuntC04N3ControlBOMElsewhereIsRejected(t *testing.T) {
	for _, in := range []string{" \uFEFFtrue", "true\uFEFF", "true && \uFEFFfalse", "(\uFEFFtrue)"} {
		if _, err := NewExprParser().Parse(NewExprLexer(in + "}}")); err == nil {
			t.Errorf("%q must be rejected", in)
		}
	}
}

// Accepted text must be analysed according to its structure: if the lexer does accept the input
// as a string literal, the value of the literal must at least be the text between the quotes.
func TestHuntC04N3StringLiteralValue(t *testing.T) {
	n, err := NewExprParser().Parse(NewExprLexer("\uFEFF'abc'}}"))
	if err != nil {
		return // rejected: fine
	}
	s, ok := n.(*StringNode)
	if !ok {
		t.Fatalf("accepted \"\\uFEFF'abc'\" but analysed it as %T", n)
	}
	if s.Value != "abc" {
		t.Errorf("accepted \"\\uFEFF'abc'\" as a string literal but its value is %q instead of \"abc\"", s.Value)
	}
}

func huntC04N3Lint(t *testing.T, src string) []*Error {
	t.Helper()
	l, err := NewLinter(io.Discard, &LinterOptions{})
	if err != nil {
		t.Fatal(err)
	}
	errs, err := l.Lint("test.yaml", []byte(src), nil)
	if err != nil {
		t.Fatal(err)
	}
	return errs
}

func TestHuntC04N3LintReportsSyntaxErrorForBOM(t *testing.T) {
	for _, src := range []string{
		// bare if: condition starting with BOM (YAML escape in double quoted scalar)
		"on: push\njobs:\n  test:\n    runs-on: ubuntu-latest\n    steps:\n      - run: echo\n        if: \"\\uFEFF'abc' == 'x'\"\n",
		// BOM directly after ${{
		"on: push\njobs:\n  test:\n    runs-on: ubuntu-latest\n    steps:\n      - run: echo\n        env:\n          FOO: \"${{\\uFEFF'abc' }}\"\n",
	} {
		errs := huntC04N3Lint(t, src)
		n := 0
		for _, e := range errs {
			if e.Kind == "expression" {
				n++
			}
		}
		if n != 1 {
			t.Errorf("expression text starting with U+FEFF is not a sentence of the expression language, exactly one syntax diagnostic is required but got %d (%v) for:\n%s", n, errs, src)
		}
	}
}
