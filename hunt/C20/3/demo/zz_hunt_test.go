package actionlint

import (
	"io"
	"os"
	"path/filepath"
	"testing"
)

// Property C20: a tool which crashes must yield a fatal error rather than silently dropping
// diagnostics.
//
// The stand-in for pyflakes behaves like `python -m pyflakes` on a machine where the module is
// broken/missing: it reads the script, prints nothing to stdout, prints a traceback to stderr and
// exits with status 1. No issue list was produced, so the linter must not pretend the script is
// clean.
func TestHuntC20N3PyflakesCrashIsSwallowed(t *testing.T) {
	dir := t.TempDir()
	exe := filepath.Join(dir, "pyflakes")
	tool := `#!/bin/bash
cat > /dev/null
echo 'Traceback (most recent call last):' >&2
echo 'ModuleNotFoundError: No module named pyflakes' >&2
exit 1
`
	if err := os.WriteFile(exe, []byte(tool), 0o755); err != nil {
		t.Fatal(err)
	}

	src := `on: push
jobs:
  a:
    runs-on: ubuntu-latest
    steps:
      - run: import os
        shell: python
`
	l, err := NewLinter(io.Discard, &LinterOptions{Pyflakes: exe})
	if err != nil {
		t.Fatal(err)
	}
	l.defaultConfig = &Config{}
	errs, err := l.Lint("test.yaml", []byte(src), nil)
	if err == nil {
		t.Fatalf("pyflakes exited with status 1 with empty stdout and a traceback on stderr, but no fatal error was returned (diagnostics: %v). The crash was silently ignored", errs)
	}
}

// Same invocation pattern for shellcheck is (correctly) a fatal error. This test passes and only
// documents the asymmetry.
func TestHuntC20N3ShellcheckCrashIsFatal(t *testing.T) {
	dir := t.TempDir()
	exe := filepath.Join(dir, "shellcheck")
	tool := "#!/bin/bash\ncat > /dev/null\necho 'oops' >&2\nexit 1\n"
	if err := os.WriteFile(exe, []byte(tool), 0o755); err != nil {
		t.Fatal(err)
	}
	src := "on: push\njobs:\n  a:\n    runs-on: ubuntu-latest\n    steps:\n      - run: echo\n"
	l, err := NewLinter(io.Discard, &LinterOptions{Shellcheck: exe})
	if err != nil {
		t.Fatal(err)
	}
	l.defaultConfig = &Config{}
	if _, err := l.Lint("test.yaml", []byte(src), nil); err == nil {
		t.Fatal("fatal error was expected")
	}
}
