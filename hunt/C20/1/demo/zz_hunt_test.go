package actionlint

import (
	"io"
	"os"
	"path/filepath"
	"strings"
	"testing"
)

// huntC20N1Tool creates a stand-in for shellcheck which stores its stdin into a fresh file in
// logdir and reports no issue ("[]").
func huntC20N1Tool(t *testing.T) (exe, logdir string) {
	t.Helper()
	dir := t.TempDir()
	logdir = filepath.Join(dir, "log")
	if err := os.Mkdir(logdir, 0o755); err != nil {
		t.Fatal(err)
	}
	exe = filepath.Join(dir, "shellcheck")
	src := "#!/bin/bash\nf=$(mktemp " + logdir + "/in.XXXXXX)\ncat > \"$f\"\necho '[]'\n"
	if err := os.WriteFile(exe, []byte(src), 0o755); err != nil {
		t.Fatal(err)
	}
	return
}

// Property C20: each ${{ }} in a run: script is replaced by an equally long placeholder before the
// script is passed to the tool.
//
// `${{ '}}' }}` is one valid placeholder (the first `}}` is inside a string literal; actionlint's
// own expression checker and GitHub both take the second `}}` as its end). The tool must receive
// the script with the whole placeholder replaced.
func TestHuntC20N1BraceInStringLiteral(t *testing.T) {
	exe, logdir := huntC20N1Tool(t)

	const placeholder = `${{ '}}' }}`
	script := `echo ` + placeholder + ` "$x"`
	src := "on: push\njobs:\n  a:\n    runs-on: ubuntu-latest\n    steps:\n      - run: " + script + "\n"

	// Sanity: the expression lexer agrees that the placeholder ends at its second `}}`.
	if _, off, err := LexExpression(placeholder[3:]); err != nil || off != len(placeholder)-3 {
		t.Fatalf("test premise is wrong: offset=%d err=%v", off, err)
	}

	l, err := NewLinter(io.Discard, &LinterOptions{Shellcheck: exe})
	if err != nil {
		t.Fatal(err)
	}
	l.defaultConfig = &Config{}
	errs, err := l.Lint("test.yaml", []byte(src), nil)
	if err != nil {
		t.Fatal(err)
	}
	// Sanity: actionlint itself accepts the placeholder as one valid expression.
	if len(errs) != 0 {
		t.Fatalf("test premise is wrong: workflow is not clean: %v", errs)
	}

	es, err := os.ReadDir(logdir)
	if err != nil {
		t.Fatal(err)
	}
	if len(es) != 1 {
		t.Fatalf("script must be passed to the tool exactly once but the tool was run %d times", len(es))
	}
	b, err := os.ReadFile(filepath.Join(logdir, es[0].Name()))
	if err != nil {
		t.Fatal(err)
	}
	got := string(b)

	want := "set -eo pipefail\necho " + strings.Repeat("_", len(placeholder)) + " \"$x\"\n"
	if got != want {
		t.Errorf("the ${{ }} placeholder was not replaced by an equally long placeholder.\nscript:      %q\ntool stdin:  %q\nwanted:      %q", script, got, want)
	}
	if strings.Contains(got, "}}") || strings.Contains(got, "'") {
		t.Errorf("part of the ${{ }} placeholder leaked into the script given to the tool (unbalanced quote): %q", got)
	}
}
