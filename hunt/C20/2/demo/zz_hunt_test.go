package actionlint

import (
	"fmt"
	"io"
	"os"
	"path/filepath"
	"strings"
	"testing"
	"unicode/utf8"
)

// huntC20N2Tool creates a stand-in for shellcheck which stores its stdin into a fresh file in
// logdir and then prints `output` to stdout.
func huntC20N2Tool(t *testing.T, output string) (exe, logdir string) {
	t.Helper()
	dir := t.TempDir()
	logdir = filepath.Join(dir, "log")
	if err := os.Mkdir(logdir, 0o755); err != nil {
		t.Fatal(err)
	}
	out := filepath.Join(dir, "out.json")
	if err := os.WriteFile(out, []byte(output), 0o644); err != nil {
		t.Fatal(err)
	}
	exe = filepath.Join(dir, "shellcheck")
	src := "#!/bin/bash\nf=$(mktemp " + logdir + "/in.XXXXXX)\ncat > \"$f\"\ncat " + out + "\n"
	if err := os.WriteFile(exe, []byte(src), 0o755); err != nil {
		t.Fatal(err)
	}
	return
}

// 1-based line and 1-based column (in characters, as shellcheck and pyflakes count them) of the
// first occurrence of marker in s.
func huntC20N2Pos(t *testing.T, s, marker string) (int, int) {
	t.Helper()
	i := strings.Index(s, marker)
	if i < 0 {
		t.Fatalf("marker %q not found in %q", marker, s)
	}
	line := 1 + strings.Count(s[:i], "\n")
	bol := strings.LastIndexByte(s[:i], '\n') + 1
	return line, 1 + utf8.RuneCountInString(s[bol:i])
}

func huntC20N2Lint(t *testing.T, exe, src string) []*Error {
	t.Helper()
	l, err := NewLinter(io.Discard, &LinterOptions{Shellcheck: exe})
	if err != nil {
		t.Fatal(err)
	}
	l.defaultConfig = &Config{}
	errs, err := l.Lint("test.yaml", []byte(src), nil)
	if err != nil {
		t.Fatal(err)
	}
	return errs
}

// Checks the clause "each ${{ }} is replaced by an equally long placeholder so that reported
// offsets stay valid": the token `$x` must be at the same line:column in the text the tool sees
// (after the one setup line actionlint prepends and subtracts again) as in the run: script, and
// an issue which an honest tool reports at the position of `$x` must be shown with the position
// of `$x` in the run: script.
func huntC20N2Check(t *testing.T, script, src string) {
	t.Helper()
	const marker = "$x"
	wantLine, wantCol := huntC20N2Pos(t, script, marker)

	// Phase 1: what does the tool see?
	exe, logdir := huntC20N2Tool(t, "[]")
	if errs := huntC20N2Lint(t, exe, src); len(errs) != 0 {
		t.Fatalf("test premise is wrong: workflow is not clean: %v", errs)
	}
	es, err := os.ReadDir(logdir)
	if err != nil {
		t.Fatal(err)
	}
	if len(es) != 1 {
		t.Fatalf("tool must be run exactly once but was run %d times", len(es))
	}
	b, err := os.ReadFile(filepath.Join(logdir, es[0].Name()))
	if err != nil {
		t.Fatal(err)
	}
	stdin := string(b)
	toolLine, toolCol := huntC20N2Pos(t, stdin, marker) // This is what an honest tool reports
	if toolLine-1 != wantLine || toolCol != wantCol {
		t.Errorf("%q is at %d:%d in the run: script but at %d:%d (after subtracting the setup line) in the text given to the tool\nscript: %q\nstdin:  %q",
			marker, wantLine, wantCol, toolLine-1, toolCol, script, stdin)
	}

	// Phase 2: the tool reports an issue at the position where it saw the token.
	issue := fmt.Sprintf(`[{"line":%d,"column":%d,"level":"info","code":2086,"message":"Double quote to prevent globbing and word splitting."}]`, toolLine, toolCol)
	exe, _ = huntC20N2Tool(t, issue)
	errs := huntC20N2Lint(t, exe, src)
	if len(errs) != 1 {
		t.Fatalf("wanted exactly one diagnostic but got %v", errs)
	}
	want := fmt.Sprintf("SC2086:info:%d:%d:", wantLine, wantCol)
	if !strings.Contains(errs[0].Message, want) {
		t.Errorf("issue at %q must be reported with its position in the run: script (%q) but got: %s", marker, want, errs[0].Message)
	}
}

// A ${{ }} placeholder which spans several lines: the newlines inside it are replaced by
// underscores so all following lines are shifted.
func TestHuntC20N2NewlineInPlaceholder(t *testing.T) {
	script := "echo ${{\n  github.sha\n}}\necho $x\n"
	src := `on: push
jobs:
  a:
    runs-on: ubuntu-latest
    steps:
      - run: |
          echo ${{
            github.sha
          }}
          echo $x
`
	huntC20N2Check(t, script, src)
}

// A ${{ }} placeholder containing non-ASCII text: one underscore is written per byte, not per
// character, so all following columns on the line are shifted.
func TestHuntC20N2NonASCIIInPlaceholder(t *testing.T) {
	script := "echo ${{ 'あいう' }} $x"
	src := "on: push\njobs:\n  a:\n    runs-on: ubuntu-latest\n    steps:\n      - run: " + script + "\n"
	huntC20N2Check(t, script, src)
}
