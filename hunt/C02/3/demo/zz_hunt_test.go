package actionlint

import (
	"bytes"
	"os"
	"path/filepath"
	"sync"
	"testing"
)

// Property C02: linting the same files with the same configuration and options always produces
// byte-identical results; the result does not depend on goroutine scheduling of multi-file runs.
//
// Linter.LintFiles checks every file in its own goroutine, and all goroutines of one project share
// one LocalActionsCache and one LocalReusableWorkflowCache. Both caches have "first one wins"
// semantics:
//
//   - LocalActionsCache.FindMetadata reports `cached == false` only to the first caller, and
//     RuleAction.checkLocalAction validates the metadata of a local action only when !cached. So
//     the errors in a broken ./action/action.yml are attributed to whichever workflow file reached
//     the `uses: ./action` step first (or to both files when the two goroutines miss the cache at the
//     same time).
//   - LocalReusableWorkflowCache is filled either from the AST of the callee (when the callee file
//     is visited first: WriteWorkflowCallEvent) or from a second, independent YAML decoding of the
//     callee (when the caller is visited first: FindMetadata/parseReusableWorkflowMetadata). The two
//     do not agree (e.g. `required: true` + `default:` with an empty value), so the diagnostics of
//     the caller depend on which goroutine ran first.
//
// To make the tests deterministic the interleaving is chosen with LinterOptions.OnRulesCreated: a
// rule which reports nothing and only waits makes one workflow file complete before the other
// files start. Files, configuration, options and argument order are identical in both runs; only
// the goroutine interleaving differs. The property requires the two outputs to be byte-identical.

type huntC02N3Gate struct {
	RuleBase
	pre  func(name string)
	post func(name string)
}

func huntC02N3Name(n *Workflow) string {
	if n.Name == nil {
		return ""
	}
	return n.Name.Value
}

func (g *huntC02N3Gate) VisitWorkflowPre(n *Workflow) error {
	if g.pre != nil {
		g.pre(huntC02N3Name(n))
	}
	return nil
}

func (g *huntC02N3Gate) VisitWorkflowPost(n *Workflow) error {
	if g.post != nil {
		g.post(huntC02N3Name(n))
	}
	return nil
}

func huntC02N3Project(t *testing.T, files map[string]string) string {
	t.Helper()
	dir := t.TempDir()
	for _, d := range []string{".git", ".github/workflows"} {
		if err := os.MkdirAll(filepath.Join(dir, filepath.FromSlash(d)), 0755); err != nil {
			t.Fatal(err)
		}
	}
	for p, c := range files {
		p = filepath.Join(dir, filepath.FromSlash(p))
		if err := os.MkdirAll(filepath.Dir(p), 0755); err != nil {
			t.Fatal(err)
		}
		if err := os.WriteFile(p, []byte(c), 0644); err != nil {
			t.Fatal(err)
		}
	}
	return dir
}

// huntC02N3LintFiles runs Linter.LintFiles on the files. When `first` is not empty, the workflow
// whose `name:` is `first` is visited completely before any other workflow is visited. When it is
// empty the Go scheduler decides.
func huntC02N3LintFiles(t *testing.T, dir string, paths []string, first string) (string, int) {
	t.Helper()
	var out bytes.Buffer
	opts := &LinterOptions{Oneline: true, Color: ColorOptionKindNever, WorkingDir: dir}
	if first != "" {
		done := make(chan struct{})
		var once sync.Once
		opts.OnRulesCreated = func(rs []Rule) []Rule {
			head := &huntC02N3Gate{
				RuleBase: NewRuleBase("hunt-gate-head", "waits until the first workflow was visited"),
				pre: func(name string) {
					if name != first {
						<-done
					}
				},
			}
			tail := &huntC02N3Gate{
				RuleBase: NewRuleBase("hunt-gate-tail", "tells that the first workflow was visited"),
				post: func(name string) {
					if name == first {
						once.Do(func() { close(done) })
					}
				},
			}
			ret := append([]Rule{head}, rs...)
			return append(ret, tail)
		}
	}
	l, err := NewLinter(&out, opts)
	if err != nil {
		t.Fatal(err)
	}
	abs := make([]string, 0, len(paths))
	for _, p := range paths {
		abs = append(abs, filepath.Join(dir, filepath.FromSlash(p)))
	}
	errs, err := l.LintFiles(abs, nil)
	if err != nil {
		t.Fatal(err)
	}
	return out.String(), len(errs)
}

func huntC02N3LocalActionProject(t *testing.T) (string, []string) {
	wf := func(name string) string {
		return "name: " + name + `
on: push
jobs:
  test:
    runs-on: ubuntu-latest
    steps:
      - uses: ./action
`
	}
	dir := huntC02N3Project(t, map[string]string{
		// "description" and "runs" are missing
		"action/action.yml":        "name: my action\n",
		".github/workflows/a.yaml": wf("a"),
		".github/workflows/b.yaml": wf("b"),
	})
	return dir, []string{".github/workflows/a.yaml", ".github/workflows/b.yaml"}
}

func TestHuntC02N3BrokenLocalActionReportedInFileWhichCameFirst(t *testing.T) {
	dir, paths := huntC02N3LocalActionProject(t)

	aFirst, na := huntC02N3LintFiles(t, dir, paths, "a")
	bFirst, nb := huntC02N3LintFiles(t, dir, paths, "b")
	if aFirst != bFirst || na != nb {
		t.Fatalf(
			"the same files with the same options gave different results for two goroutine interleavings.\n--- a.yaml visited before b.yaml (%d diagnostics):\n%s\n--- b.yaml visited before a.yaml (%d diagnostics):\n%s",
			na, aFirst, nb, bFirst,
		)
	}
}

func TestHuntC02N3ReusableWorkflowMetadataDependsOnFileWhichCameFirst(t *testing.T) {
	dir := huntC02N3Project(t, map[string]string{
		".github/workflows/callee.yaml": `name: callee
on:
  workflow_call:
    inputs:
      foo:
        type: string
        required: true
        default:
jobs:
  test:
    runs-on: ubuntu-latest
    steps:
      - run: echo
`,
		".github/workflows/caller.yaml": `name: caller
on: push
jobs:
  call:
    uses: ./.github/workflows/callee.yaml
`,
	})
	paths := []string{".github/workflows/callee.yaml", ".github/workflows/caller.yaml"}

	calleeFirst, n1 := huntC02N3LintFiles(t, dir, paths, "callee")
	callerFirst, n2 := huntC02N3LintFiles(t, dir, paths, "caller")
	if calleeFirst != callerFirst || n1 != n2 {
		t.Fatalf(
			"the same files with the same options gave different results for two goroutine interleavings.\n--- callee.yaml visited before caller.yaml (%d diagnostics):\n%s\n--- caller.yaml visited before callee.yaml (%d diagnostics):\n%s",
			n1, calleeFirst, n2, callerFirst,
		)
	}
}

// The same as the first test but without choosing the interleaving: the plain Linter.LintFiles is
// simply repeated. This variant depends on the Go scheduler of the machine, so it is skipped (not
// passed) when all the repetitions happened to agree. On a multi-core machine it fails within a
// few iterations and even shows a third result where both files report the errors.
func TestHuntC02N3RepeatedMultiFileRunsWithoutHook(t *testing.T) {
	dir, paths := huntC02N3LocalActionProject(t)

	first, nf := huntC02N3LintFiles(t, dir, paths, "")
	for i := 1; i < 2000; i++ {
		out, n := huntC02N3LintFiles(t, dir, paths, "")
		if out != first || n != nf {
			t.Fatalf(
				"run #%d of Linter.LintFiles on the same files with the same options produced a different result.\n--- first run (%d diagnostics):\n%s\n--- run #%d (%d diagnostics):\n%s",
				i+1, nf, first, i+1, n, out,
			)
		}
	}
	t.Skip("the scheduler happened to choose the same interleaving in all runs on this machine")
}
