package actionlint

import (
	"bytes"
	"testing"
)

// Property C02: linting the same file with the same options always produces byte-identical
// results and does not depend on hash-map iteration order or on how many times the run is repeated.
//
// The workflow below is linted many times. Every run must print exactly the same bytes.
// On the unmodified tree about a quarter of the runs report
//
//	test.yaml:6:24: receiver of object dereference "foo" must be type of object but got "string" [expression]
//
// and the other runs report nothing at all, because (*ObjectType).Merge folds the property types of
// the right-hand side object into the "Mapped" type in map-iteration order and ExprType.Merge is
// not associative (number|bool = any, any|string = any, but number|string = string, string|bool = string).

const huntC02N1Workflow = `on: push
jobs:
  test:
    runs-on: ubuntu-latest
    steps:
      - run: echo ${{ (job.services || fromJSON('{"a":{"q":1},"b":{"q":true},"c":{"q":"s"}}')).zzz.q.foo }}
`

func huntC02N1Lint(t *testing.T) (string, int) {
	t.Helper()
	var out bytes.Buffer
	l, err := NewLinter(&out, &LinterOptions{Oneline: true, Color: ColorOptionKindNever})
	if err != nil {
		t.Fatal(err)
	}
	errs, err := l.Lint("test.yaml", []byte(huntC02N1Workflow), nil)
	if err != nil {
		t.Fatal(err)
	}
	return out.String(), len(errs)
}

func TestHuntC02N1MergedObjectTypeDependsOnMapOrder(t *testing.T) {
	first, firstLen := huntC02N1Lint(t)
	for i := 1; i < 400; i++ {
		out, n := huntC02N1Lint(t)
		if out != first || n != firstLen {
			t.Fatalf(
				"run #%d of the same workflow with the same options produced a different result.\n--- first run (%d diagnostics):\n%s\n--- run #%d (%d diagnostics):\n%s",
				i+1, firstLen, first, i+1, n, out,
			)
		}
	}
}
