package actionlint

import (
	"bytes"
	"strings"
	"testing"
)

// Property C02: linting the same file with the same options always produces byte-identical
// results: the same diagnostics, with the same message text, in the same order, independent of
// hash-map iteration order. The quantifier explicitly covers workflows producing two or more
// diagnostics at one source position, non-ASCII text and several items on one line.
//
// In the workflow below the two values of the flow-style "env:" mapping are on one line. Columns of
// expression errors are computed as "column of the scalar + byte offset in the decoded value", so
// the 15 two-byte characters in the value of A push the column of the error in A (5:50) onto the
// column of the error in B (also 5:50). Env.Vars is a Go map which RuleExpression.checkEnv ranges
// over directly, so which of the two same-position diagnostics is printed first changes from run
// to run (about 1 run in 8 prints "b" before "a").

const huntC02N2Workflow = `on: push
jobs:
  test:
    runs-on: ubuntu-latest
    env: {A: "ééééééééééééééé ${{ a }}", B: "${{ b }}"}
    steps:
      - run: echo
`

func huntC02N2Lint(t *testing.T) string {
	t.Helper()
	var out bytes.Buffer
	l, err := NewLinter(&out, &LinterOptions{Oneline: true, Color: ColorOptionKindNever})
	if err != nil {
		t.Fatal(err)
	}
	if _, err := l.Lint("test.yaml", []byte(huntC02N2Workflow), nil); err != nil {
		t.Fatal(err)
	}
	return out.String()
}

func TestHuntC02N2SamePositionDiagnosticsOrderDependsOnMapOrder(t *testing.T) {
	first := huntC02N2Lint(t)

	// Sanity check of the premise: two diagnostics with different messages at one position
	lines := strings.Split(strings.TrimSpace(first), "\n")
	if len(lines) != 2 {
		t.Fatalf("expected 2 diagnostics but got %d:\n%s", len(lines), first)
	}
	for _, l := range lines {
		if !strings.HasPrefix(l, "test.yaml:5:50: undefined variable ") {
			t.Fatalf("unexpected diagnostic: %s", l)
		}
	}

	for i := 1; i < 600; i++ {
		out := huntC02N2Lint(t)
		if out != first {
			t.Fatalf(
				"run #%d of the same workflow with the same options printed the diagnostics in a different order.\n--- first run:\n%s\n--- run #%d:\n%s",
				i+1, first, i+1, out,
			)
		}
	}
}
