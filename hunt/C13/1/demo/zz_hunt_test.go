package actionlint

import (
	"fmt"
	"io"
	"testing"
)

// Property C13, last clause: "An unknown or duplicate key never suppresses the diagnostics of its
// sibling keys." Here a foreign key is inserted AFTER the `cron` key of a `schedule` item, so no
// position of the original text moves. Every diagnostic of the original workflow must still be
// reported, and the foreign key must be reported at the item.

func huntC13N1Lint(t *testing.T, src string) []*Error {
	t.Helper()
	l, err := NewLinter(io.Discard, &LinterOptions{Shellcheck: "", Pyflakes: ""})
	if err != nil {
		t.Fatal(err)
	}
	errs, err := l.Lint("test.yaml", []byte(src), nil)
	if err != nil {
		t.Fatal(err)
	}
	return errs
}

func huntC13N1Check(t *testing.T, orig, mutated []*Error, itemLine, itemCol int) {
	t.Helper()
	if len(orig) == 0 {
		t.Fatal("test premise broken: original workflow has no diagnostic")
	}
	show := func(es []*Error) string {
		s := ""
		for _, e := range es {
			s += fmt.Sprintf("\n    %d:%d [%s] %s", e.Line, e.Column, e.Kind, e.Message)
		}
		return s
	}
	atItem := false
	for _, m := range mutated {
		if m.Line == itemLine && m.Column == itemCol {
			atItem = true
		}
	}
	if !atItem {
		t.Errorf("foreign key is not reported at the schedule item %d:%d; got:%s", itemLine, itemCol, show(mutated))
	}
	for _, o := range orig {
		found := false
		for _, m := range mutated {
			if m.Line == o.Line && m.Column == o.Column && m.Message == o.Message {
				found = true
			}
		}
		if !found {
			t.Errorf("diagnostic of sibling key `cron` was suppressed by the unknown key: %d:%d [%s] %s\n  diagnostics of original:%s\n  diagnostics after inserting foreign key:%s",
				o.Line, o.Column, o.Kind, o.Message, show(orig), show(mutated))
		}
	}
}

const huntC13N1Tail = "jobs:\n  a:\n    runs-on: ubuntu-latest\n    steps:\n      - run: echo\n"

// syntax-check diagnostic ("string should not be empty" at the cron value) is lost.
func TestHuntC13N1EmptyCronSuppressedByForeignKey(t *testing.T) {
	orig := "on:\n  schedule:\n    - cron: ''\n" + huntC13N1Tail
	mutated := "on:\n  schedule:\n    - cron: ''\n      foo: bar\n" + huntC13N1Tail
	_, eo := Parse([]byte(orig))
	_, em := Parse([]byte(mutated))
	huntC13N1Check(t, eo, em, 3, 7)
}

// Same with a mapping as the cron value ("expected scalar node for string value ...").
func TestHuntC13N1NonScalarCronSuppressedByForeignKey(t *testing.T) {
	orig := "on:\n  schedule:\n    - cron: [a]\n" + huntC13N1Tail
	mutated := "on:\n  schedule:\n    - cron: [a]\n      foo: bar\n" + huntC13N1Tail
	_, eo := Parse([]byte(orig))
	_, em := Parse([]byte(mutated))
	huntC13N1Check(t, eo, em, 3, 7)
}

// Through the whole linter the cron item is dropped from the AST, so the invalid CRON format of
// the sibling key is no longer diagnosed either.
func TestHuntC13N1InvalidCronSuppressedByForeignKey(t *testing.T) {
	orig := "on:\n  schedule:\n    - cron: 'hello'\n" + huntC13N1Tail
	mutated := "on:\n  schedule:\n    - cron: 'hello'\n      foo: bar\n" + huntC13N1Tail
	huntC13N1Check(t, huntC13N1Lint(t, orig), huntC13N1Lint(t, mutated), 3, 7)
}
