package actionlint

import (
	"strings"
	"testing"
)

// Property C13: "a repeated key (compared case-insensitively where names are case-insensitive) is
// reported at the repetition"; quantifier: "duplication of an existing key in any letter case".
// Names of env vars, job IDs, matrix rows, inputs, ... are case-insensitive (parseMapping is called
// with caseSensitive=false and says "note that this key is case insensitive").
// The existing key is duplicated in UPPER case (strings.ToUpper). The repetition must be reported at
// the repeated key.

func huntC13N2Check(t *testing.T, key string, mk func(k1, k2 string) string, line, col int) {
	t.Helper()
	upper := strings.ToUpper(key)
	if upper == key || !strings.EqualFold(key, upper) {
		t.Fatalf("test premise broken: %q vs %q", key, upper)
	}
	src := mk(key, upper)
	_, errs := Parse([]byte(src))
	for _, e := range errs {
		if e.Line == line && e.Column == col && strings.Contains(e.Message, "is duplicated") {
			return
		}
	}
	msgs := []string{}
	for _, e := range errs {
		msgs = append(msgs, e.Error())
	}
	t.Errorf("key %q repeated in upper case as %q is not reported as duplicate at %d:%d. diagnostics: %q\ninput:\n%s", key, upper, line, col, msgs, src)
}

func huntC13N2Env(k1, k2 string) string {
	return "on: push\njobs:\n  a:\n    runs-on: ubuntu-latest\n    env:\n      " + k1 + ": a\n      " + k2 + ": b\n    steps:\n      - run: echo\n"
}

// Greek word ending in final sigma: upper case of "κόσμος" is "ΚΌΣΜΟΣ" but
// strings.ToLower("ΚΌΣΜΟΣ") is "κόσμοσ" != "κόσμος", so the lower-cased ids differ.
func TestHuntC13N2FinalSigmaEnv(t *testing.T) {
	// Premise: the section is case-insensitive, ASCII and ordinary Greek repetitions are detected.
	for _, k := range []string{"foo", "κόσμοι"} {
		_, errs := Parse([]byte(huntC13N2Env(k, strings.ToUpper(k))))
		if len(errs) != 1 || errs[0].Line != 7 || errs[0].Column != 7 || !strings.Contains(errs[0].Message, "is duplicated") {
			t.Fatalf("test premise broken: upper-case repetition of %q not detected: %v", k, errs)
		}
	}
	huntC13N2Check(t, "κόσμος", huntC13N2Env, 7, 7)
}

func TestHuntC13N2FinalSigmaJobID(t *testing.T) {
	huntC13N2Check(t, "κόσμος", func(k1, k2 string) string {
		return "on: push\njobs:\n  " + k1 + ":\n    runs-on: ubuntu-latest\n    steps:\n      - run: echo\n  " + k2 + ":\n    runs-on: ubuntu-latest\n    steps:\n      - run: echo\n"
	}, 7, 3)
}

func TestHuntC13N2FinalSigmaMatrix(t *testing.T) {
	huntC13N2Check(t, "ος", func(k1, k2 string) string {
		return "on: push\njobs:\n  a:\n    runs-on: ubuntu-latest\n    strategy:\n      matrix:\n        " + k1 + ": [1]\n        " + k2 + ": [2]\n    steps:\n      - run: echo\n"
	}, 8, 9)
}

// Other letters whose upper case does not lower-case back to themselves.
func TestHuntC13N2OtherLetters(t *testing.T) {
	for _, k := range []string{"\u017ftep" /* ſtep -> STEP */, "\u00b5s" /* µs -> ΜS */} {
		huntC13N2Check(t, k, huntC13N2Env, 7, 7)
	}
}
