package actionlint

import (
	"io"
	"os"
	"path/filepath"
	"strings"
	"testing"
)

// Property C14: for a step that uses a local action or a bundled popular action, an input is
// reported iff the callee does not declare it, and a declared required input without default is
// reported iff it is not supplied.
//
// The workflow parser moves the `with:` keys "args" and "entrypoint" out of the inputs map of the
// step, so the interface check never sees them.

func huntC14N1Lint(t *testing.T, files map[string]string, workflow string) []string {
	t.Helper()
	dir := t.TempDir()
	if err := os.MkdirAll(filepath.Join(dir, ".git"), 0o755); err != nil {
		t.Fatal(err)
	}
	for p, c := range files {
		fp := filepath.Join(dir, filepath.FromSlash(p))
		if err := os.MkdirAll(filepath.Dir(fp), 0o755); err != nil {
			t.Fatal(err)
		}
		if err := os.WriteFile(fp, []byte(c), 0o644); err != nil {
			t.Fatal(err)
		}
	}
	proj, err := NewProject(dir)
	if err != nil {
		t.Fatal(err)
	}
	l, err := NewLinter(io.Discard, &LinterOptions{})
	if err != nil {
		t.Fatal(err)
	}
	errs, err := l.LintFile(filepath.Join(dir, filepath.FromSlash(workflow)), proj)
	if err != nil {
		t.Fatal(err)
	}
	ms := make([]string, 0, len(errs))
	for _, e := range errs {
		ms = append(ms, e.Error())
	}
	return ms
}

func huntC14N1Find(ms []string, subs ...string) bool {
	for _, m := range ms {
		ok := true
		for _, s := range subs {
			if !strings.Contains(m, s) {
				ok = false
				break
			}
		}
		if ok {
			return true
		}
	}
	return false
}

const huntC14N1RequiredAction = `name: act
description: act
inputs:
  args:
    description: arguments
    required: true
  entrypoint:
    description: entry point
    required: true
  other:
    description: other
    required: true
runs:
  using: node20
  main: index.js
`

// All three required inputs are supplied, so no "missing input" diagnostic may be reported.
func TestHuntC14N1RequiredArgsSuppliedButReportedMissing(t *testing.T) {
	ms := huntC14N1Lint(t, map[string]string{
		"act/action.yml": huntC14N1RequiredAction,
		"act/index.js":   "",
		".github/workflows/w.yml": `on: push
jobs:
  j:
    runs-on: ubuntu-latest
    steps:
      - uses: ./act
        with:
          args: foo
          entrypoint: bar
          other: baz
`,
	}, ".github/workflows/w.yml")

	for _, name := range []string{"args", "entrypoint", "other"} {
		if huntC14N1Find(ms, "missing input \""+name+"\"") {
			t.Errorf("required input %q is supplied by the step but it is reported as missing: %q", name, ms)
		}
	}
}

// Control + violation: when nothing is supplied all three are reported (so the interface is known),
// which shows the report above does not depend on whether the input was supplied.
func TestHuntC14N1RequiredArgsReportIndependentOfSupply(t *testing.T) {
	files := map[string]string{
		"act/action.yml": huntC14N1RequiredAction,
		"act/index.js":   "",
		".github/workflows/w.yml": `on: push
jobs:
  j:
    runs-on: ubuntu-latest
    steps:
      - uses: ./act
        with:
          other: baz
`,
		".github/workflows/w2.yml": `on: push
jobs:
  j:
    runs-on: ubuntu-latest
    steps:
      - uses: ./act
        with:
          other: baz
          args: foo
`,
	}
	notSupplied := huntC14N1Lint(t, files, ".github/workflows/w.yml")
	if !huntC14N1Find(notSupplied, "missing input \"args\"") {
		t.Fatalf("control failed: missing required input \"args\" should be reported: %q", notSupplied)
	}
	supplied := huntC14N1Lint(t, files, ".github/workflows/w2.yml")
	if huntC14N1Find(supplied, "missing input \"args\"") {
		t.Errorf("input \"args\" is supplied but still reported as missing: %q", supplied)
	}
}

// A local JavaScript action which declares only "other": "args", "entrypoint" and "bogus" are all
// undeclared, so each of them must be reported.
func TestHuntC14N1UndeclaredArgsNotReportedForLocalAction(t *testing.T) {
	ms := huntC14N1Lint(t, map[string]string{
		"act/action.yml": `name: act
description: act
inputs:
  other:
    description: other
runs:
  using: node20
  main: index.js
`,
		"act/index.js": "",
		".github/workflows/w.yml": `on: push
jobs:
  j:
    runs-on: ubuntu-latest
    steps:
      - uses: ./act
        with:
          bogus: x
          args: foo
          entrypoint: bar
`,
	}, ".github/workflows/w.yml")

	if !huntC14N1Find(ms, "input \"bogus\" is not defined") {
		t.Fatalf("control failed: undeclared input \"bogus\" should be reported: %q", ms)
	}
	for _, name := range []string{"args", "entrypoint"} {
		if !huntC14N1Find(ms, "input \""+name+"\" is not defined") {
			t.Errorf("input %q is not declared by the action but it is not reported: %q", name, ms)
		}
	}
}

// Same for an action of the bundled data set: actions/checkout@v4 declares neither "args" nor
// "entrypoint".
func TestHuntC14N1UndeclaredArgsNotReportedForPopularAction(t *testing.T) {
	meta, ok := PopularActions["actions/checkout@v4"]
	if !ok {
		t.Skip("actions/checkout@v4 is not in the data set")
	}
	for _, name := range []string{"args", "entrypoint"} {
		if _, ok := meta.Inputs[name]; ok {
			t.Skipf("actions/checkout@v4 declares %q", name)
		}
	}

	ms := huntC14N1Lint(t, map[string]string{
		".github/workflows/w.yml": `on: push
jobs:
  j:
    runs-on: ubuntu-latest
    steps:
      - uses: actions/checkout@v4
        with:
          bogus: x
          args: foo
          entrypoint: bar
`,
	}, ".github/workflows/w.yml")

	if !huntC14N1Find(ms, "input \"bogus\" is not defined") {
		t.Fatalf("control failed: undeclared input \"bogus\" should be reported: %q", ms)
	}
	for _, name := range []string{"args", "entrypoint"} {
		if !huntC14N1Find(ms, "input \""+name+"\" is not defined") {
			t.Errorf("input %q is not declared by actions/checkout@v4 but it is not reported: %q", name, ms)
		}
	}
}
