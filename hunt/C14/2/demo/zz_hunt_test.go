package actionlint

import (
	"io"
	"os"
	"path/filepath"
	"strings"
	"testing"
)

// Property C14: for a job that calls a local reusable workflow, a declared required input without
// default (or required secret, unless `secrets: inherit`) is reported iff it is not supplied.
//
// The interface of a local reusable workflow is derived in two different ways:
//   - from the YAML file (parseReusableWorkflowMetadata) when the caller is checked first, and
//   - from the parsed workflow (WriteWorkflowCallEvent) when the callee was checked first or is the
//     file being checked.
// For `required: True` / `required: TRUE` (valid YAML 1.2 core schema booleans, accepted by
// actionlint for the callee without any diagnostic) the two derivations disagree, so whether a
// missing required input/secret is reported depends on the order in which files are checked.

const huntC14N2Callee = `on:
  workflow_call:
    inputs:
      name:
        type: string
        required: True
    secrets:
      tok:
        required: TRUE
jobs:
  j:
    runs-on: ubuntu-latest
    steps:
      - run: echo
`

const huntC14N2Caller = `on: push
jobs:
  c:
    uses: ./.github/workflows/callee.yml
`

func huntC14N2Project(t *testing.T, files map[string]string) (*Project, string) {
	t.Helper()
	dir := t.TempDir()
	if err := os.MkdirAll(filepath.Join(dir, ".git"), 0o755); err != nil {
		t.Fatal(err)
	}
	for p, c := range files {
		fp := filepath.Join(dir, filepath.FromSlash(p))
		if err := os.MkdirAll(filepath.Dir(fp), 0o755); err != nil {
			t.Fatal(err)
		}
		if err := os.WriteFile(fp, []byte(c), 0o644); err != nil {
			t.Fatal(err)
		}
	}
	proj, err := NewProject(dir)
	if err != nil {
		t.Fatal(err)
	}
	return proj, dir
}

// Checks the files one after another in the given order with caches shared between the files,
// exactly like Linter.LintFiles does (LintFiles runs them concurrently, so either order happens).
func huntC14N2LintInOrder(t *testing.T, proj *Project, dir string, paths ...string) map[string][]string {
	t.Helper()
	l, err := NewLinter(io.Discard, &LinterOptions{})
	if err != nil {
		t.Fatal(err)
	}
	ac := NewLocalActionsCache(proj, nil)
	rwc := NewLocalReusableWorkflowCache(proj, dir, nil)
	ret := map[string][]string{}
	for _, p := range paths {
		fp := filepath.Join(dir, filepath.FromSlash(p))
		src, err := os.ReadFile(fp)
		if err != nil {
			t.Fatal(err)
		}
		proc := newConcurrentProcess(1)
		errs, err := l.check(fp, src, proj, proc, ac, rwc)
		proc.wait()
		if err != nil {
			t.Fatal(err)
		}
		ms := []string{}
		for _, e := range errs {
			ms = append(ms, e.Message)
		}
		ret[p] = ms
	}
	return ret
}

func huntC14N2Has(ms []string, sub string) bool {
	for _, m := range ms {
		if strings.Contains(m, sub) {
			return true
		}
	}
	return false
}

const (
	huntC14N2CalleePath = ".github/workflows/callee.yml"
	huntC14N2CallerPath = ".github/workflows/caller.yml"
)

// The callee is well-formed as far as actionlint is concerned, and when the caller is checked first
// the missing required input and secret are reported (control). When the callee is checked first,
// they must be reported as well.
func TestHuntC14N2RequiredCapitalTrueCalleeCheckedFirst(t *testing.T) {
	proj, dir := huntC14N2Project(t, map[string]string{
		huntC14N2CalleePath: huntC14N2Callee,
		huntC14N2CallerPath: huntC14N2Caller,
	})

	callerFirst := huntC14N2LintInOrder(t, proj, dir, huntC14N2CallerPath, huntC14N2CalleePath)
	if len(callerFirst[huntC14N2CalleePath]) != 0 {
		t.Fatalf("control failed: callee is expected to be accepted without diagnostics: %q", callerFirst[huntC14N2CalleePath])
	}
	if !huntC14N2Has(callerFirst[huntC14N2CallerPath], `input "name" is required by`) ||
		!huntC14N2Has(callerFirst[huntC14N2CallerPath], `secret "tok" is required by`) {
		t.Fatalf("control failed: missing required input and secret should be reported when the caller is checked first: %q", callerFirst[huntC14N2CallerPath])
	}

	calleeFirst := huntC14N2LintInOrder(t, proj, dir, huntC14N2CalleePath, huntC14N2CallerPath)
	got := calleeFirst[huntC14N2CallerPath]
	if !huntC14N2Has(got, `input "name" is required by`) {
		t.Errorf("required input \"name\" (no default) is not supplied by the call but it is not reported when the callee was checked first: %q", got)
	}
	if !huntC14N2Has(got, `secret "tok" is required by`) {
		t.Errorf("required secret \"tok\" is not supplied by the call (no `secrets: inherit`) but it is not reported when the callee was checked first: %q", got)
	}
}

// The diagnostics for the caller must not depend on the order in which the two files are checked.
func TestHuntC14N2RequiredCapitalTrueOrderIndependent(t *testing.T) {
	proj, dir := huntC14N2Project(t, map[string]string{
		huntC14N2CalleePath: huntC14N2Callee,
		huntC14N2CallerPath: huntC14N2Caller,
	})
	a := huntC14N2LintInOrder(t, proj, dir, huntC14N2CallerPath, huntC14N2CalleePath)[huntC14N2CallerPath]
	b := huntC14N2LintInOrder(t, proj, dir, huntC14N2CalleePath, huntC14N2CallerPath)[huntC14N2CallerPath]
	if strings.Join(a, "\n") != strings.Join(b, "\n") {
		t.Errorf("diagnostics for the same call differ by check order:\ncaller first: %q\ncallee first: %q", a, b)
	}
}

// Same through the public API only: one file checked with Linter.LintFile. The workflow declares
// the interface and another job of the same file calls it without the required input and secret.
// Since the file being checked registers its own interface from the parsed workflow before its jobs
// are visited, the result is deterministic.
func TestHuntC14N2RequiredCapitalTrueSingleFile(t *testing.T) {
	for _, tc := range []struct {
		what string
		src  string
	}{
		{"true", strings.ReplaceAll(strings.ReplaceAll(huntC14N2Callee, "True", "true"), "TRUE", "true")},
		{"True/TRUE", huntC14N2Callee},
	} {
		src := tc.src + "  again:\n    uses: ./.github/workflows/callee.yml\n"
		proj, dir := huntC14N2Project(t, map[string]string{huntC14N2CalleePath: src})
		l, err := NewLinter(io.Discard, &LinterOptions{})
		if err != nil {
			t.Fatal(err)
		}
		errs, err := l.LintFile(filepath.Join(dir, filepath.FromSlash(huntC14N2CalleePath)), proj)
		if err != nil {
			t.Fatal(err)
		}
		ms := []string{}
		for _, e := range errs {
			ms = append(ms, e.Message)
		}
		if !huntC14N2Has(ms, `input "name" is required by`) {
			t.Errorf("required: %s: required input \"name\" is not supplied but not reported: %q", tc.what, ms)
		}
		if !huntC14N2Has(ms, `secret "tok" is required by`) {
			t.Errorf("required: %s: required secret \"tok\" is not supplied but not reported: %q", tc.what, ms)
		}
	}
}
