package actionlint

// C10 hunt, finding 3: "Concurrent linting has no data races" is false when verbose (or debug) logging
// is enabled. Linter.log()/Linter.debug() (and the debug writers handed to the rules, the visitor and
// the caches) write to LinterOptions.LogWriter from every per-file goroutine of LintFiles without any
// synchronization. With a *bytes.Buffer as LogWriter `go test -race` reports
//   WARNING: DATA RACE ... bytes.(*Buffer).Write() <- fmt.Fprint() <- (*Linter).log() linter.go:205
//   <- (*Linter).check() linter.go:538 <- (*Linter).LintFiles.func1()
// This test shows the same thing without the race detector: the writer holds a Write call of one
// goroutine open and observes that another goroutine enters Write meanwhile. (When the calls are
// serialized by the linter nobody can enter and the hold times out.)

import (
	"io"
	"os"
	"path/filepath"
	"strings"
	"sync"
	"sync/atomic"
	"testing"
	"time"
)

type huntN3Writer struct {
	inside     int32
	overlapped int32
	holds      int32
	once       sync.Once
	ch         chan struct{}
}

func (w *huntN3Writer) Write(p []byte) (int, error) {
	if atomic.AddInt32(&w.inside, 1) > 1 {
		atomic.StoreInt32(&w.overlapped, 1)
		w.once.Do(func() { close(w.ch) })
	}
	defer atomic.AddInt32(&w.inside, -1)

	// check() logs "Linting <path>" first for every file. Keep that call open for a while.
	s := string(p)
	if strings.HasPrefix(s, "Linting ") && strings.HasSuffix(s, ".yml\n") && atomic.AddInt32(&w.holds, 1) <= 2 {
		select {
		case <-w.ch:
		case <-time.After(2 * time.Second):
		}
	}
	return len(p), nil
}

func TestHuntC10N3LogWriterIsWrittenConcurrently(t *testing.T) {
	root := t.TempDir()
	wf := "on: push\njobs:\n  j:\n    runs-on: ubuntu-latest\n    steps:\n      - run: echo\n"
	if err := os.MkdirAll(filepath.Join(root, ".git"), 0o755); err != nil {
		t.Fatal(err)
	}
	dir := filepath.Join(root, ".github", "workflows")
	if err := os.MkdirAll(dir, 0o755); err != nil {
		t.Fatal(err)
	}
	files := []string{filepath.Join(dir, "a.yml"), filepath.Join(dir, "b.yml")}
	for _, f := range files {
		if err := os.WriteFile(f, []byte(wf), 0o644); err != nil {
			t.Fatal(err)
		}
	}

	w := &huntN3Writer{ch: make(chan struct{})}
	l, err := NewLinter(io.Discard, &LinterOptions{WorkingDir: root, Verbose: true, LogWriter: w})
	if err != nil {
		t.Fatal(err)
	}
	es, err := l.LintFiles(files, nil)
	if err != nil {
		t.Fatal(err)
	}
	if len(es) != 0 {
		t.Fatalf("unexpected diagnostics: %v", es)
	}
	if atomic.LoadInt32(&w.overlapped) != 0 {
		t.Errorf("LogWriter.Write was entered by a second goroutine while another call was in progress: the linter writes its log from the per-file goroutines without synchronization, which is a data race for any non thread-safe io.Writer such as *bytes.Buffer")
	}
}
