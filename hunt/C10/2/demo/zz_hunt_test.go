package actionlint

// C10 hunt, finding 2: "their own defects are reported once per run" does not hold for all goroutine
// interleavings. LocalActionsCache.FindMetadata does readCache / read+parse file / writeCache without
// holding the lock in between, so two files which use the same (defective) local action and look it
// up at the same time both see a cache miss, both get cached=false and both report the defects of the
// action. Without any forcing it happens in roughly 1 of 6 runs of 8 files on a 16 core machine, so
// the output of the same command differs from run to run.
//
// The interleaving is forced deterministically through the public LogWriter/Debug options: the
// debug message "New metadata parsed from action" is printed between the cache miss and the cache
// write, and the writer below holds the first goroutine there until the second one arrives (or 2s
// pass, which is what happens when lookups are properly serialized).

import (
	"io"
	"os"
	"path/filepath"
	"strings"
	"sync"
	"testing"
	"time"
)

type huntN2Barrier struct {
	mu   sync.Mutex
	n    int
	ch   chan struct{}
	want string
}

func (b *huntN2Barrier) Write(p []byte) (int, error) {
	if strings.Contains(string(p), b.want) {
		b.mu.Lock()
		b.n++
		if b.n == 2 {
			close(b.ch)
		}
		b.mu.Unlock()
		select {
		case <-b.ch:
		case <-time.After(2 * time.Second):
		}
	}
	return len(p), nil
}

func TestHuntC10N2ActionDefectReportedOncePerRun(t *testing.T) {
	root := t.TempDir()
	wf := "on: push\njobs:\n  j:\n    runs-on: ubuntu-latest\n    steps:\n      - uses: ./act\n"
	files := map[string]string{
		".github/workflows/a.yml": wf,
		".github/workflows/b.yml": wf,
		// The only defect of this action: "description" is missing
		"act/action.yml": "name: a\nruns:\n  using: node20\n  main: index.js\n",
		"act/index.js":   "",
	}
	if err := os.MkdirAll(filepath.Join(root, ".git"), 0o755); err != nil {
		t.Fatal(err)
	}
	for p, c := range files {
		f := filepath.Join(root, filepath.FromSlash(p))
		if err := os.MkdirAll(filepath.Dir(f), 0o755); err != nil {
			t.Fatal(err)
		}
		if err := os.WriteFile(f, []byte(c), 0o644); err != nil {
			t.Fatal(err)
		}
	}
	a := filepath.Join(root, ".github", "workflows", "a.yml")
	b := filepath.Join(root, ".github", "workflows", "b.yml")

	// Each file alone reports the defect of the action exactly once
	for _, f := range []string{a, b} {
		l, err := NewLinter(io.Discard, &LinterOptions{WorkingDir: root})
		if err != nil {
			t.Fatal(err)
		}
		es, err := l.LintFile(f, nil)
		if err != nil {
			t.Fatal(err)
		}
		if len(es) != 1 || !strings.Contains(es[0].Message, "description is required in metadata") {
			t.Fatalf("unexpected diagnostics for %s alone: %v", f, es)
		}
	}

	w := &huntN2Barrier{ch: make(chan struct{}), want: "New metadata parsed from action"}
	l, err := NewLinter(io.Discard, &LinterOptions{WorkingDir: root, Debug: true, LogWriter: w})
	if err != nil {
		t.Fatal(err)
	}
	es, err := l.LintFiles([]string{a, b}, nil)
	if err != nil {
		t.Fatal(err)
	}
	n := 0
	for _, e := range es {
		t.Log(e.Error())
		if strings.Contains(e.Message, "description is required in metadata") {
			n++
		}
	}
	if n != 1 {
		t.Errorf("the defect of local action ./act must be reported once per run but it was reported %d times", n)
	}
}
