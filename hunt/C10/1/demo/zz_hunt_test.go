package actionlint

// C10 hunt, finding 1: the interface of a local reusable workflow is derived in two ways which
// disagree for workflows actionlint itself accepts without any diagnostic:
//   - from the file (parseReusableWorkflowMetadata, used when only the caller is linted or when the
//     caller's goroutine reaches the call first), and
//   - from the in-memory AST (WriteWorkflowCallEvent, used when the callee is part of the same run
//     and its goroutine registers the interface first).
// So the diagnostics of the *caller* depend on whether the callee is in the run and on the goroutine
// interleaving, which the property forbids.

import (
	"io"
	"os"
	"path/filepath"
	"strings"
	"sync"
	"testing"
	"time"
)

func huntN1MkRepo(t *testing.T, root string, files map[string]string) {
	t.Helper()
	for _, d := range []string{".git", filepath.Join(".github", "workflows")} {
		if err := os.MkdirAll(filepath.Join(root, d), 0o755); err != nil {
			t.Fatal(err)
		}
	}
	for p, c := range files {
		f := filepath.Join(root, filepath.FromSlash(p))
		if err := os.MkdirAll(filepath.Dir(f), 0o755); err != nil {
			t.Fatal(err)
		}
		if err := os.WriteFile(f, []byte(c), 0o644); err != nil {
			t.Fatal(err)
		}
	}
}

func huntN1Msgs(errs []*Error, file string) []string {
	r := []string{}
	for _, e := range errs {
		if strings.HasSuffix(filepath.ToSlash(e.Filepath), file) {
			r = append(r, e.Error())
		}
	}
	return r
}

// huntN1Gate forces one of the two possible interleavings of the two goroutines of LintFiles through
// the public OnRulesCreated hook. Workflows are recognized by their "name:".
type huntN1Gate struct {
	RuleBase
	front       bool // this instance is the first rule (otherwise the last one)
	calleeFirst bool
	ch          chan struct{}
	once        *sync.Once
}

func (r *huntN1Gate) wait() {
	select {
	case <-r.ch:
	case <-time.After(5 * time.Second):
	}
}

func (r *huntN1Gate) VisitWorkflowPre(w *Workflow) error {
	if w.Name == nil {
		return nil
	}
	n := w.Name.Value
	if r.calleeFirst && !r.front {
		// Last rule: all built-in rules (including workflow-call which registers the interface of the
		// callee) already ran VisitWorkflowPre for this workflow.
		if n == "callee" {
			r.once.Do(func() { close(r.ch) })
		} else if n == "caller" {
			r.wait()
		}
	}
	if !r.calleeFirst && r.front && n == "callee" {
		// First rule: nothing of the callee was visited yet. Wait until the caller was checked.
		r.wait()
	}
	return nil
}

func (r *huntN1Gate) VisitWorkflowPost(w *Workflow) error {
	if !r.calleeFirst && !r.front && w.Name != nil && w.Name.Value == "caller" {
		r.once.Do(func() { close(r.ch) })
	}
	return nil
}

func huntN1Linter(t *testing.T, cwd string, gated, calleeFirst bool) *Linter {
	t.Helper()
	o := &LinterOptions{WorkingDir: cwd}
	if gated {
		ch := make(chan struct{})
		once := &sync.Once{}
		o.OnRulesCreated = func(rs []Rule) []Rule {
			f := &huntN1Gate{RuleBase: RuleBase{name: "hunt-gate-front"}, front: true, calleeFirst: calleeFirst, ch: ch, once: once}
			b := &huntN1Gate{RuleBase: RuleBase{name: "hunt-gate-back"}, front: false, calleeFirst: calleeFirst, ch: ch, once: once}
			ret := append([]Rule{f}, rs...)
			return append(ret, b)
		}
	}
	l, err := NewLinter(io.Discard, o)
	if err != nil {
		t.Fatal(err)
	}
	return l
}

const huntN1Caller = `name: caller
on: push
jobs:
  call:
    uses: ./.github/workflows/callee.yml
`

func huntN1Check(t *testing.T, callee string) {
	t.Helper()
	root := t.TempDir()
	huntN1MkRepo(t, root, map[string]string{
		".github/workflows/callee.yml": callee,
		".github/workflows/caller.yml": huntN1Caller,
	})
	ce := filepath.Join(root, ".github", "workflows", "callee.yml")
	cr := filepath.Join(root, ".github", "workflows", "caller.yml")

	// Precondition of the property: the referenced workflow is well-formed (no diagnostics at all)
	es, err := huntN1Linter(t, root, false, false).LintFile(ce, nil)
	if err != nil {
		t.Fatal(err)
	}
	if len(es) != 0 {
		t.Fatalf("callee is expected to be clean when linted alone but got %q", huntN1Msgs(es, "callee.yml"))
	}

	es, err = huntN1Linter(t, root, false, false).LintFile(cr, nil)
	if err != nil {
		t.Fatal(err)
	}
	alone := huntN1Msgs(es, "caller.yml")
	t.Logf("caller linted alone: %q", alone)

	for _, calleeFirst := range []bool{false, true} {
		for _, order := range [][]string{{ce, cr}, {cr, ce}} {
			es, err := huntN1Linter(t, root, true, calleeFirst).LintFiles(order, nil)
			if err != nil {
				t.Fatal(err)
			}
			got := huntN1Msgs(es, "caller.yml")
			if strings.Join(got, "\n") != strings.Join(alone, "\n") {
				t.Errorf(
					"diagnostics of caller.yml differ from linting it alone (args=[%s %s], callee goroutine registers first=%v):\n  alone:    %q\n  together: %q",
					filepath.Base(order[0]), filepath.Base(order[1]), calleeFirst, alone, got,
				)
			}
		}
	}
}

// `True`/`TRUE` are boolean true in YAML (tag !!bool) and actionlint accepts them silently. The file
// based derivation says the input/secret is required, the AST based one says it is optional.
func TestHuntC10N1CapitalizedTrue(t *testing.T) {
	huntN1Check(t, `name: callee
on:
  workflow_call:
    inputs:
      foo:
        type: string
        required: True
    secrets:
      tok:
        required: TRUE
jobs:
  j:
    runs-on: ubuntu-latest
    steps:
      - run: echo "${{ inputs.foo }}"
`)
}

// actionlint's parser accepts ${{ }} at "required:" silently. The AST based derivation then treats
// the input as optional while the file based one fails ("cannot unmarshal !!str into bool") and makes
// the caller report "error while parsing reusable workflow".
func TestHuntC10N1RequiredIsExpression(t *testing.T) {
	huntN1Check(t, `name: callee
on:
  workflow_call:
    inputs:
      foo:
        type: string
        required: ${{ true }}
jobs:
  j:
    runs-on: ubuntu-latest
    steps:
      - run: echo "${{ inputs.foo }}"
`)
}
