package actionlint

import (
	"io"
	"strings"
	"testing"
)

func huntC11N3Untrusted(t *testing.T, uses string) []string {
	t.Helper()
	src := `on: issues
jobs:
  a:
    runs-on: ubuntu-latest
    steps:
      - uses: ` + uses + `
        with:
          script: console.log("${{ github.event.issue.title }}")
`
	l, err := NewLinter(io.Discard, &LinterOptions{})
	if err != nil {
		t.Fatal(err)
	}
	errs, err := l.Lint("<stdin>", []byte(src), nil)
	if err != nil {
		t.Fatal(err)
	}
	var out []string
	for _, e := range errs {
		if strings.Contains(e.Message, `"github.event.issue.title" is potentially untrusted`) {
			out = append(out, e.Error())
		}
	}
	return out
}

// GitHub resolves owner/repo of `uses:` case-insensitively, so all of these run
// actions/github-script and the script: input is an inline script position.
func TestHuntC11N3GithubScriptLetterCase(t *testing.T) {
	if len(huntC11N3Untrusted(t, "actions/github-script@v7")) != 1 {
		t.Fatal("control: lower-case spelling must be reported")
	}
	for _, uses := range []string{
		"Actions/GitHub-Script@v7",
		"actions/Github-Script@v7",
		"ACTIONS/GITHUB-SCRIPT@v7",
	} {
		if got := huntC11N3Untrusted(t, uses); len(got) != 1 {
			t.Errorf("uses: %s: untrusted input in script: was not reported (got %q)", uses, got)
		}
	}
}
