package actionlint

import (
	"io"
	"strings"
	"testing"
)

func huntC11N2Check(t *testing.T, src string) []string {
	t.Helper()
	p := NewExprParser()
	n, perr := p.Parse(NewExprLexer(src + "}}"))
	if perr != nil {
		t.Fatalf("parse error for %q: %s", src, perr.Error())
	}
	c := NewExprSemanticsChecker(true, nil)
	_, errs := c.Check(n)
	var out []string
	for _, e := range errs {
		if strings.Contains(e.Message, "potentially untrusted") {
			out = append(out, e.Message)
		}
	}
	return out
}

// Property access applied to a parenthesised operator expression reads the untrusted property
// of whichever operand is selected, but nothing is reported.
func TestHuntC11N2DerefOfParenthesizedOperator(t *testing.T) {
	cases := []struct {
		src   string
		paths []string
	}{
		{"(github.event.issue || github.event.pull_request).title", []string{"github.event.issue.title", "github.event.pull_request.title"}},
		{"(github.event.pull_request || github.event.issue)['body']", []string{"github.event.issue.body", "github.event.pull_request.body"}},
		{"(true && github.event.issue).title", []string{"github.event.issue.title"}},
		{"(true && github).event.issue.title", []string{"github.event.issue.title"}},
		{"(true && github.event.commits)[0].message", []string{"github.event.commits.*.message"}},
		{"(true && github.event.commits).*.message", []string{"github.event.commits.*.message"}},
		// control: without an operator inside the parentheses it is detected
		{"(github.event.issue).title", []string{"github.event.issue.title"}},
	}
	for _, tc := range cases {
		msgs := huntC11N2Check(t, tc.src)
		all := strings.Join(msgs, "\n")
		for _, p := range tc.paths {
			if !strings.Contains(all, `"`+p+`"`) {
				t.Errorf("%s: untrusted input %q is read but was not reported. untrusted diagnostics: %q", tc.src, p, msgs)
			}
		}
	}
}

// The same through the whole linter, in a run: script.
func TestHuntC11N2Workflow(t *testing.T) {
	src := `on: [issues, pull_request_target]
jobs:
  a:
    runs-on: ubuntu-latest
    steps:
      - run: echo "${{ (github.event.issue || github.event.pull_request).title }}"
`
	l, err := NewLinter(io.Discard, &LinterOptions{})
	if err != nil {
		t.Fatal(err)
	}
	errs, err := l.Lint("<stdin>", []byte(src), nil)
	if err != nil {
		t.Fatal(err)
	}
	found := false
	var all []string
	for _, e := range errs {
		all = append(all, e.Error())
		if strings.Contains(e.Message, "potentially untrusted") && strings.Contains(e.Message, "title") {
			found = true
		}
	}
	if !found {
		t.Errorf("run: script reads github.event.issue.title / github.event.pull_request.title but no untrusted-input diagnostic was reported. diagnostics: %q", all)
	}
}
