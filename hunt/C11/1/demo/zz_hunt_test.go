package actionlint

import (
	"io"
	"strings"
	"testing"
)

func huntC11N1Lint(t *testing.T, src string) []string {
	t.Helper()
	l, err := NewLinter(io.Discard, &LinterOptions{})
	if err != nil {
		t.Fatal(err)
	}
	errs, err := l.Lint("<stdin>", []byte(src), nil)
	if err != nil {
		t.Fatal(err)
	}
	var out []string
	for _, e := range errs {
		out = append(out, e.Error())
	}
	return out
}

func huntC11N1Reported(msgs []string, path string) bool {
	for _, m := range msgs {
		if strings.Contains(m, `"`+path+`"`) && strings.Contains(m, "potentially untrusted") {
			return true
		}
	}
	return false
}

// Every expression in a run: script that reads an untrusted input must be reported.
// Two ${{ }} expressions in one script, each reading a different untrusted input.
func TestHuntC11N1TwoExpressionsInBlockScript(t *testing.T) {
	src := `on: issues
jobs:
  a:
    runs-on: ubuntu-latest
    steps:
      - run: |
          echo "${{ github.event.issue.title }}"
          echo "${{ github.event.issue.body }}"
`
	msgs := huntC11N1Lint(t, src)
	for _, p := range []string{"github.event.issue.title", "github.event.issue.body"} {
		if !huntC11N1Reported(msgs, p) {
			t.Errorf("expression reading %s in run: script was not reported. diagnostics:\n%s", p, strings.Join(msgs, "\n"))
		}
	}
}

func TestHuntC11N1TwoExpressionsOnOneLine(t *testing.T) {
	src := `on: issues
jobs:
  a:
    runs-on: ubuntu-latest
    steps:
      - run: echo "${{ github.event.issue.title }}" "${{ github.head_ref }}"
`
	msgs := huntC11N1Lint(t, src)
	for _, p := range []string{"github.event.issue.title", "github.head_ref"} {
		if !huntC11N1Reported(msgs, p) {
			t.Errorf("expression reading %s in run: script was not reported. diagnostics:\n%s", p, strings.Join(msgs, "\n"))
		}
	}
}

// Same for the script: input of actions/github-script
func TestHuntC11N1TwoExpressionsInGithubScript(t *testing.T) {
	src := `on: issues
jobs:
  a:
    runs-on: ubuntu-latest
    steps:
      - uses: actions/github-script@v7
        with:
          script: |
            console.log("${{ github.event.issue.title }}")
            console.log("${{ github.event.issue.body }}")
`
	msgs := huntC11N1Lint(t, src)
	for _, p := range []string{"github.event.issue.title", "github.event.issue.body"} {
		if !huntC11N1Reported(msgs, p) {
			t.Errorf("expression reading %s in script: input was not reported. diagnostics:\n%s", p, strings.Join(msgs, "\n"))
		}
	}
}
