package actionlint

import (
	"io"
	"testing"
)

// Property C17: a branches/tags filter is reported iff it violates the glob syntax or the Git
// ref-name character rules. One of the rules actionlint implements is "ref name must not start
// with /". The rule is skipped when the pattern is negated with a leading '!': the filter
// `!/foo` (negation of the ref pattern `/foo`) is silently accepted although `/foo` is reported
// and although every other ref rule (spaces, trailing '/', ...) is applied to negated patterns.

func TestHuntC17N2NegatedLeadingSlashRef(t *testing.T) {
	if errs := ValidateRefGlob("/foo"); len(errs) == 0 {
		t.Fatalf("precondition: %q should be reported as a ref filter", "/foo")
	}
	// Other ref rules are applied behind a leading '!'.
	if errs := ValidateRefGlob("!foo/"); len(errs) == 0 {
		t.Fatalf("precondition: %q should be reported as a ref filter", "!foo/")
	}
	if errs := ValidateRefGlob("!fo o"); len(errs) == 0 {
		t.Fatalf("precondition: %q should be reported as a ref filter", "!fo o")
	}
	for _, pat := range []string{"!/foo", "!/releases/**"} {
		if errs := ValidateRefGlob(pat); len(errs) == 0 {
			t.Errorf("ref filter %q violates the ref-name rule \"must not start with /\" but is not reported", pat)
		}
	}
}

func TestHuntC17N2NegatedLeadingSlashLint(t *testing.T) {
	mk := func(pat string) string {
		return "on:\n  push:\n    branches:\n      - '**'\n      - '" + pat + "'\njobs:\n  a:\n    runs-on: ubuntu-latest\n    steps:\n      - run: echo\n"
	}
	count := func(src string) int {
		l, err := NewLinter(io.Discard, &LinterOptions{})
		if err != nil {
			t.Fatal(err)
		}
		errs, err := l.Lint("test.yaml", []byte(src), nil)
		if err != nil {
			t.Fatal(err)
		}
		n := 0
		for _, e := range errs {
			if e.Kind == "glob" {
				n++
			}
		}
		return n
	}
	if n := count(mk("/foo")); n == 0 {
		t.Fatalf("precondition: branches filter '/foo' should be reported")
	}
	if n := count(mk("!/foo")); n == 0 {
		t.Fatalf("branches filter '!/foo' names a ref starting with '/' but no glob diagnostic is reported")
	}
}
