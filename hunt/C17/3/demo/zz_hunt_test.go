package actionlint

import (
	"io"
	"regexp"
	"strings"
	"testing"
)

// Property C17: "each report's column lies inside the pattern at the offending character (which
// is the character the message names, when it names one)", observed at the glob diagnostics of
// Linter.Lint. rule_glob.go maps the in-pattern column onto the YAML source with
// `pos.Col (+1 if quoted) + column-1`, which is only right when every character of the value is
// written as exactly one source character starting right at the node position. It is wrong for
//   - double-quoted scalars containing an escape sequence (`\\`, `\t`, `\u00e9`, ...),
//   - single-quoted scalars containing `''`,
//   - scalars preceded by an anchor (`&x`) or a tag (`!!str`), whose node position is the
//     position of the anchor/tag.

func huntC17N3GlobDiags(t *testing.T, src string) []*Error {
	t.Helper()
	l, err := NewLinter(io.Discard, &LinterOptions{})
	if err != nil {
		t.Fatal(err)
	}
	errs, err := l.Lint("test.yaml", []byte(src), nil)
	if err != nil {
		t.Fatal(err)
	}
	var globs []*Error
	for _, e := range errs {
		if e.Kind == "glob" {
			globs = append(globs, e)
		}
	}
	return globs
}

func huntC17N3Check(t *testing.T, section, item string, named rune) {
	t.Helper()
	line := "      - " + item
	src := "on:\n  push:\n    " + section + ":\n" + line + "\njobs:\n  a:\n    runs-on: ubuntu-latest\n    steps:\n      - run: echo\n"
	globs := huntC17N3GlobDiags(t, src)
	if len(globs) != 1 {
		t.Fatalf("%s: expected exactly one glob diagnostic, got %v", item, globs)
	}
	e := globs[0]
	m := regexp.MustCompile(`character '(.)'`).FindStringSubmatch(e.Message)
	if m == nil || []rune(m[1])[0] != named {
		t.Fatalf("%s: diagnostic does not name %q: %s", item, named, e.Message)
	}
	rs := []rune(line)
	want := strings.LastIndex(line, string(named)) + 1 // all test lines are ASCII and the named character occurs once
	if e.Line != 4 || e.Column < 1 || e.Column > len(rs) {
		t.Fatalf("%s: diagnostic at %d:%d is outside of the source line", item, e.Line, e.Column)
	}
	if rs[e.Column-1] != named {
		t.Errorf("%s: message names %q (source column %d) but the diagnostic is at column %d, which is %q", item, named, want, e.Column, rs[e.Column-1])
	}
}

// Control: plain and simply quoted scalars are mapped correctly.
func TestHuntC17N3Control(t *testing.T) {
	huntC17N3Check(t, "paths", `a/b*+`, '+')
	huntC17N3Check(t, "paths", `"a/b*+"`, '+')
	huntC17N3Check(t, "branches", `'its~'`, '~')
}

func TestHuntC17N3DoubleQuotedEscape(t *testing.T) {
	// value is `a\b*+` : '+' follows the special character '*'
	huntC17N3Check(t, "paths", `"a\\b*+"`, '+')
}

func TestHuntC17N3SingleQuotedQuote(t *testing.T) {
	// value is `it's~`
	huntC17N3Check(t, "branches", `'it''s~'`, '~')
}

func TestHuntC17N3Anchor(t *testing.T) {
	// value is `ab~`, the node position is the position of the anchor
	huntC17N3Check(t, "branches", `&anc ab~`, '~')
}
