package actionlint

import (
	"io"
	"strings"
	"testing"
)

// Property C17: "each report's column lies inside the pattern at the offending character".
// A path filter ending with a space is reported with Column = len(pat) (a BYTE length), while
// every other column of the validator (and of the YAML positions) counts characters. With a
// non-ASCII character in the pattern the column points past the end of the pattern.

func TestHuntC17N1TrailingSpaceColumnInsidePattern(t *testing.T) {
	for _, pat := range []string{"docs/é ", "ééé ", "日本語/** "} {
		errs := ValidatePathGlob(pat)
		if len(errs) != 1 {
			t.Fatalf("%q: expected exactly one error, got %v", pat, errs)
		}
		rs := []rune(pat)
		col := errs[0].Column
		if col < 1 || col > len(rs) {
			t.Errorf("%q: column %d lies outside of the pattern (pattern has %d characters): %s", pat, col, len(rs), errs[0].Message)
			continue
		}
		if rs[col-1] != ' ' {
			t.Errorf("%q: column %d is %q, not the offending trailing space", pat, col, rs[col-1])
		}
	}
}

func TestHuntC17N1TrailingSpaceColumnLint(t *testing.T) {
	line := "      - 'docs/é '"
	src := "on:\n  push:\n    paths:\n" + line + "\njobs:\n  a:\n    runs-on: ubuntu-latest\n    steps:\n      - run: echo\n"
	l, err := NewLinter(io.Discard, &LinterOptions{})
	if err != nil {
		t.Fatal(err)
	}
	errs, err := l.Lint("test.yaml", []byte(src), nil)
	if err != nil {
		t.Fatal(err)
	}
	var globs []*Error
	for _, e := range errs {
		if e.Kind == "glob" {
			globs = append(globs, e)
		}
	}
	if len(globs) != 1 {
		t.Fatalf("expected one glob diagnostic, got %v", errs)
	}
	e := globs[0]
	rs := []rune(line)
	open := strings.IndexRune(line, '\'') + 1 // 1-based column of the opening quote (ASCII prefix)
	closing := len(rs)                         // 1-based column of the closing quote
	if e.Line != 4 || e.Column <= open || e.Column >= closing {
		t.Fatalf("diagnostic at %d:%d is not inside the pattern (pattern occupies columns %d..%d of line 4): %s", e.Line, e.Column, open+1, closing-1, e.Message)
	}
	if rs[e.Column-1] != ' ' {
		t.Fatalf("diagnostic column %d is at %q, not at the trailing space", e.Column, rs[e.Column-1])
	}
}
