package actionlint

import (
	"io"
	"strings"
	"testing"
)

// Property C19: "... rows or entries built from expressions are never reported."
//
// An `exclude` entry (or a row value) whose text contains a `${{ }}` expression must never lead
// to a matrix diagnostic, wherever in the text the expression sits. Here the expression is
// preceded by a literal `}}` (e.g. the end of some JSON text).

func huntC19N1Lint(t *testing.T, matrix string) []*Error {
	t.Helper()
	var b strings.Builder
	b.WriteString("on: push\njobs:\n  test:\n    runs-on: ubuntu-latest\n    strategy:\n      matrix:\n")
	for _, l := range strings.Split(strings.TrimRight(matrix, "\n"), "\n") {
		b.WriteString("        " + l + "\n")
	}
	b.WriteString("    steps:\n      - run: echo\n")
	l, err := NewLinter(io.Discard, &LinterOptions{})
	if err != nil {
		t.Fatal(err)
	}
	errs, err := l.Lint("test.yaml", []byte(b.String()), nil)
	if err != nil {
		t.Fatal(err)
	}
	return errs
}

func huntC19N1MatrixErrs(errs []*Error) []string {
	var ms []string
	for _, e := range errs {
		if e.Kind == "matrix" {
			ms = append(ms, e.Error())
		}
	}
	return ms
}

func TestHuntC19N1ExcludeEntryBuiltFromExpressionAfterClosingBraces(t *testing.T) {
	// Control: the same entry with the expression NOT preceded by "}}" is (correctly) not reported.
	control := "v: [a]\nexclude:\n  - v: '{\"a\":{\"b\":1}-${{ github.sha }}'\n"
	if ms := huntC19N1MatrixErrs(huntC19N1Lint(t, control)); len(ms) != 0 {
		t.Fatalf("control: exclude entry built from an expression was reported: %v", ms)
	}

	m := "v: [a]\nexclude:\n  - v: '{\"a\":{\"b\":1}}-${{ github.sha }}'\n"
	errs := huntC19N1Lint(t, m)
	for _, e := range errs {
		if e.Kind != "matrix" {
			t.Fatalf("input is expected to be otherwise clean but got: %v", e)
		}
	}
	if ms := huntC19N1MatrixErrs(errs); len(ms) != 0 {
		t.Fatalf("exclude entry built from an expression must never be reported, but got: %v", ms)
	}
}

func TestHuntC19N1RowValueBuiltFromExpressionAfterClosingBraces(t *testing.T) {
	// Control
	control := "v: ['{\"a\":{\"b\":1}-${{ github.sha }}']\nexclude:\n  - v: b\n"
	if ms := huntC19N1MatrixErrs(huntC19N1Lint(t, control)); len(ms) != 0 {
		t.Fatalf("control: exclude against a row built from an expression was reported: %v", ms)
	}

	// The only candidate value of row "v" is built from an expression, so it is statically unknown
	// whether the exclude entry `v: b` matches it. Nothing may be reported.
	m := "v: ['{\"a\":{\"b\":1}}-${{ github.sha }}']\nexclude:\n  - v: b\n"
	if ms := huntC19N1MatrixErrs(huntC19N1Lint(t, m)); len(ms) != 0 {
		t.Fatalf("row is built from an expression so exclude must not be reported, but got: %v", ms)
	}
}
