package actionlint

import (
	"io"
	"strings"
	"testing"
)

// Property C19: "a row value is reported as duplicate iff it is structurally equal to an earlier
// value of the same row ... scalars by equality".
//
// Scalars are compared by their source text only (yaml.Node.Value), so the YAML type of the scalar
// is ignored: the float 3.10 (= 3.1) and the string '3.10' are called duplicates, while two
// spellings of the very same YAML value (null / ~, 3.1 / 3.10, 16 / 0x10) are not.

func huntC19N3Lint(t *testing.T, matrix string) []*Error {
	t.Helper()
	var b strings.Builder
	b.WriteString("on: push\njobs:\n  test:\n    runs-on: ubuntu-latest\n    strategy:\n      matrix:\n")
	for _, l := range strings.Split(strings.TrimRight(matrix, "\n"), "\n") {
		b.WriteString("        " + l + "\n")
	}
	b.WriteString("    steps:\n      - run: echo\n")
	l, err := NewLinter(io.Discard, &LinterOptions{})
	if err != nil {
		t.Fatal(err)
	}
	errs, err := l.Lint("test.yaml", []byte(b.String()), nil)
	if err != nil {
		t.Fatal(err)
	}
	return errs
}

func huntC19N3MatrixErrs(errs []*Error) []string {
	var ms []string
	for _, e := range errs {
		if e.Kind == "matrix" {
			ms = append(ms, e.Error())
		}
	}
	return ms
}

// Not structurally equal (number 3.1 vs string "3.10"; GitHub runs two different jobs), yet reported.
func TestHuntC19N3NumberAndStringReportedAsDuplicate(t *testing.T) {
	for _, m := range []string{
		"python: [3.10, '3.10']\n",
		"v: [true, 'true']\n",
		"v: [{x: [1]}, {x: ['1']}]\n",
	} {
		if ms := huntC19N3MatrixErrs(huntC19N3Lint(t, m)); len(ms) != 0 {
			t.Errorf("matrix %q: values are not structurally equal (different scalar types) but got: %v", m, ms)
		}
	}
}

// Structurally equal (the same YAML value written twice), yet not reported.
func TestHuntC19N3SameScalarValueDifferentSpellingNotReported(t *testing.T) {
	for _, m := range []string{
		"v: [null, ~]\n",
		"v: [3.1, 3.10]\n",
		"v: [16, 0x10]\n",
		"v: [true, True]\n",
	} {
		if ms := huntC19N3MatrixErrs(huntC19N3Lint(t, m)); len(ms) != 1 {
			t.Errorf("matrix %q: second value equals the first one so exactly one duplicate must be reported, but got: %v", m, ms)
		}
	}
}
