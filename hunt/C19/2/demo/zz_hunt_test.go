package actionlint

import (
	"io"
	"strings"
	"testing"
)

// Property C19: "... rows or entries built from expressions are never reported."
// Quantifier: "... any subset replaced by expressions".

func huntC19N2Lint(t *testing.T, matrix string) []*Error {
	t.Helper()
	var b strings.Builder
	b.WriteString("on: push\njobs:\n  test:\n    runs-on: ubuntu-latest\n    strategy:\n      matrix:\n")
	for _, l := range strings.Split(strings.TrimRight(matrix, "\n"), "\n") {
		b.WriteString("        " + l + "\n")
	}
	b.WriteString("    steps:\n      - run: echo\n")
	l, err := NewLinter(io.Discard, &LinterOptions{})
	if err != nil {
		t.Fatal(err)
	}
	errs, err := l.Lint("test.yaml", []byte(b.String()), nil)
	if err != nil {
		t.Fatal(err)
	}
	return errs
}

func huntC19N2MatrixErrs(errs []*Error) []string {
	var ms []string
	for _, e := range errs {
		if e.Kind == "matrix" {
			ms = append(ms, e.Error())
		}
	}
	return ms
}

// Row values built from expressions are reported as duplicates.
func TestHuntC19N2RowValuesBuiltFromExpressionsReportedAsDuplicate(t *testing.T) {
	for _, m := range []string{
		"v: ['${{ github.sha }}', '${{ github.sha }}']\n",
		"v: [{a: '${{ github.sha }}'}, {a: '${{ github.sha }}'}]\n",
		"v: [['${{ github.sha }}'], ['${{ github.sha }}']]\n",
	} {
		if ms := huntC19N2MatrixErrs(huntC19N2Lint(t, m)); len(ms) != 0 {
			t.Errorf("matrix %q: row values built from expressions must never be reported, but got: %v", m, ms)
		}
	}
}

// An exclude entry one member of which is built from an expression is reported.
func TestHuntC19N2ExcludeEntryWithExpressionMemberReported(t *testing.T) {
	m := "v: [{a: 1}]\nexclude:\n  - v: {a: 1, b: '${{ github.sha }}'}\n"
	if ms := huntC19N2MatrixErrs(huntC19N2Lint(t, m)); len(ms) != 0 {
		t.Errorf("exclude entry built from an expression must never be reported, but got: %v", ms)
	}
}
