package actionlint

import (
	"fmt"
	"io"
	"strings"
	"testing"
)

// Property C07: for a diagnostic about a ${{ }} expression in a scalar written on one line (plain,
// single or double quoted, ASCII, no escapes) the reported line:column is exactly the position of
// the offending token, for any placement, block or flow style.
//
// Violation: values of matrix rows and of matrix include/exclude combinations are checked with
// quoted=false regardless of their quoting style, so for a single or double quoted matrix value the
// reported column is one less than the column of the offending token (it points at the space
// before the token, or at the `{` of `${{`).

func huntC07N2Lint(t *testing.T, src string) []*Error {
	t.Helper()
	l, err := NewLinter(io.Discard, &LinterOptions{})
	if err != nil {
		t.Fatal(err)
	}
	errs, err := l.Lint("test.yaml", []byte(src), nil)
	if err != nil {
		t.Fatal(err)
	}
	return errs
}

func huntC07N2Check(t *testing.T, src string, tokens ...string) {
	t.Helper()
	lines := strings.Split(src, "\n")
	errs := huntC07N2Lint(t, src)
	for _, token := range tokens {
		wantLine, wantCol := 0, 0
		for i, l := range lines {
			if idx := strings.Index(l, token); idx >= 0 {
				wantLine, wantCol = i+1, idx+1
				break
			}
		}
		if wantLine == 0 {
			t.Fatalf("token %q not in source", token)
		}
		msg := fmt.Sprintf("undefined variable %q", token)
		var found []*Error
		for _, e := range errs {
			if strings.Contains(e.Message, msg) {
				found = append(found, e)
			}
		}
		if len(found) != 1 {
			t.Fatalf("wanted exactly one diagnostic containing %q but got %d: %v", msg, len(found), errs)
		}
		e := found[0]
		if e.Line != wantLine || e.Column != wantCol {
			t.Errorf("undefined variable %q reported at %d:%d but the token is at %d:%d in line %q", token, e.Line, e.Column, wantLine, wantCol, lines[wantLine-1])
		}
	}
}

const huntC07N2Tail = "    steps:\n      - run: echo\n"

// Sanity: plain matrix values are positioned exactly (passes).
func TestHuntC07N2BaselinePlainMatrixValue(t *testing.T) {
	src := "on: push\njobs:\n  a:\n    runs-on: ubuntu-latest\n    strategy:\n      matrix:\n        x:\n          - ${{ bada }}\n" + huntC07N2Tail
	huntC07N2Check(t, src, "bada")
}

// Sanity: quoted values anywhere else are positioned exactly (passes).
func TestHuntC07N2BaselineQuotedEnvValue(t *testing.T) {
	src := "on: push\njobs:\n  a:\n    runs-on: ubuntu-latest\n    env:\n      X: '${{ bada }}'\n      Y: \"${{ badb }}\"\n" + huntC07N2Tail
	huntC07N2Check(t, src, "bada", "badb")
}

func TestHuntC07N2SingleQuotedMatrixRowFlow(t *testing.T) {
	src := "on: push\njobs:\n  a:\n    runs-on: ubuntu-latest\n    strategy:\n      matrix:\n        x: ['${{ bada }}', 'xx ${{ badb }}']\n" + huntC07N2Tail
	huntC07N2Check(t, src, "bada", "badb")
}

func TestHuntC07N2DoubleQuotedMatrixRowBlock(t *testing.T) {
	src := "on: push\njobs:\n  a:\n    runs-on: ubuntu-latest\n    strategy:\n      matrix:\n        x:\n          - \"${{ bada }}\"\n          - \"v${{ github.sha }}-${{ badb }}\"\n" + huntC07N2Tail
	huntC07N2Check(t, src, "bada", "badb")
}

func TestHuntC07N2QuotedMatrixIncludeExclude(t *testing.T) {
	src := "on: push\njobs:\n  a:\n    runs-on: ubuntu-latest\n    strategy:\n      matrix:\n        x: [1, 2]\n        include:\n          - x: '${{ bada }}'\n        exclude:\n          - x: \"${{ badb }}\"\n" + huntC07N2Tail
	huntC07N2Check(t, src, "bada", "badb")
}
