package actionlint

import (
	"io"
	"strings"
	"testing"
)

// Property C07: the reported line:column of a diagnostic about a ${{ }} expression, a mapping key
// or a one-line plain/quoted ASCII scalar is exactly the position of the offending token, key or
// value in the source; inserting k characters before it on its line moves the report by exactly k.
//
// Violation: when the scalar carries a YAML node property (an anchor `&x` or a tag `!!str`), the
// YAML library reports the node position at the anchor/tag, not at the scalar text. All column
// arithmetic in actionlint starts from that position, so every report is short by the length of
// the anchor/tag plus the following space.

func huntC07N1Lint(t *testing.T, src string) []*Error {
	t.Helper()
	l, err := NewLinter(io.Discard, &LinterOptions{})
	if err != nil {
		t.Fatal(err)
	}
	errs, err := l.Lint("test.yaml", []byte(src), nil)
	if err != nil {
		t.Fatal(err)
	}
	return errs
}

// huntC07N1Check lints src, finds the single diagnostic whose message contains msgPart and checks
// that it is reported at the position of the first occurrence of token in src.
func huntC07N1Check(t *testing.T, src, msgPart, token string) {
	t.Helper()
	wantLine, wantCol := 0, 0
	for i, l := range strings.Split(src, "\n") {
		if idx := strings.Index(l, token); idx >= 0 {
			wantLine, wantCol = i+1, idx+1
			break
		}
	}
	if wantLine == 0 {
		t.Fatalf("token %q not in source", token)
	}
	var found []*Error
	for _, e := range huntC07N1Lint(t, src) {
		if strings.Contains(e.Message, msgPart) {
			found = append(found, e)
		}
	}
	if len(found) != 1 {
		t.Fatalf("wanted exactly one diagnostic containing %q but got %d: %v", msgPart, len(found), found)
	}
	e := found[0]
	if e.Line != wantLine || e.Column != wantCol {
		t.Errorf("diagnostic %q reported at %d:%d but offending token %q is at %d:%d in\n%s", e.Message, e.Line, e.Column, token, wantLine, wantCol, src)
	}
}

const huntC07N1Head = "on: push\njobs:\n  a:\n    runs-on: ubuntu-latest\n    steps:\n"

// Sanity: without the anchor the position is exact (this one passes).
func TestHuntC07N1BaselineNoAnchor(t *testing.T) {
	huntC07N1Check(t, huntC07N1Head+"      - run: echo ${{ bad }}\n", `undefined variable "bad"`, "bad")
}

func TestHuntC07N1AnchoredPlainScalarExpr(t *testing.T) {
	huntC07N1Check(t, huntC07N1Head+"      - run: &x echo ${{ bad }}\n", `undefined variable "bad"`, "bad")
}

func TestHuntC07N1AnchoredQuotedScalarExpr(t *testing.T) {
	huntC07N1Check(t, huntC07N1Head+"      - run: &x \"echo ${{ bad }}\"\n", `undefined variable "bad"`, "bad")
}

func TestHuntC07N1TaggedPlainScalarExpr(t *testing.T) {
	huntC07N1Check(t, huntC07N1Head+"      - run: !!str echo ${{ bad }}\n", `undefined variable "bad"`, "bad")
}

func TestHuntC07N1AnchoredIfCondition(t *testing.T) {
	src := "on: push\njobs:\n  a:\n    runs-on: ubuntu-latest\n    if: &c bad\n    steps:\n      - run: echo\n"
	huntC07N1Check(t, src, `undefined variable "bad"`, "bad")
}

func TestHuntC07N1AnchoredGlobCharacter(t *testing.T) {
	// The offending glob character is the space between 'a' and 'b'
	src := "on:\n  push:\n    branches: [ &br 'a b' ]\njobs:\n  a:\n    runs-on: ubuntu-latest\n    steps:\n      - run: echo\n"
	huntC07N1Check(t, src, "is invalid for branch and tag names", " b'")
}

func TestHuntC07N1AnchoredMappingKey(t *testing.T) {
	huntC07N1Check(t, huntC07N1Head+"      - run: echo\n        &k foo: bar\n", `unexpected key "foo"`, "foo")
}

func TestHuntC07N1AnchoredScalarValue(t *testing.T) {
	huntC07N1Check(t, huntC07N1Head+"      - run: echo\n        shell: &s fish\n", `shell name "fish" is invalid`, "fish")
}

// Shift invariance: inserting the 3 characters "&x " before the scalar on its line must move the
// report by exactly 3.
func TestHuntC07N1ShiftByInsertedAnchor(t *testing.T) {
	col := func(src string) int {
		for _, e := range huntC07N1Lint(t, src) {
			if strings.Contains(e.Message, `undefined variable "bad"`) {
				return e.Column
			}
		}
		t.Fatalf("no diagnostic for %q", src)
		return 0
	}
	before := col(huntC07N1Head + "      - run: echo ${{ bad }}\n")
	after := col(huntC07N1Head + "      - run: &x echo ${{ bad }}\n")
	if after-before != 3 {
		t.Errorf("inserting 3 characters before the scalar moved the report by %d (from column %d to %d), want 3", after-before, before, after)
	}
}
