package actionlint

import (
	"io"
	"strings"
	"testing"
)

// Property C07, first clause: every diagnostic other than a YAML-level syntax error carries a line
// between 1 and the number of lines of the file and a column of at least 1.
//
// Violation: a file that consists only of a document start marker `---` (a valid YAML stream with
// an empty document) is accepted by the YAML parser; actionlint's own parser then reports
// "workflow should not be empty" at the position the YAML library gives to the implicit empty
// scalar, which is the position of the end of the stream: one line past the last line of the file.

func huntC07N3Lint(t *testing.T, src string) []*Error {
	t.Helper()
	l, err := NewLinter(io.Discard, &LinterOptions{})
	if err != nil {
		t.Fatal(err)
	}
	errs, err := l.Lint("test.yaml", []byte(src), nil)
	if err != nil {
		t.Fatal(err)
	}
	return errs
}

// Number of lines of a file: number of newline-terminated lines plus one for a final line that is
// not terminated by a newline.
func huntC07N3NumLines(src string) int {
	n := strings.Count(src, "\n")
	if src != "" && !strings.HasSuffix(src, "\n") {
		n++
	}
	return n
}

func huntC07N3Check(t *testing.T, src string) {
	t.Helper()
	n := huntC07N3NumLines(src)
	errs := huntC07N3Lint(t, src)
	if len(errs) == 0 {
		t.Fatalf("no diagnostics for %q", src)
	}
	for _, e := range errs {
		if strings.HasPrefix(e.Message, "could not parse as YAML") {
			continue // YAML-level syntax errors are excluded by the property
		}
		if e.Line < 1 || e.Line > n || e.Column < 1 {
			t.Errorf("source %q has %d line(s) but diagnostic %q is reported at %d:%d", src, n, e.Message, e.Line, e.Column)
		}
	}
}

// Sanity: an ordinary one-line file keeps its diagnostics in range (passes).
func TestHuntC07N3BaselineOneLineFile(t *testing.T) {
	huntC07N3Check(t, "on: push")
	huntC07N3Check(t, "on: push\n")
}

func TestHuntC07N3DocumentStartOnlyNoNewline(t *testing.T) {
	huntC07N3Check(t, "---")
}

func TestHuntC07N3DocumentStartOnlyWithNewline(t *testing.T) {
	huntC07N3Check(t, "---\n")
}

func TestHuntC07N3DocumentStartWithComment(t *testing.T) {
	huntC07N3Check(t, "# my workflow\n--- # nothing here yet\n")
}
