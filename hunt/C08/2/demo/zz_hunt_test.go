package actionlint

import (
	"fmt"
	"io"
	"sort"
	"strings"
	"testing"
)

func huntC08N2Lint(t *testing.T, src string) []string {
	t.Helper()
	l, err := NewLinter(io.Discard, &LinterOptions{})
	if err != nil {
		t.Fatal(err)
	}
	errs, err := l.Lint("<stdin>", []byte(src), nil)
	if err != nil {
		t.Fatal(err)
	}
	ret := []string{}
	for _, e := range errs {
		ret = append(ret, fmt.Sprintf("%d:%d:%s:%s", e.Line, e.Column, e.Kind, strings.ToLower(e.Message)))
	}
	sort.Strings(ret)
	return ret
}

const huntC08N2Workflow = `on: push
jobs:
  test:
    runs-on: ubuntu-latest
    steps:
      - run: echo ${{ fromJSON('{"%s":1,"%s":{"x":1}}').a.y }}
`

// The JSON literal passed to fromJSON() contains the key `a` twice. Since keys of the object are
// matched case-insensitively, `{"a":..., "a":...}`, `{"a":..., "A":...}` and `{"A":..., "a":...}`
// define the same name twice. Changing the letter case of one of the two occurrences must not
// change which diagnostics are reported.
func TestHuntC08N2FromJSONDuplicateKeyCase(t *testing.T) {
	base := huntC08N2Lint(t, fmt.Sprintf(huntC08N2Workflow, "a", "a"))

	for _, v := range [][2]string{
		{"a", "A"},
		{"A", "a"},
	} {
		got := huntC08N2Lint(t, fmt.Sprintf(huntC08N2Workflow, v[0], v[1]))
		if strings.Join(base, "\n") != strings.Join(got, "\n") {
			t.Errorf(
				"diagnostics changed by changing letter case of a key in the JSON literal (keys %q and %q instead of \"a\" and \"a\")\nsame case:\n  %s\ncase variant:\n  %s",
				v[0], v[1],
				strings.Join(base, "\n  "),
				strings.Join(got, "\n  "),
			)
		}
	}
}
