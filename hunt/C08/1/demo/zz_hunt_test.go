package actionlint

import (
	"fmt"
	"io"
	"sort"
	"strings"
	"testing"
)

// Lints the workflow and returns the diagnostics as sorted "line:col:kind:message" strings where
// the message is lower-cased (the property allows the spelling echoed in messages to differ).
func huntC08N1Lint(t *testing.T, src string) []string {
	t.Helper()
	l, err := NewLinter(io.Discard, &LinterOptions{})
	if err != nil {
		t.Fatal(err)
	}
	errs, err := l.Lint("<stdin>", []byte(src), nil)
	if err != nil {
		t.Fatal(err)
	}
	ret := []string{}
	for _, e := range errs {
		ret = append(ret, fmt.Sprintf("%d:%d:%s:%s", e.Line, e.Column, e.Kind, strings.ToLower(e.Message)))
	}
	sort.Strings(ret)
	return ret
}

const huntC08N1Workflow = `on: push
jobs:
  %s:
    needs: [%s]
    runs-on: ubuntu-latest
    steps:
      - run: echo ${{ needs.%s.result }}
`

// A job which lists itself in `needs:`. The job ID is spelled at three places: the key under
// `jobs:` (definition), the `needs:` list and the `needs.<id>` property access. Changing the letter
// case of any of them must not change which diagnostics are reported.
func TestHuntC08N1SelfNeedsJobIDCase(t *testing.T) {
	base := huntC08N1Lint(t, fmt.Sprintf(huntC08N1Workflow, "foo", "foo", "foo"))

	for _, v := range [][3]string{
		{"FOO", "foo", "foo"}, // only the definition is changed
		{"Foo", "foo", "foo"},
		{"FOO", "FOO", "FOO"}, // all occurrences are changed
		{"foo", "FOO", "foo"}, // only the needs: entry is changed
		{"foo", "foo", "FOO"}, // only the use in the expression is changed
	} {
		got := huntC08N1Lint(t, fmt.Sprintf(huntC08N1Workflow, v[0], v[1], v[2]))
		if strings.Join(base, "\n") != strings.Join(got, "\n") {
			t.Errorf(
				"diagnostics changed by changing letter case of the job ID (definition=%q, needs=%q, expression=%q)\nall lower case:\n  %s\ncase variant:\n  %s",
				v[0], v[1], v[2],
				strings.Join(base, "\n  "),
				strings.Join(got, "\n  "),
			)
		}
	}
}
