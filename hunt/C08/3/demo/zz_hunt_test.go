package actionlint

import (
	"fmt"
	"io"
	"sort"
	"strings"
	"testing"
)

func huntC08N3Lint(t *testing.T, src string) []string {
	t.Helper()
	l, err := NewLinter(io.Discard, &LinterOptions{})
	if err != nil {
		t.Fatal(err)
	}
	errs, err := l.Lint("<stdin>", []byte(src), nil)
	if err != nil {
		t.Fatal(err)
	}
	ret := []string{}
	for _, e := range errs {
		ret = append(ret, fmt.Sprintf("%d:%d:%s:%s", e.Line, e.Column, e.Kind, strings.ToLower(e.Message)))
	}
	sort.Strings(ret)
	return ret
}

const huntC08N3Workflow = `on: push
jobs:
  test:
    strategy:
      matrix:
        "%s": [1, 2]
    runs-on: ubuntu-latest
    steps:
      - run: echo ${{ matrix['%s'] }}
`

// Matrix keys are arbitrary strings and can be accessed with the index syntax. The Greek word
// "ΟΔΟΣ" (upper case) is written "οδος" in lower case (with the final sigma U+03C2, whose upper
// case is U+03A3 Σ). Both are letter case variants of the same name, as well as "οδοσ".
func TestHuntC08N3NonASCIICaseVariantOfMatrixKey(t *testing.T) {
	if strings.ToUpper("οδος") != "ΟΔΟΣ" || strings.ToUpper("οδοσ") != "ΟΔΟΣ" {
		t.Fatal("precondition: the spellings are not case variants of each other")
	}

	base := huntC08N3Lint(t, fmt.Sprintf(huntC08N3Workflow, "ΟΔΟΣ", "ΟΔΟΣ"))

	for _, v := range [][2]string{
		{"ΟΔΟΣ", "οδοσ"},
		{"ΟΔΟΣ", "οδος"}, // lower case spelling of the use
		{"οδος", "ΟΔΟΣ"}, // lower case spelling of the definition
	} {
		got := huntC08N3Lint(t, fmt.Sprintf(huntC08N3Workflow, v[0], v[1]))
		if strings.Join(base, "\n") != strings.Join(got, "\n") {
			t.Errorf(
				"diagnostics changed by changing letter case of the matrix key (definition=%q, use=%q)\nupper case at both:\n  %s\ncase variant:\n  %s",
				v[0], v[1],
				strings.Join(base, "\n  "),
				strings.Join(got, "\n  "),
			)
		}
	}
}
