package actionlint

import (
	"fmt"
	"io"
	"regexp"
	"sort"
	"strings"
	"testing"
)

// Property C09: diagnostics reported for a job depend only on that job, the workflow header and the
// jobs it needs. Adding an unrelated job never changes them apart from line offsets, and no error in
// one job hides diagnostics in another.
//
// Jobs "b" and "c" need each other (cyclic dependency). Job "a" is unrelated to them: it is not in
// their "needs" and they are not in its "needs". Job "a" only has its own mistake (it needs a job
// which does not exist). Adding job "a" makes the cyclic dependency diagnostic of "b"/"c" disappear.

var huntC09N1LineRe = regexp.MustCompile(`line:\d+`)

func huntC09N1Lint(t *testing.T, src string) []*Error {
	t.Helper()
	l, err := NewLinter(io.Discard, &LinterOptions{})
	if err != nil {
		t.Fatal(err)
	}
	errs, err := l.Lint("<stdin>", []byte(src), nil)
	if err != nil {
		t.Fatal(err)
	}
	return errs
}

// Diagnostics located in lines [from, to) as (relative line, column, kind, message) sorted.
func huntC09N1DiagsIn(errs []*Error, from, to int) []string {
	r := []string{}
	for _, e := range errs {
		if from <= e.Line && e.Line < to {
			msg := huntC09N1LineRe.ReplaceAllStringFunc(e.Message, func(m string) string {
				var n int
				fmt.Sscanf(m, "line:%d", &n)
				return fmt.Sprintf("line:+%d", n-from)
			})
			r = append(r, fmt.Sprintf("+%d:%d [%s] %s", e.Line-from, e.Column, e.Kind, msg))
		}
	}
	sort.Strings(r)
	return r
}

const huntC09N1Header = "on: push\njobs:\n"

const huntC09N1Cyclic = `  b:
    needs: [c]
    runs-on: ubuntu-latest
    steps:
      - run: echo b
  c:
    needs: [b]
    runs-on: ubuntu-latest
    steps:
      - run: echo c
`

const huntC09N1Unrelated = `  a:
    needs: [nothing]
    runs-on: ubuntu-latest
    steps:
      - run: echo a
`

func TestHuntC09N1UnrelatedJobAfterHidesCycle(t *testing.T) {
	n := strings.Count(huntC09N1Cyclic, "\n")
	first := 3 // line of job "b"

	alone := huntC09N1DiagsIn(huntC09N1Lint(t, huntC09N1Header+huntC09N1Cyclic), first, first+n)
	if len(alone) == 0 {
		t.Fatal("cyclic dependency between b and c is expected to be reported when they are linted alone")
	}

	// Unrelated job is appended. Lines of b and c are not even shifted.
	composed := huntC09N1DiagsIn(huntC09N1Lint(t, huntC09N1Header+huntC09N1Cyclic+huntC09N1Unrelated), first, first+n)

	if strings.Join(alone, "\n") != strings.Join(composed, "\n") {
		t.Fatalf("diagnostics of jobs b and c changed by appending unrelated job a.\nwithout a:\n%s\nwith a:\n%s", strings.Join(alone, "\n"), strings.Join(composed, "\n"))
	}
}

func TestHuntC09N1UnrelatedJobBeforeHidesCycle(t *testing.T) {
	n := strings.Count(huntC09N1Cyclic, "\n")
	off := strings.Count(huntC09N1Unrelated, "\n")

	alone := huntC09N1DiagsIn(huntC09N1Lint(t, huntC09N1Header+huntC09N1Cyclic), 3, 3+n)
	composed := huntC09N1DiagsIn(huntC09N1Lint(t, huntC09N1Header+huntC09N1Unrelated+huntC09N1Cyclic), 3+off, 3+off+n)

	if strings.Join(alone, "\n") != strings.Join(composed, "\n") {
		t.Fatalf("diagnostics of jobs b and c changed by prepending unrelated job a.\nwithout a:\n%s\nwith a:\n%s", strings.Join(alone, "\n"), strings.Join(composed, "\n"))
	}
}
