package actionlint

import (
	"fmt"
	"io"
	"os"
	"path/filepath"
	"sort"
	"strings"
	"testing"
)

// Property C09: diagnostics reported for a job depend only on that job, the workflow header and the
// jobs it needs; those for a step only on the step, the ids of earlier steps and its job. Adding,
// removing or reordering unrelated jobs or steps never changes them apart from line offsets, and no
// error in one job hides diagnostics in another.
//
// Two jobs (or two steps) which have nothing to do with each other use the same local action (or
// call the same local reusable workflow) whose metadata is broken. Only the first one visited gets
// the diagnostics; the later one gets them only when the earlier job/step is removed.

func huntC09N3Project(t *testing.T) *Project {
	t.Helper()
	dir := t.TempDir()
	write := func(rel, content string) {
		p := filepath.Join(dir, filepath.FromSlash(rel))
		if err := os.MkdirAll(filepath.Dir(p), 0o755); err != nil {
			t.Fatal(err)
		}
		if err := os.WriteFile(p, []byte(content), 0o644); err != nil {
			t.Fatal(err)
		}
	}
	if err := os.MkdirAll(filepath.Join(dir, ".github", "workflows"), 0o755); err != nil {
		t.Fatal(err)
	}
	// Metadata which cannot be parsed
	write("broken/action.yml", "name: [\n")
	// Metadata which can be parsed but has mistakes (no description, outdated runner, missing file)
	write("nodesc/action.yml", "name: x\nruns:\n  using: node12\n  main: index.js\n")
	proj, err := NewProject(dir)
	if err != nil {
		t.Fatal(err)
	}
	return proj
}

func huntC09N3Lint(t *testing.T, proj *Project, src string) []*Error {
	t.Helper()
	l, err := NewLinter(io.Discard, &LinterOptions{})
	if err != nil {
		t.Fatal(err)
	}
	// Note: Linter.Lint creates fresh caches on every call so the two calls in a test do not affect each other
	errs, err := l.Lint("test.yaml", []byte(src), proj)
	if err != nil {
		t.Fatal(err)
	}
	return errs
}

// Diagnostics located in lines [from, to) as (relative line, column, kind, message) sorted.
func huntC09N3DiagsIn(errs []*Error, from, to int) []string {
	r := []string{}
	for _, e := range errs {
		if from <= e.Line && e.Line < to {
			r = append(r, fmt.Sprintf("+%d:%d [%s] %s", e.Line-from, e.Column, e.Kind, e.Message))
		}
	}
	sort.Strings(r)
	return r
}

const huntC09N3Header = "on: push\njobs:\n"

func huntC09N3Job(id, uses string) string {
	return fmt.Sprintf("  %s:\n    runs-on: ubuntu-latest\n    steps:\n      - uses: %s\n", id, uses)
}

func huntC09N3CheckJobs(t *testing.T, jobA, jobB string) {
	t.Helper()
	proj := huntC09N3Project(t)
	n := strings.Count(jobB, "\n")
	off := strings.Count(jobA, "\n")

	alone := huntC09N3DiagsIn(huntC09N3Lint(t, proj, huntC09N3Header+jobB), 3, 3+n)
	if len(alone) == 0 {
		t.Fatal("job b is expected to have some diagnostics when it is linted alone")
	}
	composed := huntC09N3DiagsIn(huntC09N3Lint(t, proj, huntC09N3Header+jobA+jobB), 3+off, 3+off+n)

	if strings.Join(alone, "\n") != strings.Join(composed, "\n") {
		t.Fatalf("diagnostics of job b changed by adding unrelated job a before it.\nwithout a:\n%s\nwith a:\n%s", strings.Join(alone, "\n"), strings.Join(composed, "\n"))
	}
}

func TestHuntC09N3UnparsableLocalActionInTwoJobs(t *testing.T) {
	huntC09N3CheckJobs(t, huntC09N3Job("a", "./broken"), huntC09N3Job("b", "./broken"))
}

func TestHuntC09N3InvalidLocalActionMetadataInTwoJobs(t *testing.T) {
	huntC09N3CheckJobs(t, huntC09N3Job("a", "./nodesc"), huntC09N3Job("b", "./nodesc"))
}

func TestHuntC09N3MissingReusableWorkflowInTwoJobs(t *testing.T) {
	call := func(id string) string {
		return fmt.Sprintf("  %s:\n    uses: ./.github/workflows/missing.yml\n", id)
	}
	huntC09N3CheckJobs(t, call("a"), call("b"))
}

func TestHuntC09N3InvalidLocalActionMetadataInTwoSteps(t *testing.T) {
	proj := huntC09N3Project(t)
	pre := huntC09N3Header + "  j:\n    runs-on: ubuntu-latest\n    steps:\n"
	step1 := "      - name: first\n        uses: ./nodesc\n"
	step2 := "      - name: second\n        uses: ./nodesc\n"
	base := strings.Count(pre, "\n") + 1

	alone := huntC09N3DiagsIn(huntC09N3Lint(t, proj, pre+step2), base, base+2)
	if len(alone) == 0 {
		t.Fatal("the step is expected to have some diagnostics when it is the only step")
	}
	composed := huntC09N3DiagsIn(huntC09N3Lint(t, proj, pre+step1+step2), base+2, base+4)

	if strings.Join(alone, "\n") != strings.Join(composed, "\n") {
		t.Fatalf("diagnostics of the second step changed by adding an unrelated step (no id) before it.\nwithout the first step:\n%s\nwith the first step:\n%s", strings.Join(alone, "\n"), strings.Join(composed, "\n"))
	}
}
