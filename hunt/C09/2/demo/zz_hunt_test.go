package actionlint

import (
	"fmt"
	"io"
	"regexp"
	"sort"
	"strings"
	"testing"
)

// Property C09: diagnostics reported for a job depend only on that job, the workflow header and the
// jobs it needs. Adding or removing unrelated jobs never changes them apart from line offsets, and no
// error in one job hides diagnostics in another.
//
// Jobs "d" and "e" need each other (cyclic dependency). Jobs "b" and "c" are unrelated to them (no
// "needs" edge in either direction) and have their own cyclic dependency. When "b"/"c" are put in
// the same workflow, the cyclic dependency of "d"/"e" is no longer reported.

var huntC09N2LineRe = regexp.MustCompile(`line:\d+`)

func huntC09N2Lint(t *testing.T, src string) []*Error {
	t.Helper()
	l, err := NewLinter(io.Discard, &LinterOptions{})
	if err != nil {
		t.Fatal(err)
	}
	errs, err := l.Lint("<stdin>", []byte(src), nil)
	if err != nil {
		t.Fatal(err)
	}
	return errs
}

// Diagnostics located in lines [from, to) as (relative line, column, kind, message) sorted.
func huntC09N2DiagsIn(errs []*Error, from, to int) []string {
	r := []string{}
	for _, e := range errs {
		if from <= e.Line && e.Line < to {
			msg := huntC09N2LineRe.ReplaceAllStringFunc(e.Message, func(m string) string {
				var n int
				fmt.Sscanf(m, "line:%d", &n)
				return fmt.Sprintf("line:+%d", n-from)
			})
			r = append(r, fmt.Sprintf("+%d:%d [%s] %s", e.Line-from, e.Column, e.Kind, msg))
		}
	}
	sort.Strings(r)
	return r
}

const huntC09N2Header = "on: push\njobs:\n"

const huntC09N2CycleBC = `  b:
    needs: [c]
    runs-on: ubuntu-latest
    steps:
      - run: echo b
  c:
    needs: [b]
    runs-on: ubuntu-latest
    steps:
      - run: echo c
`

const huntC09N2CycleDE = `  d:
    needs: [e]
    runs-on: ubuntu-latest
    steps:
      - run: echo d
  e:
    needs: [d]
    runs-on: ubuntu-latest
    steps:
      - run: echo e
`

func TestHuntC09N2SecondCycleHiddenByUnrelatedCycle(t *testing.T) {
	n := strings.Count(huntC09N2CycleDE, "\n")
	off := strings.Count(huntC09N2CycleBC, "\n")

	alone := huntC09N2DiagsIn(huntC09N2Lint(t, huntC09N2Header+huntC09N2CycleDE), 3, 3+n)
	if len(alone) == 0 {
		t.Fatal("cyclic dependency between d and e is expected to be reported when they are linted alone")
	}

	composed := huntC09N2DiagsIn(huntC09N2Lint(t, huntC09N2Header+huntC09N2CycleBC+huntC09N2CycleDE), 3+off, 3+off+n)

	if strings.Join(alone, "\n") != strings.Join(composed, "\n") {
		t.Fatalf("diagnostics of jobs d and e changed by adding unrelated jobs b and c before them.\nwithout b,c:\n%s\nwith b,c:\n%s", strings.Join(alone, "\n"), strings.Join(composed, "\n"))
	}
}

// The same two groups in the other order: now the diagnostics of b and c are the ones which are lost.
func TestHuntC09N2ReorderingMovesTheLoss(t *testing.T) {
	n := strings.Count(huntC09N2CycleBC, "\n")
	off := strings.Count(huntC09N2CycleDE, "\n")

	alone := huntC09N2DiagsIn(huntC09N2Lint(t, huntC09N2Header+huntC09N2CycleBC), 3, 3+n)
	composed := huntC09N2DiagsIn(huntC09N2Lint(t, huntC09N2Header+huntC09N2CycleDE+huntC09N2CycleBC), 3+off, 3+off+n)

	if strings.Join(alone, "\n") != strings.Join(composed, "\n") {
		t.Fatalf("diagnostics of jobs b and c changed by adding unrelated jobs d and e before them.\nwithout d,e:\n%s\nwith d,e:\n%s", strings.Join(alone, "\n"), strings.Join(composed, "\n"))
	}
}
