package actionlint

import (
	"fmt"
	"io"
	"testing"
)

// Computes the type of the `matrix` context for `strategy: matrix: ${{ inputs }}` under the given
// type of the `inputs` context and returns the diagnostics for the expression `matrix.extra`
// (plus any diagnostic reported while typing the matrix itself).
func huntC06N2Check(t *testing.T, inputs *ObjectType) []string {
	t.Helper()
	rule := NewRuleExpression(NewLocalActionsCache(nil, nil), NewLocalReusableWorkflowCache(nil, "", nil))
	rule.inputsTy = inputs
	m := rule.checkMatrix(&Matrix{
		Expression: &String{Value: "${{ inputs }}", Pos: &Pos{Line: 1, Col: 1}},
		Pos:        &Pos{Line: 1, Col: 1},
	})
	r := []string{}
	for _, e := range rule.Errs() {
		r = append(r, e.Message)
	}

	p := NewExprParser()
	expr, perr := p.Parse(NewExprLexer("matrix.extra }}"))
	if perr != nil {
		t.Fatal(perr)
	}
	c := NewExprSemanticsChecker(false, nil)
	c.SetContextAvailability([]string{"matrix"})
	c.UpdateMatrix(m)
	_, errs := c.Check(expr)
	for _, e := range errs {
		r = append(r, e.Message)
	}
	return r
}

// Environment G : inputs = {os: array<string>; include: array<{os: string; extra: string}>}
// Environment G': the same, but the type of `include` is replaced by `any`.
func TestHuntC06N2MatrixExprIncludeAny(t *testing.T) {
	g := NewStrictObjectType(map[string]ExprType{
		"os": &ArrayType{Elem: StringType{}},
		"include": &ArrayType{Elem: NewStrictObjectType(map[string]ExprType{
			"os":    StringType{},
			"extra": StringType{},
		})},
	})
	if errs := huntC06N2Check(t, g); len(errs) != 0 {
		t.Fatalf("precondition: matrix.extra must be accepted under the precise environment, got %v", errs)
	}

	loosened := NewStrictObjectType(map[string]ExprType{
		"os":      &ArrayType{Elem: StringType{}},
		"include": AnyType{},
	})
	if errs := huntC06N2Check(t, loosened); len(errs) != 0 {
		t.Fatalf("replacing the type of `include` by any introduced diagnostics for matrix.extra: %v", errs)
	}
}

// Same with only the element type of `include` replaced by any: array<{...}> -> array<any>
func TestHuntC06N2MatrixExprIncludeElemAny(t *testing.T) {
	loosened := NewStrictObjectType(map[string]ExprType{
		"os":      &ArrayType{Elem: StringType{}},
		"include": &ArrayType{Elem: AnyType{}},
	})
	if errs := huntC06N2Check(t, loosened); len(errs) != 0 {
		t.Fatalf("replacing the element type of `include` by any introduced diagnostics for matrix.extra: %v", errs)
	}
}

// End-to-end: inputs of workflow_dispatch without `type:` are typed `any` by actionlint, so
// `inputs.include` is a value whose type is not known. It must not be the reason for an error.
func TestHuntC06N2LinterInputsIncludeAny(t *testing.T) {
	src := `on:
  workflow_dispatch:
    inputs:
      os:
        description: os
      include:
        description: include
jobs:
  test:
    strategy:
      matrix: ${{ inputs }}
    runs-on: ubuntu-latest
    steps:
      - run: echo ${{ matrix.extra }}
`
	l, err := NewLinter(io.Discard, &LinterOptions{})
	if err != nil {
		t.Fatal(err)
	}
	errs, err := l.Lint("test.yaml", []byte(src), nil)
	if err != nil {
		t.Fatal(err)
	}
	for _, e := range errs {
		t.Errorf("unexpected diagnostic although `include` is typed any: %s", fmt.Sprintf("%d:%d: %s [%s]", e.Line, e.Column, e.Message, e.Kind))
	}
}
