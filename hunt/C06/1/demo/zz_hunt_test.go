package actionlint

import (
	"fmt"
	"io"
	"testing"
)

func huntC06N1Lint(t *testing.T, src string) []string {
	t.Helper()
	l, err := NewLinter(io.Discard, &LinterOptions{})
	if err != nil {
		t.Fatal(err)
	}
	errs, err := l.Lint("test.yaml", []byte(src), nil)
	if err != nil {
		t.Fatal(err)
	}
	r := []string{}
	for _, e := range errs {
		r = append(r, fmt.Sprintf("%d:%d: %s [%s]", e.Line, e.Column, e.Message, e.Kind))
	}
	return r
}

// G: the element of `include:` is a literal mapping that overrides `foo` with an object.
const huntC06N1Literal = `on: push
jobs:
  test:
    strategy:
      matrix:
        foo: [1, 2]
        include:
          - foo: {bar: x}
    runs-on: ubuntu-latest
    steps:
      - run: echo ${{ matrix.foo.bar }}
`

// G': the same element is replaced by a value of type `any` (fromJSON of something unknown).
// This is strictly less type information, so nothing that was accepted may be rejected.
const huntC06N1Any = `on: push
jobs:
  test:
    strategy:
      matrix:
        foo: [1, 2]
        include:
          - ${{ fromJSON(github.event.inputs.combo) }}
    runs-on: ubuntu-latest
    steps:
      - run: echo ${{ matrix.foo.bar }}
`

func TestHuntC06N1IncludeElementAny(t *testing.T) {
	before := huntC06N1Lint(t, huntC06N1Literal)
	if len(before) != 0 {
		t.Fatalf("precondition: the workflow with the literal include element must be accepted, got %v", before)
	}
	after := huntC06N1Lint(t, huntC06N1Any)
	if len(after) != 0 {
		t.Fatalf("replacing the literal include element by a value of type any introduced diagnostics: %v", after)
	}
}

// Same thing when the property is only defined by sibling elements of `include:` (any element first or last).
func TestHuntC06N1IncludeElementAnyWithSiblings(t *testing.T) {
	literal := `on: push
jobs:
  test:
    strategy:
      matrix:
        os: [a, b]
        include:
          - os: c
            foo: {bar: x}
          - os: d
            foo: 1
    runs-on: ubuntu-latest
    steps:
      - run: echo ${{ matrix.foo.bar }}
`
	anyFirst := `on: push
jobs:
  test:
    strategy:
      matrix:
        os: [a, b]
        include:
          - ${{ fromJSON(github.event.inputs.combo) }}
          - os: d
            foo: 1
    runs-on: ubuntu-latest
    steps:
      - run: echo ${{ matrix.foo.bar }}
`
	anyLast := `on: push
jobs:
  test:
    strategy:
      matrix:
        os: [a, b]
        include:
          - os: d
            foo: 1
          - ${{ fromJSON(github.event.inputs.combo) }}
    runs-on: ubuntu-latest
    steps:
      - run: echo ${{ matrix.foo.bar }}
`
	if before := huntC06N1Lint(t, literal); len(before) != 0 {
		t.Fatalf("precondition: literal workflow must be accepted, got %v", before)
	}
	for name, src := range map[string]string{"any element first": anyFirst, "any element last": anyLast} {
		if after := huntC06N1Lint(t, src); len(after) != 0 {
			t.Errorf("%s: replacing a literal include element by a value of type any introduced diagnostics: %v", name, after)
		}
	}
}
