package actionlint

import (
	"fmt"
	"io"
	"testing"
)

func huntC06N3Lint(t *testing.T, src string) []string {
	t.Helper()
	l, err := NewLinter(io.Discard, &LinterOptions{})
	if err != nil {
		t.Fatal(err)
	}
	errs, err := l.Lint("test.yaml", []byte(src), nil)
	if err != nil {
		t.Fatal(err)
	}
	r := []string{}
	for _, e := range errs {
		r = append(r, fmt.Sprintf("%d:%d: %s [%s]", e.Line, e.Column, e.Message, e.Kind))
	}
	return r
}

// The literal definition of the matrix
const huntC06N3Literal = `on: push
jobs:
  test:
    strategy:
      matrix:
        os: [ubuntu-latest, macos-latest]
    runs-on: ${{ matrix.os }}
    steps:
      - run: echo ${{ matrix.os }}
        if: matrix.os == 'ubuntu-latest'
`

// The same matrix, defined through fromJSON(...) instead of literal YAML
const huntC06N3FromJSON = `on: push
jobs:
  test:
    strategy:
      matrix: ${{ fromJSON('{"os":["ubuntu-latest","macos-latest"]}') }}
    runs-on: ${{ matrix.os }}
    steps:
      - run: echo ${{ matrix.os }}
        if: matrix.os == 'ubuntu-latest'
`

func TestHuntC06N3MatrixLiteralReplacedByFromJSON(t *testing.T) {
	before := huntC06N3Lint(t, huntC06N3Literal)
	if len(before) != 0 {
		t.Fatalf("precondition: the workflow with the literal matrix must be accepted, got %v", before)
	}
	after := huntC06N3Lint(t, huntC06N3FromJSON)
	if len(after) != 0 {
		t.Fatalf("replacing the literal matrix definition by fromJSON(...) introduced expression diagnostics: %v", after)
	}
}
