package actionlint

import (
	"fmt"
	"io"
	"strings"
	"testing"
)

func huntC03N2Lint(t *testing.T, src string) []*Error {
	t.Helper()
	l, err := NewLinter(io.Discard, &LinterOptions{})
	if err != nil {
		t.Fatal(err)
	}
	errs, err := l.Lint("<stdin>", []byte(src), nil)
	if err != nil {
		t.Fatal(err)
	}
	return errs
}

// Property C03: a malformed ${{ }} placeholder put at any scalar value is reported with an expression
// syntax error at that scalar; no placeholder is silently skipped by the expression checker.
//
// RuleExpression.VisitStep passes a step `id:` to the expression checker only when
// String.ContainsExpression() is true, which requires a "}}" after the "${{". A placeholder whose end
// marker is missing or mistyped (`${{ foo }`, `${{ foo`, `${{ foo } }`) is therefore never given to
// the expression checker at `id:` while the very same text is an expression syntax error at `name:` of
// the same step.
func TestHuntC03N2StepIDPlaceholderWithBrokenEndMarkerIsNotCheckedAsExpression(t *testing.T) {
	const tmpl = `on: push
jobs:
  test:
    runs-on: ubuntu-latest
    steps:
      - name: @NAME@
        id: @ID@
        run: echo
`
	build := func(name, id string) string {
		return strings.Replace(strings.Replace(tmpl, "@NAME@", name, 1), "@ID@", id, 1)
	}

	if errs := huntC03N2Lint(t, build("step", "s1")); len(errs) != 0 {
		t.Fatalf("base workflow must lint clean but got %v", errs)
	}

	for _, repl := range []string{"${{ foo }", "\"${{ foo\"", "'${{ foo } }'"} {
		// Reference: the same text at `name:` (line 6, col 15) is an expression syntax error
		nameOK := false
		for _, e := range huntC03N2Lint(t, build(repl, "s1")) {
			if e.Line == 6 && e.Column >= 15 && e.Column <= 15+len(repl) && e.Kind == "expression" {
				nameOK = true
			}
		}
		if !nameOK {
			t.Fatalf("%s at name: was expected to be an expression syntax error", repl)
		}

		// `id:` value is at line 7, col 13
		var at []string
		idOK := false
		for _, e := range huntC03N2Lint(t, build("step", repl)) {
			if e.Line == 7 && e.Column >= 13 && e.Column <= 13+len(repl) {
				at = append(at, fmt.Sprintf("%d:%d: %s [%s]", e.Line, e.Column, e.Message, e.Kind))
				if e.Kind == "expression" {
					idOK = true
				}
			}
		}
		if !idOK {
			t.Errorf("step id replaced by %s: no expression syntax error at that scalar (the placeholder was skipped by the expression checker); diagnostics there: %q", repl, at)
		}
	}
}
