package actionlint

import (
	"fmt"
	"io"
	"sort"
	"strings"
	"testing"
)

// Clean workflow template. Every @NAME@ marker is the only marker on its line and stands for one
// scalar value. huntC03N1Clean gives the value which makes the workflow lint clean.
const huntC03N1Template = `on:
  push:
  workflow_dispatch:
    inputs:
      one:
        description: desc
        required: @DISPATCH_REQUIRED@
concurrency:
  group: grp
  cancel-in-progress: @CANCEL@
jobs:
  test:
    runs-on: ubuntu-latest
    timeout-minutes: @JOB_TIMEOUT@
    continue-on-error: @JOB_COE@
    env: @JOB_ENV@
    strategy:
      fail-fast: @FAIL_FAST@
      max-parallel: @MAX_PARALLEL@
      matrix:
        os: [a, b]
        include:
          - @INCLUDE_ELEM@
    steps:
      - run: echo
        continue-on-error: @STEP_COE@
        timeout-minutes: @STEP_TIMEOUT@
`

var huntC03N1Clean = map[string]string{
	"DISPATCH_REQUIRED": "true",
	"CANCEL":            "true",
	"JOB_TIMEOUT":       "10",
	"JOB_COE":           "false",
	"JOB_ENV":           "${{ fromJSON('{}') }}",
	"FAIL_FAST":         "true",
	"MAX_PARALLEL":      "2",
	"INCLUDE_ELEM":      "${{ fromJSON('{}') }}",
	"STEP_COE":          "false",
	"STEP_TIMEOUT":      "5",
}

func huntC03N1Build(mutate, repl string) (src string, line, col int) {
	lines := strings.Split(huntC03N1Template, "\n")
	for i, l := range lines {
		for k, v := range huntC03N1Clean {
			m := "@" + k + "@"
			idx := strings.Index(l, m)
			if idx < 0 {
				continue
			}
			if k == mutate {
				v = repl
				line, col = i+1, idx+1
			}
			lines[i] = l[:idx] + v + l[idx+len(m):]
		}
	}
	return strings.Join(lines, "\n"), line, col
}

func huntC03N1Lint(t *testing.T, src string) []*Error {
	t.Helper()
	l, err := NewLinter(io.Discard, &LinterOptions{})
	if err != nil {
		t.Fatal(err)
	}
	errs, err := l.Lint("<stdin>", []byte(src), nil)
	if err != nil {
		t.Fatal(err)
	}
	return errs
}

// Property C03: replacing any scalar of a clean workflow by a malformed ${{ }} placeholder must give
// a diagnostic at that scalar and, at positions which are evaluated as expression templates, that
// diagnostic must be an expression syntax error (no placeholder is silently skipped by the
// expression checker).
//
// The placeholder `${{ foo }` (closing brace mistyped) is reported as an expression syntax error at
// string positions such as `name:`, but at every position which takes a single expression it is never
// given to the expression checker. Only the parser says "found plain text node".
func TestHuntC03N1UnterminatedPlaceholderAtSingleExpressionPositions(t *testing.T) {
	clean, _, _ := huntC03N1Build("", "")
	if errs := huntC03N1Lint(t, clean); len(errs) != 0 {
		t.Fatalf("base workflow must lint clean but got %v", errs)
	}

	// Sanity: the same placeholder IS an expression syntax error at an ordinary string position.
	{
		src := "name: ${{ foo }\n" + clean
		found := false
		for _, e := range huntC03N1Lint(t, src) {
			if e.Line == 1 && e.Kind == "expression" {
				found = true
			}
		}
		if !found {
			t.Fatalf("expected an expression syntax error for `name: ${{ foo }`")
		}
	}

	keys := make([]string, 0, len(huntC03N1Clean))
	for k := range huntC03N1Clean {
		keys = append(keys, k)
	}
	sort.Strings(keys)

	for _, repl := range []string{"${{ foo }", "\"${{ foo\""} {
		for _, k := range keys {
			src, line, col := huntC03N1Build(k, repl)
			errs := huntC03N1Lint(t, src)
			var at []string
			exprAt := false
			for _, e := range errs {
				if e.Line == line && e.Column >= col && e.Column <= col+len(repl) {
					at = append(at, fmt.Sprintf("%d:%d: %s [%s]", e.Line, e.Column, e.Message, e.Kind))
					if e.Kind == "expression" {
						exprAt = true
					}
				}
			}
			if !exprAt {
				t.Errorf("%s replaced by %s at line %d col %d: no expression syntax error at that scalar; diagnostics there: %q", k, repl, line, col, at)
			}
		}
	}
}
