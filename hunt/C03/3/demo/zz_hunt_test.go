package actionlint

import (
	"fmt"
	"io"
	"strings"
	"testing"
)

func huntC03N3Lint(t *testing.T, src string) []*Error {
	t.Helper()
	l, err := NewLinter(io.Discard, &LinterOptions{})
	if err != nil {
		t.Fatal(err)
	}
	errs, err := l.Lint("<stdin>", []byte(src), nil)
	if err != nil {
		t.Fatal(err)
	}
	return errs
}

// Property C03: the diagnostic for a malformed placeholder is "located at that scalar".
//
// When the scalar is written in a form which spans lines (block scalar `|`/`>`, or a quoted scalar
// continued on the next line) the expression error is reported on the first line of the scalar node
// with a column computed from the offset in the *decoded* value. The reported (line, column) is past
// the end of that source line: it addresses no character of the file at all, and the line on which the
// offending token really is gets no diagnostic.
func TestHuntC03N3DiagnosticPositionForMultiLineScalarIsNotInsideTheScalar(t *testing.T) {
	const base = `on: push
jobs:
  test:
    runs-on: ubuntu-latest
    steps:
      - run: echo
        env:
          X: y
`
	if errs := huntC03N3Lint(t, base); len(errs) != 0 {
		t.Fatalf("base workflow must lint clean but got %v", errs)
	}

	// The scalar `y` (line 8, col 14) is replaced by the malformed placeholder written in a multi-line
	// YAML form. The offending token is `bar`.
	for _, repl := range []string{
		"|\n            ${{ foo bar }}",
		">-\n            ${{ foo bar }}",
		"\"${{ foo\n            bar }}\"",
	} {
		src := strings.Replace(base, "X: y", "X: "+repl, 1)
		lines := strings.Split(src, "\n")
		errs := huntC03N3Lint(t, src)

		var all []string
		inside := false
		for _, e := range errs {
			all = append(all, fmt.Sprintf("%d:%d: %s [%s]", e.Line, e.Column, e.Message, e.Kind))
			// The scalar occupies line 8 from col 14 to the end of the line and line 9 from col 13
			if e.Line == 8 && e.Column >= 14 && e.Column <= len(lines[7]) {
				inside = true
			}
			if e.Line == 9 && e.Column >= 13 && e.Column <= len(lines[8]) {
				inside = true
			}
		}
		if !inside {
			t.Errorf("scalar replaced by %q: no diagnostic addresses a character of the scalar (line 8 has %d columns, line 9 has %d columns); got %q", repl, len(lines[7]), len(lines[8]), all)
		}
	}
}
