package actionlint

import (
	"io"
	"strings"
	"testing"
)

func huntC03N3Lint(t *testing.T, src string) []*Error {
	t.Helper()
	l, err := NewLinter(io.Discard, &LinterOptions{})
	if err != nil {
		t.Fatal(err)
	}
	errs, err := l.Lint("test.yaml", []byte(src), nil)
	if err != nil {
		t.Fatal(err)
	}
	return errs
}

// @N@ marks a scalar value. All of them are evaluated as expression templates by GitHub Actions
// (none of them is an event name, an input type, a permission or `secrets: inherit`).
const huntC03N3Workflow = `on: push
env: @0@
concurrency:
  group: g
  cancel-in-progress: @1@
jobs:
  a:
    runs-on: ubuntu-latest
    continue-on-error: @2@
    timeout-minutes: @3@
    env: @4@
    strategy:
      fail-fast: @5@
      max-parallel: @6@
      matrix: @7@
    steps:
      - run: echo
        continue-on-error: @8@
        timeout-minutes: @9@
        env: @10@
  b:
    runs-on: ubuntu-latest
    strategy:
      matrix:
        row: @11@
        include: @12@
        exclude: @13@
    steps:
      - run: echo
  c:
    runs-on: ubuntu-latest
    strategy:
      matrix:
        row: [1]
        include:
          - @14@
        exclude:
          - @15@
    steps:
      - run: echo
`

var huntC03N3Clean = []string{
	"${{ fromJSON('{}') }}", // 0
	"${{ true }}",           // 1
	"${{ true }}",           // 2
	"${{ fromJSON('1') }}",  // 3
	"${{ fromJSON('{}') }}", // 4
	"${{ true }}",           // 5
	"${{ fromJSON('1') }}",  // 6
	"${{ fromJSON('{}') }}", // 7
	"${{ true }}",           // 8
	"${{ fromJSON('1') }}",  // 9
	"${{ fromJSON('{}') }}", // 10
	"${{ fromJSON('[]') }}", // 11
	"${{ fromJSON('[]') }}", // 12
	"${{ fromJSON('[]') }}", // 13
	"${{ fromJSON('{}') }}", // 14
	"${{ fromJSON('{}') }}", // 15
}

func huntC03N3Render(mutate int, ph string) (string, int) {
	src := huntC03N3Workflow
	line := 0
	for i, c := range huntC03N3Clean {
		mark := "@" + itoaC03N3(i) + "@"
		v := c
		if i == mutate {
			v = ph
			line = strings.Count(src[:strings.Index(src, mark)], "\n") + 1
		}
		src = strings.Replace(src, mark, v, 1)
	}
	return src, line
}

func itoaC03N3(i int) string {
	if i < 10 {
		return string(rune('0' + i))
	}
	return "1" + string(rune('0'+i-10))
}

// A placeholder nested in another placeholder is one of the most common malformed placeholders.
// At a position like `name:` it is reported as an expression syntax error (unexpected character '$').
// The property requires that at every expression-evaluated position the diagnostic reported for the
// malformed placeholder is an expression syntax error.
func TestHuntC03N3NestedPlaceholderAtSingleExpressionPositions(t *testing.T) {
	clean, _ := huntC03N3Render(-1, "")
	if errs := huntC03N3Lint(t, clean); len(errs) != 0 {
		t.Fatalf("base workflow must lint clean but got %v", errs)
	}

	for _, ph := range []string{"${{ ${{ github.sha }} }}", "${{ github.sha"} {
		for i := range huntC03N3Clean {
			src, line := huntC03N3Render(i, ph)
			errs := huntC03N3Lint(t, src)
			ok := false
			ms := []string{}
			for _, e := range errs {
				if e.Line == line {
					ms = append(ms, e.Error())
					if e.Kind == "expression" {
						ok = true
					}
				}
			}
			if !ok {
				l := strings.TrimSpace(strings.Split(src, "\n")[line-1])
				t.Errorf("line %d %q: no expression syntax error is reported for the malformed placeholder. diagnostics at the scalar: %q", line, l, ms)
			}
		}
	}
}
