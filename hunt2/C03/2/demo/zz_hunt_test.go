package actionlint

import (
	"io"
	"strings"
	"testing"
)

func huntC03N2Lint(t *testing.T, src string) []*Error {
	t.Helper()
	l, err := NewLinter(io.Discard, &LinterOptions{})
	if err != nil {
		t.Fatal(err)
	}
	errs, err := l.Lint("test.yaml", []byte(src), nil)
	if err != nil {
		t.Fatal(err)
	}
	return errs
}

const huntC03N2Workflow = `on:
  workflow_dispatch:
    inputs:
      i:
        required: !!bool @@
  workflow_call:
    inputs:
      j:
        type: string
        required: !!bool @@
    secrets:
      s:
        required: !!bool @@
concurrency:
  group: g
  cancel-in-progress: !!bool @@
jobs:
  a:
    runs-on: ubuntu-latest
    continue-on-error: !!bool @@
    strategy:
      fail-fast: !!bool @@
      matrix:
        x: [1]
    steps:
      - run: echo
        continue-on-error: !!bool @@
`

// Every boolean-valued scalar of the workflow is written with the explicit YAML tag !!bool. The
// workflow lints clean. Replacing any single one of these scalar values by a malformed placeholder
// must yield a diagnostic at that scalar.
func TestHuntC03N2BoolTaggedScalar(t *testing.T) {
	clean := strings.ReplaceAll(huntC03N2Workflow, "@@", "true")
	if errs := huntC03N2Lint(t, clean); len(errs) != 0 {
		t.Fatalf("base workflow must lint clean but got %v", errs)
	}

	lines := strings.Split(huntC03N2Workflow, "\n")
	for i, l := range lines {
		if !strings.Contains(l, "@@") {
			continue
		}
		for _, ph := range []string{`"${{ github. }}"`, `${{ github. }}`, `'${{ 1 + }}'`} {
			// Replace only the scalar at line i+1 by the malformed placeholder
			mutated := make([]string, len(lines))
			for j, m := range lines {
				if j == i {
					mutated[j] = strings.Replace(m, "@@", ph, 1)
				} else {
					mutated[j] = strings.Replace(m, "@@", "true", 1)
				}
			}
			errs := huntC03N2Lint(t, strings.Join(mutated, "\n"))
			found := false
			for _, e := range errs {
				if e.Line == i+1 {
					found = true
				}
			}
			if !found {
				ms := []string{}
				for _, e := range errs {
					ms = append(ms, e.Error())
				}
				t.Errorf("line %d %q: malformed placeholder %s was silently skipped. all diagnostics: %q", i+1, strings.TrimSpace(mutated[i]), ph, ms)
			}
		}
	}
}
