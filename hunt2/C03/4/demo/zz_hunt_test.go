package actionlint

import (
	"fmt"
	"io"
	"strings"
	"testing"
)

func huntC03N4Lint(t *testing.T, src string) []*Error {
	t.Helper()
	l, err := NewLinter(io.Discard, &LinterOptions{})
	if err != nil {
		t.Fatal(err)
	}
	errs, err := l.Lint("test.yaml", []byte(src), nil)
	if err != nil {
		t.Fatal(err)
	}
	return errs
}

// The workflow file consists of two YAML documents. actionlint lints it clean. Replacing a scalar
// value after the document separator by a malformed placeholder must yield a diagnostic at it.
func TestHuntC03N4ScalarAfterDocumentSeparator(t *testing.T) {
	tmpl := strings.Join([]string{
		`on: push`,                   // 1
		`jobs:`,                      // 2
		`  a:`,                       // 3
		`    runs-on: ubuntu-latest`, // 4
		`    steps:`,                 // 5
		`      - run: echo`,          // 6
		`---`,                        // 7
		`env:`,                       // 8
		`  FOO: %s`,                  // 9
		`jobs:`,                      // 10
		`  b:`,                       // 11
		`    runs-on: ubuntu-latest`, // 12
		`    steps:`,                 // 13
		`      - run: %s`,            // 14
		``,
	}, "\n")

	clean := fmt.Sprintf(tmpl, "bar", "echo")
	if errs := huntC03N4Lint(t, clean); len(errs) != 0 {
		t.Fatalf("base workflow must lint clean but got %v", errs)
	}

	for _, c := range []struct {
		line int
		src  string
	}{
		{9, fmt.Sprintf(tmpl, `"${{ github. }}"`, "echo")},
		{14, fmt.Sprintf(tmpl, "bar", `"${{ github. }}"`)},
	} {
		errs := huntC03N4Lint(t, c.src)
		found := false
		for _, e := range errs {
			if e.Line == c.line {
				found = true
			}
		}
		if !found {
			ms := []string{}
			for _, e := range errs {
				ms = append(ms, e.Error())
			}
			t.Errorf("malformed placeholder at line %d was silently skipped. all diagnostics: %q", c.line, ms)
		}
	}
}
