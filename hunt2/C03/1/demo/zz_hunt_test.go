package actionlint

import (
	"fmt"
	"io"
	"strings"
	"testing"
)

func huntC03N1Lint(t *testing.T, src string) []*Error {
	t.Helper()
	l, err := NewLinter(io.Discard, &LinterOptions{})
	if err != nil {
		t.Fatal(err)
	}
	errs, err := l.Lint("test.yaml", []byte(src), nil)
	if err != nil {
		t.Fatal(err)
	}
	return errs
}

// The step name (line 6) is a double-quoted scalar which occupies exactly one source line. It is
// replaced by a malformed placeholder which contains escaped line breaks (\n) before the malformed
// part. The property requires at least one diagnostic located at that scalar (line 6).
func TestHuntC03N1EscapedNewlineInPlaceholder(t *testing.T) {
	tmpl := strings.Join([]string{
		`on: push`,                     // 1
		`jobs:`,                        // 2
		`  a:`,                         // 3
		`    runs-on: ubuntu-latest`,   // 4
		`    steps:`,                   // 5
		`      - name: %s`,             // 6
		`        run: echo one`,        // 7
		`      - run: echo two`,        // 8
		``,
	}, "\n")

	clean := fmt.Sprintf(tmpl, `"first step"`)
	if errs := huntC03N1Lint(t, clean); len(errs) != 0 {
		t.Fatalf("base workflow must lint clean but got %v", errs)
	}

	mutated := fmt.Sprintf(tmpl, `"${{\n\ngithub. }}"`)
	errs := huntC03N1Lint(t, mutated)
	if len(errs) == 0 {
		t.Fatal("no diagnostic at all for the malformed placeholder")
	}

	const line = 6
	const colStart = 15                              // column of the opening quote
	colEnd := colStart + len(`"${{\n\ngithub. }}"`) // exclusive
	for _, e := range errs {
		if e.Line == line && colStart <= e.Column && e.Column < colEnd {
			return // OK: located at the scalar
		}
	}
	ms := []string{}
	for _, e := range errs {
		ms = append(ms, e.Error())
	}
	t.Fatalf("no diagnostic is located at the mutated scalar (line %d, columns %d..%d). diagnostics: %q", line, colStart, colEnd-1, ms)
}
