package actionlint

import (
	"io"
	"testing"
)

// Property C04: "Numbers follow the JSON forms plus 0x hex". The JSON number grammar (RFC 8259) is
//   number = [ minus ] int [ frac ] [ exp ],  exp = e [ minus / plus ] 1*DIGIT
// so the exponent may have leading zeros: 1e05, 1e-01, 1E+00 and 2.5e00 are all JSON numbers and hence
// sentences of the expression language. They must be accepted and analysed as number literals.

func TestHuntC04N1ExponentWithLeadingZeroIsAccepted(t *testing.T) {
	for _, tc := range []struct {
		src  string
		want float64
	}{
		{"1e05", 1e5},
		{"1e-01", 0.1},
		{"1E+00", 1},
		{"2.5e00", 2.5},
		{"0e00", 0},
		{"-3e007", -3e7},
	} {
		n, err := NewExprParser().Parse(NewExprLexer(tc.src + "}}"))
		if err != nil {
			t.Errorf("%q is a JSON number so it must be accepted, but it was rejected: %s", tc.src, err.Error())
			continue
		}
		f, ok := n.(*FloatNode)
		if !ok {
			t.Errorf("%q must be analysed as a float literal but got %T", tc.src, n)
			continue
		}
		if f.Value != tc.want {
			t.Errorf("%q must have value %v but got %v", tc.src, tc.want, f.Value)
		}
	}
}

func TestHuntC04N1ExponentWithLeadingZeroInWorkflow(t *testing.T) {
	src := `on: push
jobs:
  test:
    runs-on: ubuntu-latest
    timeout-minutes: ${{ 1e01 }}
    steps:
      - run: echo
        if: ${{ github.run_number > 1e05 }}
      - run: echo
        if: github.run_number > 1e-01
`
	l, err := NewLinter(io.Discard, &LinterOptions{})
	if err != nil {
		t.Fatal(err)
	}
	errs, err := l.Lint("test.yaml", []byte(src), nil)
	if err != nil {
		t.Fatal(err)
	}
	for _, e := range errs {
		t.Errorf("valid workflow must have no diagnostic but got: %s", e.Error())
	}
}
