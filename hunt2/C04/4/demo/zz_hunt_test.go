package actionlint

import (
	"io"
	"strings"
	"testing"
)

// Property C04: "rejected text yields exactly one syntax diagnostic positioned within the placeholder".
// Each workflow below contains exactly one ${{ }} placeholder and the text inside is not a sentence of
// the expression language. The test locates the placeholder in the source text and requires the single
// expression diagnostic to be on the placeholder's line, between the '$' of "${{" and the last '}' of "}}".

func huntC04N4Check(t *testing.T, src string) {
	t.Helper()

	// Locate the placeholder in the source (1-based line, 1-based character columns)
	line, colStart, colEnd := 0, 0, 0
	for i, l := range strings.Split(src, "\n") {
		if s := strings.Index(l, "${{"); s >= 0 {
			e := strings.Index(l, "}}")
			if e < 0 {
				t.Fatal("placeholder must be closed on the same line")
			}
			line = i + 1
			colStart = len([]rune(l[:s])) + 1
			colEnd = len([]rune(l[:e+2]))
		}
	}
	if line == 0 {
		t.Fatal("no placeholder in source")
	}

	l, err := NewLinter(io.Discard, &LinterOptions{})
	if err != nil {
		t.Fatal(err)
	}
	errs, err := l.Lint("test.yaml", []byte(src), nil)
	if err != nil {
		t.Fatal(err)
	}

	var diags []*Error
	for _, e := range errs {
		if e.Kind == "expression" {
			diags = append(diags, e)
		} else {
			t.Errorf("unexpected diagnostic: %s", e.Error())
		}
	}
	if len(diags) != 1 {
		t.Fatalf("wanted exactly one syntax diagnostic but got %d: %v", len(diags), diags)
	}
	d := diags[0]
	if d.Line != line || d.Column < colStart || colEnd < d.Column {
		t.Errorf(
			"placeholder is at line %d, columns %d..%d but the syntax diagnostic is positioned at line %d, column %d: %s",
			line, colStart, colEnd, d.Line, d.Column, d.Message,
		)
	}
}

// Placeholder on the third line of a literal block scalar
func TestHuntC04N4BlockScalar(t *testing.T) {
	huntC04N4Check(t, `on: push
jobs:
  test:
    runs-on: ubuntu-latest
    steps:
      - run: |
          echo hello
          echo ${{ 1 2 }}
`)
}

// Placeholder after escape sequences in a double-quoted scalar
func TestHuntC04N4DoubleQuotedEscapes(t *testing.T) {
	huntC04N4Check(t, `on: push
jobs:
  test:
    runs-on: ubuntu-latest
    steps:
      - run: echo
        name: "\t\t\t\t\t\t\t\t${{ 1 2 }}"
`)
}
