package actionlint

import (
	"io"
	"testing"
)

// Property C04: "Numbers follow the JSON forms plus 0x hex". A hex literal is 0x followed by one or
// more hex digits. 0x0F, 0x00, 0x0a and 0x01 are hex literals (GitHub Actions evaluates 0x0F as 15),
// so they must be accepted and analysed as integer literals.

func TestHuntC04N2HexWithLeadingZeroDigitIsAccepted(t *testing.T) {
	for _, tc := range []struct {
		src  string
		want int
	}{
		{"0x0F", 15},
		{"0x00", 0},
		{"0x0a", 10},
		{"0x01", 1},
		{"0x00ff", 255},
	} {
		n, err := NewExprParser().Parse(NewExprLexer(tc.src + "}}"))
		if err != nil {
			t.Errorf("%q is a 0x hex number so it must be accepted, but it was rejected: %s", tc.src, err.Error())
			continue
		}
		i, ok := n.(*IntNode)
		if !ok {
			t.Errorf("%q must be analysed as an integer literal but got %T", tc.src, n)
			continue
		}
		if i.Value != tc.want {
			t.Errorf("%q must have value %d but got %d", tc.src, tc.want, i.Value)
		}
	}
}

func TestHuntC04N2HexWithLeadingZeroDigitInWorkflow(t *testing.T) {
	src := `on: push
jobs:
  test:
    runs-on: ubuntu-latest
    steps:
      - run: echo
        if: ${{ github.run_attempt < 0x0F }}
      - run: echo
        if: github.run_attempt == 0x01
`
	l, err := NewLinter(io.Discard, &LinterOptions{})
	if err != nil {
		t.Fatal(err)
	}
	errs, err := l.Lint("test.yaml", []byte(src), nil)
	if err != nil {
		t.Fatal(err)
	}
	for _, e := range errs {
		t.Errorf("valid workflow must have no diagnostic but got: %s", e.Error())
	}
}
