package actionlint

import (
	"io"
	"testing"
)

// Property C04: text is accepted iff it is a sentence of the expression language, and "Numbers follow
// the JSON forms plus 0x hex". The JSON number grammar puts no bound on the magnitude of a number:
// 9223372036854775808, 18446744073709551615, 100000000000000000000, 0xFFFFFFFFFFFFFFFF and 1e400 all
// match the grammar (GitHub Actions evaluates numbers as doubles), so they must be accepted as number
// literals instead of being reported as syntax errors.

func TestHuntC04N3LargeNumberLiteralsAreAccepted(t *testing.T) {
	for _, src := range []string{
		"9223372036854775808",
		"18446744073709551615",
		"100000000000000000000",
		"-9223372036854775809",
		"0xFFFFFFFFFFFFFFFF",
		"0x10000000000000000",
		"1e400",
		"-1.5e400",
	} {
		n, err := NewExprParser().Parse(NewExprLexer(src + "}}"))
		if err != nil {
			t.Errorf("%q matches the number grammar so it must be accepted, but it was rejected: %s", src, err.Error())
			continue
		}
		switch n.(type) {
		case *IntNode, *FloatNode:
			// ok
		default:
			t.Errorf("%q must be analysed as a number literal but got %T", src, n)
		}
	}
}

func TestHuntC04N3LargeNumberLiteralInWorkflow(t *testing.T) {
	src := `on: push
jobs:
  test:
    runs-on: ubuntu-latest
    steps:
      - run: echo
        if: ${{ github.run_id < 9223372036854775808 }}
      - run: echo
        if: github.run_id < 100000000000000000000
`
	l, err := NewLinter(io.Discard, &LinterOptions{})
	if err != nil {
		t.Fatal(err)
	}
	errs, err := l.Lint("test.yaml", []byte(src), nil)
	if err != nil {
		t.Fatal(err)
	}
	for _, e := range errs {
		t.Errorf("valid workflow must have no diagnostic but got: %s", e.Error())
	}
}
