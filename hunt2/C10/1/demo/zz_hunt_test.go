package actionlint

import (
	"fmt"
	"io"
	"os"
	"path/filepath"
	"strings"
	"sync"
	"testing"
)

// Helpers. Every name carries the suffix C10N1 so that the file can live next to other demos.

func mkRepoC10N1(t *testing.T, root string, files map[string]string) {
	t.Helper()
	for _, d := range []string{".git", filepath.Join(".github", "workflows")} {
		if err := os.MkdirAll(filepath.Join(root, d), 0o755); err != nil {
			t.Fatal(err)
		}
	}
	for p, c := range files {
		f := filepath.Join(root, filepath.FromSlash(p))
		if err := os.MkdirAll(filepath.Dir(f), 0o755); err != nil {
			t.Fatal(err)
		}
		if err := os.WriteFile(f, []byte(c), 0o644); err != nil {
			t.Fatal(err)
		}
	}
}

// gateC10N1 selects one goroutine interleaving of a multi-file run. A workflow whose `name:` is a key of
// waitFor does not start being visited until the workflow named by the value was visited completely. It only
// delays goroutines; it reports nothing and changes nothing.
type gateC10N1 struct {
	mu      sync.Mutex
	done    map[string]chan struct{}
	waitFor map[string]string
}

func (g *gateC10N1) ch(name string) chan struct{} {
	g.mu.Lock()
	defer g.mu.Unlock()
	c, ok := g.done[name]
	if !ok {
		c = make(chan struct{})
		g.done[name] = c
	}
	return c
}

type gateRuleC10N1 struct {
	RuleBase
	gate *gateC10N1
	name string
}

func (r *gateRuleC10N1) VisitWorkflowPre(n *Workflow) error {
	if n.Name != nil {
		r.name = n.Name.Value
	}
	if w, ok := r.gate.waitFor[r.name]; ok {
		<-r.gate.ch(w)
	}
	return nil
}

func (r *gateRuleC10N1) VisitWorkflowPost(n *Workflow) error {
	if r.name != "" {
		c := r.gate.ch(r.name)
		select {
		case <-c:
		default:
			close(c)
		}
	}
	return nil
}

func linterC10N1(t *testing.T, cwd string, waitFor map[string]string) *Linter {
	t.Helper()
	o := &LinterOptions{WorkingDir: cwd}
	if waitFor != nil {
		g := &gateC10N1{done: map[string]chan struct{}{}, waitFor: waitFor}
		o.OnRulesCreated = func(rs []Rule) []Rule {
			// The gate is the first pass so that it is passed before any other rule sees the workflow
			return append([]Rule{&gateRuleC10N1{RuleBase: RuleBase{name: "gate"}, gate: g}}, rs...)
		}
	}
	l, err := NewLinter(io.Discard, o)
	if err != nil {
		t.Fatal(err)
	}
	return l
}

func fmtC10N1(errs []*Error) []string {
	r := []string{}
	for _, e := range errs {
		r = append(r, fmt.Sprintf("%s:%d:%d: %s [%s]", filepath.ToSlash(e.Filepath), e.Line, e.Column, e.Message, e.Kind))
	}
	return r
}

// aloneC10N1 lints one file with a fresh Linter.
func aloneC10N1(t *testing.T, cwd, file string) []string {
	t.Helper()
	errs, err := linterC10N1(t, cwd, nil).LintFile(file, nil)
	if err != nil {
		t.Fatal(err)
	}
	return fmtC10N1(errs)
}

// togetherC10N1 lints the files in one invocation with a fresh Linter and returns the diagnostics per file
// (keyed by the path relative to cwd).
func togetherC10N1(t *testing.T, cwd string, files []string, waitFor map[string]string) map[string][]string {
	t.Helper()
	errs, err := linterC10N1(t, cwd, waitFor).LintFiles(files, nil)
	if err != nil {
		t.Fatal(err)
	}
	m := map[string][]string{}
	for _, f := range files {
		r, _ := filepath.Rel(cwd, f)
		m[filepath.ToSlash(r)] = []string{}
	}
	for _, e := range errs {
		k := filepath.ToSlash(e.Filepath)
		m[k] = append(m[k], fmtC10N1([]*Error{e})...)
	}
	return m
}

func sameC10N1(a, b []string) bool {
	return strings.Join(a, "\n") == strings.Join(b, "\n")
}

const callerC10N1 = `name: caller
on: push
jobs:
  call:
    uses: ./.github/workflows/callee.yml
`

// checkIsolatedC10N1 checks the statement of the property for a caller and the reusable workflow it calls:
// the caller gets the same diagnostics alone and in a run which also contains the callee, for both argument
// orders and for both orders in which the two goroutines can get to the shared interface of the callee.
func checkIsolatedC10N1(t *testing.T, calleeSrc string, calleeMustBeClean bool) {
	t.Helper()
	root := t.TempDir()
	mkRepoC10N1(t, root, map[string]string{
		".github/workflows/callee.yml": calleeSrc,
		".github/workflows/caller.yml": callerC10N1,
	})
	callee := filepath.Join(root, ".github", "workflows", "callee.yml")
	caller := filepath.Join(root, ".github", "workflows", "caller.yml")

	calleeAlone := aloneC10N1(t, root, callee)
	callerAlone := aloneC10N1(t, root, caller)
	t.Logf("callee alone: %q", calleeAlone)
	t.Logf("caller alone: %q", callerAlone)
	if calleeMustBeClean && len(calleeAlone) != 0 {
		t.Fatalf("the demo expects that actionlint finds nothing in the callee, but it reported %q", calleeAlone)
	}

	for _, files := range [][]string{{callee, caller}, {caller, callee}} {
		for _, waitFor := range []map[string]string{
			{"caller": "callee"}, // the callee is checked completely before the caller
			{"callee": "caller"}, // the caller is checked completely before the callee
		} {
			got := togetherC10N1(t, root, files, waitFor)
			c := got[".github/workflows/caller.yml"]
			if !sameC10N1(c, callerAlone) {
				t.Errorf("caller.yml gets other diagnostics in the run %v (interleaving %v) than alone:\n  alone:    %q\n  together: %q", files, waitFor, callerAlone, c)
			}
			c = got[".github/workflows/callee.yml"]
			if !sameC10N1(c, calleeAlone) {
				t.Errorf("callee.yml gets other diagnostics in the run %v (interleaving %v) than alone:\n  alone:    %q\n  together: %q", files, waitFor, calleeAlone, c)
			}
		}
	}
}

// The reusable workflow is accepted by actionlint without any diagnostic. Its input has an expression at
// "required", which the workflow parser accepts (parseBool) but the re-parse of the file for callers
// (parseReusableWorkflowMetadata) does not.
func TestHuntC10N1RequiredExpressionAtInput(t *testing.T) {
	checkIsolatedC10N1(t, `name: callee
on:
  workflow_call:
    inputs:
      foo:
        type: string
        required: ${{ true }}
`+jobsC10N1, true)
}

func TestHuntC10N1RequiredExpressionAtSecret(t *testing.T) {
	checkIsolatedC10N1(t, `name: callee
on:
  workflow_call:
    secrets:
      token:
        required: ${{ true }}
`+jobsC10N1, true)
}

const jobsC10N1 = `jobs:
  a:
    runs-on: ubuntu-latest
    steps:
      - run: echo hello
`
