package actionlint

import (
	"fmt"
	"io"
	"os"
	"path/filepath"
	"strings"
	"testing"
)

func mkRepoC10N4(t *testing.T, root string, files map[string]string) {
	t.Helper()
	for _, d := range []string{".git", filepath.Join(".github", "workflows")} {
		if err := os.MkdirAll(filepath.Join(root, d), 0o755); err != nil {
			t.Fatal(err)
		}
	}
	for p, c := range files {
		f := filepath.Join(root, filepath.FromSlash(p))
		if err := os.MkdirAll(filepath.Dir(f), 0o755); err != nil {
			t.Fatal(err)
		}
		if err := os.WriteFile(f, []byte(c), 0o644); err != nil {
			t.Fatal(err)
		}
	}
}

func fmtC10N4(errs []*Error, only string) []string {
	r := []string{}
	for _, e := range errs {
		if filepath.ToSlash(e.Filepath) != only {
			continue
		}
		m := e.Message
		if i := strings.Index(m, ". available labels are"); i >= 0 {
			m = m[:i]
		}
		r = append(r, fmt.Sprintf("%s:%d:%d: %s [%s]", filepath.ToSlash(e.Filepath), e.Line, e.Column, m, e.Kind))
	}
	return r
}

// A repository (for example a vendored checkout or a submodule) lives below the ".github/workflows" directory
// of another repository. Linting the outer repository (the mode of `actionlint` without arguments) walks into
// it, so its workflow is part of the run. The file is contained in the inner repository, whose configuration
// allows the label "foo".
func TestHuntC10N4RepositoryBelowWorkflowsDirIsAttributedToOuterRepository(t *testing.T) {
	top := t.TempDir()
	wf := "on: push\njobs:\n  a:\n    runs-on: [self-hosted, foo]\n    steps:\n      - run: echo\n"
	outer := filepath.Join(top, "repo")
	mkRepoC10N4(t, outer, map[string]string{
		".github/workflows/w.yml": "on: push\njobs:\n  a:\n    runs-on: ubuntu-latest\n    steps:\n      - run: echo\n",
	})
	mkRepoC10N4(t, filepath.Join(outer, ".github", "workflows", "inner"), map[string]string{
		".github/actionlint.yml":  "self-hosted-runner:\n  labels: [foo]\n",
		".github/workflows/w.yml": wf,
	})
	inner := filepath.Join(outer, ".github", "workflows", "inner", ".github", "workflows", "w.yml")
	rel := "repo/.github/workflows/inner/.github/workflows/w.yml"

	l, err := NewLinter(io.Discard, &LinterOptions{WorkingDir: top})
	if err != nil {
		t.Fatal(err)
	}
	errs, err := l.LintFile(inner, nil)
	if err != nil {
		t.Fatal(err)
	}
	alone := fmtC10N4(errs, rel)

	l, err = NewLinter(io.Discard, &LinterOptions{WorkingDir: top})
	if err != nil {
		t.Fatal(err)
	}
	errs, err = l.LintRepository(outer)
	if err != nil {
		t.Fatal(err)
	}
	inRun := fmtC10N4(errs, rel)

	t.Logf("alone:  %q", alone)
	t.Logf("in run: %q", inRun)
	if strings.Join(alone, "\n") != strings.Join(inRun, "\n") {
		t.Errorf("%s is contained in the inner repository but was linted with the configuration of the outer one:\n  alone:  %q\n  in run: %q", rel, alone, inRun)
	}
}
