package actionlint

import (
	"fmt"
	"io"
	"os"
	"path/filepath"
	"strings"
	"sync"
	"testing"
)

// Helpers. Every name carries the suffix C10N3 so that the file can live next to other demos.

func mkRepoC10N3(t *testing.T, root string, files map[string]string) {
	t.Helper()
	for _, d := range []string{".git", filepath.Join(".github", "workflows")} {
		if err := os.MkdirAll(filepath.Join(root, d), 0o755); err != nil {
			t.Fatal(err)
		}
	}
	for p, c := range files {
		f := filepath.Join(root, filepath.FromSlash(p))
		if err := os.MkdirAll(filepath.Dir(f), 0o755); err != nil {
			t.Fatal(err)
		}
		if err := os.WriteFile(f, []byte(c), 0o644); err != nil {
			t.Fatal(err)
		}
	}
}

// gateC10N3 selects one goroutine interleaving of a multi-file run. A workflow whose `name:` is a key of
// waitFor does not start being visited until the workflow named by the value was visited completely. It only
// delays goroutines; it reports nothing and changes nothing.
type gateC10N3 struct {
	mu      sync.Mutex
	done    map[string]chan struct{}
	waitFor map[string]string
}

func (g *gateC10N3) ch(name string) chan struct{} {
	g.mu.Lock()
	defer g.mu.Unlock()
	c, ok := g.done[name]
	if !ok {
		c = make(chan struct{})
		g.done[name] = c
	}
	return c
}

type gateRuleC10N3 struct {
	RuleBase
	gate *gateC10N3
	name string
}

func (r *gateRuleC10N3) VisitWorkflowPre(n *Workflow) error {
	if n.Name != nil {
		r.name = n.Name.Value
	}
	if w, ok := r.gate.waitFor[r.name]; ok {
		<-r.gate.ch(w)
	}
	return nil
}

func (r *gateRuleC10N3) VisitWorkflowPost(n *Workflow) error {
	if r.name != "" {
		c := r.gate.ch(r.name)
		select {
		case <-c:
		default:
			close(c)
		}
	}
	return nil
}

func linterC10N3(t *testing.T, cwd string, waitFor map[string]string) *Linter {
	t.Helper()
	o := &LinterOptions{WorkingDir: cwd}
	if waitFor != nil {
		g := &gateC10N3{done: map[string]chan struct{}{}, waitFor: waitFor}
		o.OnRulesCreated = func(rs []Rule) []Rule {
			// The gate is the first pass so that it is passed before any other rule sees the workflow
			return append([]Rule{&gateRuleC10N3{RuleBase: RuleBase{name: "gate"}, gate: g}}, rs...)
		}
	}
	l, err := NewLinter(io.Discard, o)
	if err != nil {
		t.Fatal(err)
	}
	return l
}

func fmtC10N3(errs []*Error) []string {
	r := []string{}
	for _, e := range errs {
		r = append(r, fmt.Sprintf("%s:%d:%d: %s [%s]", filepath.ToSlash(e.Filepath), e.Line, e.Column, e.Message, e.Kind))
	}
	return r
}

// aloneC10N3 lints one file with a fresh Linter.
func aloneC10N3(t *testing.T, cwd, file string) []string {
	t.Helper()
	errs, err := linterC10N3(t, cwd, nil).LintFile(file, nil)
	if err != nil {
		t.Fatal(err)
	}
	return fmtC10N3(errs)
}

// togetherC10N3 lints the files in one invocation with a fresh Linter and returns the diagnostics per file
// (keyed by the path relative to cwd).
func togetherC10N3(t *testing.T, cwd string, files []string, waitFor map[string]string) map[string][]string {
	t.Helper()
	errs, err := linterC10N3(t, cwd, waitFor).LintFiles(files, nil)
	if err != nil {
		t.Fatal(err)
	}
	m := map[string][]string{}
	for _, f := range files {
		r, _ := filepath.Rel(cwd, f)
		m[filepath.ToSlash(r)] = []string{}
	}
	for _, e := range errs {
		k := filepath.ToSlash(e.Filepath)
		m[k] = append(m[k], fmtC10N3([]*Error{e})...)
	}
	return m
}

func sameC10N3(a, b []string) bool {
	return strings.Join(a, "\n") == strings.Join(b, "\n")
}

const callerC10N3 = `name: caller
on: push
jobs:
  call:
    uses: ./.github/workflows/callee.yml
`

const calleeC10N3 = `name: callee
on:
  workflow_call:
    inputs: [foo]
jobs:
  a:
    runs-on: ubuntu-latest
    steps:
      - run: echo hello
`

// The called reusable workflow has one defect (its "inputs" is a sequence) and is part of the run. The property
// says that defects of referenced workflows are reported once per run, and that the result does not depend on
// the goroutine interleaving.
func TestHuntC10N3BrokenCalleeInRunReportedOnceForEveryInterleaving(t *testing.T) {
	root := t.TempDir()
	mkRepoC10N3(t, root, map[string]string{
		".github/workflows/callee.yml": calleeC10N3,
		".github/workflows/caller.yml": callerC10N3,
	})
	callee := filepath.Join(root, ".github", "workflows", "callee.yml")
	caller := filepath.Join(root, ".github", "workflows", "caller.yml")

	calleeFirst := togetherC10N3(t, root, []string{callee, caller}, map[string]string{"caller": "callee"})
	callerFirst := togetherC10N3(t, root, []string{callee, caller}, map[string]string{"callee": "caller"})
	t.Logf("callee checked first: %q", calleeFirst)
	t.Logf("caller checked first: %q", callerFirst)

	for _, f := range []string{".github/workflows/callee.yml", ".github/workflows/caller.yml"} {
		if !sameC10N3(calleeFirst[f], callerFirst[f]) {
			t.Errorf("diagnostics of %s depend on the goroutine interleaving:\n  callee checked first: %q\n  caller checked first: %q", f, calleeFirst[f], callerFirst[f])
		}
	}
	for name, r := range map[string]map[string][]string{"callee checked first": calleeFirst, "caller checked first": callerFirst} {
		n := 0
		for _, es := range r {
			n += len(es)
		}
		if n != 1 {
			t.Errorf("%s: the single defect of callee.yml must be reported once in the run but %d diagnostics were reported: %q", name, n, r)
		}
	}
}
