package actionlint

import (
	"fmt"
	"io"
	"os"
	"path/filepath"
	"strings"
	"sync"
	"testing"
)

// Helpers. Every name carries the suffix C10N2 so that the file can live next to other demos.

func mkRepoC10N2(t *testing.T, root string, files map[string]string) {
	t.Helper()
	for _, d := range []string{".git", filepath.Join(".github", "workflows")} {
		if err := os.MkdirAll(filepath.Join(root, d), 0o755); err != nil {
			t.Fatal(err)
		}
	}
	for p, c := range files {
		f := filepath.Join(root, filepath.FromSlash(p))
		if err := os.MkdirAll(filepath.Dir(f), 0o755); err != nil {
			t.Fatal(err)
		}
		if err := os.WriteFile(f, []byte(c), 0o644); err != nil {
			t.Fatal(err)
		}
	}
}

// gateC10N2 selects one goroutine interleaving of a multi-file run. A workflow whose `name:` is a key of
// waitFor does not start being visited until the workflow named by the value was visited completely. It only
// delays goroutines; it reports nothing and changes nothing.
type gateC10N2 struct {
	mu      sync.Mutex
	done    map[string]chan struct{}
	waitFor map[string]string
}

func (g *gateC10N2) ch(name string) chan struct{} {
	g.mu.Lock()
	defer g.mu.Unlock()
	c, ok := g.done[name]
	if !ok {
		c = make(chan struct{})
		g.done[name] = c
	}
	return c
}

type gateRuleC10N2 struct {
	RuleBase
	gate *gateC10N2
	name string
}

func (r *gateRuleC10N2) VisitWorkflowPre(n *Workflow) error {
	if n.Name != nil {
		r.name = n.Name.Value
	}
	if w, ok := r.gate.waitFor[r.name]; ok {
		<-r.gate.ch(w)
	}
	return nil
}

func (r *gateRuleC10N2) VisitWorkflowPost(n *Workflow) error {
	if r.name != "" {
		c := r.gate.ch(r.name)
		select {
		case <-c:
		default:
			close(c)
		}
	}
	return nil
}

func linterC10N2(t *testing.T, cwd string, waitFor map[string]string) *Linter {
	t.Helper()
	o := &LinterOptions{WorkingDir: cwd}
	if waitFor != nil {
		g := &gateC10N2{done: map[string]chan struct{}{}, waitFor: waitFor}
		o.OnRulesCreated = func(rs []Rule) []Rule {
			// The gate is the first pass so that it is passed before any other rule sees the workflow
			return append([]Rule{&gateRuleC10N2{RuleBase: RuleBase{name: "gate"}, gate: g}}, rs...)
		}
	}
	l, err := NewLinter(io.Discard, o)
	if err != nil {
		t.Fatal(err)
	}
	return l
}

func fmtC10N2(errs []*Error) []string {
	r := []string{}
	for _, e := range errs {
		r = append(r, fmt.Sprintf("%s:%d:%d: %s [%s]", filepath.ToSlash(e.Filepath), e.Line, e.Column, e.Message, e.Kind))
	}
	return r
}

// aloneC10N2 lints one file with a fresh Linter.
func aloneC10N2(t *testing.T, cwd, file string) []string {
	t.Helper()
	errs, err := linterC10N2(t, cwd, nil).LintFile(file, nil)
	if err != nil {
		t.Fatal(err)
	}
	return fmtC10N2(errs)
}

// togetherC10N2 lints the files in one invocation with a fresh Linter and returns the diagnostics per file
// (keyed by the path relative to cwd).
func togetherC10N2(t *testing.T, cwd string, files []string, waitFor map[string]string) map[string][]string {
	t.Helper()
	errs, err := linterC10N2(t, cwd, waitFor).LintFiles(files, nil)
	if err != nil {
		t.Fatal(err)
	}
	m := map[string][]string{}
	for _, f := range files {
		r, _ := filepath.Rel(cwd, f)
		m[filepath.ToSlash(r)] = []string{}
	}
	for _, e := range errs {
		k := filepath.ToSlash(e.Filepath)
		m[k] = append(m[k], fmtC10N2([]*Error{e})...)
	}
	return m
}

func sameC10N2(a, b []string) bool {
	return strings.Join(a, "\n") == strings.Join(b, "\n")
}

const callerC10N2 = `name: caller
on: push
jobs:
  call:
    uses: ./.github/workflows/callee.yml
`

// checkIsolatedC10N2 checks the statement of the property for a caller and the reusable workflow it calls:
// the caller gets the same diagnostics alone and in a run which also contains the callee, for both argument
// orders and for both orders in which the two goroutines can get to the shared interface of the callee.
func checkIsolatedC10N2(t *testing.T, calleeSrc string, calleeMustBeClean bool) {
	t.Helper()
	root := t.TempDir()
	mkRepoC10N2(t, root, map[string]string{
		".github/workflows/callee.yml": calleeSrc,
		".github/workflows/caller.yml": callerC10N2,
	})
	callee := filepath.Join(root, ".github", "workflows", "callee.yml")
	caller := filepath.Join(root, ".github", "workflows", "caller.yml")

	calleeAlone := aloneC10N2(t, root, callee)
	callerAlone := aloneC10N2(t, root, caller)
	t.Logf("callee alone: %q", calleeAlone)
	t.Logf("caller alone: %q", callerAlone)
	if calleeMustBeClean && len(calleeAlone) != 0 {
		t.Fatalf("the demo expects that actionlint finds nothing in the callee, but it reported %q", calleeAlone)
	}

	for _, files := range [][]string{{callee, caller}, {caller, callee}} {
		for _, waitFor := range []map[string]string{
			{"caller": "callee"}, // the callee is checked completely before the caller
			{"callee": "caller"}, // the caller is checked completely before the callee
		} {
			got := togetherC10N2(t, root, files, waitFor)
			c := got[".github/workflows/caller.yml"]
			if !sameC10N2(c, callerAlone) {
				t.Errorf("caller.yml gets other diagnostics in the run %v (interleaving %v) than alone:\n  alone:    %q\n  together: %q", files, waitFor, callerAlone, c)
			}
			c = got[".github/workflows/callee.yml"]
			if !sameC10N2(c, calleeAlone) {
				t.Errorf("callee.yml gets other diagnostics in the run %v (interleaving %v) than alone:\n  alone:    %q\n  together: %q", files, waitFor, calleeAlone, c)
			}
		}
	}
}

// The input is required and has an empty (null) default. The interface derived from the file says "required"
// (the null default decodes to a nil *string), the interface derived from the in-memory AST says "not required"
// (the null scalar is parsed to a non-nil String). So whether the caller is told about the missing input
// depends on whether the callee is part of the run and on which goroutine is faster.
func TestHuntC10N2RequiredInputWithNullDefault(t *testing.T) {
	checkIsolatedC10N2(t, `name: callee
on:
  workflow_call:
    inputs:
      foo:
        type: string
        required: true
        default:
`+jobsC10N2, false)
}

func TestHuntC10N2RequiredInputWithTildeDefault(t *testing.T) {
	checkIsolatedC10N2(t, `name: callee
on:
  workflow_call:
    inputs:
      foo:
        type: string
        required: true
        default: ~
`+jobsC10N2, false)
}

const jobsC10N2 = `jobs:
  a:
    runs-on: ubuntu-latest
    steps:
      - run: echo hello
`
