package actionlint

import (
	"bytes"
	"fmt"
	"os"
	"path/filepath"
	"testing"
)

// The property says that linting the same files with the same configuration always produces
// byte-identical results which do not depend on hash-map iteration order or on how many times the
// run is repeated. Here the same workflow is linted repeatedly with the same configuration file.
// The "paths" mapping of the configuration file contains several invalid glob patterns.

const huntC02N4Config = `paths:
  "a[":
    ignore: []
  "b[":
    ignore: []
  "c[":
    ignore: []
  "d[":
    ignore: []
  "e[":
    ignore: []
  "f[":
    ignore: []
`

func TestHuntC02N4ConfigWithSeveralInvalidGlobs(t *testing.T) {
	root := t.TempDir()
	for _, d := range []string{".git", filepath.Join(".github", "workflows")} {
		if err := os.MkdirAll(filepath.Join(root, d), 0755); err != nil {
			t.Fatal(err)
		}
	}
	wf := filepath.Join(root, ".github", "workflows", "test.yml")
	if err := os.WriteFile(wf, []byte("on: push\njobs:\n  test:\n    runs-on: ubuntu-latest\n    steps:\n      - run: echo\n"), 0644); err != nil {
		t.Fatal(err)
	}
	if err := os.WriteFile(filepath.Join(root, ".github", "actionlint.yaml"), []byte(huntC02N4Config), 0644); err != nil {
		t.Fatal(err)
	}

	seen := map[string]int{}
	order := []string{}
	for i := 0; i < 200; i++ {
		var stdout, stderr bytes.Buffer
		cmd := Command{Stdin: bytes.NewReader(nil), Stdout: &stdout, Stderr: &stderr}
		status := cmd.Main([]string{"actionlint", "-shellcheck=", "-pyflakes=", "-no-color", wf})
		r := fmt.Sprintf("exit status: %d\nstdout: %q\nstderr: %q\n", status, stdout.String(), stderr.String())
		if _, ok := seen[r]; !ok {
			order = append(order, r)
		}
		seen[r]++
	}

	if len(seen) != 1 {
		msg := ""
		for _, r := range order {
			msg += fmt.Sprintf("--- %d times:\n%s", seen[r], r)
		}
		t.Errorf("200 runs over the same file with the same configuration gave %d different results:\n%s", len(seen), msg)
	}
}

// The same with the API used by Command
func TestHuntC02N4ParseConfigWithSeveralInvalidGlobs(t *testing.T) {
	seen := map[string]int{}
	for i := 0; i < 200; i++ {
		_, err := ParseConfig([]byte(huntC02N4Config))
		if err == nil {
			t.Fatal("invalid glob patterns in \"paths\" were not rejected")
		}
		seen[err.Error()]++
	}
	if len(seen) != 1 {
		t.Errorf("parsing the same configuration 200 times gave %d different error messages: %v", len(seen), seen)
	}
}
