package actionlint

import (
	"bytes"
	"fmt"
	"testing"
)

// The property says that linting the same input always produces the same diagnostics in the same
// order and that the result does not depend on hash-map iteration order, in particular for
// workflows producing two or more diagnostics at one source position. These tests lint one
// workflow repeatedly and require that all the runs print the same bytes.

func huntC02N1Check(t *testing.T, src string) {
	t.Helper()
	seen := map[string]int{}
	order := []string{}
	for i := 0; i < 200; i++ {
		var out bytes.Buffer
		l, err := NewLinter(&out, &LinterOptions{Oneline: true})
		if err != nil {
			t.Fatal(err)
		}
		errs, err := l.Lint("<stdin>", []byte(src), nil)
		if err != nil {
			t.Fatal(err)
		}
		if len(errs) < 2 {
			t.Fatalf("at least 2 diagnostics are expected but got %d: %s", len(errs), out.String())
		}
		s := out.String()
		if _, ok := seen[s]; !ok {
			order = append(order, s)
		}
		seen[s]++
	}
	if len(seen) != 1 {
		msg := ""
		for _, s := range order {
			msg += fmt.Sprintf("--- %d times:\n%s", seen[s], s)
		}
		t.Errorf("200 runs over the same workflow gave %d different outputs:\n%s", len(seen), msg)
	}
}

// Inputs of an action at "with:". The values of "ccc" and "aaa" are double-quoted scalars whose expressions
// contain line breaks written with the \n escape.
func TestHuntC02N1ActionInputsWithEscapedLineBreakInExpression(t *testing.T) {
	huntC02N1Check(t, `on: push
jobs:
  test:
    runs-on: ubuntu-latest
    steps:
      - uses: foo/bar@v1
        with:
          ccc: "${{ \n\n zzz }}"
          aaa: "${{ \n xxx }}"
          bbb:  ${{ yyy }}
`)
}

// The same with environment variables at "env:"
func TestHuntC02N1EnvVarsWithEscapedLineBreakInExpression(t *testing.T) {
	huntC02N1Check(t, `on: push
jobs:
  test:
    runs-on: ubuntu-latest
    env:
      CCC: "${{ \n\n zzz }}"
      AAA: "${{ \n xxx }}"
      BBB:  ${{ yyy }}
    steps:
      - run: echo
`)
}
