package actionlint

import (
	"bytes"
	"fmt"
	"os"
	"path/filepath"
	"sync"
	"testing"
	"time"
)

// The property says that linting the same files with the same configuration gives byte-identical
// results regardless of goroutine interleavings of multi-file runs. These tests lint the same two
// workflow files twice. The only difference between the two runs is the order in which the
// goroutines of Linter.LintFiles get to run, which is forced with a pair of passes that report
// nothing: the pass at the head of the rule list blocks the visit of one workflow until the pass at
// the tail of the rule list has seen the end of the visit of the other workflow.

type huntC02N3Gate struct {
	RuleBase
	first string // name of the workflow which must be visited first
	tail  bool
	done  chan struct{}
	once  *sync.Once
}

func (g *huntC02N3Gate) VisitWorkflowPre(n *Workflow) error {
	if g.tail || n.Name == nil || n.Name.Value == g.first {
		return nil
	}
	select {
	case <-g.done:
	case <-time.After(5 * time.Second): // never hang, e.g. when files are checked sequentially
	}
	return nil
}

func (g *huntC02N3Gate) VisitWorkflowPost(n *Workflow) error {
	if g.tail && n.Name != nil && n.Name.Value == g.first {
		g.once.Do(func() { close(g.done) })
	}
	return nil
}

func huntC02N3Project(t *testing.T, files map[string]string) string {
	t.Helper()
	root := t.TempDir()
	for _, d := range []string{".git", filepath.Join(".github", "workflows")} {
		if err := os.MkdirAll(filepath.Join(root, d), 0755); err != nil {
			t.Fatal(err)
		}
	}
	for p, c := range files {
		f := filepath.Join(root, filepath.FromSlash(p))
		if err := os.MkdirAll(filepath.Dir(f), 0755); err != nil {
			t.Fatal(err)
		}
		if err := os.WriteFile(f, []byte(c), 0644); err != nil {
			t.Fatal(err)
		}
	}
	return root
}

// huntC02N3Lint lints a.yml and b.yml of the project with one Linter.LintFiles call and returns what was printed.
// The workflow named `first` is visited before the other one.
func huntC02N3Lint(t *testing.T, root, first string) string {
	t.Helper()
	done := make(chan struct{})
	once := &sync.Once{}
	var out bytes.Buffer
	opts := LinterOptions{
		WorkingDir: root,
		Oneline:    true,
		OnRulesCreated: func(rules []Rule) []Rule {
			head := &huntC02N3Gate{RuleBase: NewRuleBase("gate-head", ""), first: first, done: done, once: once}
			tail := &huntC02N3Gate{RuleBase: NewRuleBase("gate-tail", ""), first: first, done: done, once: once, tail: true}
			ret := append([]Rule{head}, rules...)
			return append(ret, tail)
		},
	}
	l, err := NewLinter(&out, &opts)
	if err != nil {
		t.Fatal(err)
	}
	errs, err := l.LintFiles([]string{
		filepath.Join(root, ".github", "workflows", "a.yml"),
		filepath.Join(root, ".github", "workflows", "b.yml"),
	}, nil)
	if err != nil {
		t.Fatal(err)
	}
	s := out.String()
	s += fmt.Sprintf("(%d errors)\n", len(errs))
	return s
}

func huntC02N3Workflow(name string) string {
	return fmt.Sprintf(`name: %s
on: push
jobs:
  call:
    uses: ./.github/workflows/reusable.yml
`, name)
}

func huntC02N3Check(t *testing.T, files map[string]string) {
	t.Helper()
	files[".github/workflows/a.yml"] = huntC02N3Workflow("a")
	files[".github/workflows/b.yml"] = huntC02N3Workflow("b")
	root := huntC02N3Project(t, files)

	out1 := huntC02N3Lint(t, root, "a")
	out2 := huntC02N3Lint(t, root, "b")
	if out1 != out2 {
		t.Errorf("two runs over the same files gave different results depending on which goroutine ran first.\n--- a.yml visited first:\n%s--- b.yml visited first:\n%s", out1, out2)
	}
}

// Two workflows call a local reusable workflow whose file does not exist
func TestHuntC02N3MissingReusableWorkflowCalledByTwoFiles(t *testing.T) {
	huntC02N3Check(t, map[string]string{})
}

// Two workflows call a local workflow which is not reusable (no workflow_call trigger). The called workflow is not
// in the list of the linted files
func TestHuntC02N3NotReusableWorkflowCalledByTwoFiles(t *testing.T) {
	huntC02N3Check(t, map[string]string{
		".github/workflows/reusable.yml": `name: reusable
on: push
jobs:
  test:
    runs-on: ubuntu-latest
    steps:
      - run: echo
`,
	})
}

func huntC02N3ActionWorkflow(name string) string {
	return fmt.Sprintf(`name: %s
on: push
jobs:
  test:
    runs-on: ubuntu-latest
    steps:
      - uses: ./my-action
`, name)
}

func huntC02N3CheckAction(t *testing.T, actionYAML string) {
	t.Helper()
	root := huntC02N3Project(t, map[string]string{
		".github/workflows/a.yml": huntC02N3ActionWorkflow("a"),
		".github/workflows/b.yml": huntC02N3ActionWorkflow("b"),
		"my-action/action.yml":    actionYAML,
	})

	out1 := huntC02N3Lint(t, root, "a")
	out2 := huntC02N3Lint(t, root, "b")
	if out1 != out2 {
		t.Errorf("two runs over the same files gave different results depending on which goroutine ran first.\n--- a.yml visited first:\n%s--- b.yml visited first:\n%s", out1, out2)
	}
}

// Two workflows use a local action whose action.yml is not parsable
func TestHuntC02N3BrokenLocalActionUsedByTwoFiles(t *testing.T) {
	huntC02N3CheckAction(t, "name: [\n")
}

// Two workflows use a local action whose action.yml is parsable but its metadata is wrong ("description" and "runs"
// are missing)
func TestHuntC02N3InvalidLocalActionMetadataUsedByTwoFiles(t *testing.T) {
	huntC02N3CheckAction(t, "name: my action\n")
}
