package actionlint

import (
	"bytes"
	"fmt"
	"os"
	"path/filepath"
	"sync"
	"testing"
	"time"
)

// The property says that linting the same files with the same configuration gives byte-identical
// results regardless of goroutine interleavings of multi-file runs. These tests lint the same two
// workflow files twice. The only difference between the two runs is the order in which the
// goroutines of Linter.LintFiles get to run, which is forced with a pair of passes that report
// nothing: the pass at the head of the rule list blocks the visit of one workflow until the pass at
// the tail of the rule list has seen the end of the visit of the other workflow.

type huntC02N2Gate struct {
	RuleBase
	first string // name of the workflow which must be visited first
	tail  bool
	done  chan struct{}
	once  *sync.Once
}

func (g *huntC02N2Gate) VisitWorkflowPre(n *Workflow) error {
	if g.tail || n.Name == nil || n.Name.Value == g.first {
		return nil
	}
	select {
	case <-g.done:
	case <-time.After(5 * time.Second): // never hang, e.g. when files are checked sequentially
	}
	return nil
}

func (g *huntC02N2Gate) VisitWorkflowPost(n *Workflow) error {
	if g.tail && n.Name != nil && n.Name.Value == g.first {
		g.once.Do(func() { close(g.done) })
	}
	return nil
}

func huntC02N2Project(t *testing.T, files map[string]string) string {
	t.Helper()
	root := t.TempDir()
	for _, d := range []string{".git", filepath.Join(".github", "workflows")} {
		if err := os.MkdirAll(filepath.Join(root, d), 0755); err != nil {
			t.Fatal(err)
		}
	}
	for p, c := range files {
		f := filepath.Join(root, filepath.FromSlash(p))
		if err := os.MkdirAll(filepath.Dir(f), 0755); err != nil {
			t.Fatal(err)
		}
		if err := os.WriteFile(f, []byte(c), 0644); err != nil {
			t.Fatal(err)
		}
	}
	return root
}

// huntC02N2Lint lints callee.yml and caller.yml of the project with one Linter.LintFiles call and returns what was printed.
// The workflow named `first` is visited before the other one.
func huntC02N2Lint(t *testing.T, root, first string) string {
	t.Helper()
	done := make(chan struct{})
	once := &sync.Once{}
	var out bytes.Buffer
	opts := LinterOptions{
		WorkingDir: root,
		Oneline:    true,
		OnRulesCreated: func(rules []Rule) []Rule {
			head := &huntC02N2Gate{RuleBase: NewRuleBase("gate-head", ""), first: first, done: done, once: once}
			tail := &huntC02N2Gate{RuleBase: NewRuleBase("gate-tail", ""), first: first, done: done, once: once, tail: true}
			ret := append([]Rule{head}, rules...)
			return append(ret, tail)
		},
	}
	l, err := NewLinter(&out, &opts)
	if err != nil {
		t.Fatal(err)
	}
	errs, err := l.LintFiles([]string{
		filepath.Join(root, ".github", "workflows", "callee.yml"),
		filepath.Join(root, ".github", "workflows", "caller.yml"),
	}, nil)
	if err != nil {
		t.Fatal(err)
	}
	s := out.String()
	s += fmt.Sprintf("(%d errors)\n", len(errs))
	return s
}

const huntC02N2Caller = `name: caller
on: push
jobs:
  call:
    uses: ./.github/workflows/callee.yml
`

func huntC02N2Check(t *testing.T, callee, caller string) {
	t.Helper()
	root := huntC02N2Project(t, map[string]string{
		".github/workflows/callee.yml": callee,
		".github/workflows/caller.yml": caller,
	})

	out1 := huntC02N2Lint(t, root, "callee")
	out2 := huntC02N2Lint(t, root, "caller")
	if out1 != out2 {
		t.Errorf("two runs over the same files gave different results depending on which goroutine ran first.\n--- callee.yml visited first:\n%s--- caller.yml visited first:\n%s", out1, out2)
	}
}

// "required" of an input of the reusable workflow is given with ${{ }}, which actionlint accepts
func TestHuntC02N2ReusableWorkflowInputRequiredByExpression(t *testing.T) {
	huntC02N2Check(t, `name: callee
on:
  workflow_call:
    inputs:
      foo:
        type: string
        required: ${{ true }}
jobs:
  test:
    runs-on: ubuntu-latest
    steps:
      - run: echo
`, huntC02N2Caller)
}

// "required" of a secret of the reusable workflow is given with ${{ }}
func TestHuntC02N2ReusableWorkflowSecretRequiredByExpression(t *testing.T) {
	huntC02N2Check(t, `name: callee
on:
  workflow_call:
    secrets:
      token:
        required: ${{ true }}
jobs:
  test:
    runs-on: ubuntu-latest
    steps:
      - run: echo
`, huntC02N2Caller)
}

// A required input has "default:" with no value
func TestHuntC02N2ReusableWorkflowRequiredInputWithNullDefault(t *testing.T) {
	huntC02N2Check(t, `name: callee
on:
  workflow_call:
    inputs:
      foo:
        type: string
        required: true
        default:
jobs:
  test:
    runs-on: ubuntu-latest
    steps:
      - run: echo
`, huntC02N2Caller)
}
