package actionlint

import (
	"fmt"
	"io"
	"os"
	"path/filepath"
	"runtime/debug"
	"testing"
)

// huntC01N1Lint creates a temporary repository (with .git and .github/workflows) containing the
// given files, lints .github/workflows/test.yaml with Linter.LintFile and reports what happened.
// A Go runtime panic raised while linting is recovered and returned instead of crashing the test binary.
func huntC01N1Lint(t *testing.T, files map[string]string) (errs []*Error, fatal error, panicked string) {
	t.Helper()
	root := t.TempDir()
	for _, d := range []string{".git", filepath.Join(".github", "workflows")} {
		if err := os.MkdirAll(filepath.Join(root, d), 0755); err != nil {
			t.Fatal(err)
		}
	}
	for p, c := range files {
		f := filepath.Join(root, filepath.FromSlash(p))
		if err := os.MkdirAll(filepath.Dir(f), 0755); err != nil {
			t.Fatal(err)
		}
		if err := os.WriteFile(f, []byte(c), 0644); err != nil {
			t.Fatal(err)
		}
	}
	defer func() {
		if r := recover(); r != nil {
			panicked = fmt.Sprintf("%v\n%s", r, debug.Stack())
		}
	}()
	l, err := NewLinter(io.Discard, &LinterOptions{WorkingDir: root})
	if err != nil {
		t.Fatal(err)
	}
	errs, fatal = l.LintFile(filepath.Join(root, ".github", "workflows", "test.yaml"), nil)
	return
}

// huntC01N1Check checks the statement of the property: linting terminates with either a list of
// diagnostics or a fatal error, and never with a Go runtime panic.
func huntC01N1Check(t *testing.T, files map[string]string) {
	t.Helper()
	errs, fatal, panicked := huntC01N1Lint(t, files)
	if panicked != "" {
		t.Fatalf("linting must end with diagnostics or a fatal error, but it surfaced a Go runtime panic: %s", panicked)
	}
	t.Logf("ok: fatal=%v, %d diagnostics", fatal, len(errs))
	for _, e := range errs {
		t.Logf("  %s", e.Error())
	}
}

// A local action metadata file (action.yml) whose "inputs" mapping carries the explicit YAML tag
// !!null and has a null value. yaml.v3 skips ActionMetadataInputs.UnmarshalYAML for a node tagged
// !!null and decodes the mapping into the map type directly, which stores a nil *ActionMetadataInput.
func TestHuntC01N1ActionMetadataInputsNullTag(t *testing.T) {
	huntC01N1Check(t, map[string]string{
		".github/workflows/test.yaml": `on: push
jobs:
  test:
    runs-on: ubuntu-latest
    steps:
      - uses: ./act
`,
		"act/action.yml": `name: a
description: d
inputs: !!null
  foo: ~
runs:
  using: node20
  main: index.js
`,
		"act/index.js": "",
	})
}

// Same metadata, the step passes an input which is not defined (other code path in checkAction: i.Name)
func TestHuntC01N1ActionMetadataInputsNullTagUndefinedInput(t *testing.T) {
	huntC01N1Check(t, map[string]string{
		".github/workflows/test.yaml": `on: push
jobs:
  test:
    runs-on: ubuntu-latest
    steps:
      - uses: ./act
        with:
          bar: x
`,
		"act/action.yml": "name: a\ndescription: d\ninputs: !!null {foo: ~}\nruns: {using: node20, main: index.js}\n",
		"act/index.js":   "",
	})
}
