package actionlint

import (
	"fmt"
	"io"
	"os"
	"path/filepath"
	"runtime/debug"
	"testing"
)

// huntC01N4Lint creates a temporary repository (with .git and .github/workflows) containing the
// given files, lints .github/workflows/test.yaml with Linter.LintFile and reports what happened.
// A Go runtime panic raised while linting is recovered and returned instead of crashing the test binary.
func huntC01N4Lint(t *testing.T, files map[string]string) (errs []*Error, fatal error, panicked string) {
	t.Helper()
	root := t.TempDir()
	for _, d := range []string{".git", filepath.Join(".github", "workflows")} {
		if err := os.MkdirAll(filepath.Join(root, d), 0755); err != nil {
			t.Fatal(err)
		}
	}
	for p, c := range files {
		f := filepath.Join(root, filepath.FromSlash(p))
		if err := os.MkdirAll(filepath.Dir(f), 0755); err != nil {
			t.Fatal(err)
		}
		if err := os.WriteFile(f, []byte(c), 0644); err != nil {
			t.Fatal(err)
		}
	}
	defer func() {
		if r := recover(); r != nil {
			panicked = fmt.Sprintf("%v\n%s", r, debug.Stack())
		}
	}()
	l, err := NewLinter(io.Discard, &LinterOptions{WorkingDir: root})
	if err != nil {
		t.Fatal(err)
	}
	errs, fatal = l.LintFile(filepath.Join(root, ".github", "workflows", "test.yaml"), nil)
	return
}

// huntC01N4Check checks the statement of the property: linting terminates with either a list of
// diagnostics or a fatal error, and never with a Go runtime panic.
func huntC01N4Check(t *testing.T, files map[string]string) {
	t.Helper()
	errs, fatal, panicked := huntC01N4Lint(t, files)
	if panicked != "" {
		t.Fatalf("linting must end with diagnostics or a fatal error, but it surfaced a Go runtime panic: %s", panicked)
	}
	t.Logf("ok: fatal=%v, %d diagnostics", fatal, len(errs))
	for _, e := range errs {
		t.Logf("  %s", e.Error())
	}
}

// A local reusable workflow file whose "secrets" mapping carries the explicit YAML tag !!null and has
// a null value. yaml.v3 skips ReusableWorkflowMetadataSecrets.UnmarshalYAML for a node tagged !!null
// and decodes the mapping into the map type directly, which stores a nil
// *ReusableWorkflowMetadataSecret. RuleWorkflowCall.checkWorkflowCallUsesLocal dereferences it.
func TestHuntC01N4ReusableWorkflowSecretsNullTag(t *testing.T) {
	huntC01N4Check(t, map[string]string{
		".github/workflows/test.yaml": `on: push
jobs:
  call:
    uses: ./.github/workflows/callee.yaml
`,
		".github/workflows/callee.yaml": `on:
  workflow_call:
    secrets: !!null
      foo: ~
jobs:
  test:
    runs-on: ubuntu-latest
    steps:
      - run: echo
`,
	})
}

// The same with "inputs". The check of required inputs guards against nil, but listing the defined
// inputs for an undefined input passed by the caller does not.
func TestHuntC01N4ReusableWorkflowInputsNullTag(t *testing.T) {
	huntC01N4Check(t, map[string]string{
		".github/workflows/test.yaml": `on: push
jobs:
  call:
    uses: ./.github/workflows/callee.yaml
    with:
      bar: x
`,
		".github/workflows/callee.yaml": `on:
  workflow_call:
    inputs: !!null
      foo: ~
jobs:
  test:
    runs-on: ubuntu-latest
    steps:
      - run: echo
`,
	})
}
