package actionlint

import (
	"io"
	"strings"
	"testing"
)

// huntC11N3Untrusted lints a workflow which has the given step text and returns the messages of
// all script-injection diagnostics ("potentially untrusted") and the messages of all diagnostics.
func huntC11N3Untrusted(t *testing.T, step string) (untrusted []string, all []string) {
	t.Helper()
	src := "on: [issues, pull_request, push]\njobs:\n  test:\n    runs-on: ubuntu-latest\n    steps:\n" + step
	l, err := NewLinter(io.Discard, &LinterOptions{Shellcheck: "", Pyflakes: ""})
	if err != nil {
		t.Fatal(err)
	}
	errs, err := l.Lint("test.yaml", []byte(src), nil)
	if err != nil {
		t.Fatal(err)
	}
	for _, e := range errs {
		all = append(all, e.Error())
		if strings.Contains(e.Message, "potentially untrusted") {
			untrusted = append(untrusted, e.Message)
		}
	}
	return
}

func huntC11N3Names(msgs []string, path string) bool {
	for _, m := range msgs {
		if strings.Contains(m, "\"" + path + "\"") {
			return true
		}
	}
	return false
}

// ['*'] is an access to a property which is literally named "*" (a string literal index), it is not
// the object filter `.*`. github.event.commits['*'] is null, so the expressions below read none of
// the documented untrusted inputs and must not be reported.
func TestHuntC11N3StringLiteralStarIndexIsNotObjectFilter(t *testing.T) {
	for _, expr := range []string{
		"github.event.commits['*'].message",
		"github.event.pages['*'].page_name",
		"github.event.commits['*'].author.name",
	} {
		u, _ := huntC11N3Untrusted(t, "      - run: echo ${{ "+expr+" }}\n")
		if len(u) > 0 {
			t.Errorf("%s reads no untrusted input (property named \"*\" does not exist) but it is reported: %q", expr, u)
		}
	}
}
