package actionlint

import (
	"io"
	"strings"
	"testing"
)

// huntC11N4Untrusted lints a workflow which has the given step text and returns the messages of
// all script-injection diagnostics ("potentially untrusted") and the messages of all diagnostics.
func huntC11N4Untrusted(t *testing.T, step string) (untrusted []string, all []string) {
	t.Helper()
	src := "on: [issues, pull_request, push]\njobs:\n  test:\n    runs-on: ubuntu-latest\n    steps:\n" + step
	l, err := NewLinter(io.Discard, &LinterOptions{Shellcheck: "", Pyflakes: ""})
	if err != nil {
		t.Fatal(err)
	}
	errs, err := l.Lint("test.yaml", []byte(src), nil)
	if err != nil {
		t.Fatal(err)
	}
	for _, e := range errs {
		all = append(all, e.Error())
		if strings.Contains(e.Message, "potentially untrusted") {
			untrusted = append(untrusted, e.Message)
		}
	}
	return
}

func huntC11N4Names(msgs []string, path string) bool {
	for _, m := range msgs {
		if strings.Contains(m, "\"" + path + "\"") {
			return true
		}
	}
	return false
}

// The value of (github.event.issue || github.event.pull_request).title is github.event.issue.title
// (or github.event.pull_request.title): the untrusted title is reached through parentheses and the
// || operator. Nothing is reported.
func TestHuntC11N4PropertyOfParenthesizedLogicalOr(t *testing.T) {
	u, all := huntC11N4Untrusted(t, "      - run: echo \"${{ (github.event.issue || github.event.pull_request).title }}\"\n")
	if !huntC11N4Names(u, "github.event.issue.title") && !huntC11N4Names(u, "github.event.pull_request.title") {
		t.Errorf("expression evaluates to github.event.issue.title / github.event.pull_request.title in run: but nothing is reported. all diagnostics: %q", all)
	}
}

func TestHuntC11N4PropertyOfParenthesizedLogicalAnd(t *testing.T) {
	u, all := huntC11N4Untrusted(t, "      - run: echo \"${{ (github.event_name == 'pull_request' && github.event.pull_request.head).ref }}\"\n")
	if !huntC11N4Names(u, "github.event.pull_request.head.ref") {
		t.Errorf("expression evaluates to github.event.pull_request.head.ref in run: but nothing is reported. all diagnostics: %q", all)
	}
}
