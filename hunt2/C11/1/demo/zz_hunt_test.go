package actionlint

import (
	"io"
	"strings"
	"testing"
)

// huntC11N1Untrusted lints a workflow which has the given step text and returns the messages of
// all script-injection diagnostics ("potentially untrusted") and the messages of all diagnostics.
func huntC11N1Untrusted(t *testing.T, step string) (untrusted []string, all []string) {
	t.Helper()
	src := "on: [issues, pull_request, push]\njobs:\n  test:\n    runs-on: ubuntu-latest\n    steps:\n" + step
	l, err := NewLinter(io.Discard, &LinterOptions{Shellcheck: "", Pyflakes: ""})
	if err != nil {
		t.Fatal(err)
	}
	errs, err := l.Lint("test.yaml", []byte(src), nil)
	if err != nil {
		t.Fatal(err)
	}
	for _, e := range errs {
		all = append(all, e.Error())
		if strings.Contains(e.Message, "potentially untrusted") {
			untrusted = append(untrusted, e.Message)
		}
	}
	return
}

func huntC11N1Names(msgs []string, path string) bool {
	for _, m := range msgs {
		if strings.Contains(m, "\"" + path + "\"") {
			return true
		}
	}
	return false
}

// Two expressions in one run: script, each reading a documented untrusted input. The property says
// every expression which reads an untrusted input is reported.
func TestHuntC11N1TwoUntrustedExpressionsInOneRun(t *testing.T) {
	u, all := huntC11N1Untrusted(t, "      - run: echo ${{ github.event.issue.title }} ${{ github.event.issue.body }}\n")
	if !huntC11N1Names(u, "github.event.issue.title") {
		t.Errorf("github.event.issue.title is not reported: %q", all)
	}
	if !huntC11N1Names(u, "github.event.issue.body") {
		t.Errorf("second expression reads github.event.issue.body in run: but it is not reported. all diagnostics: %q", all)
	}
}

// The usual layout: multi-line script, one expression per line.
func TestHuntC11N1TwoUntrustedExpressionsOnSeparateLines(t *testing.T) {
	u, all := huntC11N1Untrusted(t, "      - run: |\n          echo ${{ github.event.issue.title }}\n          echo ${{ github.head_ref }}\n")
	if !huntC11N1Names(u, "github.event.issue.title") {
		t.Errorf("github.event.issue.title is not reported: %q", all)
	}
	if !huntC11N1Names(u, "github.head_ref") {
		t.Errorf("expression on second line reads github.head_ref in run: but it is not reported. all diagnostics: %q", all)
	}
}

// Same for script: input of actions/github-script
func TestHuntC11N1TwoUntrustedExpressionsInGithubScript(t *testing.T) {
	u, all := huntC11N1Untrusted(t, "      - uses: actions/github-script@v7\n        with:\n          script: |\n            console.log('${{ github.event.pull_request.title }}')\n            console.log('${{ github.event.pull_request.head.ref }}')\n")
	if !huntC11N1Names(u, "github.event.pull_request.title") {
		t.Errorf("github.event.pull_request.title is not reported: %q", all)
	}
	if !huntC11N1Names(u, "github.event.pull_request.head.ref") {
		t.Errorf("second expression reads github.event.pull_request.head.ref in script: but it is not reported. all diagnostics: %q", all)
	}
}

// An unrelated (type) error in an earlier expression of the script silences the injection report
// of a later expression completely.
func TestHuntC11N1UntrustedExpressionAfterExpressionWithOtherError(t *testing.T) {
	u, all := huntC11N1Untrusted(t, "      - run: echo ${{ matrix.foo }} ${{ github.event.issue.body }}\n")
	if !huntC11N1Names(u, "github.event.issue.body") {
		t.Errorf("expression reads github.event.issue.body in run: but it is not reported. all diagnostics: %q", all)
	}
}
