package actionlint

import (
	"io"
	"strings"
	"testing"
)

// huntC11N2Untrusted lints a workflow which has the given step text and returns the messages of
// all script-injection diagnostics ("potentially untrusted") and the messages of all diagnostics.
func huntC11N2Untrusted(t *testing.T, step string) (untrusted []string, all []string) {
	t.Helper()
	src := "on: [issues, pull_request, push]\njobs:\n  test:\n    runs-on: ubuntu-latest\n    steps:\n" + step
	l, err := NewLinter(io.Discard, &LinterOptions{Shellcheck: "", Pyflakes: ""})
	if err != nil {
		t.Fatal(err)
	}
	errs, err := l.Lint("test.yaml", []byte(src), nil)
	if err != nil {
		t.Fatal(err)
	}
	for _, e := range errs {
		all = append(all, e.Error())
		if strings.Contains(e.Message, "potentially untrusted") {
			untrusted = append(untrusted, e.Message)
		}
	}
	return
}

func huntC11N2Names(msgs []string, path string) bool {
	for _, m := range msgs {
		if strings.Contains(m, "\"" + path + "\"") {
			return true
		}
	}
	return false
}

// The untrusted input is an argument of format() (non-sanitising call) and a later argument is a
// property access on the result of contains(). The read of github.event.issue.title is NOT inside
// contains(...), so the property requires a report which names the path.
func TestHuntC11N2UntrustedArgFollowedBySafeCallReceiver(t *testing.T) {
	u, all := huntC11N2Untrusted(t, "      - run: echo ${{ format('{0}{1}', github.event.issue.title, contains('a','b').foo) }}\n")
	if !huntC11N2Names(u, "github.event.issue.title") {
		t.Errorf("github.event.issue.title is passed to format() in run: but it is not reported as untrusted. all diagnostics: %q", all)
	}
}

// Same with a binary operator instead of a call
func TestHuntC11N2UntrustedOperandFollowedBySafeCallReceiver(t *testing.T) {
	u, all := huntC11N2Untrusted(t, "      - run: echo ${{ github.event.issue.title == contains('a','b').foo }}\n")
	if !huntC11N2Names(u, "github.event.issue.title") {
		t.Errorf("github.event.issue.title is an operand of == in run: but it is not reported as untrusted. all diagnostics: %q", all)
	}
}

// Untrusted input at index position; operand of the index expression is a contains() call.
func TestHuntC11N2UntrustedIndexOfSafeCallOperand(t *testing.T) {
	u, all := huntC11N2Untrusted(t, "      - run: echo ${{ contains('a','b')[github.event.issue.title] }}\n")
	if !huntC11N2Names(u, "github.event.issue.title") {
		t.Errorf("github.event.issue.title is read at index position in run: but it is not reported as untrusted. all diagnostics: %q", all)
	}
}
