package actionlint

import (
	"io"
	"strings"
	"testing"
)

// huntC19N2Matrix lints a workflow whose strategy.matrix section is the given YAML text and returns
// only the diagnostics of the "matrix" rule formatted as "line:col message". Other diagnostics make
// the test fail since the inputs are meant to be valid workflows.
func huntC19N2Matrix(t *testing.T, matrix string) []string {
	t.Helper()
	src := "on: push\njobs:\n  test:\n    runs-on: ubuntu-latest\n    strategy:\n      matrix:\n"
	for _, l := range strings.Split(strings.TrimRight(matrix, "\n"), "\n") {
		src += "        " + l + "\n"
	}
	src += "    steps:\n      - run: echo\n"
	l, err := NewLinter(io.Discard, &LinterOptions{})
	if err != nil {
		t.Fatal(err)
	}
	errs, err := l.Lint("test.yaml", []byte(src), nil)
	if err != nil {
		t.Fatal(err)
	}
	ret := []string{}
	for _, e := range errs {
		if e.Kind != "matrix" {
			t.Fatalf("unexpected non-matrix diagnostic for input:\n%s\n%s", matrix, e.Error())
		}
		ret = append(ret, e.Error())
	}
	return ret
}

// A row value must be reported as duplicate iff it is structurally equal to an earlier value of the
// same row. In each row below the second value is the same YAML value as the first one (same type and
// same value, only spelled differently), so exactly one duplicate must be reported, at the second value.
func TestHuntC19N2DuplicateEqualScalarOtherSpelling(t *testing.T) {
	rows := []string{
		"v: [true, True]",
		"v: [TRUE, true]",
		"v: [null, ~]",
		"v: [~, Null]",
		"v: [16, 0x10]",
		"v: [0o20, 16]",
		"v: [1.0, 1.00]",
		"v: [{debug: true}, {debug: True}]",
		"v: [[null], [~]]",
	}
	for _, m := range rows {
		errs := huntC19N2Matrix(t, m)
		if len(errs) != 1 || !strings.Contains(errs[0], "duplicate value") {
			t.Errorf("want exactly one duplicate diagnostic for %q but got %d: %v", m, len(errs), errs)
		}
	}
}
