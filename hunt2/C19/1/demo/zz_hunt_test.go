package actionlint

import (
	"io"
	"strings"
	"testing"
)

// huntC19N1Matrix lints a workflow whose strategy.matrix section is the given YAML text and returns
// only the diagnostics of the "matrix" rule formatted as "line:col message". Other diagnostics make
// the test fail since the inputs are meant to be valid workflows.
func huntC19N1Matrix(t *testing.T, matrix string) []string {
	t.Helper()
	src := "on: push\njobs:\n  test:\n    runs-on: ubuntu-latest\n    strategy:\n      matrix:\n"
	for _, l := range strings.Split(strings.TrimRight(matrix, "\n"), "\n") {
		src += "        " + l + "\n"
	}
	src += "    steps:\n      - run: echo\n"
	l, err := NewLinter(io.Discard, &LinterOptions{})
	if err != nil {
		t.Fatal(err)
	}
	errs, err := l.Lint("test.yaml", []byte(src), nil)
	if err != nil {
		t.Fatal(err)
	}
	ret := []string{}
	for _, e := range errs {
		if e.Kind != "matrix" {
			t.Fatalf("unexpected non-matrix diagnostic for input:\n%s\n%s", matrix, e.Error())
		}
		ret = append(ret, e.Error())
	}
	return ret
}

// An "exclude" entry must be reported only when no candidate value of the key is equal to it. The
// scalars below are the same YAML value (same type, same value) written with another spelling, so
// the exclude entry names an existing candidate value and must not be reported. The reverse
// arrangement (spellings swapped between the row and the exclude entry) must give the same verdict.
func TestHuntC19N1ExcludeEqualScalarOtherSpelling(t *testing.T) {
	pairs := [][2]string{
		{"true", "True"},   // !!bool true
		{"false", "FALSE"}, // !!bool false
		{"null", "~"},      // !!null
		{"16", "0x10"},     // !!int 16
		{"16", "0o20"},     // !!int 16
		{"1.0", "1.00"},    // !!float 1
		{"1e3", "1000.0"},  // !!float 1000
	}
	for _, p := range pairs {
		for _, swap := range []bool{false, true} {
			row, exc := p[0], p[1]
			if swap {
				row, exc = exc, row
			}
			m := "v: [" + row + ", other]\nexclude:\n  - v: " + exc
			if errs := huntC19N1Matrix(t, m); len(errs) != 0 {
				t.Errorf("exclude value %s equals the row value %s but it was reported:\n%s\n  -> %s", exc, row, m, strings.Join(errs, "\n  -> "))
			}
		}
	}
}
