package actionlint

import (
	"io"
	"strings"
	"testing"
)

// huntC19N3Matrix lints a workflow whose strategy.matrix section is the given YAML text and returns
// only the diagnostics of the "matrix" rule formatted as "line:col message". Other diagnostics make
// the test fail since the inputs are meant to be valid workflows.
func huntC19N3Matrix(t *testing.T, matrix string) []string {
	t.Helper()
	src := "on: push\njobs:\n  test:\n    runs-on: ubuntu-latest\n    strategy:\n      matrix:\n"
	for _, l := range strings.Split(strings.TrimRight(matrix, "\n"), "\n") {
		src += "        " + l + "\n"
	}
	src += "    steps:\n      - run: echo\n"
	l, err := NewLinter(io.Discard, &LinterOptions{})
	if err != nil {
		t.Fatal(err)
	}
	errs, err := l.Lint("test.yaml", []byte(src), nil)
	if err != nil {
		t.Fatal(err)
	}
	ret := []string{}
	for _, e := range errs {
		if e.Kind != "matrix" {
			t.Fatalf("unexpected non-matrix diagnostic for input:\n%s\n%s", matrix, e.Error())
		}
		ret = append(ret, e.Error())
	}
	return ret
}

// The values in each row are NOT structurally equal: they have different YAML types (null vs. string,
// bool vs. string, int vs. string) and only share their source text. No duplicate must be reported.
func TestHuntC19N3DuplicateDifferentTypesSameText(t *testing.T) {
	rows := []string{
		"v: [null, \"null\"]",
		"v: [\"~\", ~]",
		"v: [true, \"true\"]",
		"v: [1, \"1\"]",
		"v:\n  -\n  - \"\"", // null and empty string
		"v: [{a: null}, {a: \"null\"}]",
	}
	for _, m := range rows {
		if errs := huntC19N3Matrix(t, m); len(errs) != 0 {
			t.Errorf("values of different types were reported as duplicate for %q: %v", m, errs)
		}
	}
}

// The exclude entry gives a value which no candidate value of the key contains (string "null" vs. the
// null value, string "true" vs. bool true), so it must be reported.
func TestHuntC19N3ExcludeDifferentTypesSameText(t *testing.T) {
	ms := []string{
		"v: [null, other]\nexclude:\n  - v: \"null\"",
		"v: [true, false]\nexclude:\n  - v: \"true\"",
		"v: [\"\", other]\nexclude:\n  - v:", // null is not the empty string
	}
	for _, m := range ms {
		if errs := huntC19N3Matrix(t, m); len(errs) != 1 {
			t.Errorf("want one diagnostic at the exclude value for\n%s\nbut got %d: %v", m, len(errs), errs)
		}
	}
}
