package actionlint

import (
	"io"
	"strings"
	"testing"
)

// huntC19N4Matrix lints a workflow whose strategy.matrix section is the given YAML text and returns
// only the diagnostics of the "matrix" rule formatted as "line:col message". Other diagnostics make
// the test fail since the inputs are meant to be valid workflows.
func huntC19N4Matrix(t *testing.T, matrix string) []string {
	t.Helper()
	src := "on: push\njobs:\n  test:\n    runs-on: ubuntu-latest\n    strategy:\n      matrix:\n"
	for _, l := range strings.Split(strings.TrimRight(matrix, "\n"), "\n") {
		src += "        " + l + "\n"
	}
	src += "    steps:\n      - run: echo\n"
	l, err := NewLinter(io.Discard, &LinterOptions{})
	if err != nil {
		t.Fatal(err)
	}
	errs, err := l.Lint("test.yaml", []byte(src), nil)
	if err != nil {
		t.Fatal(err)
	}
	ret := []string{}
	for _, e := range errs {
		if e.Kind != "matrix" {
			t.Fatalf("unexpected non-matrix diagnostic for input:\n%s\n%s", matrix, e.Error())
		}
		ret = append(ret, e.Error())
	}
	return ret
}

// "rows or entries built from expressions are never reported": replacing values by ${{ }} expressions
// must silence the checks for them.
func TestHuntC19N4RowValuesFromExpressionsReportedAsDuplicate(t *testing.T) {
	rows := []string{
		"v: [\"${{ github.sha }}\", \"${{ github.sha }}\"]",
		"v: [a, \"${{ fromJSON(vars.EXTRA) }}\", \"${{ fromJSON(vars.EXTRA) }}\"]",
		"v: [{x: \"${{ github.sha }}\"}, {x: \"${{ github.sha }}\"}]",
	}
	for _, m := range rows {
		if errs := huntC19N4Matrix(t, m); len(errs) != 0 {
			t.Errorf("row values built from expressions were reported for %q: %v", m, errs)
		}
	}
}

func TestHuntC19N4ExcludeEntriesFromExpressionsReported(t *testing.T) {
	ms := []string{
		// value of the entry is an expression
		"v: [a, b]\nexclude:\n  - w: ${{ github.sha }}",
		// sequence built from an expression
		"v: [[a, b]]\nexclude:\n  - v: [\"${{ fromJSON(vars.PAIR) }}\"]",
		// mapping built from an expression
		"v: [{x: 1}]\nexclude:\n  - v: {y: \"${{ github.sha }}\"}",
	}
	for _, m := range ms {
		if errs := huntC19N4Matrix(t, m); len(errs) != 0 {
			t.Errorf("exclude entry built from expressions was reported for\n%s\n  -> %v", m, errs)
		}
	}
}
