package actionlint

import (
	"io"
	"strings"
	"testing"
)

func huntC12N2Lint(t *testing.T, src string) string {
	t.Helper()
	l, err := NewLinter(io.Discard, &LinterOptions{})
	if err != nil {
		t.Fatal(err)
	}
	errs, err := l.Lint("<stdin>", []byte(src), nil)
	if err != nil {
		t.Fatal(err)
	}
	msgs := make([]string, 0, len(errs))
	for _, e := range errs {
		msgs = append(msgs, e.Message)
	}
	return strings.Join(msgs, " | ")
}

func huntC12N2JobName(val string) string {
	return "on: push\njobs:\n  a:\n    runs-on: ubuntu-latest\n    name: " + val + "\n    steps:\n      - run: echo\n"
}

// "secrets" is not listed for jobs.<job_id>.name. The verdict must not depend on where inside the
// expression the name occurs: as an argument of a known function it is reported, as an argument
// of a misspelled function it must be reported as well.
func TestHuntC12N2ContextInArgumentOfUndefinedFunction(t *testing.T) {
	const want = `context "secrets" is not allowed here`
	if m := huntC12N2Lint(t, huntC12N2JobName("${{ format('{0}', secrets.FOO) }}")); !strings.Contains(m, want) {
		t.Fatalf("control failed: %s", m)
	}
	val := "${{ formatt('{0}', secrets.FOO) }}"
	if m := huntC12N2Lint(t, huntC12N2JobName(val)); !strings.Contains(m, want) {
		t.Errorf("jobs.<job_id>.name: %s: context \"secrets\" is not reported as not allowed. diagnostics: %s", val, m)
	}
}

// always() is not listed for jobs.<job_id>.name either.
func TestHuntC12N2SpecialFuncInArgumentOfUndefinedFunction(t *testing.T) {
	const want = `calling function "always" is not allowed here`
	if m := huntC12N2Lint(t, huntC12N2JobName("${{ format('{0}', always()) }}")); !strings.Contains(m, want) {
		t.Fatalf("control failed: %s", m)
	}
	val := "${{ formatt('{0}', always()) }}"
	if m := huntC12N2Lint(t, huntC12N2JobName(val)); !strings.Contains(m, want) {
		t.Errorf("jobs.<job_id>.name: %s: always() is not reported as not allowed. diagnostics: %s", val, m)
	}
}
