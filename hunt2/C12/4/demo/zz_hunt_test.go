package actionlint

import (
	"io"
	"strings"
	"testing"
)

func huntC12N4Lint(t *testing.T, src string) string {
	t.Helper()
	l, err := NewLinter(io.Discard, &LinterOptions{})
	if err != nil {
		t.Fatal(err)
	}
	errs, err := l.Lint("<stdin>", []byte(src), nil)
	if err != nil {
		t.Fatal(err)
	}
	msgs := make([]string, 0, len(errs))
	for _, e := range errs {
		msgs = append(msgs, e.Message)
	}
	return strings.Join(msgs, " | ")
}

// The "jobs" context is listed only for on.workflow_call.outputs.<output_id>.value. At every other
// key of the table it must be reported as not allowed, like any other context.
func TestHuntC12N4JobsContextOutsideWorkflowCallOutputs(t *testing.T) {
	// Control: it is a known context at the key where it is listed
	ctl := "on:\n  workflow_call:\n    outputs:\n      o:\n        value: ${{ jobs.a.outputs.x }}\njobs:\n  a:\n    runs-on: ubuntu-latest\n    outputs:\n      x: foo\n    steps:\n      - run: echo\n"
	if m := huntC12N4Lint(t, ctl); m != "" {
		t.Fatalf("control failed: %s", m)
	}

	for key, src := range map[string]string{
		"jobs.<job_id>.steps.run":           "on:\n  workflow_call:\n    outputs:\n      o:\n        value: ${{ jobs.a.outputs.x }}\njobs:\n  a:\n    runs-on: ubuntu-latest\n    outputs:\n      x: foo\n    steps:\n      - run: echo ${{ jobs.a.outputs.x }}\n",
		"jobs.<job_id>.outputs.<output_id>": "on:\n  workflow_call:\n    outputs:\n      o:\n        value: ${{ jobs.a.outputs.x }}\njobs:\n  a:\n    runs-on: ubuntu-latest\n    outputs:\n      x: ${{ toJSON(jobs) }}\n    steps:\n      - run: echo\n",
		"run-name":                          "run-name: ${{ toJSON(JOBS) }}\non: push\njobs:\n  a:\n    runs-on: ubuntu-latest\n    steps:\n      - run: echo\n",
	} {
		m := huntC12N4Lint(t, src)
		if !strings.Contains(strings.ToLower(m), `context "jobs" is not allowed here`) {
			t.Errorf("%s: context \"jobs\" is not reported as not allowed here. diagnostics: %s", key, m)
		}
	}
}
