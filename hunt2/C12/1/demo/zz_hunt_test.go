package actionlint

import (
	"io"
	"strings"
	"testing"
)

func huntC12N1Lint(t *testing.T, src string) []string {
	t.Helper()
	l, err := NewLinter(io.Discard, &LinterOptions{})
	if err != nil {
		t.Fatal(err)
	}
	errs, err := l.Lint("<stdin>", []byte(src), nil)
	if err != nil {
		t.Fatal(err)
	}
	msgs := make([]string, 0, len(errs))
	for _, e := range errs {
		msgs = append(msgs, e.Message)
	}
	return msgs
}

func huntC12N1Has(msgs []string, sub string) bool {
	for _, m := range msgs {
		if strings.Contains(m, sub) {
			return true
		}
	}
	return false
}

func huntC12N1JobName(val string) string {
	return "on: push\njobs:\n  a:\n    runs-on: ubuntu-latest\n    name: " + val + "\n    steps:\n      - run: echo\n"
}

// Neither "secrets" nor "env" is listed for jobs.<job_id>.name. Both must be reported as not
// allowed, wherever inside the value they occur.
func TestHuntC12N1ContextInSecondPlaceholder(t *testing.T) {
	const secretsMsg = `context "secrets" is not allowed here`
	const envMsg = `context "env" is not allowed here`

	// Controls: each placeholder alone is reported
	if m := huntC12N1Lint(t, huntC12N1JobName("${{ secrets.FOO }}")); !huntC12N1Has(m, secretsMsg) {
		t.Fatalf("control failed: %q", m)
	}
	if m := huntC12N1Lint(t, huntC12N1JobName("${{ env.BAR }}")); !huntC12N1Has(m, envMsg) {
		t.Fatalf("control failed: %q", m)
	}

	for _, val := range []string{
		"${{ secrets.FOO }} and ${{ env.BAR }}",
		"${{ env.BAR }} and ${{ secrets.FOO }}",
	} {
		m := huntC12N1Join(huntC12N1Lint(t, huntC12N1JobName(val)))
		if !strings.Contains(m, secretsMsg) {
			t.Errorf("jobs.<job_id>.name: %s: context \"secrets\" is not reported as not allowed. diagnostics: %s", val, m)
		}
		if !strings.Contains(m, envMsg) {
			t.Errorf("jobs.<job_id>.name: %s: context \"env\" is not reported as not allowed. diagnostics: %s", val, m)
		}
	}
}

func huntC12N1Join(msgs []string) string {
	return strings.Join(msgs, " | ")
}

// An unrelated error in an earlier placeholder must not change the availability verdict for a
// later placeholder of the same value.
func TestHuntC12N1ContextAfterUnrelatedError(t *testing.T) {
	val := "${{ github.nosuchprop }} and ${{ env.BAR }}"
	m := huntC12N1Join(huntC12N1Lint(t, huntC12N1JobName(val)))
	if !strings.Contains(m, `context "env" is not allowed here`) {
		t.Errorf("jobs.<job_id>.name: %s: context \"env\" is not reported as not allowed. diagnostics: %s", val, m)
	}
}

// always() and success() are only listed for jobs.<job_id>.if and jobs.<job_id>.steps.if. Both
// calls in the run: script must be reported.
func TestHuntC12N1SpecialFuncInLaterPlaceholder(t *testing.T) {
	src := "on: push\njobs:\n  a:\n    runs-on: ubuntu-latest\n    steps:\n      - run: |\n          echo ${{ always() }}\n          echo ${{ success() }}\n"
	m := huntC12N1Join(huntC12N1Lint(t, src))
	if !strings.Contains(m, `calling function "always" is not allowed here`) {
		t.Errorf("jobs.<job_id>.steps.run: always() is not reported. diagnostics: %s", m)
	}
	if !strings.Contains(m, `calling function "success" is not allowed here`) {
		t.Errorf("jobs.<job_id>.steps.run: success() in the second placeholder is not reported. diagnostics: %s", m)
	}
}

// The same for on.workflow_call.outputs.<output_id>.value: "steps" and "needs" are both not listed.
func TestHuntC12N1WorkflowCallOutputValue(t *testing.T) {
	src := "on:\n  workflow_call:\n    outputs:\n      o:\n        value: ${{ steps.x }} ${{ needs.a }}\njobs:\n  a:\n    runs-on: ubuntu-latest\n    steps:\n      - run: echo\n"
	m := huntC12N1Join(huntC12N1Lint(t, src))
	if !strings.Contains(m, `context "steps" is not allowed here`) {
		t.Errorf("context \"steps\" is not reported. diagnostics: %s", m)
	}
	if !strings.Contains(m, `context "needs" is not allowed here`) {
		t.Errorf("context \"needs\" in the second placeholder is not reported. diagnostics: %s", m)
	}
}
