package actionlint

import (
	"io"
	"strings"
	"testing"
)

func huntC12N3Lint(t *testing.T, src string) string {
	t.Helper()
	l, err := NewLinter(io.Discard, &LinterOptions{})
	if err != nil {
		t.Fatal(err)
	}
	errs, err := l.Lint("<stdin>", []byte(src), nil)
	if err != nil {
		t.Fatal(err)
	}
	msgs := make([]string, 0, len(errs))
	for _, e := range errs {
		msgs = append(msgs, e.Message)
	}
	return strings.Join(msgs, " | ")
}

// Control: a ${{ }} placeholder in the name of an environment variable is checked against the
// availability of the workflow key ("env" is not listed for the top-level "env" key).
func TestHuntC12N3ControlEnvVarName(t *testing.T) {
	src := "on: push\nenv:\n  ${{ env.K }}: v\njobs:\n  a:\n    runs-on: ubuntu-latest\n    steps:\n      - run: echo\n"
	if m := huntC12N3Lint(t, src); !strings.Contains(m, `context "env" is not allowed here`) {
		t.Fatalf("control failed: %s", m)
	}
}

// "env" is not listed for jobs.<job_id>.strategy. Using it in the name of a matrix row must be
// reported as not allowed like it is in a matrix row value.
func TestHuntC12N3MatrixRowName(t *testing.T) {
	const want = `context "env" is not allowed here`
	ctl := "on: push\njobs:\n  a:\n    runs-on: ubuntu-latest\n    strategy:\n      matrix:\n        row: [1, \"${{ env.ROW }}\"]\n    steps:\n      - run: echo\n"
	if m := huntC12N3Lint(t, ctl); !strings.Contains(m, want) {
		t.Fatalf("control failed: %s", m)
	}
	src := "on: push\njobs:\n  a:\n    runs-on: ubuntu-latest\n    strategy:\n      matrix:\n        ${{ env.ROW }}: [1, 2]\n        include:\n          - ${{ env.KEY }}: 1\n    steps:\n      - run: echo\n"
	if m := huntC12N3Lint(t, src); !strings.Contains(m, want) {
		t.Errorf("jobs.<job_id>.strategy: context \"env\" used in matrix row name / include key is not reported as not allowed. diagnostics: %q", m)
	}
}

// "env" is not listed for jobs.<job_id>.with.<with_id> and jobs.<job_id>.secrets.<secrets_id>.
func TestHuntC12N3WorkflowCallInputName(t *testing.T) {
	const want = `context "env" is not allowed here`
	src := "on: push\njobs:\n  a:\n    uses: owner/repo/.github/workflows/w.yml@v1\n    with:\n      ${{ env.W }}: 1\n    secrets:\n      ${{ env.S }}: x\n"
	if m := huntC12N3Lint(t, src); !strings.Contains(m, want) {
		t.Errorf("jobs.<job_id>.with.<with_id>: context \"env\" used in input/secret name is not reported as not allowed. diagnostics: %q", m)
	}
}

// jobs.<job_id> itself is absent from the table, so no context is allowed there.
func TestHuntC12N3JobID(t *testing.T) {
	src := "on: push\njobs:\n  ${{ secrets.J }}:\n    runs-on: ubuntu-latest\n    steps:\n      - run: echo\n"
	if m := huntC12N3Lint(t, src); !strings.Contains(m, `context "secrets" is not allowed here`) {
		t.Errorf("jobs.<job_id>: context \"secrets\" used in job ID is not reported as not allowed. diagnostics: %q", m)
	}
}
