package actionlint

import (
	"bytes"
	"encoding/json"
	"strings"
	"testing"

	"github.com/mattn/go-runewidth"
)

// Workflow file which starts with UTF-8 byte order mark. YAML parser skips the BOM without counting it as a
// column so the event name "foo" is reported at line 1, column 5 ("on: foo"). The snippet must show line 1 with
// the caret under the first character of "foo".
const huntC16N1Src = "\uFEFFon: foo\njobs:\n  test:\n    runs-on: ubuntu-latest\n    steps:\n      - run: echo\n"

func huntC16N1Lint(t *testing.T, format string) ([]*Error, string) {
	t.Helper()
	var out bytes.Buffer
	o := &LinterOptions{Format: format, Color: ColorOptionKindNever}
	l, err := NewLinter(&out, o)
	if err != nil {
		t.Fatal(err)
	}
	errs, err := l.Lint("test.yaml", []byte(huntC16N1Src), nil)
	if err != nil {
		t.Fatal(err)
	}
	if len(errs) != 1 || errs[0].Line != 1 || errs[0].Column != 5 || !strings.Contains(errs[0].Message, `"foo"`) {
		t.Fatalf("precondition: one error for event \"foo\" at 1:5 is expected but got %v", errs)
	}
	return errs, out.String()
}

// checkCaret checks the caret in the indicator line is displayed under the first character of token in source line.
func huntC16N1CheckCaret(t *testing.T, src, ind, token string) {
	t.Helper()
	i := strings.Index(src, token)
	if i < 0 {
		t.Fatalf("token %q is not in snippet line %q", token, src)
	}
	want := runewidth.StringWidth(src[:i]) // BOM is zero-width character
	have := strings.IndexByte(ind, '^')
	if have < 0 {
		t.Fatalf("no caret in indicator line %q", ind)
	}
	if strings.TrimLeft(ind[:have], " ") != "" {
		t.Fatalf("unexpected indicator line %q", ind)
	}
	if want != have {
		t.Errorf("caret must be displayed under %q (display column %d of %q) but it is displayed at display column %d:\n%s\n%s", token, want+1, src, have+1, src, ind)
	}
}

func TestHuntC16N1SnippetCaretInDefaultModeWithBOM(t *testing.T) {
	_, out := huntC16N1Lint(t, "")
	lines := strings.Split(out, "\n")
	// header, "  |", "1 | <source>", "  | <indicator>"
	if len(lines) < 4 || !strings.HasPrefix(lines[2], "1 | ") || !strings.HasPrefix(lines[3], "  | ") {
		t.Fatalf("unexpected output %q", out)
	}
	huntC16N1CheckCaret(t, strings.TrimPrefix(lines[2], "1 | "), strings.TrimPrefix(lines[3], "  | "), "foo")
}

func TestHuntC16N1SnippetCaretInJSONWithBOM(t *testing.T) {
	_, out := huntC16N1Lint(t, "{{json .}}")
	var fs []ErrorTemplateFields
	if err := json.Unmarshal([]byte(out), &fs); err != nil || len(fs) != 1 {
		t.Fatalf("unexpected output %q: %v", out, err)
	}
	ls := strings.Split(fs[0].Snippet, "\n")
	if len(ls) != 2 {
		t.Fatalf("snippet must consist of source line and indicator but got %q", fs[0].Snippet)
	}
	huntC16N1CheckCaret(t, ls[0], ls[1], "foo")
}
