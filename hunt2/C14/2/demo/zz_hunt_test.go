package actionlint

import (
	"io"
	"os"
	"path/filepath"
	"strings"
	"testing"
)

const huntC14N2Callee = `on:
  workflow_call:
    inputs:
      name:
        type: string
        required: true
        default:
jobs:
  j:
    runs-on: ubuntu-latest
    steps:
      - run: echo
`

const huntC14N2Caller = `on: push
jobs:
  c:
    uses: ./.github/workflows/callee.yml
`

// huntC14N2Lint lints the given workflow files one after another in the same run (the caches of
// local reusable workflows are shared between the files, as Linter.LintFiles does) and returns the
// diagnostics reported for caller.yml.
func huntC14N2Lint(t *testing.T, order ...string) []string {
	t.Helper()
	files := map[string]string{
		".github/workflows/callee.yml": huntC14N2Callee,
		".github/workflows/caller.yml": huntC14N2Caller,
	}
	root := t.TempDir()
	for _, d := range []string{".git", filepath.Join(".github", "workflows")} {
		if err := os.MkdirAll(filepath.Join(root, d), 0o755); err != nil {
			t.Fatal(err)
		}
	}
	for p, c := range files {
		if err := os.WriteFile(filepath.Join(root, filepath.FromSlash(p)), []byte(c), 0o644); err != nil {
			t.Fatal(err)
		}
	}
	proj, err := NewProject(root)
	if err != nil {
		t.Fatal(err)
	}
	l, err := NewLinter(io.Discard, &LinterOptions{WorkingDir: root})
	if err != nil {
		t.Fatal(err)
	}
	actions := NewLocalActionsCache(proj, nil)
	workflows := NewLocalReusableWorkflowCache(proj, root, nil)
	var ret []string
	for _, p := range order {
		proc := newConcurrentProcess(1)
		errs, err := l.check(p, []byte(files[p]), proj, proc, actions, workflows)
		proc.wait()
		if err != nil {
			t.Fatal(err)
		}
		if p == ".github/workflows/caller.yml" {
			for _, e := range errs {
				ret = append(ret, e.Error())
			}
		}
	}
	return ret
}

func huntC14N2RequiredReported(errs []string) bool {
	for _, e := range errs {
		if strings.Contains(e, `input "name" is required by`) {
			return true
		}
	}
	return false
}

// The callee declares the input "name" with "required: true" and an empty "default:" key. The call
// site does not supply "name". Whether the input counts as "required without default" is a property
// of the callee's interface alone, so the call site must get the same answer regardless of how the
// interface was obtained: read from the file because only caller.yml is linted, or taken from the
// syntax tree of callee.yml because callee.yml was linted earlier in the same run.
func TestHuntC14N2RequiredWithNullDefaultDependsOnDerivation(t *testing.T) {
	callerOnly := huntC14N2Lint(t, ".github/workflows/caller.yml")
	calleeFirst := huntC14N2Lint(t, ".github/workflows/callee.yml", ".github/workflows/caller.yml")

	a, b := huntC14N2RequiredReported(callerOnly), huntC14N2RequiredReported(calleeFirst)
	if a != b {
		t.Errorf("missing required input \"name\" reported when only caller.yml is linted: %v (diagnostics %q), reported when callee.yml is linted before caller.yml: %v (diagnostics %q). the same call of the same interface must be judged the same way", a, callerOnly, b, calleeFirst)
	}
}

// The same through the public API only. self.yml is a reusable workflow which also calls itself, so
// the call inside self.yml is checked against the interface taken from the syntax tree of self.yml.
// other.yml contains the very same call and is checked against the interface read from the file.
func TestHuntC14N2RequiredWithNullDefaultSelfCallVersusOtherCaller(t *testing.T) {
	self := `on:
  workflow_call:
    inputs:
      name:
        type: string
        required: true
        default:
jobs:
  c:
    uses: ./.github/workflows/self.yml
`
	other := `on: push
jobs:
  c:
    uses: ./.github/workflows/self.yml
`
	root := t.TempDir()
	for _, d := range []string{".git", filepath.Join(".github", "workflows")} {
		if err := os.MkdirAll(filepath.Join(root, d), 0o755); err != nil {
			t.Fatal(err)
		}
	}
	for p, c := range map[string]string{"self.yml": self, "other.yml": other} {
		if err := os.WriteFile(filepath.Join(root, ".github", "workflows", p), []byte(c), 0o644); err != nil {
			t.Fatal(err)
		}
	}
	lint := func(name string) []string {
		proj, err := NewProject(root)
		if err != nil {
			t.Fatal(err)
		}
		l, err := NewLinter(io.Discard, &LinterOptions{WorkingDir: root})
		if err != nil {
			t.Fatal(err)
		}
		errs, err := l.LintFile(filepath.Join(root, ".github", "workflows", name), proj)
		if err != nil {
			t.Fatal(err)
		}
		var ret []string
		for _, e := range errs {
			ret = append(ret, e.Error())
		}
		return ret
	}
	inSelf, inOther := lint("self.yml"), lint("other.yml")
	a, b := huntC14N2RequiredReported(inSelf), huntC14N2RequiredReported(inOther)
	if a != b {
		t.Errorf("call without \"name\" in self.yml reported as missing required input: %v (diagnostics %q), the same call in other.yml: %v (diagnostics %q)", a, inSelf, b, inOther)
	}
}
