package actionlint

import (
	"io"
	"strings"
	"testing"
)

func huntC14N4Lint(t *testing.T, src string) []string {
	t.Helper()
	l, err := NewLinter(io.Discard, &LinterOptions{})
	if err != nil {
		t.Fatal(err)
	}
	errs, err := l.Lint("<stdin>", []byte(src), nil)
	if err != nil {
		t.Fatal(err)
	}
	ret := make([]string, 0, len(errs))
	for _, e := range errs {
		ret = append(ret, e.Error())
	}
	return ret
}

func huntC14N4Workflow(spec string) string {
	return `on: push
jobs:
  j:
    runs-on: ubuntu-latest
    steps:
      - uses: ` + spec + `
        id: k
        with:
          path: a
          nonexistent: b
      - run: echo ${{ steps.k.outputs.cache-hit }} ${{ steps.k.outputs.nope }}
`
}

func huntC14N4Has(errs []string, substr string) bool {
	for _, e := range errs {
		if strings.Contains(e, substr) {
			return true
		}
	}
	return false
}

// Owner and repository names are case insensitive on GitHub: "Actions/Cache@v4" and
// "actions/cache@v4" are the same action of the bundled data set. The call site must be checked
// against the declared interface (inputs "path" and "key" are required, output is "cache-hit")
// whatever the letter case of owner/repo is.
func TestHuntC14N4PopularActionSpecInOtherLetterCase(t *testing.T) {
	if _, ok := PopularActions["actions/cache@v4"]; !ok {
		t.Skip("actions/cache@v4 is not in the data set")
	}
	want := []string{
		`input "nonexistent" is not defined in action`,
		`missing input "key" which is required by action`,
		`property "nope" is not defined in object type`,
	}
	base := huntC14N4Lint(t, huntC14N4Workflow("actions/cache@v4"))
	for _, w := range want {
		if !huntC14N4Has(base, w) {
			t.Fatalf("sanity: %q should be reported for actions/cache@v4: %v", w, base)
		}
	}
	for _, spec := range []string{"Actions/Cache@v4", "actions/Cache@v4", "ACTIONS/CACHE@v4"} {
		errs := huntC14N4Lint(t, huntC14N4Workflow(spec))
		for _, w := range want {
			if !huntC14N4Has(errs, w) {
				t.Errorf("uses: %s: diagnostic %q is reported for actions/cache@v4 but not for this spelling of the same action. diagnostics: %v", spec, w, errs)
			}
		}
	}
}

// Keys of the data set themselves are in mixed case (e.g. "Azure/functions-action@v1"), and the
// action is commonly written in lower case.
func TestHuntC14N4MixedCaseDataSetKeyWrittenInLowerCase(t *testing.T) {
	meta, ok := PopularActions["Azure/functions-action@v1"]
	if !ok {
		t.Skip("Azure/functions-action@v1 is not in the data set")
	}
	if i, ok := meta.Inputs["app-name"]; !ok || !i.Required {
		t.Skip("app-name is not a required input")
	}
	mk := func(spec string) string {
		return "on: push\njobs:\n  j:\n    runs-on: ubuntu-latest\n    steps:\n      - uses: " + spec + "\n        with:\n          nonexistent: b\n"
	}
	want := []string{
		`input "nonexistent" is not defined in action`,
		`missing input "app-name" which is required by action`,
	}
	base := huntC14N4Lint(t, mk("Azure/functions-action@v1"))
	for _, w := range want {
		if !huntC14N4Has(base, w) {
			t.Fatalf("sanity: %q should be reported for Azure/functions-action@v1: %v", w, base)
		}
	}
	errs := huntC14N4Lint(t, mk("azure/functions-action@v1"))
	for _, w := range want {
		if !huntC14N4Has(errs, w) {
			t.Errorf("uses: azure/functions-action@v1: diagnostic %q is reported for Azure/functions-action@v1 but not for the lower-case spelling of the same action. diagnostics: %v", w, errs)
		}
	}
}
