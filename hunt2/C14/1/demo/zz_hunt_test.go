package actionlint

import (
	"io"
	"os"
	"path/filepath"
	"strconv"
	"strings"
	"testing"
)

// huntC14N1Lint writes the files into a fresh repository (with .git and .github/workflows) and lints
// the workflow at .github/workflows/w.yml. It returns the diagnostics as strings.
func huntC14N1Lint(t *testing.T, files map[string]string) []string {
	t.Helper()
	root := t.TempDir()
	for _, d := range []string{".git", filepath.Join(".github", "workflows")} {
		if err := os.MkdirAll(filepath.Join(root, d), 0o755); err != nil {
			t.Fatal(err)
		}
	}
	for p, c := range files {
		fp := filepath.Join(root, filepath.FromSlash(p))
		if err := os.MkdirAll(filepath.Dir(fp), 0o755); err != nil {
			t.Fatal(err)
		}
		if err := os.WriteFile(fp, []byte(c), 0o644); err != nil {
			t.Fatal(err)
		}
	}
	proj, err := NewProject(root)
	if err != nil {
		t.Fatal(err)
	}
	l, err := NewLinter(io.Discard, &LinterOptions{WorkingDir: root})
	if err != nil {
		t.Fatal(err)
	}
	errs, err := l.LintFile(filepath.Join(root, ".github", "workflows", "w.yml"), proj)
	if err != nil {
		t.Fatal(err)
	}
	ret := make([]string, 0, len(errs))
	for _, e := range errs {
		ret = append(ret, e.Error())
	}
	return ret
}

func huntC14N1Reported(errs []string, line int, name string) bool {
	for _, e := range errs {
		if strings.Contains(e, "w.yml:"+strconv.Itoa(line)+":") && strings.Contains(e, "\""+name+"\"") {
			return true
		}
	}
	return false
}

const huntC14N1Workflow = `on: push
jobs:
  j:
    runs-on: ubuntu-latest
    steps:
      - uses: ./act
        with:
          args: x
          entrypoint: y
          bar: z
`

// A local JavaScript action declares only input "foo". The step passes "args", "entrypoint" and
// "bar". None of them is declared by the callee, so all three must be reported. (The runner accepts
// "args" and "entrypoint" implicitly only for container actions.)
func TestHuntC14N1UndeclaredArgsEntrypointLocalNodeAction(t *testing.T) {
	errs := huntC14N1Lint(t, map[string]string{
		"act/action.yml":          "name: a\ndescription: d\ninputs:\n  foo:\n    required: false\nruns:\n  using: node20\n  main: index.js\n",
		"act/index.js":            "",
		".github/workflows/w.yml": huntC14N1Workflow,
	})
	if !huntC14N1Reported(errs, 10, "bar") {
		t.Fatalf("sanity: undeclared input \"bar\" should be reported, got %v", errs)
	}
	if !huntC14N1Reported(errs, 8, "args") {
		t.Errorf("input \"args\" is not declared by the local node20 action but is not reported. diagnostics: %v", errs)
	}
	if !huntC14N1Reported(errs, 9, "entrypoint") {
		t.Errorf("input \"entrypoint\" is not declared by the local node20 action but is not reported. diagnostics: %v", errs)
	}
}

func TestHuntC14N1UndeclaredArgsEntrypointLocalCompositeAction(t *testing.T) {
	errs := huntC14N1Lint(t, map[string]string{
		"act/action.yml":          "name: a\ndescription: d\ninputs:\n  foo:\n    required: false\nruns:\n  using: composite\n  steps:\n    - run: echo\n      shell: bash\n",
		".github/workflows/w.yml": huntC14N1Workflow,
	})
	if !huntC14N1Reported(errs, 10, "bar") {
		t.Fatalf("sanity: undeclared input \"bar\" should be reported, got %v", errs)
	}
	if !huntC14N1Reported(errs, 8, "args") {
		t.Errorf("input \"args\" is not declared by the local composite action but is not reported. diagnostics: %v", errs)
	}
	if !huntC14N1Reported(errs, 9, "entrypoint") {
		t.Errorf("input \"entrypoint\" is not declared by the local composite action but is not reported. diagnostics: %v", errs)
	}
}

// actions/checkout@v4 (bundled data set, a JavaScript action) declares neither "args" nor "entrypoint".
func TestHuntC14N1UndeclaredArgsEntrypointPopularAction(t *testing.T) {
	meta, ok := PopularActions["actions/checkout@v4"]
	if !ok {
		t.Skip("actions/checkout@v4 is not in the data set")
	}
	if _, ok := meta.Inputs["args"]; ok {
		t.Skip("args is declared")
	}
	if _, ok := meta.Inputs["entrypoint"]; ok {
		t.Skip("entrypoint is declared")
	}
	wf := `on: push
jobs:
  j:
    runs-on: ubuntu-latest
    steps:
      - uses: actions/checkout@v4
        with:
          args: x
          Entrypoint: y
          bar: z
`
	errs := huntC14N1Lint(t, map[string]string{".github/workflows/w.yml": wf})
	if !huntC14N1Reported(errs, 10, "bar") {
		t.Fatalf("sanity: undeclared input \"bar\" should be reported, got %v", errs)
	}
	if !huntC14N1Reported(errs, 8, "args") {
		t.Errorf("input \"args\" is not declared by actions/checkout@v4 but is not reported. diagnostics: %v", errs)
	}
	if !huntC14N1Reported(errs, 9, "Entrypoint") {
		t.Errorf("input \"Entrypoint\" is not declared by actions/checkout@v4 but is not reported. diagnostics: %v", errs)
	}
}
