package actionlint

import (
	"io"
	"os"
	"path/filepath"
	"strings"
	"testing"

	"gopkg.in/yaml.v3"
)

const huntC14N3Callee = `on:
  workflow_call:
    inputs:
      s:
        type: string
      n:
        type: number
jobs:
  j:
    runs-on: ubuntu-latest
    steps:
      - run: echo
`

// huntC14N3Lint lints a caller which passes `<input>: <value>` to the callee above and returns the
// diagnostics for the caller.
func huntC14N3Lint(t *testing.T, input, value string) []string {
	t.Helper()
	caller := "on: push\njobs:\n  c:\n    uses: ./.github/workflows/callee.yml\n    with:\n      " + input + ": " + value + "\n"
	root := t.TempDir()
	for _, d := range []string{".git", filepath.Join(".github", "workflows")} {
		if err := os.MkdirAll(filepath.Join(root, d), 0o755); err != nil {
			t.Fatal(err)
		}
	}
	for p, c := range map[string]string{"callee.yml": huntC14N3Callee, "caller.yml": caller} {
		if err := os.WriteFile(filepath.Join(root, ".github", "workflows", p), []byte(c), 0o644); err != nil {
			t.Fatal(err)
		}
	}
	proj, err := NewProject(root)
	if err != nil {
		t.Fatal(err)
	}
	l, err := NewLinter(io.Discard, &LinterOptions{WorkingDir: root})
	if err != nil {
		t.Fatal(err)
	}
	errs, err := l.LintFile(filepath.Join(root, ".github", "workflows", "caller.yml"), proj)
	if err != nil {
		t.Fatal(err)
	}
	ret := make([]string, 0, len(errs))
	for _, e := range errs {
		ret = append(ret, e.Error())
	}
	return ret
}

func huntC14N3TypeMismatchReported(errs []string, input string) bool {
	for _, e := range errs {
		if strings.Contains(e, "caller.yml:6:") && strings.Contains(e, `input "`+input+`" is typed as`) && strings.Contains(e, "cannot be assigned") {
			return true
		}
	}
	return false
}

// huntC14N3Tag returns the YAML tag of the plain scalar as the YAML parser resolves it.
func huntC14N3Tag(t *testing.T, value string) string {
	t.Helper()
	var n yaml.Node
	if err := yaml.Unmarshal([]byte("v: "+value+"\n"), &n); err != nil {
		t.Fatal(err)
	}
	return n.Content[0].Content[1].Tag
}

// A number-typed input is given a plain scalar which is a string in YAML (not a number). Strings
// cannot be assigned to number inputs (`n: abc` is reported), so these must be reported as well.
func TestHuntC14N3StringLiteralGivenToNumberInput(t *testing.T) {
	if errs := huntC14N3Lint(t, "n", "abc"); !huntC14N3TypeMismatchReported(errs, "n") {
		t.Fatalf("sanity: string \"abc\" given to number input should be reported: %v", errs)
	}
	for _, v := range []string{"Infinity", "inf", "nan", "NaN", "+Inf", "0x1p-2"} {
		if tag := huntC14N3Tag(t, v); tag != "!!str" {
			t.Fatalf("sanity: %q should be a string in YAML but its tag is %s", v, tag)
		}
		errs := huntC14N3Lint(t, "n", v)
		if !huntC14N3TypeMismatchReported(errs, "n") {
			t.Errorf("`n: %s` passes the string %q to the input \"n\" typed as number but no type error is reported. diagnostics: %v", v, v, errs)
		}
	}
}

// A string-typed input is given a boolean or null literal. `s: true` and `s: null` are reported
// (bool / null value cannot be assigned to string), so the other spellings of the same YAML
// literals must be reported as well.
func TestHuntC14N3BoolAndNullLiteralsGivenToStringInput(t *testing.T) {
	if errs := huntC14N3Lint(t, "s", "true"); !huntC14N3TypeMismatchReported(errs, "s") {
		t.Fatalf("sanity: boolean true given to string input should be reported: %v", errs)
	}
	if errs := huntC14N3Lint(t, "s", "null"); !huntC14N3TypeMismatchReported(errs, "s") {
		t.Fatalf("sanity: null given to string input should be reported: %v", errs)
	}
	for _, c := range []struct{ v, tag string }{
		{"True", "!!bool"}, {"TRUE", "!!bool"}, {"False", "!!bool"}, {"FALSE", "!!bool"},
		{"Null", "!!null"}, {"NULL", "!!null"}, {"~", "!!null"},
	} {
		if tag := huntC14N3Tag(t, c.v); tag != c.tag {
			t.Fatalf("sanity: %q should have tag %s in YAML but has %s", c.v, c.tag, tag)
		}
		errs := huntC14N3Lint(t, "s", c.v)
		if !huntC14N3TypeMismatchReported(errs, "s") {
			t.Errorf("`s: %s` passes a %s literal to the input \"s\" typed as string but no type error is reported. diagnostics: %v", c.v, c.tag, errs)
		}
	}
}
