package actionlint

import (
	"io"
	"strings"
	"testing"
)

// Property C06: replacing a type in the typing environment by `any` must never introduce a
// diagnostic for an expression which was accepted before.

func huntC06N1Check(t *testing.T, src string, matrix *ObjectType) []string {
	t.Helper()
	l := NewExprLexer(src + "}}")
	expr, perr := NewExprParser().Parse(l)
	if perr != nil {
		t.Fatalf("expression %q must parse: %v", src, perr)
	}
	c := NewExprSemanticsChecker(false, nil)
	c.SetContextAvailability([]string{"matrix", "github"})
	if matrix != nil {
		c.UpdateMatrix(matrix)
	}
	_, errs := c.Check(expr)
	msgs := []string{}
	for _, e := range errs {
		msgs = append(msgs, e.Error())
	}
	return msgs
}

// Checker level: environment G types matrix.list as array<string>, the loosened environment G'
// types it as array<any>. Nothing else differs.
func TestHuntC06N1CheckerLoosenedArrayElem(t *testing.T) {
	src := "(matrix.list || github.event.commits.*).id"

	g := NewStrictObjectType(map[string]ExprType{"list": &ArrayType{Elem: StringType{}}})
	if errs := huntC06N1Check(t, src, g); len(errs) != 0 {
		t.Fatalf("precondition: expression must be accepted under the precise environment G but got %v", errs)
	}

	loosened := NewStrictObjectType(map[string]ExprType{"list": &ArrayType{Elem: AnyType{}}})
	if errs := huntC06N1Check(t, src, loosened); len(errs) != 0 {
		t.Errorf("expression %q is accepted when matrix.list is array<string> but rejected when its element type is loosened to any: %v", src, errs)
	}
}

// Function result clause: fromJSON('[1]') is array<number>, fromJSON('[]') is array<any> (element
// type unknown). The expression accepted with the former must be accepted with the latter.
func TestHuntC06N1FunctionResultLoosened(t *testing.T) {
	precise := "(fromJSON('[1]') || github.event.commits.*).id"
	if errs := huntC06N1Check(t, precise, nil); len(errs) != 0 {
		t.Fatalf("precondition: %q must be accepted but got %v", precise, errs)
	}
	loose := "(fromJSON('[]') || github.event.commits.*).id"
	if errs := huntC06N1Check(t, loose, nil); len(errs) != 0 {
		t.Errorf("%q is accepted (left operand array<number>) but %q (left operand array<any>) is rejected: %v", precise, loose, errs)
	}
}

func huntC06N1Lint(t *testing.T, src string) []string {
	t.Helper()
	l, err := NewLinter(io.Discard, &LinterOptions{})
	if err != nil {
		t.Fatal(err)
	}
	errs, err := l.Lint("<stdin>", []byte(src), nil)
	if err != nil {
		t.Fatal(err)
	}
	msgs := []string{}
	for _, e := range errs {
		msgs = append(msgs, e.Error())
	}
	return msgs
}

// Linter level: one literal element of a matrix value is replaced by an expression of unknown
// type (github.event.foo is `any`). The expression in `run:` is untouched.
func TestHuntC06N1LintMatrixLiteralReplacedByUnknown(t *testing.T) {
	const tmpl = `on: push
jobs:
  test:
    strategy:
      matrix:
        list: [[a, ELEM]]
    runs-on: ubuntu-latest
    steps:
      - run: echo ${{ join((matrix.list || github.event.commits.*).id, ',') }}
`
	precise := strings.Replace(tmpl, "ELEM", "b", 1)
	if errs := huntC06N1Lint(t, precise); len(errs) != 0 {
		t.Fatalf("precondition: workflow with literal matrix values must be accepted but got %v", errs)
	}
	loosened := strings.Replace(tmpl, "ELEM", "'${{ github.event.foo }}'", 1)
	if errs := huntC06N1Lint(t, loosened); len(errs) != 0 {
		t.Errorf("replacing literal matrix element `b` by an expression of unknown type introduced diagnostics: %v", errs)
	}
}
