package actionlint

import (
	"io"
	"strings"
	"testing"
)

// Property C06: a value whose type actionlint cannot know is never itself the reason for a type
// error; replacing a literal definition by an expression of unknown type never introduces a
// diagnostic.

func huntC06N2Lint(t *testing.T, src string) []string {
	t.Helper()
	l, err := NewLinter(io.Discard, &LinterOptions{})
	if err != nil {
		t.Fatal(err)
	}
	errs, err := l.Lint("<stdin>", []byte(src), nil)
	if err != nil {
		t.Fatal(err)
	}
	msgs := []string{}
	for _, e := range errs {
		msgs = append(msgs, e.Error())
	}
	return msgs
}

// A matrix row element is a single ${{ }} expression whose type is unknown (any). The expression
// contains the characters "${{" inside a string literal.
func TestHuntC06N2MatrixRowValueUnknownType(t *testing.T) {
	const tmpl = `on: push
jobs:
  test:
    strategy:
      matrix:
        a: [VALUE]
    runs-on: ubuntu-latest
    steps:
      - run: echo ${{ matrix.a.p }}
`
	// Precise definitions are accepted
	for _, v := range []string{
		`{p: 1}`,
		`"${{ fromJSON('{\"p\":1}') }}"`,
		`"${{ fromJSON(github.event.x) || 'x' }}"`, // unknown type, no "${{" in the string literal
	} {
		if errs := huntC06N2Lint(t, strings.Replace(tmpl, "VALUE", v, 1)); len(errs) != 0 {
			t.Fatalf("precondition: matrix value %s must be accepted but got %v", v, errs)
		}
	}

	v := `"${{ fromJSON(github.event.x) || '${{' }}"`
	if errs := huntC06N2Lint(t, strings.Replace(tmpl, "VALUE", v, 1)); len(errs) != 0 {
		t.Errorf("matrix value %s has unknown type (any) but it caused diagnostics: %v", v, errs)
	}
}

// Same in an element of include: section, consumed where a number is expected.
func TestHuntC06N2MatrixIncludeValueUnknownType(t *testing.T) {
	const tmpl = `on: push
jobs:
  test:
    strategy:
      matrix:
        a: [1]
        include:
          - a: 2
            t: VALUE
    runs-on: ubuntu-latest
    timeout-minutes: ${{ matrix.t }}
    steps:
      - run: echo
`
	for _, v := range []string{
		`3`,
		`"${{ github.event.x || format('{0}', 1) }}"`,
	} {
		if errs := huntC06N2Lint(t, strings.Replace(tmpl, "VALUE", v, 1)); len(errs) != 0 {
			t.Fatalf("precondition: include value %s must be accepted but got %v", v, errs)
		}
	}

	v := `"${{ github.event.x || format('${{{0}', 1) }}"`
	if errs := huntC06N2Lint(t, strings.Replace(tmpl, "VALUE", v, 1)); len(errs) != 0 {
		t.Errorf("include value %s has unknown type (any) but it caused diagnostics: %v", v, errs)
	}
}
