package actionlint

import (
	"io"
	"strings"
	"testing"
)

// Property C06: when a closed object is replaced by an open one (here: one key of the matrix is not
// statically known because it is computed by an expression), every expression accepted before is
// still accepted. A value actionlint cannot know is never itself the reason for a type error.

func huntC06N3Lint(t *testing.T, src string) []string {
	t.Helper()
	l, err := NewLinter(io.Discard, &LinterOptions{})
	if err != nil {
		t.Fatal(err)
	}
	errs, err := l.Lint("<stdin>", []byte(src), nil)
	if err != nil {
		t.Fatal(err)
	}
	msgs := []string{}
	for _, e := range errs {
		msgs = append(msgs, e.Error())
	}
	return msgs
}

func huntC06N3Pair(t *testing.T, tmpl string) {
	t.Helper()
	precise := strings.Replace(tmpl, "KEY", "foo", 1)
	if errs := huntC06N3Lint(t, precise); len(errs) != 0 {
		t.Fatalf("precondition: workflow with the literal key must be accepted but got %v", errs)
	}
	loosened := strings.Replace(tmpl, "KEY", "${{ github.event.key }}", 1)
	if errs := huntC06N3Lint(t, loosened); len(errs) != 0 {
		t.Errorf("replacing the literal key `foo` by a key of unknown name introduced diagnostics: %v", errs)
	}
}

// The name of a matrix row is computed by an expression, so the set of properties of `matrix` is
// not statically known.
func TestHuntC06N3MatrixRowKeyUnknown(t *testing.T) {
	huntC06N3Pair(t, `on: push
jobs:
  test:
    strategy:
      matrix:
        KEY: [1, 2]
        b: [x]
    runs-on: ubuntu-latest
    steps:
      - run: echo ${{ matrix.foo }} ${{ matrix.b }}
`)
}

// The same for a key in an element of include: section.
func TestHuntC06N3MatrixIncludeKeyUnknown(t *testing.T) {
	huntC06N3Pair(t, `on: push
jobs:
  test:
    strategy:
      matrix:
        b: [x]
        include:
          - KEY: 1
    runs-on: ubuntu-latest
    steps:
      - run: echo ${{ matrix.foo }} ${{ matrix.b }}
`)
}

// The same for a key of an object which is a matrix row value.
func TestHuntC06N3MatrixValueObjectKeyUnknown(t *testing.T) {
	huntC06N3Pair(t, `on: push
jobs:
  test:
    strategy:
      matrix:
        b:
          - KEY: 1
    runs-on: ubuntu-latest
    steps:
      - run: echo ${{ matrix.b.foo }}
`)
}
